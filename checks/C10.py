"""C10 — meaningless requests stop the program with a diagnostic; valid ones never do."""
import math, os
from fractions import Fraction as Fr
from vcheck import Case, hx, flist, ilist, tokf
import vbuild, vcheck

PID = "C10"
RULE = ("one request per case, per guarded entry point; non-trivial = an argument exactly on or adjacent to a guard boundary: index in "
        "{size-1, size, size+1, UINT_MAX}, shapes equal / transposed / off by one, table length 0..3, x within 4 ulp of an interpolation-domain "
        "end or of the 1 % tolerance point, p within 1 ulp of 0 or 1, digits 7/8, n 170/171, parameter 0 or +-denorm_min, a root bracket with a "
        "zero or equal-sign end value, a method name that is not a documented one but is taken for one by a comparison weaker than string equality (every proper prefix, extensions by a character / blank / NUL, case, one character changed to a neighbour or with its high bit set, deletions, doublings, transpositions, anagrams, same length / first / last character, other separators, and names with the same 32-bit djb2 / djb2a / sdbm / 31- / 131-multiplier / FNV-1 / FNV-1a hash value or the same value of h*B+c for B = 2, 31, 33, 37 in integer arithmetic), on every entry point that takes a method name; for requests that are not the first one on an object "
        "(Matrix/Vector after Resize/Assign/Delete_/copy/assignment/sum/product/transposition, Interpolation after k other requests, Factorial after other "
        "Factorial/Binomial_Coefficient requests) and for constructors with unit arguments: the request at the boundary of the NEW state (index = new size-1, size; "
        "operand of the new and of the old shape; x within 3 ulp or a geometric ladder 1e-16..1e-4 of the converted domain ends and tolerance points); for tables of 2 .. 1000+ points "
        "whose object has served ascending / repeated / far-jump / descending requests that leave its search state 0..17 intervals from either end: the request inside the 1 % band "
        "beyond that end (at 1e-13 .. 0.99 of the band and at 1 ulp) and just beyond it; tables with a repeated or misplaced +-inf abscissa; Save_Function with a last interval of "
        "1 .. 2^30 ulp; two-argument requests (Integrate, Local_Minimum/Maximum, integration limits, root brackets) whose arguments coincide or differ by 1 ulp / 1e-16 .. 1e-6, at every kind of place "
        "(inside, ends, tolerance band, tolerance point +-1 ulp, beyond, infinite, NaN); a guarded request made by the call-back of Integrate / Integrate_2D / Integrate_3D / Find_Root on its 1st..3rd evaluation, "
        "for every method and every ascending / descending / coinciding pattern of the limits; a request on either side of a guard that follows other requests in the same process (returned ones of every entry point, "
        "calls abandoned by an exception from the call-back, integrations with descending limits, Monte Carlo integrations); distinct by case text")
LEVEL_TEXT = ("Theorems (Coq, all argument values, sizes and table lengths): for every guarded entry point the guard model returns Exit exactly when "
              "the request is outside the stated domain (index < size; shapes conformable; square; 3-vectors; strictly increasing table of >= 2 points with equal "
              "list lengths and rows of the right size; x not at or beyond d0 - 0.01 (x1-x0) / d1 + 0.01 (x_{N-1}-x_{N-2}) (over R, strict <); sign change or zero end value, "
              "NaN rejected; known method name; p in [0,1]; mean >= 0; parameter > 0; n <= 170; digits <= 7; equal list lengths; ...) and an accepted request performs "
              "no out-of-bounds access in the index arithmetic that follows (Locate's result is <= N-2; the block constructor's offsets stay inside the result; "
              "Sub_List's iterators; Integrate's / Local_Minimum's knot scans; KDE pseudo-data indices 3i < N; inner operator[] guards never fire). "
              "Requests that are not the first one on an object: every history of Resize / Assign / Delete_Row / Delete_Column / copy / assignment / += / M = M + B / M = M * B / "
              "M = M.Transpose() keeps the representation invariant 'components holds Rows() rows of Columns() entries' that the shape guards rely on, each step exits exactly outside "
              "its domain and reads nothing out of bounds, and afterwards every guard is the stateless one on (Rows(), Columns()) (same for Vector, with the object as the left or as the right operand of Dot / + - += -= * / Angle / Cross: C10_vector_binary_either_side_after_history; every Vector history of any length refines the mathematical size and ends the process exactly at a non-conformable +=, after which the object is a fresh Vector of that size: C10_vector_history_refines_size, C10_vector_session_refines_size, no hypothesis on the sizes; "
              "Angle(v1, v2), which has no shape test of its own, and double operator*(Vector) exit exactly for differing sizes in either order incl. empty operands (C10_angle, C10_vector_product_operator); operator== of vectors and Outer_Vector_Product return for every pair of sizes without out-of-bounds access (C10_vector_equality_returns, C10_outer_product_returns)); a sequence of Factorial / "
              "Binomial_Coefficient requests returns iff each one is meaningful, for every content of the memo table; a sequence of requests on one Interpolation object (Save_Function's sweep over Linear_Space(domain) included) exits iff one of them does, "
              "and every index its Locate requests return lies in 0..N-2 for every table length and unit argument; Save_Function returns for every number of points in exact arithmetic (over R). "
              "Every kind of request on an Interpolation object exits iff it is refused by Locate's domain test alone (C10_interpolation_request_outcome: Locate / Interpolate / Derivative(x, n) of every order n iff Locate(x) exits - C10_derivative_every_order: the order plays no role -, Integrate iff one end is refused, Local_Minimum/Maximum iff the ends are out of order or one is refused, Global_* never), a sequence exits iff one request is refused (C10_interpolation_sequence_refused_iff); Interpolation_2D::Interpolate(x, y) exits iff x or y is refused by the Locate of its axis and a sequence of such requests iff one point is (C10_interpolate_2d_outcome, C10_interpolation_2d_request_sequence). Method names: a name is accepted iff it is one of the documented strings character by character, Integrate_2D/_3D accept exactly the union (C10_method_names_spelled_out). Interpolation_2D(data_table) in full (C10_interpolation_2d_table_constructor, every strictly ordered number type): accepted iff every row holds three numbers, the table has |x| * |y| rows, row ix*|y|+iy holds (x[ix], y[iy], .) for the sorted distinct first entries x and second entries y, and both are strictly increasing with >= 2 entries, otherwise Exit, nothing out of range; and stated without the constructor's sorting: the full grid X x Y of two strictly increasing lists, written row by row, is accepted (C10_interpolation_2d_table_grid_accepted; the sorted distinct columns of such a table are proved to be X and Y by induction). "
              "The whole life of an object (C10_interpolation_lifetime, C10_interpolation_2d_lifetime, every strictly ordered number type): construction with unit arguments followed by any sequence of requests ends the process iff the sizes are wrong, the CONVERTED table is not strictly increasing (1-D and 2-D alike: the constructors validate the abscissae they store) or one request is refused on the converted table, and otherwise returns with `domain` = first and last converted abscissa. "
              "Coinciding arguments: Integrate(x, x) and Local_Minimum/Maximum(x, x) are refused exactly when Interpolate(x) is. Requests made while another one runs or after others in the process: "
              "Integrate / Integrate_2D / Integrate_3D around a call-back end the process iff the method is unknown or the call-back is reached (no pair of limits coincides for the nested methods; always for the Monte Carlo methods) and its request ends it, "
              "descending limits are judged like ascending ones, an exception of the call-back reaches the caller, Find_Root evaluates its function before it tests the bracket (over R resp. every number type); "
              "a sequence of requests in one process goes on iff each returns, and a request after returned ones has its own outcome (this is a statement about the model's composition: that the real process carries no state from one request "
              "to the diagnostic of the next - stream state, statics - is observed by the run, which truncates the captured output before every request of a sequence and runs every sequence in a process of its own). "
              "Unit arguments: Interpolation(x, f, x_dim, f_dim) / Interpolation(table, x_dim, f_dim) test the sizes on the lists as given and `strictly increasing` on the converted abscissae - accepted iff sizes agree, >= 2 points and the converted table is strictly increasing (C10_interpolation_units_constructor, every strictly ordered number type, so a conversion that rounds two neighbours onto one double is refused); a unit that is not > 0 is the plain constructor and in exact arithmetic a unit never changes the verdict (C10_interpolation_units_default_and_exact); x_dim <= 0 leaves the table as it is, with x_dim > 0 the converted table is strictly increasing again, `domain` is its "
              "first and last abscissa and the 1 % rule is the one of the converted table (over R). "
              "Index/shape theorems are over Z and hold for the unsigned 32-bit arithmetic of the code (wrap-around explicit); order-only theorems are over an abstract "
              "number type with OrdLaws (valid for doubles without NaN, rounding included); the 1 % tolerance, p in [0,1] and the sign-of-product test are over R. "
              "NOT theorems: that the process really exits with a non-empty diagnostic and a failure status and that the real code performs no out-of-bounds access - this is the "
              "correspondence run: every generated request is executed in a child process of the real library, once in the plain build and once under "
              "AddressSanitizer + UBSan + libstdc++ assertions, and (returned / exited with diagnostic / crashed / sanitizer report) is compared with the model's Ok/Exit/OOB "
              "and with an independent statement of each domain (S4); for request sequences on one Interpolation object the indices returned by Locate are compared with the model and "
              "with the interval that contains the argument, and every answer with the answer of an untouched copy of the object. The search state of Locate IS in the model since the seventh pass (C10_Model2.v: jLast, correlated_calls, Hunt() line by line with its int / unsigned conversions; `locate_trace` cases compare the returned index, jLast and correlated_calls after every request with the library, whose private members the harness reads): in every admissible state (0 <= jLast <= N-2; the constructors' state is one) Hunt / Locate read only x_values[0..N-1], end within their fuel, exit exactly when the stateless Locate does and leave jLast = the returned interval index, for every number type incl. NaN entries and every sequence length (C10_hunt_stays_in_table, C10_locate_with_search_state, C10_locate_sequence_with_search_state, N < 2^31); over every strictly ordered number type and strictly increasing table the search state never changes an answer: Locate in any admissible state returns the index of the stateless Locate (C10_search_state_never_changes_an_answer, C10_locate_sequence_same_indices - no longer quoted from C09). Not covered by theorems: Ridder's inner 'does not reach the root' exit (C02), the 'Matrix is singular' "
              "exit inside Gauss-Jordan (C05; cannot fire in exact arithmetic when det != 0), Inv_Erf's nested bracket for |p|<1 (holds in doubles because erf(+-10) = +-1), "
              "which of the documented integrators a documented name is dispatched to (only acceptance / refusal of the name is modelled), NaN parameters (pass every '<' guard; only Find_Root and Locate test for NaN).")
LEVEL_NOTE = ("Coq 8.16.1 kernel; guard model hand-written from the current sources, containers abstracted to their sizes where their contents do not matter; "
              "theorems over Z/nat and the abstract order are axiom-free, theorems over R use the standard library's real-number axioms; Locate is modelled twice: stateless (bisection branch, C10_Model.v - the guard theorems refer to it) and with its search state and Hunt() (C10_Model2.v); C10_search_state_never_changes_an_answer proves that both return the same index "
              "(the run also checks it on every request sequence against an untouched copy of the object); Linear_Space is modelled inside Save_Function; std::sort/unique/is_sorted/upper_bound modelled by their specifications; process exit status, diagnostics and "
              "sanitizer reports are observed, not proved; for `nested` cases the model assumes that every quadrature method evaluates its integrand at least three times on a non-empty interval (boost / the library's own rules do) and Find_Root twice")
TOL = (0.0, 0.0)
TRUSTED = ["fork/exit-status/diagnostic capture of harness/common.hpp; AddressSanitizer, UBSan and _GLIBCXX_ASSERTIONS as detectors of out-of-bounds accesses",
           "std::is_sorted / std::upper_bound / std::sort / std::unique are modelled by their specifications"]
ASSUMPTIONS = ["Matrix::Resize / Assign with a negative int size (std::length_error from std::vector::resize) and unit arguments that over- or underflow the table into "
               "one with a NaN abscissa are outside the quantifier (the former is not generated; the latter is compared with the model, without an S4 claim); a unit argument that rounds two neighbouring abscissae onto one double or carries "
               "the last ones to infinity makes the stored table not strictly increasing: the constructor must refuse it (S4 claim, generated in both tiers)",
               "NaN parameters are outside the quantifier (only Find_Root's end values and Locate's argument are tested for NaN); Inv_Erf(1.0) returns 10 by design",
               "tables with a NaN abscissa are generated and compared with the model, without an S4 claim; a strictly increasing table with an infinite first or last abscissa is accepted (requests on it have no S4 claim)",
               "sizes, counts and indices are below 2^31 except the index arguments themselves (which range over all of unsigned int)"]
SAN = ["-fsanitize=address,undefined", "-fno-sanitize-recover=all", "-fno-omit-frame-pointer", "-D_GLIBCXX_ASSERTIONS"]
HARNESS_ENV = {"ASAN_OPTIONS": "exitcode=99:detect_leaks=0:abort_on_error=0", "UBSAN_OPTIONS": "halt_on_error=1:exitcode=98:print_stacktrace=0"}
UMAX = 4294967295
DMIN = 5e-324
M1D = ["Trapezoidal", "Gauss-Legendre", "Gauss-Kronrod", "Tanh-Sinh", "Gauss-Legendre_2", "Adaptive-Simpson"]
MMC = ["Monte-Carlo", "Vegas", "Miser"]
na = math.nextafter


# ------------------------------------------------------------------ helpers shared by generator and predicates
def fx_eval(tok, pos, x):
    """evaluates the prefix function expression starting at tok[pos]; returns (value, next position)"""
    t = tok[pos]
    if t == "x": return x, pos + 1
    if t == "c": return tokf(tok[pos + 1]), pos + 2
    if t in "+-*/" and len(t) == 1:
        a, p = fx_eval(tok, pos + 1, x); b, p = fx_eval(tok, p, x)
        try: return {"+": a + b, "-": a - b, "*": a * b, "/": a / b if b != 0 else math.nan}[t], p
        except OverflowError: return math.nan, p
    if t == "pow":
        a, p = fx_eval(tok, pos + 1, x); e = tokf(tok[p])
        try: return math.pow(a, e), p + 1
        except (OverflowError, ValueError): return math.nan, p + 1
    if t in ("neg", "exp", "sin", "cos", "atan", "erf", "tanh", "abs", "sqrt", "log"):
        a, p = fx_eval(tok, pos + 1, x)
        try:
            f = {"neg": lambda v: -v, "exp": math.exp, "sin": math.sin, "cos": math.cos, "atan": math.atan, "erf": math.erf, "tanh": math.tanh, "abs": abs,
                 "sqrt": lambda v: math.sqrt(v) if v >= 0 else math.nan, "log": lambda v: math.log(v) if v > 0 else math.nan}[t]
            return f(a), p
        except (OverflowError, ValueError): return math.nan, p
    raise ValueError("fexpr " + t)


def rd_list(tok, pos, conv):
    n = int(tok[pos]); return [conv(t) for t in tok[pos + 1:pos + 1 + n]], pos + 1 + n


def rd_table(tok, pos):
    n = int(tok[pos]); pos += 1; rows = []
    for _ in range(n):
        row, pos = rd_list(tok, pos, tokf); rows.append(row)
    return rows, pos


def valid_table(xs):
    """None when a NaN makes the question meaningless for this property"""
    if any(math.isnan(x) for x in xs): return None
    return len(xs) >= 2 and all(a < b for a, b in zip(xs, xs[1:]))


def in_domain(xs, x):
    """True: inside the domain or outside by less than 1 % of the edge interval; False: at or beyond 1 %; None: no claim
    (NaN, or so close to the tolerance point that the rounding of the code's own evaluation decides)."""
    if math.isnan(x): return False      # Locate exits on a NaN argument
    d0, d1 = xs[0], xs[-1]
    if d0 <= x <= d1: return True
    if math.isinf(x): return False
    if any(math.isinf(v) for v in (xs[0], xs[1], xs[-2], xs[-1])): return None      # no 1 % of an infinite edge interval
    if x < d0: e, h, ha, hb = d0, Fr(xs[1]) - Fr(xs[0]), xs[1], xs[0]
    else: e, h, ha, hb = d1, Fr(xs[-1]) - Fr(xs[-2]), xs[-1], xs[-2]
    dist = abs(Fr(x) - Fr(e)); tol = h / 100
    exact = dist < tol
    # the code's evaluation: fabs(x - e) < 1e-2 * (ha - hb), each operation rounded once
    coded = abs(x - e) < 1e-2 * (ha - hb)
    # a priori: <= 4 roundings, each of relative size 2^-53 on these operands or (in the subnormal range) of absolute size 2^-1075
    slack = Fr(8, 2 ** 53) * max(abs(Fr(x)), abs(Fr(e)), abs(Fr(ha)), abs(Fr(hb))) + Fr(4, 2 ** 1074)
    if exact != coded and abs(dist - tol) <= slack: return None
    return exact


def det_exact(m):
    n = len(m)
    if n == 0: return Fr(1)
    if n == 1: return Fr(m[0][0])
    return sum(((-1) ** j) * Fr(m[0][j]) * det_exact([row[:j] + row[j + 1:] for row in m[1:]]) for j in range(n))


# ------------------------------------------------------------------ several requests on one object: independent bookkeeping
def scaled_table(xs, dim):
    """the abscissae after `if(dim > 0) x *= dim`; None when the conversion over/underflows into a table that is no table any more
    (a question outside this property)"""
    if math.isnan(dim): return None
    sx = [x * dim for x in xs] if dim > 0 else list(xs)
    if any(math.isinf(v) or math.isnan(v) for v in sx) or not valid_table(sx): return None
    return sx


def worst(vs):
    """all requests of a sequence: one meaningless request ends the process; otherwise an undecidable one leaves no claim"""
    if False in vs: return False
    return None if None in vs else True


def icall_verdicts(t, pos, n, sx):
    vs = []
    for _ in range(n):
        w = t[pos]; pos += 1
        if w in ("loc", "ev"): vs.append(in_domain(sx, tokf(t[pos]))); pos += 1
        elif w == "der": vs.append(in_domain(sx, tokf(t[pos]))); pos += 2
        elif w == "int": vs.append(worst([in_domain(sx, tokf(t[pos])), in_domain(sx, tokf(t[pos + 1]))])); pos += 2
        elif w in ("min", "max"):
            a, b = tokf(t[pos]), tokf(t[pos + 1]); pos += 2
            if math.isnan(a) or math.isnan(b) or b < a: vs.append(False)
            else: vs.append(worst([in_domain(sx, a), in_domain(sx, b)]))
        elif w == "glob": vs.append(True)
        elif w == "save": vs.append(True); pos += 1         # Save_Function samples the object's own domain: meaningful for every number of points
        else: raise ValueError("interpolation request " + w)
    return vs


def linear_space(a, b, n):
    """the sampling points of Save_Function (Linear_Space(domain[0], domain[1], points), evaluated in doubles as the library does)"""
    if n < 2 or a == b: return [a]
    step = (b - a) / (n - 1.0)
    return [a + i * step for i in range(n)]


def converted(xs, dim):
    """the abscissae the object stores: `if(x_dim > 0.0) x *= x_dim` (a NaN unit is not > 0)"""
    return [x * dim for x in xs] if dim > 0 else list(xs)


def icalls_ref(t):
    """(verdict, expected domain or None) of `icalls` / `icalls_t`: the sizes are judged on the lists as given, "strictly increasing" on the
    converted abscissae (two neighbours that the conversion rounds onto one double, or carries to infinity together, make the table meaningless)"""
    if t[0] == "icalls":
        xs, pos = rd_list(t, 1, tokf); nf = int(t[pos]); pos += 1
        sizes = len(xs) == nf
    else:
        rows, pos = rd_table(t, 1)
        sizes = all(len(r) == 2 for r in rows); xs = [r[0] for r in rows] if sizes else []
    xd = tokf(t[pos]); pos += 2
    if not sizes or len(xs) < 2: return False, None
    ctor = valid_table(converted(xs, xd))
    if ctor is not True: return ctor, None
    sx = scaled_table(xs, xd)
    if sx is None: return None, None       # a valid converted table with an infinite end: accepted, no claim about the requests on it
    n = int(t[pos]); pos += 1
    return worst(icall_verdicts(t, pos, n, sx)), (sx[0], sx[-1])


def icalls_locs_ref(t):
    """(converted table, arguments of the Locate requests in order) of a meaningful `icalls` / `icalls_t`"""
    if t[0] == "icalls":
        xs, pos = rd_list(t, 1, tokf); pos += 1
    else:
        rows, pos = rd_table(t, 1); xs = [r[0] for r in rows]
    sx = scaled_table(xs, tokf(t[pos])); pos += 2
    n = int(t[pos]); pos += 1; args = []
    for _ in range(n):
        w = t[pos]; pos += 1
        if w == "loc": args.append(tokf(t[pos]))
        pos += {"loc": 1, "ev": 1, "der": 2, "int": 2, "min": 2, "max": 2, "glob": 0, "save": 1}[w]
    return sx, args


def save_overshoot(t):
    """region of known finding K-C10-2: the sequence contains a Save_Function request one of whose sampling points, as rounded, lies above
    domain[1] by 1 % of the last interval or more (or undecidably close to that)"""
    sx, _ = icalls_locs_ref(t)
    if sx is None: return False
    for k, w in enumerate(t):
        if w == "save" and k + 1 < len(t) and t[k + 1].isdigit() and 2 <= int(t[k + 1]) <= 100000:
            tail = linear_space(sx[0], sx[-1], int(t[k + 1]))[-3:]
            if any(p > sx[-1] and in_domain(sx, p) is not True for p in tail): return True
    return False


def interval_ok(sx, x, j):
    """is j the index of an interval of the table from which a request at x may be answered?  An interval [sx[j], sx[j+1]] that
    contains x; the first / last interval for x in the tolerance band below / above the table."""
    if not (0 <= j <= len(sx) - 2): return False
    if x < sx[0]: return j == 0
    if x > sx[-1]: return j == len(sx) - 2
    return sx[j] <= x <= sx[j + 1]


def i2calls_ref(t):
    if t[0] == "i2calls":
        xs, pos = rd_list(t, 1, tokf); ys, pos = rd_list(t, pos, tokf); lens, pos = rd_list(t, pos, int)
        if len(lens) != len(xs) or any(l != len(ys) for l in lens): return False, None
    else:
        rows, pos = rd_table(t, 1)
        if any(len(r) != 3 for r in rows): return False, None
        if any(math.isnan(v) for r in rows for v in r): return None, None
        xs = sorted(set(r[0] for r in rows)); ys = sorted(set(r[1] for r in rows))
        if [(r[0], r[1]) for r in rows] != [(x, y) for x in xs for y in ys]: return False, None
    vx, vy = valid_table(xs), valid_table(ys)
    if vx is False or vy is False: return False, None
    if vx is None or vy is None: return None, None
    xd, yd = tokf(t[pos]), tokf(t[pos + 1]); pos += 3
    sx, sy = scaled_table(xs, xd), scaled_table(ys, yd)
    if sx is None or sy is None: return None, None
    n = int(t[pos]); pos += 1; vs = []
    for k in range(n): vs.append(worst([in_domain(sx, tokf(t[pos + 2 * k])), in_domain(sy, tokf(t[pos + 2 * k + 1]))]))
    return worst(vs), (sx[0], sx[-1], sy[0], sy[-1])


def fact_seq_ref(t):
    n = int(t[1]); pos = 2; vs = []
    for _ in range(n):
        if t[pos] == "f": vs.append(0 <= int(t[pos + 1]) <= 170); pos += 2
        else: vs.append(int(t[pos + 1]) >= 0 and int(t[pos + 2]) >= 0); pos += 3
    return all(vs)


# binary requests with the history object as the left operand, and (r...) as the RIGHT operand
VEC_BINARY_PROBES = ("dot", "add", "sub", "addeq", "subeq", "mul", "angle", "rdot", "radd", "rsub", "raddeq", "rsubeq", "rmul", "rangle")


def vec_ref(t):
    """(verdict, Size() after the history)"""
    d, n = int(t[1]), int(t[2]); pos = 3
    for _ in range(n):
        w = t[pos]; pos += 1
        if w in ("resize", "assign", "set"):
            d = int(t[pos]); pos += 1
            if d < 0: return None, None
        elif w == "addeq":
            if int(t[pos]) != d: return False, None
            pos += 1
        elif w != "copy": raise ValueError("vector operation " + w)
    w = t[pos]; a = int(t[pos + 1]) if w != "none" else 0
    if w == "at": return 0 <= a < d, d
    if w in VEC_BINARY_PROBES: return a == d, d
    if w in ("cross", "rcross"): return a == 3 and d == 3, d
    if w in ("eq", "req"): return True, d        # operator== answers false for differing sizes
    if w != "none": raise ValueError("vector request " + w)
    return True, d


def mat_apply(shape, w, a, b):
    """mathematical shape after one member function; False when the request has no meaning; None: no claim"""
    r, c = shape
    if w in ("resize", "assign", "set"): return None if (a < 0 or b < 0) else (a, b)
    if w == "delrow": return (r - 1, c) if 0 <= a < r else False
    if w == "delcol": return (r, c - 1) if 0 <= a < c else False
    if w == "copy": return (r, c)
    if w in ("pluseq", "sum"): return (r, c) if (a, b) == (r, c) else False
    if w == "prod": return (r, b) if a == c else False
    if w == "transp": return (c, r)
    raise ValueError("matrix operation " + w)


MAT_OP_ARGS = {"resize": 2, "assign": 2, "set": 2, "delrow": 1, "delcol": 1, "copy": 0, "pluseq": 2, "sum": 2, "prod": 2, "transp": 0}
MAT_PROBE_ARGS = {"none": 0, "at": 1, "row": 1, "col": 1, "plus": 2, "minus": 2, "pluseq": 2, "mul": 2, "lmul": 2, "matvec": 1, "vecmat": 1, "trace": 0, "det": 0, "transpose": 0, "sub": 2, "eq": 0}


def mat_probe_ok(shape, w, a, b):
    r, c = shape
    if w in ("none", "transpose", "eq"): return True
    if w in ("at", "row"): return 0 <= a < r
    if w == "col": return 0 <= a < c
    if w in ("plus", "minus", "pluseq"): return (a, b) == (r, c)
    if w == "mul": return a == c
    if w == "lmul": return b == r
    if w == "matvec": return a == c
    if w == "vecmat": return a == r
    if w in ("trace", "det"): return r == c
    if w == "sub": return 0 <= a < r and 0 <= b < c
    raise ValueError("matrix request " + w)


def mat_ref(t):
    """(verdict, (Rows, Columns) after the history, zero_row_result): zero_row_result = the history contains a sum or a transposition whose
    result has no rows but columns (region of known finding K-C10-1; the process may have ended at any request after that one)"""
    shape = (int(t[1]), int(t[2])); n = int(t[3]); pos = 4; zr = False
    for _ in range(n):
        w = t[pos]; k = MAT_OP_ARGS[w]; a = int(t[pos + 1]) if k >= 1 else 0; b = int(t[pos + 2]) if k >= 2 else 0; pos += 1 + k
        nxt = mat_apply(shape, w, a, b)
        if nxt is None or nxt is False: return nxt, None, zr
        if w in ("sum", "transp") and nxt[0] == 0 and nxt[1] > 0: zr = True
        shape = nxt
    w = t[pos]; k = MAT_PROBE_ARGS[w]; a = int(t[pos + 1]) if k >= 1 else 0; b = int(t[pos + 2]) if k >= 2 else 0
    return mat_probe_ok(shape, w, a, b), shape, zr


def miser_zero_width(t):
    """region of known finding K-C10-3: Integrate_2D / Integrate_3D with method "Miser" over a region one of whose dimensions has coinciding limits
    (anywhere in the case: the request itself, a sub-case of a sequence)"""
    for i, w in enumerate(t):
        if w in ("int2", "int3") and i + 1 < len(t) and mdec(t[i + 1]) == "Miser":
            d = 4 if w == "int2" else 6; lim = [tokf(x) for x in t[i + 2:i + 2 + d]]
            if len(lim) == d and None not in lim and any(lim[2 * k] == lim[2 * k + 1] for k in range(d // 2)): return True
    return False


def session_subs(t):
    """the sub-cases (token lists) of `session n c1 ;; c2 ;; ...`"""
    subs, cur = [], []
    for w in t[2:]:
        if w == ";;": subs.append(cur); cur = []
        else: cur.append(w)
    subs.append(cur)
    if len(subs) != int(t[1]) or any(not s_ for s_ in subs): raise ValueError("session")
    return subs


def fexpr_len(t, pos):
    """number of tokens of the prefix expression that starts at t[pos]"""
    w = t[pos]
    if w == "x": return 1
    if w == "c": return 2
    if w in ("+", "-", "*", "/"):
        a = fexpr_len(t, pos + 1); return 1 + a + fexpr_len(t, pos + 1 + a)
    if w == "pow": return 2 + fexpr_len(t, pos + 1)
    return 1 + fexpr_len(t, pos + 1)


def nested_ref(t):
    """`nested <entry> k <sub-case>`: the library call `entry` whose call-back makes the request of the sub-case on its k-th evaluation
    (k is at most the number of evaluations every method makes on a non-empty interval).  The request is reached unless the entry point refuses
    its own arguments first or returns without evaluating the call-back (coinciding limits of a nested quadrature)."""
    e = t[1]
    if e == "root":
        n = fexpr_len(t, 2); pos = 2 + n + 2; sub = t[pos + 1:]
        inner = True if sub == ["throw"] else meaningful(" ".join(sub))
        if inner is not True or sub == ["throw"]: return inner
        return meaningful("find_root " + " ".join(t[2:pos]))
    d = {"int1": 2, "int2": 4, "int3": 6}[e]; m = mdec(t[2]); lim = [tokf(x) for x in t[3:3 + d]]; sub = t[3 + d + 1:]
    if any(math.isnan(v) or math.isinf(v) for v in lim): return None
    inner = True if sub == ["throw"] else meaningful(" ".join(sub))
    if m in M1D: return True if any(lim[2 * k] == lim[2 * k + 1] for k in range(d // 2)) else inner
    if m in MMC and e != "int1": return inner
    return False


def meaningful(line):
    """Independent statement of every entry point's domain.  True: must return (OK); False: must exit with a diagnostic; None: no claim."""
    t = line.split(); op = t[0]; I = lambda k: int(t[k])
    if op == "session": return worst([meaningful(" ".join(s_)) for s_ in session_subs(t)])
    if op == "nested": return nested_ref(t)
    if op == "throw": return True
    if op in ("icalls", "icalls_t"): return icalls_ref(t)[0]
    if op in ("i2calls", "i2calls_t"): return i2calls_ref(t)[0]
    if op == "fact_seq": return fact_seq_ref(t)
    if op == "vec_hist": return vec_ref(t)[0]
    if op == "mat_hist": return mat_ref(t)[0]
    if op in ("vec_at", "vec_at_c"): return 0 <= I(2) < I(1)
    if op in ("dot", "vec_add", "vec_sub", "vec_addeq", "vec_subeq", "vec_mul", "angle"): return I(1) == I(2)
    if op in ("vec_eq", "outer"): return True       # operator== is false for differing sizes; the outer product exists for every pair of sizes
    if op == "cross": return I(1) == 3 and I(2) == 3
    if op in ("mat_at", "mat_at_c", "delete_row", "return_row"): return 0 <= I(3) < I(1)
    if op in ("delete_col", "return_col"): return 0 <= I(3) < I(2)
    if op == "sub_matrix": return 0 <= I(3) < I(1) and 0 <= I(4) < I(2)
    if op in ("mat_ctor", "transpose_lists"):
        lens, _ = rd_list(t, 1, int); return len(set(lens)) <= 1
    if op in ("mat_plus", "mat_minus", "mat_pluseq", "mat_minuseq"): return (I(1), I(2)) == (I(3), I(4))
    if op == "mat_mul": return I(2) == I(3)
    if op == "mat_vec": return I(3) == I(2)
    if op == "vec_mat": return I(1) == I(2)
    if op in ("trace", "det"): return I(1) == I(2)
    if op == "transpose": return True
    if op == "inverse":
        r, c = I(1), I(2)
        if r != c: return False
        if r == 0: return None
        v = [tokf(x) for x in t[3:3 + r * c]]
        if any(x != int(x) or abs(x) > 64 for x in v): return None       # only integer matrices have an exactly computed determinant in the code
        return det_exact([[int(v[i * c + j]) for j in range(c)] for i in range(r)]) != 0
    if op == "rotation": return I(1) == 2 or (I(1) == 3 and I(2) == 3)
    if op == "block":
        n = I(1); pos = 2; rows = []
        for _ in range(n):
            m = int(t[pos]); pos += 1; rows.append([(int(t[pos + 2 * k]), int(t[pos + 2 * k + 1])) for k in range(m)]); pos += 2 * m
        if not rows or not rows[0] or any(len(r) != len(rows[0]) for r in rows): return False
        return all(len(set(b[0] for b in r)) == 1 for r in rows) and all(len(set(r[k][1] for r in rows)) == 1 for k in range(len(rows[0])))
    if op == "sub_list": return True
    if op == "import_list": return I(1) != 0
    if op == "import_table":
        e = I(1); per, pos = rd_list(t, 2, int); ign, nd = int(t[pos]), int(t[pos + 1])
        rest = per[ign:]
        return bool(e) and len(rest) > 0 and rest[0] > 0 and len(set(rest)) == 1 and nd in (0, rest[0])
    if op == "export_table":
        lens, pos = rd_list(t, 1, int); nd = int(t[pos]); return nd == 0 or all(l == nd for l in lens)
    if op == "in_units":
        lens, pos = rd_list(t, 1, int); nd = int(t[pos]); return all(l == nd for l in lens)
    if op == "workload": return I(1) >= 1
    if op == "minimize": return I(1) == I(2) if I(1) >= 1 else None
    if op == "kde": return True if I(1) >= 1 else None
    if op in ("integrate", "integrate_eq"): return mdec(t[1]) in M1D
    if op in ("integrate_2d", "integrate_3d"): return mdec(t[1]) in M1D + MMC
    if op == "integrate_mc": return mdec(t[1]) in MMC
    if op == "gauss_legendre":
        lens, _ = rd_list(t, 2, int); return I(1) == len(lens) and all(l == 2 for l in lens)
    if op == "metropolis": return I(1) in (0, 2)
    if op == "metropolis_2d": return I(1) in (0, 4)
    if op == "binned": return I(2) == I(1) and I(3) in (0, I(1))
    if op == "factorial": return I(1) <= 170
    if op in ("vsh_y", "vsh_psi"): return I(1) in (0, 1, 2)
    if op == "binomial_coefficient": return I(1) >= 0 and I(2) >= 0
    F = lambda k: tokf(t[k])
    nan = lambda *v: any(math.isnan(x) for x in v)
    if op == "gammaln": return None if nan(F(1)) else F(1) > 0
    if op == "gammaq": return None if nan(F(1), F(2)) else (F(1) >= 0 and F(2) > 0)
    if op == "inv_gammap": return None if nan(F(1), F(2)) else F(2) > 0
    if op == "round": return I(2) <= 7
    if op in ("pmf_binomial", "cdf_binomial"): return None if nan(F(2)) else 0.0 <= F(2) <= 1.0
    if op in ("pmf_poisson", "cdf_poisson"): return None if nan(F(1)) else F(1) >= 0
    if op == "inv_cdf_poisson": return None if nan(F(2)) else 0.0 <= F(2) <= 1.0
    if op in ("pdf_exponential", "cdf_exponential", "pdf_maxwell", "cdf_maxwell"): return None if nan(F(1)) else F(1) > 0
    if op == "find_root":
        _, p = fx_eval(t, 1, 0.0); a, b = tokf(t[p]), tokf(t[p + 1])
        fa, _ = fx_eval(t, 1, a); fb, _ = fx_eval(t, 1, b)
        if nan(fa, fb): return False
        if fa == 0 or fb == 0: return True
        return (fa < 0) != (fb < 0)
    if op == "inv_erf":
        p = F(1)
        if nan(p) or abs(p) == 1.0: return None      # +-1 return +-10 with a warning, by design
        return abs(p) < 1.0
    if op == "interp":
        xs, pos = rd_list(t, 1, tokf); nf = int(t[pos]); v = valid_table(xs)
        if len(xs) != nf: return False
        return v
    if op == "interp_table":
        rows, _ = rd_table(t, 1)
        if any(len(r) != 2 for r in rows): return False
        return valid_table([r[0] for r in rows])
    if op in ("locate", "interpolate", "interp_integrate", "local_min", "local_max"):
        xs, pos = rd_list(t, 1, tokf); v = valid_table(xs)
        if not v: return v
        args = [tokf(x) for x in t[pos:]]
        if op in ("local_min", "local_max"):
            if nan(*args): return False
            if args[1] < args[0]: return False
        ds = [in_domain(xs, a) for a in args]
        if False in ds: return False
        return None if None in ds else True
    if op == "interp2d":
        xs, pos = rd_list(t, 1, tokf); ys, pos = rd_list(t, pos, tokf); lens, _ = rd_list(t, pos, int)
        if len(lens) != len(xs) or any(l != len(ys) for l in lens): return False
        vx, vy = valid_table(xs), valid_table(ys)
        if vx is False or vy is False: return False
        return None if None in (vx, vy) else True
    if op == "interp2d_eval":
        xs, pos = rd_list(t, 1, tokf); ys, pos = rd_list(t, pos, tokf); x, y = tokf(t[pos]), tokf(t[pos + 1])
        if not (valid_table(xs) and valid_table(ys)): return None
        ds = [in_domain(xs, x), in_domain(ys, y)]
        if False in ds: return False
        return None if None in ds else True
    if op == "interp2d_table":
        rows, _ = rd_table(t, 1)
        if any(len(r) != 3 for r in rows): return False
        if any(math.isnan(v) for r in rows for v in r): return None
        X = sorted(set(r[0] for r in rows)); Y = sorted(set(r[1] for r in rows))
        return len(X) >= 2 and len(Y) >= 2 and [(r[0], r[1]) for r in rows] == [(x, y) for x in X for y in Y]
    if op == "locate_trace":
        xs, pos = rd_list(t, 1, tokf); v = valid_table(xs)
        if not v: return v
        args, _ = rd_list(t, pos, tokf)
        return worst([in_domain(xs, a) for a in args])
    if op == "closest":
        l, pos = rd_list(t, 1, tokf)
        if nan(*l): return None
        return len(l) >= 1 and all(a <= b for a, b in zip(l, l[1:]))
    return None


# ------------------------------------------------------------------ method names
def menc(name):
    """token of a method name (str of code points 0..255): the name itself when it can be a token of the case language, else `%` + its bytes in hexadecimal"""
    if name and not name.startswith("%") and all(0x21 <= ord(ch) <= 0x7e for ch in name): return name
    return "%" + name.encode("latin-1").hex()


def mdec(tok):
    if not tok.startswith("%"): return tok
    try: return bytes.fromhex(tok[1:]).decode("latin-1")
    except ValueError: return tok


M32 = 0xffffffff
def _hspec(kind, B, seed):
    Bi = pow(B, -1, 1 << 32)
    if kind == "add": return (seed, lambda h, c: (h * B + c) & M32, lambda h, c: ((h - c) * Bi) & M32)        # h = h * B + c
    if kind == "xor": return (seed, lambda h, c: ((h * B) & M32) ^ c, lambda h, c: ((h ^ c) * Bi) & M32)       # h = (h * B) ^ c
    return (seed, lambda h, c: ((h ^ c) * B) & M32, lambda h, c: ((h * Bi) & M32) ^ c)                          # h = (h ^ c) * B
# the string hashes of the "switch over strings" / hand-made look-up table idioms (32 bit): a dispatch that compares hash values instead of the
# names accepts every unknown name whose hash coincides with that of a documented one
HASHES = {"djb2": _hspec("add", 33, 5381), "djb2a": _hspec("xor", 33, 5381), "sdbm": _hspec("add", 65599, 0), "java31": _hspec("add", 31, 0), "bkdr131": _hspec("add", 131, 0),
          "fnv1": _hspec("xor", 16777619, 2166136261), "fnv1a": _hspec("xorfirst", 16777619, 2166136261)}
HASH_ALPHA = [ord(ch) for ch in "abcdefghijklmnopqrstuvwxyzABCDEFGHIJKLMNOPQRSTUVWXYZ"]
_fwd_cache = {}


def hash_of(hname, name):
    seed, f, _ = HASHES[hname]; h = seed
    for ch in name: h = f(h, ord(ch))
    return h


def _words(n):
    """all n-letter words over HASH_ALPHA as tuples of character codes, in a fixed order"""
    if n == 0: yield (); return
    for w in _words(n - 1):
        for c in HASH_ALPHA: yield w + (c,)


def second_preimage(hname, known):
    """an unknown name with the 32-bit hash value of `known`, by meeting in the middle (k letters forward from a start state, up to three letters backward from the
    target value).  Two shapes are tried: `known` with its last (up to) six characters replaced - for the multiplicative hashes with a small factor the values of
    names of another length lie in another range - and six free letters.  Deterministic; None when neither search space holds one."""
    seed, f, g = HASHES[hname]
    target = hash_of(hname, known)
    L = min(len(known), 6)
    for prefix, nf, nb in ((known[:-L], L - L // 2, L // 2), ("", 3, 3)):
        key = (hname, prefix, nf)
        if key not in _fwd_cache:
            h0 = seed
            for ch in prefix: h0 = f(h0, ord(ch))
            d = {}
            for w in _words(nf):
                h = h0
                for c in w: h = f(h, c)
                d[h] = w
            _fwd_cache.clear(); _fwd_cache[key] = d
        d = _fwd_cache[key]
        for w in _words(nb):
            h = target
            for c in w: h = g(h, c)          # w is the reversed suffix
            pre = d.get(h)
            if pre is not None:
                name = prefix + "".join(chr(v) for v in pre + w[::-1])
                if name not in M1D + MMC: return name
    return None


COLLISION_FILE = os.path.join(vbuild.VERIF, "corpus", PID, "method_names.dat")
def hash_collisions():
    """{(hash, documented name): unknown name with the same 32-bit hash value}.  Read from corpus/C10/method_names.dat (lines `hash known hex-of-name`, every line
    is re-verified here, so the file is a cache and not a premise) and completed by search for the pairs it lacks."""
    out = {}
    if os.path.exists(COLLISION_FILE):
        for l in open(COLLISION_FILE).read().split("\n"):
            w = l.split()
            if len(w) != 3 or w[0] not in HASHES or w[1] not in M1D + MMC: continue
            if w[2] == "-": out[(w[0], w[1])] = None; continue           # searched, none in the search space
            try: name = bytes.fromhex(w[2]).decode("latin-1")
            except ValueError: continue
            if name not in M1D + MMC and hash_of(w[0], name) == hash_of(w[0], w[1]): out[(w[0], w[1])] = name
    for hname in HASHES:
        for known in M1D + MMC:
            if (hname, known) not in out:
                name = second_preimage(hname, known)
                if name is not None: out[(hname, known)] = name
    _fwd_cache.clear()
    return {k: v for k, v in out.items() if v is not None}


def exact_polynomial_collisions(known):
    """names that collide with `known` under h = h * B + c for B = 31, 33, 37 (and 2: shift-and-add) in integer arithmetic, hence for every word size and seed:
    character i raised by k, character i+1 lowered by k * B"""
    out = []
    for B in (2, 31, 33, 37):
        for i in range(len(known) - 1):
            for k in (1, -1, 2, -2):
                a, b = ord(known[i]) + k, ord(known[i + 1]) - k * B
                if 0x21 <= a <= 0x7e and 0x21 <= b <= 0x7e: out.append((B, known[:i] + chr(a) + chr(b) + known[i + 2:]))
    return out


def name_variants(known):
    """unknown method names that a comparison weaker than equality of the whole string takes for `known`: [(kind, name)]"""
    n = len(known); v = []
    for k in range(n): v.append(("prefix", known[:k]))                                                      # strncmp(name, known, name.size()), find() == 0
    for suf in ("s", "_", "2", " ", "\t", "\n", "\r\n", "\0", "\0x", ".", "-", known[-1], known): v.append(("extension", known + suf))   # strncmp(.., known.size()), strcmp on c_str() (NUL)
    for pre in (" ", "\t", "_", known[0], "x", "\0"): v.append(("leading", pre + known))
    for k in range(n):
        c = known[k]
        if c.swapcase() != c: v.append(("case", known[:k] + c.swapcase() + known[k + 1:]))
        for d in (1, -1): v.append(("neighbour-character", known[:k] + chr(ord(c) + d) + known[k + 1:]))
        v.append(("high-bit", known[:k] + chr(ord(c) | 0x80) + known[k + 1:]))                              # char is signed: hashes / tables indexed by a character
        v.append(("deletion", known[:k] + known[k + 1:])); v.append(("doubling", known[:k] + c + known[k:]))
        if k + 1 < n and known[k] != known[k + 1]: v.append(("transposition", known[:k] + known[k + 1] + known[k] + known[k + 2:]))   # same multiset: sum / xor of the characters
        if k + 1 < n: v.append(("sum-preserving", known[:k] + chr(ord(c) + 1) + chr(ord(known[k + 1]) - 1) + known[k + 2:]))
    v += [("case", known.upper()), ("case", known.lower()), ("case", known.swapcase()), ("anagram", known[::-1]), ("anagram", "".join(sorted(known)))]
    v += [("same-length", "x" * n), ("same-length-first", known[0] + "x" * (n - 1)), ("same-length-first-last", known[0] + "x" * (n - 2) + known[-1]), ("first-character", known[0]),
          ("same-length-but-one", known[:-1] + "x"), ("same-length-but-one", "x" + known[1:])]
    for sep in ("_", " ", "", "--", "\xe2\x80\x90"):
        if "-" in known or "_" in known: v.append(("separator", known.replace("-", "\0").replace("_", "-").replace("\0", sep)))
    for B, nm in exact_polynomial_collisions(known): v.append((f"polynomial-hash-exact-{B}", nm))
    seen = set(); out = []
    for kind, nm in v:
        if nm in M1D + MMC or nm in seen: continue
        seen.add(nm); out.append((kind, nm))
    return out


def gen_method_names(rng, big, add):
    """every documented name on every entry point; unknown names built from each documented name by every weakening of string equality that a dispatch
    may use by mistake (prefix / length-limited / NUL-terminated / case-blind / character-set comparisons, per-character tables, 32-bit string hashes)"""
    valid = {"integrate": M1D, "integrate_eq": M1D, "integrate_2d": M1D + MMC, "integrate_3d": M1D + MMC, "integrate_mc": MMC}
    col = hash_collisions()
    for known in M1D + MMC:
        first = "integrate" if known in M1D else "integrate_mc"       # the entry point that dispatches on this name itself
        home = [op for op in valid if known in valid[op] and op not in (first, "integrate_eq")]
        away = [op for op in valid if known not in valid[op]]
        names = [(f"hash-{hn}", col[(hn, known)]) for hn in HASHES if (hn, known) in col] + name_variants(known)
        quota = {}
        for kind, nm in names:
            tok = menc(nm)
            if big: ops = [first] + home + away
            elif kind.startswith("hash-"): ops = [first, rng.choice(home)]
            elif kind.startswith("polynomial-hash-exact"):
                quota[kind] = quota.get(kind, 0) + 1
                if quota[kind] > 2: continue
                ops = [first] if quota[kind] == 1 else [rng.choice([first] + home)]
            elif rng.random() < 0.22: ops = [rng.choice([first] + home)]
            else: continue
            for op in ops: add(f"{op} {tok}", "method", "method-" + kind, nt=True)
    # the same unknown names where a request is made while another one runs (Integrate_2D / _3D test the name before they forward it)
    for known in M1D + MMC:
        vs = name_variants(known) + [("hash", col[k]) for k in col if k[1] == known]
        for kind, nm in (vs if big else rng.sample(vs, 2)):
            e = rng.choice(["int1", "int2", "int3"]); d = {"int1": 2, "int2": 4, "int3": 6}[e]
            add(f"nested {e} {menc(nm)} " + " ".join(hx(v) for v in [0.0, 1.0] * (d // 2)) + f" 1 {rng.choice(['throw', 'factorial 5', 'factorial 171'])}", "method", "request-inside-callback", nt=True)


# ------------------------------------------------------------------ generator
def generate(rng, tier):
    cs = []
    big = tier != "quick"
    def add(line, *tags, nt=False): cs.append(Case(line, tags, info={"nt": nt}))

    # ---- indices: size-1, size, size+1, UINT_MAX on both overloads
    for d in ([0, 1, 2, 3, 5, 17] if not big else [0, 1, 2, 3, 4, 5, 8, 17, 100, 1000]):
        for i in sorted(set([0, 1, max(d - 2, 0), max(d - 1, 0), d, d + 1, 2 * d + 3, 2147483647, 2147483648, UMAX - 1, UMAX])):
            nt = i in (d - 1, d, d + 1, UMAX)
            add(f"vec_at {d} {i}", "vector-index", nt=nt); add(f"vec_at_c {d} {i}", "vector-index", nt=nt)
    shapes = [(0, 0), (0, 3), (3, 0), (1, 1), (1, 3), (3, 1), (2, 2), (2, 3), (3, 2), (3, 3), (4, 5)] + ([(5, 5), (6, 2), (7, 7)] if big else [])
    for (r, c) in shapes:
        for op, n in (("mat_at", r), ("mat_at_c", r), ("delete_row", r), ("return_row", r), ("delete_col", c), ("return_col", c)):
            for i in sorted(set([0, max(n - 1, 0), n, n + 1, r, c, UMAX])):
                add(f"{op} {r} {c} {i}", "matrix-index", nt=i in (n - 1, n, n + 1, UMAX))
        for i in sorted(set([-1, 0, r - 1, r, r + 1, -2147483648, 2147483647])):
            for j in sorted(set([-1, 0, c - 1, c, c + 1])):
                add(f"sub_matrix {r} {c} {i} {j}", "sub-matrix", nt=(i in (-1, r - 1, r) or j in (-1, c - 1, c)))
    # ---- vector shapes: equal, off by one, zero
    for a in range(0, 6 if not big else 9):
        for b in range(0, 6 if not big else 9):
            for op in ("dot", "vec_add", "vec_sub", "vec_addeq", "vec_subeq", "cross", "vec_mul", "angle", "vec_eq", "outer"):
                add(f"{op} {a} {b}", "vector-shape", nt=abs(a - b) <= 1 or (op == "cross" and 2 <= a <= 4 and 2 <= b <= 4))
    # every binary vector request with both orders of clearly unequal sizes (one operand empty, one much longer)
    for (a, b) in [(0, 7), (7, 0), (1, 7), (7, 1), (3, 7), (7, 3), (2, 16), (16, 2), (3, 33), (33, 3)] + ([(0, 64), (64, 0), (5, 100), (100, 5), (63, 64), (64, 63)] if big else []):
        for op in ("dot", "vec_add", "vec_sub", "vec_addeq", "vec_subeq", "cross", "vec_mul", "angle", "vec_eq", "outer"):
            add(f"{op} {a} {b}", "vector-shape", nt=True)
    # ---- matrix shapes: equal, transposed, off by one
    base = [(1, 1), (1, 2), (2, 1), (2, 2), (2, 3), (3, 2), (3, 3), (3, 4), (4, 3), (0, 0), (0, 2), (2, 0)] + ([(5, 5), (4, 6), (6, 4), (1, 7)] if big else [])
    for (r, c) in base:
        others = sorted(set([(r, c), (c, r), (r + 1, c), (r, c + 1), (max(r - 1, 0), c), (r, max(c - 1, 0)), (c, r + 1), (c + 1, r), (2, 2), (3, 3)]))
        for (r2, c2) in others:
            for op in ("mat_plus", "mat_minus", "mat_pluseq", "mat_minuseq", "mat_mul"):
                add(f"{op} {r} {c} {r2} {c2}", "matrix-shape", nt=True)
        for d in sorted(set([r, c, r + 1, c + 1, max(r - 1, 0), max(c - 1, 0), 0])):
            add(f"mat_vec {r} {c} {d}", "matrix-vector-shape", nt=True); add(f"vec_mat {d} {r} {c}", "matrix-vector-shape", nt=True)
        add(f"trace {r} {c}", "square", nt=abs(r - c) <= 1); add(f"transpose {r} {c}", "square")
        if r <= 5 and c <= 5: add(f"det {r} {c}", "square", nt=abs(r - c) <= 1)
    for n in range(1, 6 if not big else 7): add(f"det {n} {n}", "square"); add(f"det {n} {n + 1}", "square", nt=True); add(f"det {n + 1} {n}", "square", nt=True)
    # ---- Inverse: non-square, singular (integer matrices: the determinant is computed exactly), regular
    for _ in range(60 if not big else 600):
        n = rng.choice([1, 2, 2, 3, 3, 4]); kind = rng.random()
        m = [[rng.randint(-4, 4) for _ in range(n)] for _ in range(n)]
        if kind < 0.35 and n >= 2:
            k = rng.randrange(1, n); m[k] = [rng.choice([1, 2, -1]) * v for v in m[0]] if rng.random() < 0.6 else [a + b for a, b in zip(m[0], m[(k + 1) % n if (k + 1) % n != k and n > 2 else 0])]
        elif kind < 0.45: m[rng.randrange(n)] = [0] * n
        add(f"inverse {n} {n} " + " ".join(hx(float(v)) for row in m for v in row), "inverse", nt=det_exact(m) == 0 or abs(det_exact(m)) == 1)
    for (r, c) in [(1, 2), (2, 1), (2, 3), (3, 2), (3, 4)]:
        add(f"inverse {r} {c} " + " ".join(hx(float(1 + (i * 7 + 3) % 5)) for i in range(r * c)), "inverse", nt=True)
    add("inverse 2 2 " + " ".join(hx(v) for v in (0.0, 1.0, 1.0, 0.0)), "inverse", nt=True)     # needs a row exchange
    # ---- Rotation_Matrix
    for dim in (-1, 0, 1, 2, 3, 4, 5):
        for n in (0, 1, 2, 3, 4):
            add(f"rotation {dim} {n}", "rotation", nt=dim in (1, 2, 3, 4) and n in (2, 3, 4))
    # ---- Matrix(vector<vector<double>>): irregular shapes, empty
    for lens in [[], [0], [1], [3], [0, 0], [2, 2], [2, 3], [3, 2], [2, 2, 2], [2, 2, 1], [1, 2, 2], [2, 0], [0, 2], [4, 4, 4, 4], [4, 4, 5, 4], [1, 1, 1, 0]]:
        add(f"mat_ctor {ilist(lens)}", "matrix-ctor", nt=True); add(f"transpose_lists {ilist(lens)}", "transpose-lists", nt=True)
    for _ in range(40 if not big else 400):
        n = rng.randint(1, 6); c = rng.randint(0, 5); lens = [c] * n
        if rng.random() < 0.5: lens[rng.randrange(n)] = max(0, c + rng.choice([-1, 1]))
        add(f"mat_ctor {ilist(lens)}", "matrix-ctor", nt=True); add(f"transpose_lists {ilist(lens)}", "transpose-lists", nt=True)
    # ---- block constructor: consistent, off by one in one dimension, ragged rows of blocks, empty
    def blocks(rows): return f"block {len(rows)} " + " ".join(f"{len(r)} " + " ".join(f"{a} {b}" for a, b in r) for r in rows)
    add("block 0", "block", nt=True); add("block 1 0", "block", nt=True); add("block 2 0 0", "block", nt=True)
    add(blocks([[(2, 2)], [(1, 2), (1, 1)]]), "block", nt=True); add(blocks([[(2, 2), (2, 1)], [(1, 2)]]), "block", nt=True)
    add(blocks([[(2, 2), (2, 1)], []]), "block", nt=True); add(blocks([[], [(2, 2)]]), "block", nt=True)
    for _ in range(150 if not big else 1500):
        R, C = rng.randint(1, 3), rng.randint(1, 3)
        hs = [rng.randint(0, 3) for _ in range(R)]; ws = [rng.randint(0, 3) for _ in range(C)]
        rows = [[(hs[i], ws[j]) for j in range(C)] for i in range(R)]
        k = rng.random()
        if k < 0.25:
            i, j = rng.randrange(R), rng.randrange(C); a, b = rows[i][j]; rows[i][j] = (a + 1, b) if rng.random() < 0.5 else (a, b + 1)
        elif k < 0.4 and R > 1:
            i = rng.randrange(R)
            if rng.random() < 0.5: rows[i] = rows[i][:-1]
            else: rows[i] = rows[i] + [(hs[i], rng.randint(0, 2))]
        add(blocks(rows), "block", nt=True)
    # ---- Sub_List
    for s in (0, 1, 2, 3, 6):
        for i1 in sorted(set([-2147483648, -1, 0, 1, s - 1, s, s + 1, 2147483647])):
            for i2 in sorted(set([0, 1, max(s - 2, 0), max(s - 1, 0), s, s + 1, UMAX])):
                add(f"sub_list {s} {i1} {i2}", "sub-list", nt=i1 in (-1, s - 1, s) or i2 in (s - 1, s, UMAX))
    # ---- files
    add("import_list 1", "import"); add("import_list 0", "import", nt=True)
    for per in [[], [0], [1], [2], [2, 2], [2, 2, 2], [3, 2], [2, 3], [3, 1], [1, 3], [2, 0, 2], [2, 2, 0], [0, 2, 2], [3, 3, 3, 3], [1, 1, 1], [4, 2, 2]]:
        for ign in sorted(set([0, 1, max(len(per) - 1, 0), len(per), len(per) + 1])):
            for nd in sorted(set([0, 1, 2, 3, (per[-1] if per else 0) + 1])):
                add(f"import_table 1 {ilist(per)} {ign} {nd}", "import", nt=True)
    add("import_table 0 2 2 2 0 0", "import", nt=True)
    for lens in [[], [0], [2], [2, 2], [2, 3], [3, 2], [2, 2, 1], [0, 0], [1, 1, 1]]:
        for nd in (0, 1, 2, 3):
            add(f"export_table {ilist(lens)} {nd}", "export", nt=True); add(f"in_units {ilist(lens)} {nd}", "in-units", nt=True)
    # ---- Workload_Distribution, minimize, KDE
    for w in (0, 1, 2, 3, 7, 64):
        for t_ in (0, 1, 5, 64, 1000): add(f"workload {w} {t_}", "workload", nt=w <= 1)
    for ns in (1, 2, 3, 4):
        for nd in sorted(set([0, 1, ns - 1, ns, ns + 1])): add(f"minimize {ns} {nd}", "minimize", nt=abs(ns - nd) <= 1)
    for n in (1, 2, 3, 4, 5, 6, 7, 10, 31): add(f"kde {n}", "kde", nt=n <= 4)
    # ---- method names
    names = M1D + MMC + ["", "trapezoidal", "Trapezoidal_", "Gauss", "Gauss-Legendre_", "Gauss-Legendre_3", "Gauss_Kronrod", "Tanh-Sinh ", "Adaptive-Simpsons", "Monte-carlo", "vegas", "Miser2", "Bogus", "Simpson"]
    for m in names:
        m = m.strip()
        if not m: continue
        nt = m not in M1D + MMC
        for op in ("integrate", "integrate_eq", "integrate_2d", "integrate_mc"): add(f"{op} {m}", "method", nt=nt or op == "integrate_eq")
        if m not in ("Trapezoidal", "Tanh-Sinh", "Gauss-Kronrod", "Adaptive-Simpson") or big: add(f"integrate_3d {m}", "method", nt=nt)
    for op in ("integrate", "integrate_2d", "integrate_3d", "integrate_mc"): add(f"{op} %", "method", "method-empty", nt=True)      # the empty name
    gen_method_names(rng, big, add)
    # ---- Gauss-Legendre tables
    for nf in (0, 1, 2, 3):
        for lens in [[], [2], [1], [3], [2, 2], [2, 1], [1, 2], [2, 3], [2, 2, 2], [2, 2, 0], [0, 2, 2]]:
            add(f"gauss_legendre {nf} {ilist(lens)}", "gauss-legendre", nt=True)
    # ---- sizes in Statistics
    for n in range(0, 7): add(f"metropolis {n}", "metropolis", nt=n <= 3); add(f"metropolis_2d {n}", "metropolis", nt=n in (0, 3, 4, 5))
    for np_ in (0, 1, 2, 3):
        for no in (0, 1, 2, 3, 4):
            for nb in (0, 1, 2, 3, 4): add(f"binned {np_} {no} {nb}", "binned", nt=True)
    # ---- integer guards
    for n in [0, 1, 2, 20, 169, 170, 171, 172, 1000, 2147483647, UMAX]: add(f"factorial {n}", "factorial", nt=n in (170, 171))
    for c in (-2147483648, -1, 0, 1, 2, 3, 4, 2147483647): add(f"vsh_y {c}", "vsh", nt=c in (-1, 0, 2, 3)); add(f"vsh_psi {c}", "vsh", nt=c in (-1, 0, 2, 3))
    for n in (-2147483648, -1, 0, 1, 5, 170, 171, 1000):
        for k in (-2147483648, -1, 0, 1, 5, 170, 171, 1001): add(f"binomial_coefficient {n} {k}", "binomial-coefficient", nt=n in (-1, 0, 170, 171) or k in (-1, 0))
    for d in (0, 1, 4, 6, 7, 8, 9, 100, UMAX):
        for x in (0.0, -0.0, 1.2345678912, -3.3e-7, 6.02e23): add(f"round {hx(x)} {d}", "round", nt=d in (7, 8))
    # ---- double guards: both sides of the boundary by one ulp
    around0 = [-1.0, -1e-300, -DMIN, -0.0, 0.0, DMIN, 1e-300, 1e-3, 1.0, 50.0, 101.0, 1e6, math.inf, -math.inf]
    def nt0(v): return abs(v) <= 1e-300
    for v in around0:
        add(f"gammaln {hx(v)}", "gammaln", nt=nt0(v))
        for op in ("pdf_exponential", "cdf_exponential", "pdf_maxwell", "cdf_maxwell"): add(f"{op} {hx(v)}", "positive-parameter", nt=nt0(v))
        for k in (0, 1, 3, 150): add(f"pmf_poisson {hx(v)} {k}", "poisson", nt=nt0(v)); add(f"cdf_poisson {hx(v)} {k}", "poisson", nt=nt0(v))
        for a in (-1.0, -DMIN, 0.0, DMIN, 0.5, 1.0, 3.0, 99.0, 101.0):
            if not (math.isinf(v) and v > 0): add(f"gammaq {hx(v)} {hx(a)}", "gammaq", nt=nt0(v) or abs(a) <= DMIN)
    for a in (-1.0, -DMIN, -0.0, 0.0, DMIN, 0.5, 1.0, 2.5, 30.0):
        for p in (-0.5, 0.0, DMIN, 0.3, 0.5, 0.999, na(1.0, 0.0), 1.0, 1.5): add(f"inv_gammap {hx(p)} {hx(a)}", "inv-gammap", nt=abs(a) <= DMIN)
    ps = [-1.0, -1e-9, -DMIN, -0.0, 0.0, DMIN, 1e-9, 0.25, 0.5, na(1.0, 0.0), 1.0, na(1.0, 2.0), 1.0 + 1e-9, 2.0, math.inf, -math.inf]
    def ntp(p): return abs(p) <= DMIN or abs(p - 1.0) <= 3e-16
    for p in ps:
        for (tr, x) in ((0, 0), (1, 0), (1, 1), (5, 2), (5, 5), (5, 6), (20, 7), (171, 3), (200, 100)):
            add(f"pmf_binomial {tr} {hx(p)} {x}", "binomial", nt=ntp(p))
            if x <= 7: add(f"cdf_binomial {tr} {hx(p)} {x}", "binomial", nt=ntp(p))
        for k in (0, 1, 4, 30): add(f"inv_cdf_poisson {k} {hx(p)}", "inv-cdf-poisson", nt=ntp(p))
    for p in [-2.0, -1.0 - 1e-9, na(-1.0, -2.0), -1.0, na(-1.0, 0.0), -0.999, -0.5, -DMIN, 0.0, DMIN, 0.5, 0.999, 1.0 - 1e-9, na(na(1.0, 0.0), 0.0), na(1.0, 0.0), 1.0, na(1.0, 2.0), 1.0 + 1e-9, 2.0, math.inf, -math.inf]:
        add(f"inv_erf {hx(p)}", "inv-erf", nt=abs(abs(p) - 1.0) <= 3e-16)
    # ---- Find_Root brackets: sign change, zero at an end, equal signs, NaN
    def lin(a, b): return f"+ c {hx(a)} * c {hx(b)} x"          # a + b x
    for (a, b, xl, xr) in [(-1.0, 1.0, 0.0, 3.0), (-1.0, 1.0, 3.0, 0.0), (-1.0, 1.0, 2.0, 3.0), (-1.0, 1.0, -3.0, 0.5), (-1.0, 1.0, 1.0, 3.0), (-1.0, 1.0, 0.0, 1.0), (-1.0, 1.0, 1.0, 1.0),
                           (1.0, -1.0, 0.0, 3.0), (1.0, -1.0, 2.0, 3.0), (0.0, 0.0, 1.0, 2.0), (2.0, 0.0, 1.0, 2.0), (-2.0, 0.0, 1.0, 2.0), (-1.0, 1.0, na(1.0, 2.0), 3.0), (-1.0, 1.0, na(1.0, 0.0), 3.0),
                           (-1.0, 1.0, 0.0, na(1.0, 0.0)), (-1.0, 1.0, 0.0, na(1.0, 2.0)), (-0.5, 1.0, 0.25, 0.75), (-0.5, 1.0, 0.5, 0.75), (-0.5, 1.0, 0.75, 0.5)]:
        add(f"find_root {lin(a, b)} {hx(xl)} {hx(xr)}", "find-root", nt=True)
    for (e, xl, xr) in [("sqrt x", -1.0, 4.0), ("log x", -1.0, 2.0), ("- sqrt x c 0x1p+0", 0.0, 4.0), ("- sqrt x c 0x1p+0", -0.5, 4.0), ("c nan", 0.0, 1.0), ("/ c 0x0p+0 - x c 0x1p+0", 1.0, 2.0),
                        ("- pow x 0x1.8p+1 c 0x1p+3", 0.0, 5.0), ("- pow x 0x1.8p+1 c 0x1p+3", 3.0, 5.0), ("- pow x 0x1p+1 c 0x1p+2", -1.0, 5.0), ("- pow x 0x1p+1 c 0x1p+2", -3.0, 3.0), ("- pow x 0x1p+1 c 0x1p+2", -2.0, 3.0),
                        ("sin x", 3.0, 4.0), ("sin x", 1.0, 2.0), ("- exp x c 0x1p+1", 0.0, 1.0), ("- exp x c 0x1p+1", 1.0, 2.0), ("tanh x", -1.0, 2.0), ("tanh x", 0.0, 2.0), ("tanh x", DMIN, 2.0)]:
        add(f"find_root {e} {hx(xl)} {hx(xr)}", "find-root", nt=True)
    for _ in range(60 if not big else 1500):
        a, b = rng.uniform(-3, 3), rng.choice([-2.0, -1.0, -0.5, 0.5, 1.0, 3.0]); root = -a / b
        xl = rng.choice([root - rng.uniform(0.1, 4), root, root + rng.uniform(0.1, 4), na(root, -9.0), na(root, 9.0)]); xr = rng.choice([root + rng.uniform(0.1, 4), root - rng.uniform(0.1, 4), root, rng.uniform(-6, 6)])
        add(f"find_root {lin(a, b)} {hx(xl)} {hx(xr)}", "find-root", nt=True)
    # ---- Interpolation constructors: lengths 0..3, unequal lengths, not strictly increasing, rows of size != 2
    tabs = [[], [1.0], [1.0, 2.0], [2.0, 1.0], [1.0, 1.0], [1.0, na(1.0, 2.0)], [0.0, 1.0, 2.0], [0.0, 1.0, 1.0], [0.0, 0.0, 1.0], [0.0, 2.0, 1.0], [2.0, 1.0, 0.0], [-3.0, -1.0, 0.5, 7.0], [-3.0, -1.0, -1.0, 7.0], [0.0, 1.0, 2.0, 3.0, na(3.0, 0.0)], [0.0, 1.0, 2.0, 3.0, na(3.0, 4.0)], [-0.0, 0.0], [0.0, DMIN], [1e300, math.inf], [-math.inf, 0.0, 1.0]]
    for xs in tabs:
        for nf in sorted(set([0, 1, 2, max(len(xs) - 1, 0), len(xs), len(xs) + 1])):
            add(f"interp {flist(xs)} {nf}", "interpolation-ctor", nt=True)
        add(f"interp_table {len(xs)} " + " ".join(f"2 {hx(x)} {hx(0.5 * x)}" for x in xs), "interpolation-ctor", nt=True)
        for bad in (0, 1, 3):
            for k in sorted(set([0, len(xs) - 1])):
                if k >= 0 and xs:
                    rows = [[x, 0.5 * x] for x in xs]; rows[k] = ([], [xs[k]], [xs[k], 1.0, 2.0])[(0, 1, 3).index(bad)]
                    add(f"interp_table {len(rows)} " + " ".join(flist(r) for r in rows), "interpolation-ctor", nt=True)
    # ---- Locate: x at, just inside and just outside the domain ends and the 1 % tolerance points
    grids = [[0.0, 1.0], [0.0, 100.0], [-100.0, 0.0, 100.0, 300.0], [1.0, 2.0, 4.0], [-3.0, -1.0, 0.5, 7.0], [0.0, 0.1, 0.2, 0.3, 1.0, 1.1], [1e-3, 2e-3, 5e-3], [-1e6, 1.0, 1e6 + 0.5], [100.0, 200.0, 400.0, 800.0, 1600.0], [2.0, 3.0]]
    if not big: grids = grids[:7]
    for _ in range(2 if not big else 80):
        n = rng.choice([2, 3, 4, 6, 9]); x0 = rng.uniform(-10, 10); g = [x0]
        for _ in range(n - 1): g.append(g[-1] + rng.choice([0.001, 0.1, 1.0, 3.0, 100.0]) * rng.uniform(0.5, 2))
        grids.append(g)
    def edge_points(g):
        pts = []
        for (e, ha, hb, sgn) in ((g[0], g[1], g[0], -1.0), (g[-1], g[-1], g[-2], 1.0)):
            tol = 1e-2 * (ha - hb); tp = e + sgn * tol
            for base in (e, tp):
                v = base; pts.append((v, True))
                lo = hi = base
                for _ in range(3):
                    lo = na(lo, -math.inf); hi = na(hi, math.inf); pts += [(lo, True), (hi, True)]
            for f in (0.5, 0.9, 0.99, 1.01, 1.1, 2.0, 5.0, 9.0, 11.0, 50.0, 1000.0): pts.append((e + sgn * f * tol, False))
        for k in range(len(g)): pts += [(g[k], True), (na(g[k], -math.inf), False), (na(g[k], math.inf), False)]
        for k in range(len(g) - 1): pts.append((0.5 * (g[k] + g[k + 1]), False))
        pts += [(math.inf, False), (-math.inf, False), (1e308, False), (-1e308, False), (math.nan, True)]
        return pts
    for g in grids:
        pts = edge_points(g)
        for (x, nt) in pts:
            add(f"locate {flist(g)} {hx(x)}", "locate", nt=nt)
            if big or nt: add(f"interpolate {flist(g)} {hx(x)}", "locate", nt=nt)
        xsel = [p for p in pts if p[1]][::3] + [p for p in pts if not p[1]][::4]
        for (a, _) in xsel[:: (1 if big else 4)]:
            for (b, _) in xsel[:: (2 if big else 7)]:
                add(f"interp_integrate {flist(g)} {hx(a)} {hx(b)}", "interpolation-integrate", nt=True)
                add(f"local_min {flist(g)} {hx(a)} {hx(b)}", "local-extremum", nt=True); add(f"local_max {flist(g)} {hx(a)} {hx(b)}", "local-extremum", nt=True)
        for x in (g[0], g[-1], 0.5 * (g[0] + g[1])):
            add(f"local_min {flist(g)} {hx(x)} {hx(x)}", "local-extremum", nt=True); add(f"local_min {flist(g)} {hx(na(x, math.inf))} {hx(x)}", "local-extremum", nt=True)
            add(f"local_max {flist(g)} {hx(x)} {hx(na(x, -math.inf))}", "local-extremum", nt=True)
    # ---- Interpolation_2D
    for xs in [[], [1.0], [0.0, 1.0], [0.0, 1.0, 3.0], [1.0, 1.0], [1.0, 0.0]]:
        for ys in [[], [2.0], [0.0, 2.0], [0.0, 2.0, 5.0, 6.0], [2.0, 2.0]]:
            shapes2 = [[len(ys)] * len(xs), [len(xs)] * len(ys), [len(ys)] * (len(xs) + 1), [len(ys)] * max(len(xs) - 1, 0), [len(ys) + 1] * len(xs)]
            if xs: shapes2.append([len(ys)] * (len(xs) - 1) + [max(len(ys) - 1, 0)]); shapes2.append([len(ys) + 1] + [len(ys)] * (len(xs) - 1))
            for sh in shapes2: add(f"interp2d {flist(xs)} {flist(ys)} {ilist(sh)}", "interpolation-2d", nt=True)
    gx, gy = [0.0, 100.0, 300.0], [-1.0, 0.0, 4.0, 5.0]
    for (x, _) in edge_points(gx)[::(2 if big else 4)]:
        for (y, _) in edge_points(gy)[::(5 if big else 9)]: add(f"interp2d_eval {flist(gx)} {flist(gy)} {hx(x)} {hx(y)}", "interpolation-2d", nt=True)
    def grid_table(X, Y): return [[x, y, x + 2 * y] for x in X for y in Y]
    t0 = grid_table([0.0, 1.0, 3.0], [0.0, 2.0])
    variants = [t0, grid_table([0.0, 1.0], [5.0, 6.0, 7.0]), [], t0[:-1], t0[:1], grid_table([0.0], [1.0, 2.0]), grid_table([0.0, 1.0], [1.0]), [[r[1], r[0], r[2]] for r in t0], list(reversed(t0)),
                t0[:2] + [t0[3], t0[2]] + t0[4:], t0 + [t0[0]], [r[:2] for r in t0], [r + [1.0] for r in t0], t0[:3] + [[1.0, 2.0]] + t0[4:], t0[:5] + [[3.0, 2.5, 1.0]], grid_table([0.0, 0.0, 1.0], [0.0, 2.0])]
    for tb in variants: add(f"interp2d_table {len(tb)} " + " ".join(flist(r) for r in tb), "interpolation-2d", nt=True)
    # ---- Locate_Closest_Location
    for l in [[], [1.0], [1.0, 2.0], [2.0, 1.0], [1.0, 1.0], [0.0, 1.0, 3.0], [0.0, 3.0, 1.0], [3.0, 0.0, 1.0], [0.0, 1.0, na(1.0, 0.0)], [0.0, 1.0, na(1.0, 2.0)], [-0.0, 0.0], [0.0, -0.0]]:
        for tg in (-1.0, 0.0, 0.5, 1.0, 2.0, 10.0): add(f"closest {flist(l)} {hx(tg)}", "closest", nt=True)
    gen_sessions(rng, big, add, edge_points)
    gen_nonfinite_tables(rng, big, add)
    gen_long_sessions(rng, big, add)
    gen_save_edges(rng, big, add)
    gen_coinciding(rng, big, add, grids)
    gen_locate_traces(rng, big, add)
    gen_double_range(rng, big, add)
    gen_process_histories(rng, big, add, cs)
    return cs


def ladder(x, rels=(1e-16, 1e-13, 1e-10, 1e-7, 1e-4)):
    """points at geometric relative distances on both sides of x (beside the +-ulp neighbours that edge_points gives)"""
    sc = abs(x) if x != 0 else 1.0
    return [x + sgn * r * sc for r in rels for sgn in (-1.0, 1.0)]


def gen_sessions(rng, big, add, edge_points):
    """requests that are not the first one made on an object / in the process, and the unit arguments of the constructors"""
    # ---- Interpolation(x, f, x_dim, f_dim) and Interpolation(table, x_dim, f_dim): every request kind, judged on the converted table
    grids = [[1.0, 2.0, 3.0, 4.0], [0.0, 1.0], [-100.0, 0.0, 100.0, 300.0], [1e-3, 2e-3, 5e-3], [-3.0, -1.0, 0.5, 7.0], [0.0, 0.1, 0.2, 0.3, 1.0, 1.1]]
    xdims = [-1.0, 0.0, 1.0, 10.0, 0.5, 1e-3, 1e6, 1.5 * 2.0 ** -40, 5.0677e15, 1.9733e-16]          # the last two: GeV^-1 <-> m
    if big: grids += [[100.0, 200.0, 400.0, 800.0, 1600.0], [2.0, 3.0], [-1e6, 1.0, 1e6 + 0.5]]; xdims += [1e-300, 1e300, DMIN, 1e-320, 3.0, -0.0, math.inf]
    fdims = [-1.0, 2.5, 0.0, 1e-30]
    def call(kind, x, y=None):
        if kind in ("loc", "ev"): return f"{kind} {hx(x)}"
        if kind == "der": return f"der {hx(x)} {rng.choice([0, 1, 2, 3, 4, 4, 5, 7, 100, UMAX])}"
        return f"{kind} {hx(x)} {hx(y)}"
    def head(g, xd, fd, table):
        if table: return f"icalls_t {len(g)} " + " ".join(f"2 {hx(x)} {hx(0.5 * x - 1.0)}" for x in g) + f" {hx(xd)} {hx(fd)}"
        return f"icalls {flist(g)} {len(g)} {hx(xd)} {hx(fd)}"
    for g in grids:
        for xd in (xdims if big else xdims[:1] + [10.0, 1e-3] + rng.sample([d for d in xdims[1:] if d not in (10.0, 1e-3)], 2)):
            sx = scaled_table(g, xd)
            if sx is None: sx = g
            fd = rng.choice(fdims); table = rng.random() < 0.25
            h = head(g, xd, fd, table)
            add(f"{h} 0", "units-ctor", nt=True)
            # (a) single requests at the ends and tolerance points of the CONVERTED table (+-1..3 ulp and a geometric ladder), and at the
            #     points that would be the ends / interior of the table had it not been converted
            pts = [p for p, nt in edge_points(sx) if nt]
            for e in (sx[0], sx[-1], sx[0] - 1e-2 * (sx[1] - sx[0]), sx[-1] + 1e-2 * (sx[-1] - sx[-2])): pts += ladder(e)
            pts += [0.5 * (sx[0] + sx[1]), 0.5 * (sx[-2] + sx[-1]), sx[len(sx) // 2]]
            raw = list(g) + [0.5 * (g[0] + g[1]), 0.5 * (g[-2] + g[-1]), g[0] - 0.005 * (g[1] - g[0]), g[-1] + 0.005 * (g[-1] - g[-2])]
            if xd > 0 and xd != 1.0: pts += raw
            step = 1 if big else 5
            for k, x in enumerate(pts[rng.randrange(step)::step]):
                add(f"{h} 1 {call(('ev', 'loc', 'der')[k % 3], x)}", "units-request", nt=True)
            inside = [sx[0], sx[-1]] + [sx[0] + f * (sx[-1] - sx[0]) for f in (0.001, 0.2, 0.35, 0.5, 0.77, 0.999)] + sx[1:-1]
            outside = [sx[0] - 0.5 * (sx[1] - sx[0]), sx[-1] + 0.02 * (sx[-1] - sx[-2]), sx[-1] + 3.0 * (sx[-1] - sx[0]), math.nan] + (raw if xd > 0 and xd != 1.0 and not (sx[0] <= g[0] <= sx[-1]) else [])
            for _ in range(2 if not big else 12):
                a, b = rng.choice(inside), rng.choice(inside); o_ = rng.choice(outside)
                for kind in ("int", "min", "max"):
                    add(f"{h} 1 {call(kind, a, b)}", "units-request", nt=True)
                add(f"{h} 1 {call(rng.choice(['int', 'min', 'max']), min(a, b), o_)}", "units-request", nt=True)
                add(f"{h} 1 {call(rng.choice(['int', 'min', 'max']), o_, max(a, b))}", "units-request", nt=True)
            add(f"{h} 2 glob int {hx(sx[0])} {hx(sx[-1])}", "units-request", nt=True)
            # Save_Function(file, points): a sweep over the object's own domain, as first request and after others
            counts = [0, 1, 2, 3, len(g), 7, 50, 201]
            for n_ in (counts if big else rng.sample(counts, 2)): add(f"{h} 1 save {n_}", "save-function", nt=True)
            add(f"{h} 3 ev {hx(rng.choice(inside))} save {rng.choice(counts)} {call(rng.choice(['ev', 'loc']), rng.choice(inside + outside[:3]))}", "save-function", nt=True)
            # (b) several requests on one object: ascending (correlated, the hunt branch of Locate), descending, far jumps, repeated
            #     arguments, a meaningless request after k meaningful ones
            for _ in range(3 if not big else 20):
                k = rng.choice([2, 3, 5, 8, 13])
                mode = rng.choice(["asc", "desc", "jump", "same", "knots"])
                if mode == "asc": xs_ = sorted(rng.choice(inside) for _ in range(k))
                elif mode == "desc": xs_ = sorted((rng.choice(inside) for _ in range(k)), reverse=True)
                elif mode == "jump": xs_ = [rng.choice([sx[0], sx[-1], inside[2], inside[-1]]) for _ in range(k)]
                elif mode == "same": xs_ = [rng.choice(inside)] * k
                else: xs_ = [rng.choice(sx) for _ in range(k)]
                calls = [call(rng.choice(["ev", "loc", "der"]), x) for x in xs_]
                if rng.random() < 0.3: calls.insert(rng.randrange(len(calls) + 1), call(rng.choice(["int", "min"]), min(xs_), max(xs_)))
                tail = rng.random()
                if tail < 0.35: calls.append(call("ev", rng.choice(outside)))
                elif tail < 0.5: calls.append(call("ev", rng.choice(pts)))
                add(f"{h} {len(calls)} " + " ".join(calls), "request-sequence", nt=True)
    gen_unit_collapse(rng, big, add)
    # malformed tables with unit arguments: the validation is that of the plain constructor
    for xs in [[], [1.0], [2.0, 1.0], [1.0, 1.0], [0.0, 1.0, 1.0], [1.0, 2.0]]:
        for xd in (10.0, -1.0):
            for nf in sorted(set([len(xs), len(xs) + 1])): add(f"icalls {flist(xs)} {nf} {hx(xd)} {hx(-1.0)} 0", "units-ctor", nt=True)
    # ---- Interpolation_2D with unit arguments (list and table overload)
    gx, gy = [0.0, 100.0, 300.0], [-1.0, 0.0, 4.0, 5.0]
    for (xd, yd) in [(-1.0, -1.0), (10.0, -1.0), (-1.0, 1e-3), (1e6, 0.5), (1.0, 1.0), (0.0, 3.0)] + ([(1e-300, 1e300), (5.0677e15, 1.9733e-16)] if big else []):
        sx, sy = scaled_table(gx, xd) or gx, scaled_table(gy, yd) or gy
        fd = rng.choice(fdims)
        for table in (False, True):
            if table: h = f"i2calls_t {len(gx) * len(gy)} " + " ".join(f"3 {hx(x)} {hx(y)} {hx(x + 2 * y)}" for x in gx for y in gy) + f" {hx(xd)} {hx(yd)} {hx(fd)}"
            else: h = f"i2calls {flist(gx)} {flist(gy)} {ilist([len(gy)] * len(gx))} {hx(xd)} {hx(yd)} {hx(fd)}"
            add(f"{h} 0", "units-2d", nt=True)
            ex = [p for p, nt in edge_points(sx) if nt][::(3 if big else 7)] + [0.5 * (sx[0] + sx[1]), gx[1], 0.5 * (gx[0] + gx[1])]
            ey = [p for p, nt in edge_points(sy) if nt][::(3 if big else 7)] + [0.5 * (sy[0] + sy[1]), gy[1], 0.5 * (gy[-2] + gy[-1])]
            for x in ex: add(f"{h} 1 {hx(x)} {hx(0.5 * (sy[0] + sy[1]))}", "units-2d", nt=True)
            for y in ey: add(f"{h} 1 {hx(0.5 * (sx[1] + sx[2]))} {hx(y)}", "units-2d", nt=True)
            for _ in range(3):
                pts = [(rng.uniform(sx[0], sx[-1]), rng.uniform(sy[0], sy[-1])) for _ in range(rng.choice([2, 4, 7]))]
                if rng.random() < 0.5: pts.append((rng.choice(ex), rng.choice(ey)))
                add(f"{h} {len(pts)} " + " ".join(f"{hx(x)} {hx(y)}" for x, y in pts), "units-2d", nt=True)
    add(f"i2calls {flist(gx)} {flist(gy)} {ilist([len(gy)] * 2)} {hx(10.0)} {hx(10.0)} {hx(-1.0)} 0", "units-2d", nt=True)
    add(f"i2calls {flist([1.0, 1.0])} {flist(gy)} {ilist([len(gy)] * 2)} {hx(10.0)} {hx(10.0)} {hx(-1.0)} 0", "units-2d", nt=True)
    # ---- Factorial / Binomial_Coefficient: the memo table of the process after larger, smaller, repeated requests
    lows = [0, 1, 2, 15, 16, 17, 100, 159, 160, 161, 165, 169, 170]
    highs = [171, 172, 175, 176, 177, 191, 192, 255, 256, 1000, 2147483647, 2147483648, UMAX]
    for a in lows:
        for b in rng.sample(highs, 3 if not big else len(highs)): add(f"fact_seq 2 f {a} f {b}", "factorial-history", nt=True)
    for b in highs: add(f"fact_seq 3 f 170 f 3 f {b}", "factorial-history", nt=True); add(f"fact_seq 2 b 170 {rng.choice([0, 3, 85, 170])} f {b}", "factorial-history", nt=True)
    for _ in range(30 if not big else 300):
        k = rng.randint(2, 6); calls = []
        for _ in range(k):
            if rng.random() < 0.7: calls.append(f"f {rng.choice(lows + [rng.randint(0, 170)])}")
            else: n = rng.choice([0, 5, 40, 170, 171, 300]); calls.append(f"b {n} {rng.randint(0, n + 1)}")
        tail = rng.random()
        if tail < 0.4: calls.append(f"f {rng.choice(highs)}")
        elif tail < 0.5: calls.append(f"b {rng.choice([-1, 5])} {rng.choice([-1, -2147483648])}")
        add(f"fact_seq {len(calls)} " + " ".join(calls), "factorial-history", nt=True)
    # ---- Vector: Resize / Assign / copy / assignment / +=, then a request at the new boundary
    for _ in range(60 if not big else 600):
        d = rng.choice([0, 1, 2, 3, 4, 7]); ops = []; cur = d
        for _ in range(rng.randint(1, 3)):
            w = rng.choice(["resize", "resize", "assign", "copy", "set", "addeq"])
            if w in ("resize", "assign", "set"): cur = max(0, cur + rng.choice([-2, -1, 0, 1, 2, 3])) if rng.random() < 0.8 else rng.choice([0, 3]); ops.append(f"{w} {cur}")
            elif w == "addeq": ops.append(f"addeq {cur}")
            else: ops.append("copy")
        pk = rng.choice(["at", "at", "dot", "add", "sub", "addeq", "cross", "none", "subeq", "mul", "angle", "eq"] + ["r" + w_ for w_ in ("dot", "add", "sub", "addeq", "subeq", "mul", "angle", "cross", "eq")])
        arg = {"at": rng.choice([cur - 1, cur, cur + 1, 0, UMAX, d - 1, d]), "cross": rng.choice([3, cur]), "rcross": rng.choice([3, cur])}.get(pk, rng.choice([cur, cur, cur + 1, cur - 1, d, 0, cur + 3]))
        if pk == "at" and arg < 0: arg = 0
        if pk != "at" and arg < 0: arg = 0
        add(f"vec_hist {d} {len(ops)} " + " ".join(ops) + (f" {pk} {arg}" if pk != "none" else " none"), "vector-history", nt=True)
    if rng.random() < 2: add("vec_hist 3 1 addeq 4 none", "vector-history", nt=True)
    # every binary request after a size change, with the object on either side, against the new size, its neighbours, the old size and the empty vector
    for (d, cur) in ([(3, 2), (2, 3), (0, 3), (3, 0), (4, 7)] if not big else [(a_, b_) for a_ in (0, 1, 2, 3, 4, 7) for b_ in (0, 1, 2, 3, 4, 7) if a_ != b_]):
        w = rng.choice(["resize", "assign", "set"])
        for pk in VEC_BINARY_PROBES + ("cross", "rcross", "eq", "req"):
            for arg in sorted(set([cur, cur + 1, max(cur - 1, 0), d, 0])) if big else rng.sample(sorted(set([cur, cur + 1, max(cur - 1, 0), d, 0])), 2):
                add(f"vec_hist {d} 1 {w} {cur} {pk} {arg}", "vector-history", nt=True)
    # ---- Matrix: every restructuring member function followed by every guarded request, at the new and at the old shape
    def probes(shape, old):
        r, c = shape; ro, co = old
        ps = [f"at {max(r - 1, 0)}", f"at {r}", f"row 0", f"row {max(r - 1, 0)}", f"row {r}", f"col {max(c - 1, 0)}", f"col {c}",
              f"plus {r} {c}", f"minus {r} {c}", f"pluseq {r} {c}", f"plus {c} {r}", f"plus {ro} {co}", f"pluseq {ro} {co}", f"plus {r} {c + 1}", f"plus {r + 1} {c}",
              f"mul {c} 2", f"mul {co} 2", f"mul {r} 2", f"lmul 2 {r}", f"lmul 2 {ro}", f"lmul 2 {c}", f"matvec {c}", f"matvec {co}", f"matvec {r}", f"vecmat {r}", f"vecmat {ro}", f"vecmat {c}",
              "trace", "transpose", "eq", "none", f"sub 0 0", f"sub {max(r - 1, 0)} {max(c - 1, 0)}", f"sub {r} 0", f"sub 0 {c}"]
        if r <= 4 and c <= 4: ps.append("det")
        return ps
    starts = [(3, 3), (2, 3), (3, 2), (1, 1), (2, 2), (4, 5)] + ([(1, 4), (5, 2), (6, 6)] if big else [])
    for (r, c) in starts:
        targets = sorted(set((r + dr, c + dc) for dr in (-1, 0, 1, 2) for dc in (-2, -1, 0, 1, 2) if r + dr >= 0 and c + dc >= 0 and (dr, dc) != (0, 0)))
        for (r2, c2) in targets:
            for w, k in (("resize", 2), ("assign", 1)):
                ps = probes((r2, c2), (r, c))
                for pr in (ps if big else rng.sample(ps, k)): add(f"mat_hist {r} {c} 1 {w} {r2} {c2} {pr}", "matrix-history", nt=True)
        for i in sorted(set([0, r - 1, r])):
            ps = probes((r - 1, c), (r, c)) if i < r else ["none"]
            for pr in (ps if big else rng.sample(ps, min(3, len(ps)))): add(f"mat_hist {r} {c} 1 delrow {i} {pr}", "matrix-history", nt=True)
        for j in sorted(set([0, c - 1, c])):
            ps = probes((r, c - 1), (r, c)) if j < c else ["none"]
            for pr in (ps if big else rng.sample(ps, min(3, len(ps)))): add(f"mat_hist {r} {c} 1 delcol {j} {pr}", "matrix-history", nt=True)
        for w, sh in (("transp", (c, r)), ("copy", (r, c)), (f"sum {r} {c}", (r, c)), (f"prod {c} 4", (r, 4)), (f"pluseq {r} {c}", (r, c)), (f"set {c + 1} {r}", (c + 1, r))):
            ps = probes(sh, (r, c))
            for pr in (ps if big else rng.sample(ps, 3)): add(f"mat_hist {r} {c} 1 {w} {pr}", "matrix-history", nt=True)
        for w in (f"sum {c} {r + 1}", f"prod {c + 1} 2", f"pluseq {r} {c + 1}"): add(f"mat_hist {r} {c} 1 {w} none", "matrix-history", nt=True)
    # random histories of 2..5 steps, meaningless at most in the last step or in the final request
    for _ in range(150 if not big else 4000):
        shape = (rng.choice([0, 1, 2, 3, 3, 4]), rng.choice([0, 1, 2, 3, 3, 4])) if rng.random() < 0.12 else (rng.randint(1, 4), rng.randint(1, 4))
        s0 = shape; ops = []; n = rng.randint(2, 5); old = shape; dead = False
        for k in range(n):
            r, c = shape; last = k == n - 1
            w = rng.choice(["resize", "resize", "assign", "delrow", "delcol", "copy", "set", "pluseq", "sum", "prod", "transp"])
            bad = last and rng.random() < 0.15
            if w in ("resize", "assign", "set"): a, b = max(0, r + rng.choice([-1, 0, 1, 2])), max(0, c + rng.choice([-2, -1, 0, 1, 2])); ops.append(f"{w} {a} {b}")
            elif w == "delrow":
                if r == 0 and not bad: continue
                a = r if bad else rng.randrange(r); b = 0; ops.append(f"delrow {a}")
            elif w == "delcol":
                if c == 0 and not bad: continue
                a = c if bad else rng.randrange(c); b = 0; ops.append(f"delcol {a}")
            elif w in ("pluseq", "sum"): a, b = (c, r + 1) if bad else (r, c); ops.append(f"{w} {a} {b}")
            elif w == "prod": a, b = (c + 1 if bad else c), rng.randint(0, 4); ops.append(f"prod {a} {b}")
            else: a = b = 0; ops.append(w)
            nxt = mat_apply(shape, w, a, b)
            if nxt is False or nxt is None: dead = True; break
            old = shape; shape = nxt
        if not ops: continue
        pr = "none" if dead else rng.choice(probes(shape, old))
        add(f"mat_hist {s0[0]} {s0[1]} {len(ops)} " + " ".join(ops) + " " + pr, "matrix-history", nt=True)


def gen_coinciding(rng, big, add, grids):
    """two-argument requests whose arguments coincide or nearly coincide (Integrate(x, x), Local_Minimum(x, x), ...): x at every kind of place -
    inside, at the ends, in the tolerance band, at the tolerance point +-ulp, beyond it by a little and by a lot, infinite, NaN - and pairs
    (x, x') at relative distances 1 ulp, 1e-16 .. 1e-6 in both orders; as first request of an object and after other requests"""
    for g in (grids[:10] + rng.sample(grids[10:], 10) if big else grids[:2] + rng.sample(grids[2:], 2)):
        tl, tr = 1e-2 * (g[1] - g[0]), 1e-2 * (g[-1] - g[-2]); w = g[-1] - g[0]
        xs = [g[0], g[-1], 0.5 * (g[0] + g[1]), g[len(g) // 2], g[0] - 0.5 * tl, g[-1] + 0.5 * tr, g[0] - tl, g[-1] + tr, na(g[0] - tl, math.inf), na(g[0] - tl, -math.inf),
              na(g[-1] + tr, math.inf), na(g[-1] + tr, -math.inf), g[0] - 1.2 * tl, g[-1] + 1.2 * tr, g[0] - 0.5 * (g[1] - g[0]), g[-1] + 0.5 * (g[-1] - g[-2]), g[0] - 3.0 * w, g[-1] + 10.0 * w,
              -1e300, 1e300, math.inf, -math.inf, math.nan, 0.0, -0.0]
        if not big: xs = xs[:8] + rng.sample(xs[8:12], 2) + xs[12:16] + rng.sample(xs[16:], 4)
        for x in xs:
            add(f"interp_integrate {flist(g)} {hx(x)} {hx(x)}", "coinciding-arguments", nt=True)
            k = rng.choice(["local_min", "local_max"]); add(f"{k} {flist(g)} {hx(x)} {hx(x)}", "coinciding-arguments", nt=True)
            if big: add(f"{'local_max' if k == 'local_min' else 'local_min'} {flist(g)} {hx(x)} {hx(x)}", "coinciding-arguments", nt=True)
            # the same on an object with unit arguments that has served requests before
            xd = rng.choice([-1.0, 10.0, 1e-3]); sx = scaled_table(g, xd); f = xd if xd > 0 else 1.0
            if sx is not None and not (math.isnan(x) or math.isinf(x)):
                pre = [f"ev {hx(rng.choice(sx))}", f"int {hx(sx[0])} {hx(sx[-1])}", f"loc {hx(0.5 * (sx[0] + sx[1]))}"]
                rng.shuffle(pre); pre = pre[:rng.randint(0, 2)]
                add(f"icalls {flist(g)} {len(g)} {hx(xd)} {hx(-1.0)} {len(pre) + 1} " + " ".join(pre + [f"{rng.choice(['int', 'int', 'min', 'max'])} {hx(x * f)} {hx(x * f)}"]), "coinciding-arguments", nt=True)
            if math.isnan(x) or math.isinf(x) or x == 0.0: continue
            near = [na(x, math.inf), na(x, -math.inf)] + [x * (1.0 + sg * r_) for r_ in (1e-16, 1e-13, 1e-10, 1e-6) for sg in (1.0, -1.0)]
            for y in rng.sample(near, 4 if big else 1):
                a, b = (x, y) if rng.random() < 0.5 else (y, x)
                add(f"interp_integrate {flist(g)} {hx(a)} {hx(b)}", "coinciding-arguments", nt=True)
                if big: add(f"local_min {flist(g)} {hx(min(a, b))} {hx(max(a, b))}", "coinciding-arguments", nt=True)
    # the other entry points with two arguments that may coincide: integration limits (an unknown method is refused before `a == b` is looked at) and root brackets
    for m in M1D + ["Bogus", "Monte-Carlo", "gauss-legendre"]:
        for a in (0.25, -1.0, 0.0, 1e300):
            add(f"nested int1 {m} {hx(a)} {hx(a)} 1 vec_at 3 3", "coinciding-arguments", nt=True)
    for (e_, a) in (("- x c 0x1p+0", 1.0), ("- x c 0x1p+0", 2.0), ("- x c 0x1p+0", -3.0), ("c 0x0p+0", 0.5), ("c nan", 0.5), ("sqrt x", -1.0), ("sqrt x", 0.0)):
        add(f"find_root {e_} {hx(a)} {hx(a)}", "coinciding-arguments", nt=True)


SIMPLE_BAD = ["angle 2 3", "vec_mul 0 3", "vec_at 3 3", "vec_at_c 0 0", "factorial 171", "vec_add 3 4", "trace 2 3", "mat_mul 2 3 2 3", "cross 3 2", "integrate Bogus", "integrate_2d Simpson", "gammaln 0x0p+0", "round 0x1p+0 8",
              "mat_at 2 2 2", "det 3 2", "inverse 1 2 0x1p+0 0x1p+1", "sub_matrix 3 3 -1 0", "mat_ctor 2 2 1", "import_list 0", "export_table 2 2 3 2", "in_units 1 2 1", "workload 0 5", "minimize 2 3", "gauss_legendre 2 2 2 1",
              "metropolis 1", "binned 2 3 0", "vsh_y 3", "binomial_coefficient -1 0", "pmf_binomial 5 0x1.8p+0 2", "cdf_poisson -0x1p+0 3", "inv_cdf_poisson 4 0x1p+1", "pdf_maxwell 0x0p+0", "inv_erf 0x1p+1",
              "find_root c 0x1p+0 0x0p+0 0x1p+0", "interp 2 0x1p+0 0x1p+0 2", "interp_table 2 2 0x0p+0 0x1p+0 1 0x1p+0", "locate 3 0x0p+0 0x1p+0 0x1p+1 0x1p+2", "interpolate 2 0x0p+0 0x1p+0 -0x1p-6",
              "interp_integrate 3 0x0p+0 0x1p+0 0x1p+1 0x1.8p+1 0x1.8p+1", "local_min 2 0x0p+0 0x1p+0 0x1p-1 0x1p-2", "interp2d 2 0x0p+0 0x1p+0 2 0x0p+0 0x1p+0 1 2", "closest 2 0x1p+1 0x1p+0 0x1p+0",
              "icalls 3 0x0p+0 0x1p+0 0x1p+1 3 0x1.4p+3 -0x1p+0 2 ev 0x1p+3 ev 0x1.8p+4", "fact_seq 2 f 170 f 171", "vec_hist 3 1 resize 2 at 2", "mat_hist 3 3 1 resize 2 5 plus 3 3", "rotation 4 3", "block 0", "gammaq -0x1p+0 0x1p+0"]
SIMPLE_GOOD = ["angle 3 3", "outer 2 3", "vec_at 3 2", "factorial 170", "vec_add 3 3", "trace 3 3", "mat_mul 2 3 3 2", "integrate Gauss-Legendre", "integrate_2d Vegas", "integrate_2d Trapezoidal", "integrate_mc Miser", "import_list 1", "export_table 2 2 2 2",
               "interpolate 2 0x0p+0 0x1p+0 -0x1p-8", "interp_integrate 3 0x0p+0 0x1p+0 0x1p+1 0x1p-1 0x1p-1", "find_root - x c 0x1p+0 0x0p+0 0x1p+1", "inv_erf 0x1p-1", "kde 7", "minimize 2 2", "metropolis 2", "binomial_coefficient 170 85",
               "icalls 3 0x0p+0 0x1p+0 0x1p+1 3 0x1.4p+3 -0x1p+0 2 ev 0x1p+3 int 0x1p+2 0x1p+2", "mat_hist 3 3 1 resize 2 5 plus 2 5", "fact_seq 2 f 170 f 3", "inverse 2 2 0x0p+0 0x1p+0 0x1p+0 0x0p+0", "cdf_binomial 5 0x1p-1 2"]


def gen_unit_collapse(rng, big, add):
    """tables that are strictly increasing as given, with two neighbouring abscissae 1 .. 3 ulp (and a geometric ladder of relative distances) apart, and unit
    arguments under which the products may round onto one double (the stored table is then not strictly increasing: the constructor must exit) or stay apart
    (it must return and judge requests on the stored table); tables whose last abscissae overflow to +inf together; tables that underflow onto 0 or onto one
    subnormal; at the first, an inner and the last pair, for the list and the table overload"""
    dims = [0.6, 0.1, 1.0, 3.0, 0.3, 0.7, 1.0 / 3.0, 0.5, 2.0, 1e-3, 10.0, 5.0677e15, 1.9733e-16, -1.0]
    bases = [1.0, 1.5, 3.0, 7.0, 1e6 + 0.5, 0.1, 1e-3, -2.0, -1e3, 123.456]
    def tables(x0, x1):
        """tables that hold the close pair (x0, x1) at the front, inside and at the end"""
        w = max(abs(x0), 1e-300)
        return [[x0, x1, x1 + w, x1 + 2 * w], [x0 - w, x0, x1, x1 + w], [x0 - 2 * w, x0 - w, x0, x1], [x0, x1]]
    for b in (bases if big else rng.sample(bases, 4)):
        gaps = [1, 2, 3] + ([4, 8] if big else [])
        pairs = [(b, b + k * (na(b, math.inf) - b)) for k in gaps] + [(b, b * (1 + r) if b > 0 else b * (1 - r)) for r in ((1e-15, 1e-13, 1e-10) if big else (rng.choice([1e-15, 1e-13]),))]
        for (x0, x1) in pairs:
            if not x0 < x1: continue
            for d in (dims if big else [0.6, 0.1, 1.0, 3.0] + rng.sample(dims[4:], 2)):
                tbs = tables(x0, x1)
                for g in (tbs if big else rng.sample(tbs, 2)):
                    if not valid_table(g): continue
                    table = rng.random() < 0.3
                    h = (f"icalls_t {len(g)} " + " ".join(f"2 {hx(x)} {hx(1.0)}" for x in g) if table else f"icalls {flist(g)} {len(g)}") + f" {hx(d)} {hx(rng.choice([-1.0, 2.5]))}"
                    sx = converted(g, d)
                    if valid_table(sx) and rng.random() < 0.5: add(f"{h} 2 ev {hx(sx[0])} loc {hx(sx[-1])}", "units-collapse", nt=True)
                    else: add(f"{h} 0", "units-collapse", nt=True)
    # the top of the table overflows: two or more abscissae become +inf (refused), exactly one becomes +inf (accepted), none does
    for g in [[1e300, 1.5e300], [0.0, 1e300, 1.5e300], [0.0, 1e300, 1.5e300, 1.7e308], [-1.5e300, -1e300, 0.0], [1.0, 1e308, 1.7e308], [-1.7e308, -1e308, 1.0, 2.0]]:
        for d in (1e10, 10.0, 2.0, 1.0 + 2.0 ** -52, 1.01):
            add(f"icalls {flist(g)} {len(g)} {hx(d)} {hx(-1.0)} 0", "units-collapse", nt=True)
            if big or rng.random() < 0.3: add(f"icalls_t {len(g)} " + " ".join(f"2 {hx(x)} {hx(1.0)}" for x in g) + f" {hx(d)} {hx(-1.0)} 0", "units-collapse", nt=True)
    # the bottom underflows: neighbours become one subnormal or zero
    for g in [[1e-300, 2e-300, 3e-300], [0.0, 1e-310, 2e-310], [-1e-300, 0.0, 1e-300], [DMIN, 2 * DMIN, 3 * DMIN], [-2e-308, -1e-308, 1.0]]:
        for d in (1e-30, 0.5, 0.25, 1e-300, 0.6):
            add(f"icalls {flist(g)} {len(g)} {hx(d)} {hx(-1.0)} 0", "units-collapse", nt=True)


def gen_process_histories(rng, big, add, pool):
    """a request that is not the first one the process makes, and a request made while another one is running:
    (a) `nested`: a guarded request made by the function handed to Integrate / Integrate_2D / Integrate_3D / Find_Root (an integrand that evaluates an
        interpolation outside its table, ...), for every method, with the limits of every dimension ascending, descending (a legal request: the sign is swapped)
        and coinciding (the integrand is not reached), on the 1st .. 3rd evaluation;
    (b) `session`: several requests in one process - earlier ones that returned, that were abandoned by an exception thrown from the call-back (which the caller
        caught), integrations with descending limits, Monte Carlo integrations, file requests - followed by a request on either side of a guard;
        the diagnostic is that of the last request alone"""
    bad = SIMPLE_BAD if big else rng.sample(SIMPLE_BAD, 14)
    good = SIMPLE_GOOD if big else rng.sample(SIMPLE_GOOD, 5)
    def lim2(kind):
        a, b = rng.choice([(0.0, 1.0), (-1.5, 2.0), (0.25, 0.5), (1e-3, 1e3)])
        if kind == "asc": return a, b
        if kind == "desc": return b, a
        if kind == "ulp": return (a, na(a, math.inf)) if rng.random() < 0.5 else (na(a, math.inf), a)
        return a, a
    orders = ["asc", "desc", "eq"]
    def entry(e, m, kinds):
        ls = []
        for k_ in kinds: ls += list(lim2(k_))
        return f"{e} {m} " + " ".join(hx(v) for v in ls)
    # (a) every method x every pattern of limit orders (2D: all 9; 1D: 3 + ulp-close limits; 3D: a sample), inner request meaningless / meaningful / an exception
    ent = []
    for m in M1D + MMC + ["Bogus"]:
        for kx in orders:
            if m not in MMC: ent.append(entry("int1", m, [kx]))
            for ky in orders:
                if big or rng.random() < 0.5: ent.append(entry("int2", m, [kx, ky]))
        for _ in range(1 if not big else 6):
            if m in ("Trapezoidal", "Tanh-Sinh", "Adaptive-Simpson", "Gauss-Kronrod") and not big: continue
            ent.append(entry("int3", m, [rng.choice(orders) for _ in range(3)]))
    for m in ("Gauss-Legendre", "Trapezoidal", "Gauss-Legendre_2"): ent.append(entry("int1", m, ["ulp"])); ent.append(entry("int2", m, ["ulp", "desc"]))
    for (e_, a, b) in [("- x c 0x1p+0", 0.0, 3.0), ("- x c 0x1p+0", 3.0, 0.0), ("- x c 0x1p+0", 2.0, 3.0), ("- x c 0x1p+0", 1.0, 1.0), ("c nan", 0.0, 1.0)]:
        ent.append(f"root {e_} {hx(a)} {hx(b)}")
    for e in ent:
        kmax = 2 if e.startswith("root") else 3
        subs = [rng.choice(bad)] + ([rng.choice(good + ["throw"])] if rng.random() < 0.4 else []) if not big else rng.sample(bad, 4) + rng.sample(good, 2) + ["throw"]
        for sub in subs: add(f"nested {e} {rng.randint(1, kmax)} {sub}", "request-inside-callback", nt=True)
    # (b) histories
    leave = [f"nested {entry('int2', m, [kx, ky])} {rng.randint(1, 3)} throw" for m in M1D + MMC for kx in ("asc", "desc") for ky in ("asc", "desc")]
    leave += [f"nested {entry('int1', m, [kx])} {rng.randint(1, 3)} throw" for m in M1D for kx in ("asc", "desc")]
    leave += [f"nested {entry('int3', m, ['desc', 'asc', 'desc'])} 2 throw" for m in ("Gauss-Legendre", "Vegas", "Miser")]
    leave += [f"nested root - x c 0x1p+0 0x0p+0 0x1.8p+1 {k_} throw" for k_ in (1, 2)]
    leave += [f"nested {entry('int2', m, ['desc', 'desc'])} 1 factorial 5" for m in M1D[:2] + MMC]       # completed integrations with descending limits (warnings are printed)
    leave += [f"nested {entry('int1', m, ['desc'])} 1 vec_at 3 0" for m in M1D]
    if not big: leave = rng.sample(leave, 32)
    for h in leave:
        for last in ([rng.choice(bad)] if not big else rng.sample(bad, 3) + [rng.choice(good)]):
            pre = [rng.choice(good)] if rng.random() < 0.3 else []
            seq = pre + [h, last]
            add(f"session {len(seq)} " + " ;; ".join(seq), "process-history", nt=True)
    # any earlier requests of the whole case language (those with a verdict, outside the regions of the known findings), then a request next to a guard
    def usable(c):
        t = c.line.split()
        if t[0] in ("session", "nested") or len(c.line) > 400: return False
        if t[0] == "mat_hist" and mat_ref(t)[2]: return False
        if t[0] in ("icalls", "icalls_t") and "save" in t: return False
        return True
    cand = [c.line for c in pool if usable(c)]
    rng.shuffle(cand)
    goods, bads = [], []
    for l in cand:
        try: m = meaningful(l)
        except (ValueError, IndexError): continue
        if m is True and len(goods) < (60 if not big else 1500): goods.append(l)
        elif m is False and len(bads) < (30 if not big else 800): bads.append(l)
        if len(goods) >= (60 if not big else 1500) and len(bads) >= (30 if not big else 800): break
    for i, last in enumerate(bads + goods[:len(goods) // 3]):
        k = rng.choice([1, 2, 3]); seq = [rng.choice(goods) for _ in range(k)] + [last]
        add(f"session {len(seq)} " + " ;; ".join(seq), "process-history", nt=True)


def gen_nonfinite_tables(rng, big, add):
    """abscissae that are not finite: "not strictly increasing" includes a repeated +inf or -inf (inf - inf is NaN, inf <= inf is true), and an
    infinite abscissa in a strictly increasing table is no reason to refuse it; tables with a NaN have no verdict here and are compared with the model only"""
    inf, nan, big_ = math.inf, math.nan, 1.7976931348623157e308
    bad = [[inf, inf], [-inf, -inf], [0.0, 1.0, inf, inf], [-inf, -inf, 0.0, 1.0], [0.0, inf, inf], [-inf, -inf, 0.0], [inf, -inf], [inf, 0.0], [0.0, inf, 1.0], [0.0, -inf], [-inf, -inf, inf, inf],
           [1.0, inf, inf, inf], [-inf, 0.0, 1.0, inf, inf], [-inf, -inf, 0.0, 1.0, inf], [0.0, 1.0, 2.0, inf, inf, inf], [big_, inf, inf], [-inf, -inf, -big_]]
    good = [[-inf, inf], [0.0, inf], [-inf, 0.0], [-inf, 0.0, inf], [0.0, 1.0, inf], [-inf, 0.0, 1.0, 2.0], [big_, inf], [-inf, -big_], [-big_, big_], [-big_, 0.0, big_], [-inf, -big_, big_, inf]]
    unknown = [[0.0, nan], [nan, 0.0], [0.0, nan, 1.0], [nan, nan], [0.0, 1.0, nan, nan], [inf, nan], [nan, inf, inf], [0.0, 2.0, nan, 1.0], [inf, inf, nan]]
    if not big: good = good[:4] + rng.sample(good[4:], 3); unknown = rng.sample(unknown, 4)
    gy = [-1.0, 0.0, 4.0]
    for xs in bad + good + unknown:
        n = len(xs)
        add(f"interp {flist(xs)} {n}", "nonfinite-table", nt=True)
        add(f"interp_table {n} " + " ".join(f"2 {hx(x)} {hx(1.0)}" for x in xs), "nonfinite-table", nt=True)
        xd = rng.choice([10.0, 0.5, 1e-3, 5.0677e15])
        add(f"icalls {flist(xs)} {n} {hx(xd)} {hx(-1.0)} 0", "nonfinite-table", nt=True)
        add(f"icalls_t {n} " + " ".join(f"2 {hx(x)} {hx(1.0)}" for x in xs) + f" {hx(rng.choice([-1.0, 2.0]))} {hx(2.5)} 0", "nonfinite-table", nt=True)
        # an evaluation at a finite point between the finite abscissae (the table decides)
        fin = [v for v in xs if not (math.isinf(v) or math.isnan(v))]
        x = 0.5 * (fin[0] + fin[-1]) if len(fin) >= 2 and abs(fin[0]) < 1e300 else 0.5
        add(f"icalls {flist(xs)} {n} {hx(-1.0)} {hx(-1.0)} 1 {rng.choice(['ev', 'loc'])} {hx(x)}", "nonfinite-table", nt=True)
        add(f"interpolate {flist(xs)} {hx(x)}", "nonfinite-table", nt=True)
        # both axes of the two-dimensional tables (list and table overload, with and without unit arguments)
        add(f"interp2d {flist(xs)} {flist(gy)} {ilist([len(gy)] * n)}", "nonfinite-table", nt=True)
        add(f"interp2d {flist(gy)} {flist(xs)} {ilist([n] * len(gy))}", "nonfinite-table", nt=True)
        a, b = rng.choice([(-1.0, -1.0), (2.0, -1.0), (-1.0, 0.5), (3.0, 1e-3)])
        if rng.random() < 0.5: add(f"i2calls {flist(xs)} {flist(gy)} {ilist([len(gy)] * n)} {hx(a)} {hx(b)} {hx(-1.0)} 0", "nonfinite-table", nt=True)
        else: add(f"i2calls {flist(gy)} {flist(xs)} {ilist([n] * len(gy))} {hx(a)} {hx(b)} {hx(-1.0)} 0", "nonfinite-table", nt=True)
        if xs in bad or big:
            rows = [[x, y, 1.0] for x in xs for y in gy] if rng.random() < 0.5 else [[y, x, 1.0] for y in gy for x in xs]
            add(f"interp2d_table {len(rows)} " + " ".join(flist(r) for r in rows), "nonfinite-table", nt=True)
    # unit arguments that carry the last abscissae to infinity: both constructors validate the converted table (see also gen_unit_collapse); the two-dimensional
    # one after the conversion (compared with the model; no verdict of its own, see ASSUMPTIONS)
    for xs in [[1e300, 1.5e300], [0.0, 1e300, 1.5e300], [-1.5e300, -1e300, 0.0]]:
        add(f"icalls {flist(xs)} {len(xs)} {hx(1e10)} {hx(-1.0)} 0", "nonfinite-table", nt=True)
        add(f"i2calls {flist(xs)} {flist(gy)} {ilist([len(gy)] * len(xs))} {hx(1e10)} {hx(-1.0)} {hx(-1.0)} 0", "nonfinite-table", nt=True)
        add(f"i2calls {flist(gy)} {flist(xs)} {ilist([len(xs)] * len(gy))} {hx(-1.0)} {hx(1e10)} {hx(-1.0)} 0", "nonfinite-table", nt=True)
    for l in [[-inf, 0.0, inf], [inf, -inf], [0.0, inf, inf], [-inf, -inf], [inf], [0.0, inf, 1.0]]:
        for tg in (-inf, 0.5, inf): add(f"closest {flist(l)} {hx(tg)}", "nonfinite-table", nt=True)


def gen_save_edges(rng, big, add):
    """Save_Function on tables whose last interval is a few ulp .. many ulp of the last abscissa wide (a geometric ladder): the last sampling point
    domain[0] + (points-1) * step is domain[1] only up to rounding, and 1 % of the last interval is the room it has"""
    pairs = [(0.1, 1e6 + 0.1), (1.1, 1000.3), (-0.7, 2.3), (0.3, 0.7), (1e-3, 5.7), (-1000.3, -1.1), (0.0, 1.0), (-1.0, 1.0)]
    pairs += [(rng.uniform(-10, 10), rng.uniform(11, 1e4)) for _ in range(2 if not big else 12)]
    widths = [1, 2, 4, 16, 64, 99, 100, 101, 128, 200, 256, 1024, 2 ** 20, 2 ** 30]
    for (d0, d1) in pairs:
        u = na(d1, math.inf) - d1
        for k in (widths if big else rng.sample(widths[:9], 4) + rng.sample(widths[9:], 1)):
            xs = [d0, 0.5 * (d0 + d1), d1 - k * u, d1]
            if not valid_table(xs): continue
            xd = rng.choice([-1.0, -1.0, -1.0, 10.0, 0.5])
            for n_ in rng.sample(range(2, 80), 10 if big else 3):
                add(f"icalls {flist(xs)} 4 {hx(xd)} {hx(-1.0)} 1 save {n_}", "save-function", nt=True)


def gen_long_sessions(rng, big, add):
    """tables of every size class (2, 3, around the 10-interval correlation window, powers of two and their neighbours, several hundred to a thousand
    points), an object that has already served requests (ascending / repeated / far-jump / descending histories that leave the search state at a chosen
    distance m from either end of the table, or in the tolerance band itself), and then a request inside the 1 % tolerance band beyond that end (meaningful:
    answered from the outermost interval) or just beyond the band (meaningless)"""
    def grid(n):
        if rng.random() < 0.4: return [float(k) for k in range(n)]
        g = [rng.choice([-7.0, 0.0, 3.5])]
        for _ in range(n - 1): g.append(g[-1] + rng.choice([0.25, 0.5, 1.0, 1.0, 3.0]))
        return g
    if big: lengths = [2, 3, 4, 5, 9, 10, 11, 12, 13, 21, 32, 33, 64, 65, 128, 129, 255, 256, 257, 258, 300, 511, 512, 513, 1000, 1024, 1025]
    else: lengths = [2, 3, 11, 12, rng.choice([21, 33, 64, 65, 129]), 256, 257, rng.choice([258, 300, 511, 512]), 513, rng.choice([1000, 1024, 1025])]
    def call(kind, x, y=None):
        if kind in ("loc", "ev"): return f"{kind} {hx(x)}"
        if kind == "der": return f"der {hx(x)} {rng.choice([0, 1, 2, 3, 4, 6, UMAX])}"
        return f"{kind} {hx(x)} {hx(y)}"
    for n in lengths:
        for rep in range(1 if (not big or n > 300) else 2):
            g = grid(n); xd = rng.choice([-1.0, -1.0, 10.0, 1.5 * 2.0 ** -40, 1e6]); fd = rng.choice([-1.0, 2.5])
            sx = scaled_table(g, xd)
            if sx is None: continue
            h = f"icalls {flist(g)} {n} {hx(xd)} {hx(fd)}"
            tol = {"R": 1e-2 * (sx[-1] - sx[-2]), "L": 1e-2 * (sx[1] - sx[0])}
            edge = {"R": sx[-1], "L": sx[0]}; sgn = {"R": 1.0, "L": -1.0}
            def inside(j, f=None):
                j = min(max(j, 0), n - 2); f = rng.choice([0.0, 0.25, 0.5, 0.75]) if f is None else f
                return sx[j] + f * (sx[j + 1] - sx[j])
            def band(side):
                f = rng.choice([1e-13, 1e-9, 1e-6, 1e-3, 0.004, 0.1, 0.4, 0.9, 0.99, "ulp"])
                if f == "ulp": return na(edge[side], sgn[side] * math.inf)
                return edge[side] + sgn[side] * f * tol[side]
            def beyond(side): return edge[side] + sgn[side] * rng.choice([1.01, 1.5, 3.0, 100.0, 1e6]) * tol[side]
            def final(side, x):
                """one request that involves the point x beyond the end `side`"""
                kind = rng.choice(["loc", "loc", "ev", "ev", "der", "int", "min", "max"])
                if kind in ("loc", "ev", "der"): return call(kind, x)
                y = inside(rng.randrange(n - 1))
                return call(kind, y, x) if side == "R" else call(kind, x, y)
            ms = [0] + (sorted(rng.sample(range(1, 18), 3)) if not big else list(range(1, 9)) + sorted(rng.sample(range(9, 18), 4)) + [31, 63])
            for side in ("R", "L"):
                for m in ms:
                    if m > n - 2: continue
                    j = n - 2 - m if side == "R" else m         # the interval in which the search state is left
                    step = 1 if side == "R" else -1
                    hists = {"sweep": [inside(j - step * k) for k in range(rng.choice([2, 3, 5]), -1, -1)], "same": [inside(j, 0.25), inside(j, 0.75)],
                             "jump": [inside(n - 2 - j), inside(j)], "into": [inside(j - 1), inside(j - 1), inside(j)] if side == "L" else [inside(j + 1), inside(j)]}
                    for name in (hists if big else ["sweep", "same", rng.choice(["jump", "into"])]):
                        calls = [call(rng.choice(["ev", "ev", "loc", "der"]), x) for x in hists[name]]
                        add(f"{h} {len(calls) + 1} " + " ".join(calls) + " " + final(side, band(side)), "long-table-history", nt=True)
                    if m == ms[0] or big:
                        calls = [call("ev", x) for x in hists["same"]]
                        add(f"{h} {len(calls) + 1} " + " ".join(calls) + " " + final(side, beyond(side)), "long-table-history", nt=True)
                # the tolerance band itself as history: repeated band requests, then the other end, then the interior
                other = "L" if side == "R" else "R"
                add(f"{h} 3 {call('ev', band(side))} {call('loc', band(side))} {final(side, band(side))}", "long-table-history", nt=True)
                add(f"{h} 4 {call('ev', band(side))} {call('ev', band(side))} {call('loc', band(other))} {call('loc', inside(rng.randrange(n - 1)))}", "long-table-history", nt=True)
                add(f"{h} 1 {final(side, band(side))}", "long-table-history", nt=True)
            # a sweep over the whole table in steps of s intervals, overshooting the last abscissa
            s_ = max(1, (n - 1) // rng.choice([3, 7, 20]))
            xs_ = [inside(k, 0.5) for k in range(0, n - 1, s_)] + [inside(n - 2, 0.5)]
            add(f"{h} {len(xs_) + 1} " + " ".join(call("ev", x) for x in xs_) + " " + call("ev", band("R")), "long-table-history", nt=True)
            add(f"{h} {len(xs_) + 1} " + " ".join(call("ev", x) for x in reversed(xs_)) + " " + call("ev", band("L")), "long-table-history", nt=True)
            # Save_Function: the library's own ascending sweep over [domain[0], domain[1]] (its last point is domain[1] up to rounding)
            for n_ in ([n, 2 * n + 1, 3 * n - 1, rng.randrange(2, 4 * n)] if big else [rng.choice([n, 2 * n + 1, 3 * n - 1]), rng.randrange(2, 4 * n)]):
                add(f"{h} 1 save {n_}", "save-function", nt=True)
                add(f"{h} 3 {call('ev', inside(n - 2))} save {n_} {call('loc', band('R'))}", "save-function", nt=True)
    # two-dimensional tables with one long axis: the two Locate objects inside have their own histories
    for n in ([300] if not big else [12, 257, 300, 513]):
        gx = [float(k) for k in range(n)]; gy = [-1.0, 0.0, 4.0, 5.0]
        for (lx, ly, swap) in ((gx, gy, False), (gy, gx, True)):
            h = f"i2calls {flist(lx)} {flist(ly)} {ilist([len(ly)] * len(lx))} {hx(-1.0)} {hx(-1.0)} {hx(-1.0)}"
            for side in ("R", "L"):
                for m in ([0, rng.randrange(1, 17)] if not big else range(0, 17)):
                    if m > n - 2: continue
                    j = n - 2 - m if side == "R" else m
                    e = (gx[-1] + rng.choice([1e-9, 0.004, 0.009]) * (gx[-1] - gx[-2])) if side == "R" else (gx[0] - rng.choice([1e-9, 0.004, 0.009]) * (gx[1] - gx[0]))
                    longs = [gx[j] + 0.25, gx[j] + 0.75, e]
                    pts = [((u, rng.choice([-0.5, 2.0, 4.5])) if not swap else (rng.choice([-0.5, 2.0, 4.5]), u)) for u in longs]
                    add(f"{h} {len(pts)} " + " ".join(f"{hx(x)} {hx(y)}" for x, y in pts), "long-table-history", nt=True)


def gen_double_range(rng, big, add):
    """meaningful requests whose function values / abscissae / parameters sit anywhere in the exponent range of a double: every value scaled by 2^k, k over
    subnormal (2^-1074..), tiny normal (around 2^-537, where the product of two values underflows to +-0), ordinary, huge (around 2^512, where it overflows)
    and the top of the range; root brackets with end values of opposite sign in both orders.  A guard written with a product / difference / square of its
    arguments instead of comparisons refuses (or accepts) such a request."""
    ks = [-1074, -1073, -1070, -1050, -1023, -1022, -1021, -1000, -900, -800, -700, -600, -560, -545, -540, -539, -538, -537, -536, -535, -530, -520, -500, -400, -300, -100, -1, 0, 1, 100,
          300, 500, 510, 511, 512, 513, 520, 540, 600, 800, 1000, 1020, 1022]
    if big: ks = sorted(set(ks + list(range(-1074, 1023, 7))))
    for k in ks:
        s_ = math.ldexp(1.0, k)
        # Find_Root: f = +-s (x - 1), +-s tanh(x - 1), +-s (x^3 - 8): end values of opposite sign and magnitude ~ s (and s times 1e-3 .. 1e2)
        for sg in (1.0, -1.0):
            c_ = hx(sg * s_)
            for (e, xl, xr) in ((f"* c {c_} - x c {hx(1.0)}", 0.0, 3.0), (f"* c {c_} - x c {hx(1.0)}", 3.0, 0.0), (f"* c {c_} - x c {hx(1.0)}", 0.999, 101.0),
                                (f"* c {c_} tanh - x c {hx(1.0)}", -2.0, 1.5), (f"* c {c_} - pow x {hx(3.0)} c {hx(8.0)}", 0.0, 5.0)):
                if k <= -1070 and "tanh" not in e and xl != 0.999: pass
                add(f"find_root {e} {hx(xl)} {hx(xr)}", "double-range", "find-root-scaled", nt=True)
        if k >= -1022:
            # the two end values far apart in magnitude: f = s (x - 1) on [1 - 2^-40, 1 + 2^40]
            add(f"find_root * c {hx(s_)} - x c {hx(1.0)} {hx(1.0 - 2.0 ** -40)} {hx(1.0 + 2.0 ** 40)}", "double-range", "find-root-scaled", nt=True)
        # interpolation tables with abscissae s * (1, 1.5, 1.75, 3): constructor, Locate, Interpolate, Integrate, Local_Minimum inside and at the ends
        if k <= 1020:
            g = [s_ * v for v in (1.0, 1.5, 1.75, 3.0)]
            if valid_table(g):
                add(f"interp {flist(g)} {len(g)}", "double-range", nt=True)
                for x in (g[0], 1.25 * s_, g[2], 2.5 * s_, g[-1]):
                    add(f"locate {flist(g)} {hx(x)}", "double-range", nt=True); add(f"interpolate {flist(g)} {hx(x)}", "double-range", nt=True)
                add(f"interp_integrate {flist(g)} {hx(g[0])} {hx(g[-1])}", "double-range", nt=True)
                add(f"local_min {flist(g)} {hx(1.25 * s_)} {hx(2.5 * s_)}", "double-range", nt=True)
                add(f"locate_trace {flist(g)} {flist([1.25 * s_, 1.6 * s_, 2.5 * s_, g[0]])}", "double-range", nt=True)
                add(f"icalls {flist(g)} {len(g)} {hx(-1.0)} {hx(s_)} 3 ev {hx(1.25 * s_)} int {hx(g[0])} {hx(g[-1])} glob", "double-range", nt=True)
            add(f"closest {flist([-s_, 0.0, s_, 2.0 * s_])} {hx(1.4 * s_)}", "double-range", nt=True)
        # positive parameters and probabilities anywhere in the range
        add(f"gammaln {hx(s_)}", "double-range", nt=True)
        for op in ("pdf_exponential", "cdf_exponential", "pdf_maxwell", "cdf_maxwell"): add(f"{op} {hx(s_)}", "double-range", nt=True)
        if k <= 6: add(f"pmf_poisson {hx(s_)} {rng.choice([0, 1, 3])}", "double-range", nt=True)
        if k <= 0:
            add(f"pmf_binomial 5 {hx(s_)} 2", "double-range", nt=True); add(f"inv_cdf_poisson 0 {hx(s_)}", "double-range", nt=True)
        # Inverse of s (1x1) and of diag(s, 1/s) (determinant exactly 1)
        add(f"inverse 1 1 {hx(s_)}", "double-range", nt=True)
        if -1000 <= k <= 1000: add(f"inverse 2 2 {hx(s_)} {hx(0.0)} {hx(0.0)} {hx(1.0 / s_)}", "double-range", nt=True)
        # integration limits anywhere in the range (the request made by the call-back is meaningful)
        if -1000 <= k <= 1000:
            # (Tanh-Sinh with limits of 2^510 and more ends in an uncaught boost::math::evaluation_error - reported to the lead, not generated here)
            m = rng.choice([m_ for m_ in M1D if not (m_ == "Tanh-Sinh" and k > 500)])
            add(f"nested int1 {m} {hx(s_)} {hx(2.0 * s_)} 1 factorial 5", "double-range", nt=True)


def gen_locate_traces(rng, big, add):
    """Locate with its search state (jLast, correlated_calls): walks over tables of every size class that drive every branch of Hunt() - a step of 0..9
    intervals upwards makes the next request a hunt; from there: the same interval, a tabulated abscissa (+-1 ulp), a hunt upwards / downwards over 1, 2, 3,
    4, 7, 8, 9, ... intervals up to either end of the table (the doubling stride runs off the range), the first / last abscissa, the tolerance bands,
    and sometimes a refused request at the end"""
    sizes = [2, 3, 4, 5, 8, 9, 12, 17, 33, 64, 65, 100] + ([129, 257, 300, 1025, 2049] if big else [rng.choice([129, 257, 300, 1025])])
    for n in sizes:
        for rep in range((6 if n <= 100 else 3) if big else (3 if n <= 17 else 2)):
            if rng.random() < 0.4: g = [float(k) for k in range(n)]
            else:
                g = [rng.choice([-7.0, 0.0, 3.5, 1e3])]
                for _ in range(n - 1): g.append(g[-1] + rng.choice([0.25, 0.5, 1.0, 1.0, 3.0, 1e-3]))
            def at(j, mode=None):
                j = min(max(j, 0), n - 2); mode = mode or rng.choice(["mid", "mid", "knot", "knot+", "next-", "next", "q"])
                if mode == "knot": return g[j]
                if mode == "knot+": return na(g[j], math.inf)
                if mode == "next-": return na(g[j + 1], -math.inf)
                if mode == "next": return g[j + 1]
                return g[j] + (0.5 if mode == "mid" else rng.choice([0.001, 0.25, 0.75, 0.999])) * (g[j + 1] - g[j])
            j = rng.randrange(n - 1); xs_ = [at(j)]
            for _ in range(rng.choice([4, 8, 14, 25]) if big else rng.choice([4, 8, 14])):
                k = rng.random()
                if k < 0.30: j = min(n - 2, j + rng.randrange(0, 10))                       # correlated step: the next request hunts
                elif k < 0.45: j = max(0, j - rng.choice([1, 2, 3, 4, 5, 7, 8, 9, 15, 16, 17, 31, 33, 100, 2000]))
                elif k < 0.60: j = min(n - 2, j + rng.choice([1, 2, 3, 4, 5, 7, 8, 9, 10, 11, 15, 16, 17, 31, 33, 100, 2000]))
                elif k < 0.68: j = rng.choice([0, n - 2])
                elif k < 0.76: j = rng.randrange(n - 1)
                elif k < 0.82: xs_.append(rng.choice([g[0], g[-1]])); j = 0 if xs_[-1] == g[0] else n - 2; continue
                elif k < 0.88:
                    side = rng.random() < 0.5; f = rng.choice([1e-9, 0.004, 0.5, 0.99])
                    xs_.append(g[-1] + f * 1e-2 * (g[-1] - g[-2]) if side else g[0] - f * 1e-2 * (g[1] - g[0])); j = n - 2 if side else 0; continue
                xs_.append(at(j))
            t = rng.random()
            if t < 0.15: xs_.append(rng.choice([g[-1] + 0.5 * (g[-1] - g[-2]), g[0] - 2.0 * (g[1] - g[0]), math.nan, math.inf]))
            add(f"locate_trace {flist(g)} {flist(xs_)}", "locate-search-state", nt=True)
    # hand-made: every stride of the hunt from both ends of a 40-point table, at knots and between them
    g = [float(k) for k in range(40)]
    for d in (1, 2, 3, 4, 5, 7, 8, 9, 15, 16, 17, 31, 32, 38):
        for f in (0.0, 0.5):
            add(f"locate_trace {flist(g)} {flist([0.5, 1.5, 1.5 + d - f])}", "locate-search-state", nt=True)                 # hunt up over d intervals
            add(f"locate_trace {flist(g)} {flist([37.5, 38.5, 38.5 - d + f])}", "locate-search-state", nt=True)              # hunt down over d intervals
    for xs_ in ([0.0, 0.0, 39.0, 39.0, 0.0], [39.0, 39.0, 0.0], [0.5, 0.5, 39.0], [38.5, 38.5, 0.0], [5.0, 5.0, 5.0, 4.0, 6.0], [5.0, 6.0, 7.0, 6.0]):
        add(f"locate_trace {flist(g)} {flist(xs_)}", "locate-search-state", nt=True)
    # exhaustive: every pair (interval in which the search state was left, interval of the next request) of a table, so every stride of both hunting
    # loops, both range cuts (jd - dj = -1, -2, ...; ju + dj = N, N + 1, ...) and every width of the final bisection occur
    for n in ([34] if not big else [5, 34, 66, 130]):
        g = [float(k) for k in range(n)] if n != 5 else [-1.0, 0.0, 0.5, 4.0, 4.25]
        for j in range(n - 1):
            for mode in (("mid",) if not big else ("mid", "knot")):
                pos = (lambda i: 0.5 * (g[i] + g[i + 1])) if mode == "mid" else (lambda i: g[i])
                xs_ = []
                for t_ in range(n - 1): xs_ += [pos(j), pos(j), pos(t_)]
                add(f"locate_trace {flist(g)} {flist(xs_)}", "locate-search-state", "locate-every-pair", nt=True)
    for bad in ([], [1.0], [1.0, 1.0], [2.0, 1.0]): add(f"locate_trace {flist(bad)} {flist([1.0])}", "locate-search-state", nt=True)
    add(f"locate_trace {flist([0.0, 1.0])} {flist([0.0, 1.0, 0.5, 1.0, 0.0])}", "locate-search-state", nt=True)


# ------------------------------------------------------------------ comparison, S4, non-triviality
def compare(c, io, mo, tol):
    """model and implementation correspond when the outcome kinds agree; a model OOB (undefined behaviour predicted) corresponds to a
    crash or sanitizer report of the implementation (and is reported as a violation by extra())."""
    if io == mo: return True, True, ""
    if mo == "OOB" and io.split()[:1] and io.split()[0] in ("CRASH", "SANITIZER"): return True, False, ""
    return False, False, f"impl {io} model {mo}"


def predicates(c, io):
    head = io.split()[0] if io else ""
    if head in ("CRASH", "SANITIZER", "TIMEOUT", "HARNESSERR", "EXIT0", "EXIT_NODIAG"): return []    # reported generically by the pipeline
    op = c.line.split()[0]
    try: m = meaningful(c.line)
    except (ValueError, IndexError) as e: return [(op + ":predicate-error", f"cannot parse case: {e!r}")]
    if m is None: return []
    t = c.line.split(); region = ""
    if op == "mat_hist" and mat_ref(t)[2]: region = ":after-zero-row-result"
    if op in ("icalls", "icalls_t") and m and head == "EXIT" and save_overshoot(t): region = ":save-function-overshoot"
    if m and head != "OK": return [(op + ":meaningful-request-exits" + region, f"a meaningful request did not return normally ({io})")]
    if (not m) and head != "EXIT": return [(op + ":meaningless-request-accepted" + region, f"a request with no mathematical meaning returned normally ({io}) instead of exiting with a diagnostic")]
    out = []
    if m and head == "OK":
        got = io.split()[1:]
        if op == "mat_hist":
            _, shape, _ = mat_ref(t)
            if len(got) != 3: return [(op + ":output", f"unexpected output {io}")]
            R, C, bad = (int(x) for x in got)
            if (R, C) != shape:
                out.append((op + ":result-shape" + region, f"after this history the matrix is {shape[0]}x{shape[1]}, the object says {R}x{C}: the next conformable request will be refused, the next non-conformable one accepted"))
            if bad != 0:
                out.append((op + ":row-length-invariant", f"{bad} of the {R} rows of the object do not hold Columns() = {C} entries: every shape guard passes for conformable operands and the element loop reads or writes out of bounds"))
        elif op == "locate_trace":
            xs, pos = rd_list(t, 1, tokf); args, _ = rd_list(t, pos, tokf)
            try: v = [int(x) for x in got]; ok = len(v) == 1 + 3 * len(args) and v[0] == len(args)
            except ValueError: ok = False
            if not ok: return [(op + ":output", f"unexpected output {io}")]
            for k, x in enumerate(args):
                j, jl = v[1 + 3 * k], v[2 + 3 * k]
                if not interval_ok(xs, x, j):
                    where = "beyond the last interval: every coefficient read with it is out of bounds" if j > len(xs) - 2 else "an interval that does not contain the argument"
                    out.append((op + ":locate-index", f"Locate request {k + 1} of the sequence, x = {x!r}: returned index {j} of a table with intervals 0..{len(xs) - 2} ({where})")); break
                if jl != j:
                    out.append((op + ":search-state", f"Locate request {k + 1} of the sequence returned {j} but left jLast = {jl}: the next hunt starts from an index that was never validated")); break
        elif op == "vec_hist":
            _, d = vec_ref(t)
            if len(got) != 1 or int(got[0]) != d: out.append((op + ":result-size", f"after this history the vector has {d} components, the object says {io}"))
        elif op in ("icalls", "icalls_t", "i2calls", "i2calls_t"):
            one = op.startswith("icalls")
            _, dom = (icalls_ref if one else i2calls_ref)(t)
            nd = 2 if one else 4
            if len(got) < nd + 1: return [(op + ":output", f"unexpected output {io}")]
            vals = [tokf(x) for x in got[:nd]]
            if dom is not None and any(a != b for a, b in zip(vals, dom)):
                out.append((op + ":domain", f"`domain` is {vals} but the tabulated (converted) abscissae span {list(dom)}: requests are judged against the wrong interval"))
            if one:
                sx, args = icalls_locs_ref(t)
                try: locs = [int(x) for x in got[nd + 1:-1]]; ok = int(got[nd]) == len(locs) == len(args)
                except ValueError: ok = False
                if not ok: return out + [(op + ":output", f"unexpected output {io}")]
                for k, (x, j) in enumerate(zip(args, locs)):
                    if not interval_ok(sx, x, j):
                        where = "beyond the last interval: every coefficient read with it is out of bounds" if j > len(sx) - 2 else "an interval that does not contain the argument"
                        out.append((op + ":locate-index", f"Locate request {k + 1} of the sequence, x = {x!r}: returned index {j} of a table with intervals 0..{len(sx) - 2} ({where})"))
                        break
            if got[-1] != "0":
                out.append((op + ":answer-depends-on-history", f"{got[-1]} request(s) of the sequence got a different answer from this object than from an identical object that had served no request before "
                            "(the interval search state jLast / correlated_calls leaks into the result: a wrong or out-of-bounds coefficient was read)"))
    return out


def nontrivial(c, io):
    return bool(c.info.get("nt", True))    # replayed / corpus cases are boundary cases by construction


# ------------------------------------------------------------------ the sanitizer half of the correspondence
def extra(ctx, rng):
    out = {"violations": []}
    work = ctx["work"]
    lines = [l for l in open(os.path.join(work, "impl.cases")).read().split("\n") if l.strip()] if os.path.exists(os.path.join(work, "impl.cases")) else []
    model = [l.strip() for l in open(os.path.join(work, "model.out")).read().split("\n")] if os.path.exists(os.path.join(work, "model.out")) else []
    # (a) undefined behaviour predicted by the guard model (or fuel exhaustion) is a violation whatever the implementation happened to do
    for l, mo in zip(lines, model):
        if mo in ("OOB", "FUEL") or mo.startswith("MODELERR"):
            out["violations"].append({"sig": f"{l.split()[0]}:model-{mo.split()[0].lower()}", "msg": f"the guard model predicts {mo} (out-of-bounds access / undefined behaviour) for this request", "case": l, "impl": "", "model": mo})
    # (b) the same requests under AddressSanitizer + UBSan + libstdc++ assertions
    try:
        lib = vbuild.build_lib(extra_flags=SAN, tag="asan-c10")
        exe = vbuild.build_harness(os.path.join(vbuild.VERIF, "harness", "C10.cpp"), lib, extra_flags=SAN)
    except RuntimeError as e:
        return {"violations": out["violations"], "broken": [{"kind": "build", "what": "sanitizer build of the library or the harness failed", "log": str(e)[-2000:]}]}
    # eight workers side by side (every exiting request costs a fork of the sanitized process); order is preserved
    from concurrent.futures import ThreadPoolExecutor
    nchunk = 8; step = (len(lines) + nchunk - 1) // nchunk if lines else 1
    chunks = [lines[k:k + step] for k in range(0, len(lines), step)]
    with ThreadPoolExecutor(nchunk) as ex:
        parts = list(ex.map(lambda kc: vcheck.run_exe(exe, kc[1], work, f"asan{kc[0]}", env=HARNESS_ENV), enumerate(chunks)))
    res = [vcheck.canon_impl(l) for part in parts for l in part]
    kinds = {}; dis = 0
    mo_by = dict(zip(lines, model))
    for l, io in zip(lines, res):
        head = io.split()[0] if io else "?"
        kinds[head] = kinds.get(head, 0) + 1
        op = l.split()[0]
        if head in ("SANITIZER", "CRASH", "TIMEOUT", "HARNESSERR", "EXIT0", "EXIT_NODIAG"):
            region = ":miser-zero-width-region" if (head == "SANITIZER" and io.split()[1:2] == ["98"] and op in ("nested", "session") and miser_zero_width(l.split())) else ""
            out["violations"].append({"sig": f"sanitizer:{op}{region}", "msg": f"sanitizer build (ASan+UBSan+_GLIBCXX_ASSERTIONS): the implementation ended with {io} on this request", "case": l, "impl": io, "model": mo_by.get(l, "")})
            continue
        if io != mo_by.get(l, ""):
            dis += 1
            for sig, msg in predicates(Case(l), io):
                out["violations"].append({"sig": sig, "msg": "sanitizer build: " + msg, "case": l, "impl": io, "model": mo_by.get(l, "")})
    if dis:
        out["broken"] = [{"kind": "correspondence", "what": f"sanitizer build disagrees with the guard model on {dis} requests"}]
    out["sanitizer_run"] = {"flags": " ".join(SAN), "requests": len(lines), "outcomes": kinds, "disagree_with_model": dis}
    return out
