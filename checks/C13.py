"""C13 — named 1-D methods and nested multi-dimensional integrals (Integration.cpp sections 1.3, 2.1)."""
import math
from vcheck import Case, hx, tokf, parse_vals, compare_lines

PID = "C13"
RULE = ("non-trivial = a nested 2-D/3-D/spherical case whose limit pairs are pairwise distinct (disjoint intervals per axis, so that a swapped "
        "argument or a swapped pair of limits is visible) with an integrand that is not symmetric under exchange of its arguments, or a 1-D case "
        "with reversed or equal limits, an explicit method_parameter, an unknown method name or a user function that is itself defined through an integral "
        "(re-entrant call of the library, to any depth), or a direct call of one of the two table overloads of Integrate_Gauss_Legendre that terminates or has two or more rows, or a session of two or more calls made one after the other by one process, or a call made before main "
        "(during the static initialisation of the caller's translation unit); distinct by case text")
LEVEL_TEXT = ("Theorems (Coq, all inputs, over the reals): the dispatch of Integrate(func,a,b,method,parameter) — each of the six names selects its back end "
              "with the stated parameter default (Gauss-Kronrod depth 5, Gauss-Legendre_2 30 points), every other name terminates when the limits differ, equal "
              "limits give 0 without a call of any back end or of the integrand, reversed limits negate the result; if the selected back end is exact on the "
              "integrands that occur (explicit premise), Integrate = RInt for every orientation, Integrate_2D/3D equal the iterated integral in which each argument "
              "position carries the variable of its own limit pair, separable integrands give the product of the 1-D integrals, the Monte-Carlo branch builds the region "
              "{x1,y1,(z1),x2,y2,(z2)} with 30000 default calls, and the spherical overload passes a vector of norm |r| with cos(polar angle) = cos_theta and azimuth phi, "
              "multiplies by r^2 and integrates f(|r|) to (c2-c1)(phi2-phi1) * RInt r^2 f, i.e. 4 pi * RInt r^2 f on the full sphere; an integrand that is itself defined "
              "through an integral (Integrate re-entered from inside its integrand with any method name and parameter at either level; the model has no state) integrates to the "
              "integral of x |-> outer(x, RInt inner(x,.)) under the same premise at both levels; the answer of a call does not depend on the calls the process made before it "
              "(the model of a process, run_session, answers each call by the stateless function of its own arguments: C13_answer_independent_of_history, C13_named_exact_after_history). "
              "The library's own back ends: \"Adaptive-Simpson\" returns the exact integral of every polynomial of degree <= 5 for every tolerance, depth, orientation and method_parameter "
              "(C13_adaptive_simpson_exact_to_degree_5: every accepted panel is Boole's rule; induction over the recursion); if no panel is left unconverged at the depth limit and the error of an accepted panel "
              "is at most K times the difference of its two Simpson estimates (explicit premise on the integrand), the result is within 15 K 1e-9 |S0| of the integral, S0 the three-point estimate of Find_Epsilon "
              "(C13_adaptive_simpson_error_bound_partial; C13_adaptive_simpson_recursion_bound for any depth and tolerance: the tolerances of the accepted panels add up to at most epsilon); that premise cannot be dropped - "
              "the 1e-9 clause is FALSE of the method: C13_adaptive_simpson_accuracy_refuted exhibits a polynomial of degree 6 on [-1,1] (zeros at the five first samples) on which the model returns 0 for the integral 1/21 "
              "(replayed on the implementation, which returns 0 as well: corpus/C13/known.case, known finding K-C13-2). \"Gauss-Legendre_2\", over any number type (in particular the doubles of the extracted model) and every n: the table "
              "has n rows, a request that returns has evaluated the integrand exactly once at each of the n roots in order and nowhere else and returns the sum of value times weight (C13_gauss_legendre_table_size, C13_gauss_legendre_samples); "
              "the chain of the three overloads of Integrate_Gauss_Legendre never reaches an exit branch of the inner two and equals the model used everywhere (C13_gauss_legendre_overload_chain), while sizes that differ or a row that is "
              "not a root and a weight terminate (C13_gauss_legendre_malformed_exits; the two inner overloads are driven directly by the cases glvec / glfun and compared with the model bit for bit). "
              "Stacks of any number of levels over the reals (C13_Proofs_Stack.v, induction over the list of levels; nest_nd is not extracted itself, cut at two and three levels it is the extracted nesting): "
              "C13_stack_is_iterated_integral (under an exact one-dimensional integrator the stack is the iterated integral in which position i carries the variable of the i-th pair of limits - C13_nested_2d/3d at any depth), "
              "C13_stack_separable_product and C13_stack_separable_product_factorwise (separable integrand = product of the one-dimensional integrals for any number of factors, every orientation; the second asks exactness "
              "only on the multiples of the factors that occur and no integrability), and WITHOUT any premise on a back end C13_adaptive_simpson_stack_exact_to_degree_5 / C13_adaptive_simpson_2d_3d_exact_to_degree_5: "
              "Integrate_2D, Integrate_3D and stacks of any depth under \"Adaptive-Simpson\" return exactly the product of the integrals of factors of degree <= 5, all limits in every orientation, every method_parameter "
              "(on the implementation: the 'quintic' cases, to rounding, 1e-13 of the L1 norm instead of the method's 1e-9 per level). Orientation per axis without exactness premise: C13_stack_reverse_any_level (an integrator that is negated by "
              "exchanging its limits and by negating its integrand: exchanging the limits of any ONE level of a stack of any depth negates the stack, for every integrand, terminating ones included), C13_integrate_reversing_and_odd "
              "(Integrate is such an integrator for \"Gauss-Legendre_2\" with every number of points and for \"Adaptive-Simpson\" - induction over its recursion: the test |S2-S| <= 15|eps| and Find_Epsilon do not see the sign - with no premise, "
              "and for the four boost names under the premise that the external rule is odd in its integrand, backend_odd), C13_reverse_any_axis and C13_front_ends_reverse_any_axis (each of the two axes of Integrate_2D and of the three of "
              "Integrate_3D, any integrand). Oddness of the boost rules themselves is NOT a theorem (external code; on the implementation the orientation of every axis is checked against the closed form). "
              "Two of the four boost quadratures are model terms since the seventh pass (C13_Model2.v, line by line from the boost 1.83 headers; coverage/C13.md): \"Gauss-Legendre\" = gauss<double,30>::integrate (the 15 abscissae and weights "
              "of the header as literals) and \"Trapezoidal\" = trapezoidal with tolerance 2^-26 and 12 refinements; every case with these names is compared with the library as strictly as the library's own back ends (1e-12 of the scale, "
              "in practice bit for bit). Theorems about them (C13_Proofs_Boost.v): from Integrate their own equal/reversed-limit branches are not taken (C13_boost_entry_branches_not_taken); both are odd in the integrand "
              "(C13_gauss30_and_trapezoidal_odd: induction over the refinement loop - its stopping test sees |I0-I1| and sums of |y| only), so exchanging the limits of any one axis of a stack of any depth negates the result with NO premise on external code "
              "for four of the six names (C13_reverse_any_axis_four_methods); \"Trapezoidal\" returns exactly the integral of every polynomial of degree <= 1 at whatever refinement level it stops, every orientation (C13_trapezoidal_exact_on_affine); "
              "\"Gauss-Legendre\" returns exactly (1 + 2e-20) times the integral of such a polynomial - the decimal weights of the header add up to 1 + 2e-20 - hence within 1e-9 relative (C13_gauss_legendre_on_affine, C13_gauss_legendre_accuracy_on_affine); "
              "over any number type a returning gauss<30> call has evaluated the integrand exactly once at each of its 30 points in order (C13_gauss30_samples); over the reals both rules sample within [a,b] only, for every refinement level "
              "(C13_gauss30_and_trapezoidal_sample_within_limits). Still external (Section variable, stand-in rule in the driver, compared at 1e-9): gauss_kronrod<double,31> and tanh_sinh<double>. "
              "NOT theorems: the 1e-9 / 1e-6 accuracies of the four boost quadratures beyond degree 1 (two of them external code), of libphysica's own Gauss-Legendre rule (the Newton iteration for the roots is not analysed: no statement on the quality of roots and weights) "
              "and of the adaptive Simpson rule beyond degree 5 without the premise above, on smooth "
              "integrands - these are checked on the implementation against closed-form integrals (S4) on every run; the Gallina model (the extracted term, with the library's own two "
              "back ends and boost's gauss<30> and trapezoidal modelled line by line and gauss_kronrod / tanh_sinh replaced by a stand-in rule) is compared with the C++ on every case: bit for bit for the four modelled back ends, "
              "at the method's accuracy for the two external ones. Also on the implementation only (S4): every front end equals, bit for bit, the back end of the method name called directly and nested "
              "level by level by the harness with the same method_parameter; the fixed rules evaluate n points per level; limits of different axes that coincide; nearly equal limits; "
              "re-entrant user functions; explicit numbers of points of Gauss-Legendre_2 up to several thousand and recursion depths of Gauss-Kronrod up to 100; azimuth ranges anywhere on the real line "
              "(negative, beyond 2 pi, exact quarter/half/full/double turns) and cosine ranges in every orientation; call histories (sessions of several calls in one process, every case line in a process "
              "of its own forked before any call of the library): each answer is compared bit for bit with the answer of the same call in a process that has made no other call, besides the model and the closed form; "
              "calls made before main (the harness executes itself anew and makes the call while the namespace-scope objects of its own translation unit, linked in front of the library, are initialised: every method, default and explicit "
              "parameter, every entry point), compared with the same call made from main (theorem for the model: C13_answer_independent_of_initialisation_phase); axes on scales of their own (2^-900 .. 2^900, mixed within one call, "
              "so that the product of the widths under- or overflows while the integral is an ordinary number); the nested trapezoidal rule with one curved level at every position (compared bit for bit with boost's rule nested by the harness, "
              "and with the closed form at the accuracy of one level). Known findings K-C13-1: Tanh-Sinh on intervals narrow relative to their position; K-C13-2: a panel of the adaptive Simpson rule accepted by its "
              "|S2-S| test although it is off by far more than the tolerance; K-C13-3: the trapezoidal rule of boost stops after 12 refinements (2049 evaluations) short of 1e-6 on integrands with steep, opposite slopes at the limits. "
              "Also on the implementation (S4): integrands that vanish where a rule takes its first samples (oscillations with limits and midpoint on their zeros or extrema, whole periods, a ladder of distances 1e-15..1e-4 from them; "
              "polynomial and rational integrands with exact zeros at the limits and the midpoint, so that the tolerance of the adaptive Simpson rule is 0 or next to 0), sign-changing integrands under the adaptive Simpson rule, "
              "and sessions whose numbers of points are congruent modulo every m <= 128 and the usual table sizes beyond (coarse first and fine first, across the entry points). "
              "Nesting to any depth: theorems over any number type, any one-dimensional integrator and any number of levels about the general stack of levels nest_nd (not extracted itself; "
              "C13_stack_of_levels_is_front_end_nesting: cut at two and three limit pairs it is the nesting of Integrate_2D/Integrate_3D that is extracted and compared) - "
              "C13_nesting_depth_composes (the levels of a stack entered from the innermost integrand of another are the next levels of one stack) and C13_inner_stack_independent_of_depth "
              "(a stack whose integrand reads its own variables only has the value it has from the top level wherever it is entered). On the implementation (S4): user functions defined through calls of the "
              "four entry points inside the integrand, recursively ('@@' cases: towers of 4 .. 12 levels of Integrate active at once, 3D in 3D in 3D and beyond, one method or mixed methods, equal and different "
              "method_parameters per level, quotient / product / sum of a level with the call below it), each answer compared bit for bit with the answer of the same call when every inner call is made beforehand "
              "from the top level (nesting-depth-dependence), with the model, and with the closed form (low-order Gauss-Legendre_2 rules on polynomials they integrate exactly: 1e-13 per level). "
              "Nested adaptive Simpson integrals that are large as a whole (the evaluations of the levels multiply): 2^19 evaluations in the quick tier, 2^25.5 and 2^27.4 (1.8e8, beyond any per-call "
              "limit of a single level, about a minute) in the THOROUGH tier only; the number of evaluations of the nested adaptive rule on a product of sign-definite factors is compared with the product of the "
              "evaluations its stopping rule takes per level (evaluation-count). A limit or counter shared between nesting levels that only bites beyond about 1e6 evaluations in one request is therefore "
              "seen by the thorough tier, not by the quick tier.")
LEVEL_NOTE = ("Coq 8.16.1 kernel; theorems over R use the standard library's real-number axioms and Coquelicot's RInt (axioms listed in the evidence); premises carried by the theorems: "
              "exactness of the selected 1-D back end on the integrands that occur, continuity/integrability of the integrand; boost::math::quadrature gauss_kronrod<31> and tanh_sinh are external code modelled as a Section variable; "
              "gauss<double,30> and trapezoidal are modelled line by line from the installed boost 1.83 headers (finite-limit branches; a different boost release would show as a correspondence mismatch); hand-written model tied by differential correspondence (extraction with ExtrOcamlBasic only)")
TOL = (1e-12, 0.0)
ALLOW_CRASH = True          # a crash is reported by predicates() below (same message), with a signature that separates the known abort K-C13-1 from any other
TRUSTED = ["boost::math::quadrature gauss_kronrod<double,31> and tanh_sinh<double> are a Section variable of the model (instantiated by a 2-panel 30-point Gauss-Legendre stand-in in the OCaml driver); gauss<double,30> and trapezoidal are model terms (C13_Model2.v)",
           "coverage/C13.md lists function by function what is in the model, what is modelled by specification and what is judged on the implementation only",
           "closed-form antiderivatives used by the S4 predicates (checks/C13.py) evaluated with Python's math library"]
ASSUMPTIONS = ["a call 'before main' is made from the constructor of the last namespace-scope object of the harness's translation unit, which the link line puts in front of libphysica.a: with GNU ld / lld the initialisers of that "
               "translation unit run before those of the library's translation units (the situation of a caller's namespace-scope constant initialised with an integral)",
               "direction-dependent integrands of the spherical overload (linear in the components of the vector) depend on the direction through vz only where the cosine range comes within 0.1 of a pole: vx, vy carry sqrt(1 - cos_theta^2), "
               "which is not a smooth function of the integration variable there",
               "accuracy clauses (1e-9 relative; 1e-6 Trapezoidal) are decided on the implementation against closed-form integrals for the generated smooth families, with slack dim*accuracy*L1-norm of the integrand; they are not theorems",
               "'smooth' is instantiated as: damped oscillations exp(-a v)cos(w v) with at most two periods on the interval, 1/(1+k v^2) with k<=2, Gaussians exp(-k (v-mu)^2) with k<=4, polynomials of degree <= 3, on intervals of width 0.5..1.5 "
               "(and of widths down to one ulp, and at offsets up to 1e9, in one dimension, with the rounding of the abscissae 3*2^-53 max|x| sup|g'| |b-a| added to the slack); for Gauss-Legendre_2 with an explicit number n >= 48 of points also "
               "sharply peaked Gaussians whose classical n-point Gauss error bound on the Bernstein ellipse is below 1e-11 of the integral (for which the default 30 points are not enough)",
               "further smooth integrands, in one dimension: damped sines exp(-a v) sin(w v) and cosines with limits on their zeros and extrema (up to two periods) and at relative distances 1e-15 .. 1e-4 from them, and the polynomials "
               "(v-A)(B-v)(v-C)^2, u^2(h^2-u^2)(u^2-h^2/4) and the rational functions u^2(h^2-u^2)/(h^2+k u^2) (u = v-C, C the midpoint and h the half width of [A,B], dyadic), which vanish at the limits and the midpoint (and the quarter points)",
               "a user function defined through an inner integral is expected within (accuracy of the inner method) * (integral of |inner integrand|) * (outer width) in addition; under an adaptive outer method the inner method is one that is accurate to rounding on the smooth families",
               "Gauss-Legendre_2 with n < 20 points carries no accuracy claim on smooth integrands; on polynomials of degree <= 2n - 1 (classical exactness of the n-point Gauss rule) its result is expected "
               "within 1e-13 of the integral of |integrand| per level (rounding of n products and of roots and weights, whose Newton iteration stops at 1e-14): used for the towers of nested calls",
               "in a tower of nested calls the limits of the inner calls are constants, so that the same inner call can be made beforehand from the top level (flat value)",
               "sharply peaked integrands under Gauss-Kronrod with explicit recursion depths 1..15 carry no accuracy claim; they are compared bit for bit with the direct nested call of boost's gauss_kronrod with the same depth"]

BOOST = ("Trapezoidal", "Gauss-Legendre", "Gauss-Kronrod", "Tanh-Sinh")
OWN = ("Gauss-Legendre_2", "Adaptive-Simpson")
STANDIN = ("Gauss-Kronrod", "Tanh-Sinh")       # boost back ends NOT in the model (stand-in rule); gauss<30> and trapezoidal are model terms (C13_Model2.v)
METHODS = BOOST + OWN
UNKNOWN = ("Foo", "Bogus", "gauss-legendre", "Gauss-Legendre_3", "Simpson", "Monte-Carlo", "Vegas", "Miser", "Tanh-Sinh.")
NORM = "sqrt + * x x + * y y * z z"


def acc_of(method): return 1e-6 if method == "Trapezoidal" else 1e-9


# ---------------------------------------------------------------- one-variable factor families
class Fac:
    """a factor g(v) of a separable integrand: fexpr text, value, antiderivative G, and R2 = antiderivative of v^2 g(v)"""
    def __init__(self, name, *p): self.name = name; self.p = tuple(float(x) for x in p)

    def text(self, v):
        n, p = self.name, self.p
        if n == "dampcos": return f"* exp neg * c {hx(p[0])} {v} cos * c {hx(p[1])} {v}"
        if n == "expdec": return f"exp neg * c {hx(p[0])} {v}"
        if n == "rational": return f"/ c {hx(1.0)} + c {hx(1.0)} * c {hx(p[0])} * {v} {v}"
        if n == "gauss": return f"exp neg * c {hx(p[0])} * - {v} c {hx(p[1])} - {v} c {hx(p[1])}"
        if n == "mono":
            k = int(p[1])
            if k == 0: return f"c {hx(p[0])}"
            t = v
            for _ in range(k - 1): t = f"* {v} {t}"
            return f"* c {hx(p[0])} {t}"
        if n == "affine": return f"+ c {hx(p[0])} * c {hx(p[1])} {v}"
        if n == "dampsin": return f"* exp neg * c {hx(p[0])} {v} sin * c {hx(p[1])} {v}"
        if n == "zpoly":
            C = (p[0] + p[1]) / 2
            return f"* * - {v} c {hx(p[0])} - c {hx(p[1])} {v} * - {v} c {hx(C)} - {v} c {hx(C)}"
        if n == "zrat":
            C = (p[0] + p[1]) / 2; h = (p[1] - p[0]) / 2
            UU = f"* - {v} c {hx(C)} - {v} c {hx(C)}"
            return f"/ * {UU} - c {hx(h * h)} {UU} + c {hx(h * h)} * c {hx(p[2])} {UU}"
        if n == "zfive":
            C = (p[0] + p[1]) / 2; h = (p[1] - p[0]) / 2
            UU = f"* - {v} c {hx(C)} - {v} c {hx(C)}"
            return f"* * {UU} - c {hx(h * h)} {UU} - {UU} c {hx(h * h / 4)}"
        raise ValueError(n)

    def g(self, t):
        n, p = self.name, self.p
        if n == "dampcos": return math.exp(-p[0] * t) * math.cos(p[1] * t)
        if n == "expdec": return math.exp(-p[0] * t)
        if n == "rational": return 1.0 / (1.0 + p[0] * t * t)
        if n == "gauss": return math.exp(-p[0] * (t - p[1]) ** 2)
        if n == "mono": return p[0] * t ** int(p[1])
        if n == "affine": return p[0] + p[1] * t
        if n == "dampsin": return math.exp(-p[0] * t) * math.sin(p[1] * t)
        if n == "zpoly": C = (p[0] + p[1]) / 2; return (t - p[0]) * (p[1] - t) * ((t - C) * (t - C))
        if n == "zrat":
            C = (p[0] + p[1]) / 2; h = (p[1] - p[0]) / 2; uu = (t - C) * (t - C)
            return uu * (h * h - uu) / (h * h + p[2] * uu)
        if n == "zfive": C = (p[0] + p[1]) / 2; h2 = ((p[1] - p[0]) / 2) ** 2; uu = (t - C) * (t - C); return uu * (h2 - uu) * (uu - h2 / 4)

    def G(self, t):
        n, p = self.name, self.p
        if n == "dampcos":
            a, w = p; return math.exp(-a * t) * (w * math.sin(w * t) - a * math.cos(w * t)) / (a * a + w * w)
        if n == "expdec": return -math.exp(-p[0] * t) / p[0]
        if n == "rational": s = math.sqrt(p[0]); return math.atan(s * t) / s
        if n == "gauss": s = math.sqrt(p[0]); return math.sqrt(math.pi) / (2 * s) * math.erf(s * (t - p[1]))
        if n == "mono": k = int(p[1]); return p[0] * t ** (k + 1) / (k + 1)
        if n == "affine": return p[0] * t + p[1] * t * t / 2
        if n == "dampsin":
            a, w = p; return -math.exp(-a * t) * (a * math.sin(w * t) + w * math.cos(w * t)) / (a * a + w * w)
        if n == "zpoly":            # (h^2 - u^2) u^2 with u = t - C
            C = (p[0] + p[1]) / 2; h = (p[1] - p[0]) / 2; u = t - C
            return h * h * u ** 3 / 3 - u ** 5 / 5
        if n == "zrat":             # h^2 times u^2 (1 - u^2) / (1 + k u^2) = -u^2/k + m - m / (1 + k u^2), m = (1 + 1/k)/k, u = (t - C)/h
            C = (p[0] + p[1]) / 2; h = (p[1] - p[0]) / 2; k = p[2]; u = (t - C) / h; m = (1.0 + 1.0 / k) / k
            return h ** 3 * (-u ** 3 / (3 * k) + m * u - m * math.atan(math.sqrt(k) * u) / math.sqrt(k))
        if n == "zfive":            # u^2 (h^2 - u^2)(u^2 - h^2/4) = -u^6 + 5/4 h^2 u^4 - h^4/4 u^2
            C = (p[0] + p[1]) / 2; h = (p[1] - p[0]) / 2; u = t - C
            return -u ** 7 / 7 + h * h * u ** 5 / 4 - h ** 4 * u ** 3 / 12

    def dtext(self, v):
        """text of the derivative g'(v)"""
        n, p = self.name, self.p
        if n == "dampcos": return f"* exp neg * c {hx(p[0])} {v} + * c {hx(-p[0])} cos * c {hx(p[1])} {v} * c {hx(-p[1])} sin * c {hx(p[1])} {v}"
        if n == "expdec": return f"* c {hx(-p[0])} exp neg * c {hx(p[0])} {v}"
        if n == "rational":
            D = f"+ c {hx(1.0)} * c {hx(p[0])} * {v} {v}"
            return f"/ * c {hx(-2.0 * p[0])} {v} * {D} {D}"
        if n == "gauss": return f"* * c {hx(-2.0 * p[0])} - {v} c {hx(p[1])} exp neg * c {hx(p[0])} * - {v} c {hx(p[1])} - {v} c {hx(p[1])}"
        if n == "mono":
            k = int(p[1])
            return f"c {hx(0.0)}" if k == 0 else Fac("mono", p[0] * k, k - 1).text(v)
        if n == "affine": return f"c {hx(p[1])}"
        raise ValueError(n)

    def dg(self, t):
        n, p = self.name, self.p
        if n == "dampcos": return math.exp(-p[0] * t) * (-p[0] * math.cos(p[1] * t) - p[1] * math.sin(p[1] * t))
        if n == "expdec": return -p[0] * math.exp(-p[0] * t)
        if n == "rational": return -2.0 * p[0] * t / (1.0 + p[0] * t * t) ** 2
        if n == "gauss": return -2.0 * p[0] * (t - p[1]) * math.exp(-p[0] * (t - p[1]) ** 2)
        if n == "mono": k = int(p[1]); return 0.0 if k == 0 else p[0] * k * t ** (k - 1)
        if n == "affine": return p[1]
        if n == "dampsin": return math.exp(-p[0] * t) * (-p[0] * math.sin(p[1] * t) + p[1] * math.cos(p[1] * t))
        if n == "zpoly": C = (p[0] + p[1]) / 2; h = (p[1] - p[0]) / 2; u = t - C; return 2 * h * h * u - 4 * u ** 3
        if n == "zrat":
            C = (p[0] + p[1]) / 2; h2 = ((p[1] - p[0]) / 2) ** 2; k = p[2]; u = t - C; uu = u * u; D = h2 + k * uu
            return 2 * u * ((h2 - 2 * uu) * D - k * uu * (h2 - uu)) / (D * D)
        if n == "zfive": C = (p[0] + p[1]) / 2; h2 = ((p[1] - p[0]) / 2) ** 2; u = t - C; return -6 * u ** 5 + 5 * h2 * u ** 3 - h2 * h2 * u / 2

    def dl1(self, a, b, want_sign=False):
        """integral of |g'| between the limits (composite Simpson, 256 panels); with want_sign also whether g' keeps one sign there"""
        lo, hi = min(a, b), max(a, b); n = 256; h = (hi - lo) / n
        vals = [self.dg(lo + k * h) for k in range(n + 1)]
        s = abs(vals[0]) + abs(vals[-1])
        for k in range(1, n): s += (4 if k % 2 else 2) * abs(vals[k])
        if want_sign: return s * h / 3, (min(vals) >= 0.0 or max(vals) <= 0.0)
        return s * h / 3

    def dsup(self, a, b):
        """an upper estimate of sup |g'| between the limits (257 samples, 5 per cent margin)"""
        lo, hi = min(a, b), max(a, b); n = 256; h = (hi - lo) / n
        return 1.05 * max(abs(self.dg(lo + k * h)) for k in range(n + 1))

    def R2(self, t):
        """antiderivative of t^2 g(t) (radial families only)"""
        n, p = self.name, self.p
        if n == "expdec": a = p[0]; return -math.exp(-a * t) * (t * t / a + 2 * t / a ** 2 + 2 / a ** 3)
        if n == "rational": k = p[0]; return t / k - math.atan(math.sqrt(k) * t) / k ** 1.5
        if n == "gauss" and p[1] == 0.0:
            k = p[0]; return -t * math.exp(-k * t * t) / (2 * k) + math.sqrt(math.pi) / (4 * k ** 1.5) * math.erf(math.sqrt(k) * t)
        if n == "gauss":        # shell profile: t^2 = u^2 + 2 mu u + mu^2 with u = t - mu
            k, mu = p; u = t - mu; E = math.exp(-k * u * u); F = math.erf(math.sqrt(k) * u)
            return (-u * E / (2 * k) + math.sqrt(math.pi) / (4 * k ** 1.5) * F) - mu * E / k + mu * mu * math.sqrt(math.pi) / (2 * math.sqrt(k)) * F
        if n == "mono": k = int(p[1]); return p[0] * t ** (k + 3) / (k + 3)
        raise ValueError("no radial antiderivative for " + n)

    def integral(self, a, b):
        if abs(b - a) <= 1e-3:        # narrow interval: the difference of antiderivatives cancels; Simpson's rule is exact to rounding there (error w^5 g^(4)/2880)
            return (b - a) * (self.g(a) + 4.0 * self.g(0.5 * (a + b)) + self.g(b)) / 6.0
        return self.G(b) - self.G(a)

    def l1(self, a, b):
        """integral of |g| between the limits (composite Simpson, 256 panels): the natural scale of the factor"""
        lo, hi = min(a, b), max(a, b); n = 256; h = (hi - lo) / n
        s = abs(self.g(lo)) + abs(self.g(hi))
        for k in range(1, n): s += (4 if k % 2 else 2) * abs(self.g(lo + k * h))
        return s * h / 3

    def ann(self): return self.name + " " + " ".join(hx(x) for x in self.p)

    def node_slack(self, a, b):
        """the abscissae are doubles: a node near x is off by up to ulp(x)/2 from the exact node (and is formed with two or three roundings), which moves
        the integrand by |g'| ulp(x); only visible far from the origin"""
        return 3 * 2.0 ** -53 * max(abs(a), abs(b)) * self.dsup(a, b) * abs(b - a)

    def curved(self):
        """False when the factor is a polynomial of degree <= 1 (on which the trapezoidal rule is exact to rounding)"""
        return not (self.name == "affine" or (self.name == "mono" and int(self.p[1]) <= 1))


class SFac(Fac):
    """a factor living on its own scale: g(v) = c base(v / s), with c and s powers of two (so that limits s a0, s b0 and the quotient v / s are exact)"""
    def __init__(self, c, s, base): self.name = "scl"; self.p = (float(c), float(s)); self.base = base
    def text(self, v): return f"* c {hx(self.p[0])} {self.base.text(f'/ {v} c {hx(self.p[1])}')}"
    def g(self, t): return self.p[0] * self.base.g(t / self.p[1])
    def dg(self, t): return self.p[0] / self.p[1] * self.base.dg(t / self.p[1])
    def integral(self, a, b): return (self.p[0] * self.p[1]) * self.base.integral(a / self.p[1], b / self.p[1])
    def l1(self, a, b): return (self.p[0] * self.p[1]) * self.base.l1(a / self.p[1], b / self.p[1])
    def node_slack(self, a, b): return (self.p[0] * self.p[1]) * self.base.node_slack(a / self.p[1], b / self.p[1])
    def curved(self): return self.base.curved()
    def ann(self): return "scl " + " ".join(hx(x) for x in self.p) + " " + self.base.ann()


NPAR = {"dampcos": 2, "expdec": 1, "rational": 1, "gauss": 2, "mono": 2, "affine": 2, "dampsin": 2, "zpoly": 2, "zrat": 3, "zfive": 2}


def parse_ann(tokens):
    """tokens after '#': kind then factors; kinds ending in '@' carry 'k imethod ip x0' (the factor written through an integral) first"""
    kind = tokens[0]; facs = []; k = 1
    if kind.endswith("@"): k = 5
    while k < len(tokens):
        scl = None
        if tokens[k] == "scl": scl = (float.fromhex(tokens[k + 1]), float.fromhex(tokens[k + 2])); k += 3
        n = tokens[k]; m = NPAR[n]
        f = Fac(n, *[float.fromhex(x) for x in tokens[k + 1:k + 1 + m]]); k += 1 + m
        facs.append(SFac(scl[0], scl[1], f) if scl else f)
    return kind, facs


def ann_re(tokens):
    """(k, x0, imethod, ip) of a kind ending in '@'"""
    return int(tokens[1]), float.fromhex(tokens[4]), tokens[2], int(tokens[3])


def rand_fac(rng, lo, hi, positive=False, poly=False, affine=False):
    """a smooth factor on the interval between lo and hi (either order); resampled until its integral is not a near-cancellation"""
    a, b = min(lo, hi), max(lo, hi); w = b - a
    for _ in range(100):
        if affine: f = Fac("affine", rng.uniform(0.5, 3), rng.uniform(0.2, 2))
        elif poly: f = Fac("mono", rng.choice([1.0, 0.5, 2.0, 3.0]), rng.choice([0, 1, 2, 3]))
        else:
            kind = rng.choice(["expdec", "rational", "gauss", "mono"] if positive else ["dampcos", "dampcos", "expdec", "rational", "gauss", "mono"])
            if kind == "dampcos": f = Fac("dampcos", rng.uniform(0.2, 1.5), rng.uniform(1.0, 4 * math.pi / w))
            elif kind == "expdec": f = Fac("expdec", rng.uniform(0.2, 1.5))
            elif kind == "rational": f = Fac("rational", rng.uniform(0.1, 2.0))
            elif kind == "gauss": f = Fac("gauss", rng.uniform(0.5, 4.0), rng.uniform(a - 0.2 * w, b + 0.2 * w))
            else: f = Fac("mono", rng.choice([1.0, 0.5, 2.0]), rng.choice([1, 2, 3]))
        if abs(f.integral(a, b)) >= 0.05 * f.l1(a, b): return f
    return Fac("expdec", 1.0)


def product_text(facs, vars_, re=None):
    """product of the factor texts; re = (k, x0, imethod, ip): factor k is written through an integral (re-entrant user function)"""
    ts = [f.text(v) for f, v in zip(facs, vars_)]
    if re is not None: ts[re[0]] = f"+ c {hx(facs[re[0]].g(re[1]))} v 3"
    t = ts[-1]
    for s in reversed(ts[:-1]): t = f"* {s} {t}"
    if re is not None:
        k, x0, im, ip = re
        t += f" @ {im} {ip} c {hx(x0)} {vars_[k]} {facs[k].dtext('v 3')}"
    return t


def radial_text(g, re=None):
    """g(|vector|); re = (x0, imethod, ip): g(n) written as g(x0) + integral of g' from x0 to n"""
    if re is None: return g.text(NORM)
    x0, im, ip = re
    return f"+ c {hx(g.g(x0))} v 3 @ {im} {ip} c {hx(x0)} {NORM} {g.dtext('v 3')}"


def re_ann(re): return f"{re[0]} {re[2]} {re[3]} {hx(re[1])}"          # k imethod ip x0


def inner_of(fex):
    """(inner method, inner parameter) of a re-entrant user function, else None"""
    t = fex.split()
    if "@" not in t: return None
    k = t.index("@"); return t[k + 1], int(t[k + 2])


FIXED_RULES = ("Gauss-Legendre", "Gauss-Legendre_2")
ROUNDING_ACCURATE = ("Gauss-Legendre", "Gauss-Legendre_2", "Gauss-Kronrod")     # on the smooth families: error near rounding, far below 1e-9


def inner_ok(outer, inner):
    """an adaptive outer method (tolerance 1e-9 .. 1e-8 of the integral) needs an integrand that is smooth below that tolerance: under it the
    inner integral is computed by a rule that is accurate to rounding on the smooth families; under a fixed outer rule any inner method"""
    return outer is None or outer in FIXED_RULES or inner in ROUNDING_ACCURATE


def pick_inner(rng, f, x0, lo, hi, outer_method=None, cheap=False):
    """an inner method and parameter for the factor f written as f(x0) + integral_{x0}^{v} f'; Adaptive-Simpson only where f' keeps one sign
    (its tolerance is relative to the Simpson estimate of the integral itself)"""
    _, onesign = f.dl1(min(x0, lo, hi), max(x0, lo, hi), want_sign=True)
    ms = [m for m in METHODS if (m != "Adaptive-Simpson" or onesign) and not (cheap and m in ("Tanh-Sinh", "Trapezoidal")) and inner_ok(outer_method, m)]
    if cheap and outer_method not in FIXED_RULES and outer_method != "Gauss-Kronrod":
        ms = [m for m in ms if m != "Gauss-Legendre_2"]        # thousands of user-function calls, each of which would rebuild the rule
    im = rng.choice(ms)
    if im == "Gauss-Legendre_2": ip = rng.choice([0, 20, 24, 31, 40])
    elif im == "Gauss-Kronrod": ip = rng.choice([0, 8, 15])
    else: ip = rng.choice([0, 0, 7])
    return im, ip


def limits(rng, axis, orient):
    base = (0.2, 2.1, 4.0)[axis]
    lo = base + rng.uniform(0, 0.3); hi = lo + rng.uniform(0.5, 1.5)
    return (lo, hi) if orient else (hi, lo)


# ---------------------------------------------------------------- generator
def generate(rng, tier):
    cs = []
    big = tier != "quick"
    rep = 4 if big else 1

    def P(method, explicit):
        if not explicit: return 0
        if method == "Gauss-Kronrod": return rng.choice([1, 2, 3, 8, 15])
        if method == "Gauss-Legendre_2": return rng.choice([20, 24, 31, 40, 64])
        return rng.choice([1, 7, 1000])      # ignored by the other methods

    # ---- 1-D: every method x families x orientation x parameter
    for _ in range(rep * 3):
        for method in METHODS:
            for orient in (True, False):
                for explicit in (False, True):
                    a, b = limits(rng, rng.randrange(3), orient)
                    if rng.random() < 0.3: a, b = a - 3.0, b - 3.0      # intervals containing 0 / negative
                    f = rand_fac(rng, a, b, positive=(method == "Adaptive-Simpson"))
                    p = P(method, explicit)
                    cs.append(Case(f"named1d {method} {p} {hx(a)} {hx(b)} {f.text('x')} # 1d {f.ann()}", ("named1d", method, "fwd" if orient else "rev", "p0" if p == 0 else "p")))
    # small explicit Gauss-Legendre_2 orders: dispatch and node computation, model correspondence only
    for n in list(range(1, 13)) + ([17, 33, 50, 101] if big else [17]):
        for orient in (True, False):
            a, b = limits(rng, rng.randrange(3), orient)
            f = rand_fac(rng, a, b)
            cs.append(Case(f"named1d Gauss-Legendre_2 {n} {hx(a)} {hx(b)} {f.text('x')} # 1dcorr {f.ann()}", ("named1d", "Gauss-Legendre_2", "small-n")))
    # equal limits: 0 without evaluating anything, for every name (known or not); unknown names with distinct limits exit
    for method in METHODS + UNKNOWN:
        a = rng.choice([0.0, 1.5, -2.25, rng.uniform(-5, 5)])
        f = Fac("expdec", 0.7)
        cs.append(Case(f"named1d {method} 0 {hx(a)} {hx(a)} {f.text('x')} # 1d {f.ann()}", ("named1d", "equal-limits")))
    cs.append(Case(f"named1d Bogus 0 {hx(1.0)} {hx(1.0)} x # 1d mono {hx(1.0)} {hx(1.0)}", ("named1d", "equal-limits", "unknown-method")))
    cs.append(Case(f"named1d Gauss-Legendre 0 {hx(0.0)} {hx(-0.0)} {Fac('expdec', 0.7).text('x')} # 1d expdec {hx(0.7)}", ("named1d", "equal-limits", "signed-zero")))
    for method in UNKNOWN:
        for orient in (True, False):
            a, b = limits(rng, 0, orient)
            f = Fac("expdec", 0.7)
            cs.append(Case(f"named1d {method} 0 {hx(a)} {hx(b)} {f.text('x')} # 1d {f.ann()}", ("named1d", "unknown-method")))
            (x1, x2), (y1, y2), (z1, z2) = limits(rng, 0, orient), limits(rng, 1, True), limits(rng, 2, True)
            if method in ("Monte-Carlo", "Vegas", "Miser"): continue      # these are valid names for the 2-D/3-D front ends (property C14)
            cs.append(Case(f"nested2d {method} 0 {hx(x1)} {hx(x2)} {hx(y1)} {hx(y2)} * x y # nd mono {hx(1.0)} {hx(1.0)} mono {hx(1.0)} {hx(1.0)}", ("nested2d", "unknown-method")))
            cs.append(Case(f"nested3d {method} 0 {hx(x1)} {hx(x2)} {hx(y1)} {hx(y2)} {hx(z1)} {hx(z2)} * x * y z # nd mono {hx(1.0)} {hx(1.0)} mono {hx(1.0)} {hx(1.0)} mono {hx(1.0)} {hx(1.0)}", ("nested3d", "unknown-method")))
            cs.append(Case(f"spherical {method} 0 {hx(x1)} {hx(x2)} {hx(-1.0)} {hx(1.0)} {hx(0.0)} {hx(2 * math.pi)} c {hx(1.0)} # sphr mono {hx(1.0)} {hx(0.0)}", ("spherical", "unknown-method")))

    # ---- 2-D: all four orientations, distinct limits, asymmetric separable integrands
    for _ in range(rep):
        for method in METHODS:
            for ox in (True, False):
                for oy in (True, False):
                    explicit = rng.random() < 0.5
                    (x1, x2), (y1, y2) = limits(rng, 0, ox), limits(rng, 1, oy)
                    pos = method == "Adaptive-Simpson"
                    if method == "Trapezoidal" and not (ox and oy and big):
                        fx, fy = rand_fac(rng, x1, x2, affine=True), rand_fac(rng, y1, y2, affine=True)
                    elif rng.random() < 0.4 and not pos:
                        fx, fy = Fac("expdec", 1.0), Fac("dampcos", 0.0, 2.0)        # e^{-x} cos 2y
                        if abs(fy.integral(y1, y2)) < 0.05 * fy.l1(y1, y2): fy = rand_fac(rng, y1, y2)
                    else:
                        fx, fy = rand_fac(rng, x1, x2, positive=pos), rand_fac(rng, y1, y2, positive=pos)
                    p = P(method, explicit)
                    cs.append(Case(f"nested2d {method} {p} {hx(x1)} {hx(x2)} {hx(y1)} {hx(y2)} {product_text([fx, fy], 'xy')} # nd {fx.ann()} {fy.ann()}",
                                   ("nested2d", method, ("x+" if ox else "x-") + ("y+" if oy else "y-"))))
    # Adaptive-Simpson on products of monomials of degree <= 5, every axis in both orientations: exact to rounding (C13_adaptive_simpson_2d_3d_exact_to_degree_5,
    # C13_front_ends_reverse_any_axis); degrees 4 and 5 make the recursion work (the two Simpson estimates differ), 0..3 are accepted at once
    for o in range(8):
        ox, oy, oz = bool(o & 1), bool(o & 2), bool(o & 4)
        (x1, x2), (y1, y2), (z1, z2) = limits(rng, 0, ox), limits(rng, 1, oy), limits(rng, 2, oz)
        degs = [rng.choice([4, 5]), rng.choice([0, 1, 2, 3, 4, 5])]
        rng.shuffle(degs)
        fx, fy = (Fac("mono", rng.choice([1.0, 0.5, 2.0, 3.0]), dg) for dg in degs)
        sg = ("x+" if ox else "x-") + ("y+" if oy else "y-")
        if o < 4:
            cs.append(Case(f"nested2d Adaptive-Simpson 0 {hx(x1)} {hx(x2)} {hx(y1)} {hx(y2)} {product_text([fx, fy], 'xy')} # nd {fx.ann()} {fy.ann()}",
                           ("nested2d", "Adaptive-Simpson", "quintic", sg)))
        if o in (3, 5):
            degs = [rng.choice([4, 5]), rng.choice([0, 1, 2, 3]), rng.choice([1, 2, 3])]
            rng.shuffle(degs)
            fx, fy, fz = (Fac("mono", rng.choice([1.0, 0.5, 2.0, 3.0]), dg) for dg in degs)
            cs.append(Case(f"nested3d Adaptive-Simpson 0 {hx(x1)} {hx(x2)} {hx(y1)} {hx(y2)} {hx(z1)} {hx(z2)} {product_text([fx, fy, fz], 'xyz')} # nd {fx.ann()} {fy.ann()} {fz.ann()}",
                           ("nested3d", "Adaptive-Simpson", "quintic", sg + ("z+" if oz else "z-"))))
        a, b = limits(rng, rng.randrange(3), ox)
        f5 = Fac("mono", rng.choice([1.0, 0.5, 2.0]), rng.choice([4, 5]))
        cs.append(Case(f"named1d Adaptive-Simpson 0 {hx(a)} {hx(b)} {f5.text('x')} # 1d {f5.ann()}", ("named1d", "Adaptive-Simpson", "quintic", "fwd" if ox else "rev")))
    # small Gauss-Legendre_2 orders in 2-D / 3-D: pins routing, sign per axis and nesting order to rounding
    for n in (1, 2, 3, 4, 5):
        for o in range(8):
            ox, oy, oz = bool(o & 1), bool(o & 2), bool(o & 4)
            (x1, x2), (y1, y2), (z1, z2) = limits(rng, 0, ox), limits(rng, 1, oy), limits(rng, 2, oz)
            fx, fy, fz = rand_fac(rng, x1, x2), rand_fac(rng, y1, y2), rand_fac(rng, z1, z2)
            if o < 4:
                cs.append(Case(f"nested2d Gauss-Legendre_2 {n} {hx(x1)} {hx(x2)} {hx(y1)} {hx(y2)} {product_text([fx, fy], 'xy')} # ndcorr {fx.ann()} {fy.ann()}", ("nested2d", "Gauss-Legendre_2", "small-n")))
            cs.append(Case(f"nested3d Gauss-Legendre_2 {n} {hx(x1)} {hx(x2)} {hx(y1)} {hx(y2)} {hx(z1)} {hx(z2)} {product_text([fx, fy, fz], 'xyz')} # ndcorr {fx.ann()} {fy.ann()} {fz.ann()}", ("nested3d", "Gauss-Legendre_2", "small-n")))
    # equal limits on one axis
    for method in METHODS:
        (x1, x2), (y1, y2), (z1, z2) = limits(rng, 0, True), limits(rng, 1, False), limits(rng, 2, True)
        fx, fy, fz = Fac("expdec", 1.0), Fac("mono", 1.0, 2), Fac("mono", 1.0, 3)
        cs.append(Case(f"nested2d {method} 0 {hx(x1)} {hx(x2)} {hx(y1)} {hx(y1)} {product_text([fx, fy], 'xy')} # nd {fx.ann()} {fy.ann()}", ("nested2d", "equal-limits")))
        cs.append(Case(f"nested2d {method} 0 {hx(x1)} {hx(x1)} {hx(y1)} {hx(y2)} {product_text([fx, fy], 'xy')} # nd {fx.ann()} {fy.ann()}", ("nested2d", "equal-limits")))
        cs.append(Case(f"nested3d {method} 0 {hx(x1)} {hx(x2)} {hx(y1)} {hx(y2)} {hx(z1)} {hx(z1)} {product_text([fx, fy, fz], 'xyz')} # nd {fx.ann()} {fy.ann()} {fz.ann()}", ("nested3d", "equal-limits")))

    # ---- 3-D
    for rp in range(rep):
        for method in METHODS:
            for o in range(8):
                ox, oy, oz = bool(o & 1), bool(o & 2), bool(o & 4)
                (x1, x2), (y1, y2), (z1, z2) = limits(rng, 0, ox), limits(rng, 1, oy), limits(rng, 2, oz)
                if method == "Trapezoidal":
                    fs = [rand_fac(rng, x1, x2, affine=True), rand_fac(rng, y1, y2, affine=True), rand_fac(rng, z1, z2, affine=True)]
                elif method == "Adaptive-Simpson" or o % 2 == 0:
                    fs = [Fac("mono", 1.0, 1), Fac("mono", 1.0, 2), Fac("mono", 1.0, 3)]            # x y^2 z^3
                else:
                    fs = [rand_fac(rng, x1, x2), rand_fac(rng, y1, y2), rand_fac(rng, z1, z2)]
                if method == "Tanh-Sinh" and ((o not in (0, 3, 5, 6) and not big) or rp >= 1): continue        # 1e5 evaluations each, and as many for the direct nesting (thorough tier: one of the four rounds)
                p = P(method, rng.random() < 0.5)
                if method == "Gauss-Legendre_2" and p > 31: p = 24
                cs.append(Case(f"nested3d {method} {p} {hx(x1)} {hx(x2)} {hx(y1)} {hx(y2)} {hx(z1)} {hx(z2)} {product_text(fs, 'xyz')} # nd " + " ".join(f.ann() for f in fs),
                               ("nested3d", method, "o%d" % o)))

    # ---- spherical overload
    trap_o = rng.choice([0, 5])
    for rp in range(rep):
        for method in METHODS:
            for o in range(8):
                orr, oc, of = bool(o & 1), bool(o & 2), bool(o & 4)
                r1 = rng.uniform(0.0, 1.0) if rng.random() < 0.8 else 0.0
                r2 = r1 + rng.uniform(0.5, 1.5)
                if not orr: r1, r2 = r2, r1
                full = o in (0, 7) or rng.random() < 0.2
                if method in ("Tanh-Sinh", "Trapezoidal", "Gauss-Kronrod") and o not in (0, 2, 5, 7) and not big: continue
                if (method == "Tanh-Sinh" and rp >= 2) or (method == "Trapezoidal" and rp >= 1): continue      # (thorough tier: two / one of the four rounds; the direct nesting doubles their cost)
                if method == "Trapezoidal" and o != trap_o and not big: continue            # about 1.5 s each (0.6e6 evaluations, and as many for the direct nesting)
                p = P(method, rng.random() < 0.5)
                if method == "Gauss-Legendre_2" and p > 31: p = 24
                radial = full or method in ("Trapezoidal", "Adaptive-Simpson") or rng.random() < 0.4
                if full: c1, c2, f1, f2 = -1.0, 1.0, 0.0, 2 * math.pi
                else:
                    lim = 0.9 if not radial else 1.0
                    c1 = rng.uniform(-lim, lim - 0.3); c2 = rng.uniform(c1 + 0.2, lim)
                    if radial and rng.random() < 0.3: c1 = -1.0
                    if radial and rng.random() < 0.3: c2 = 1.0
                    f1 = rng.uniform(0.05, 5.0); f2 = rng.uniform(f1 + 0.3, min(f1 + 3.0, 6.2))
                    if not oc: c1, c2 = c2, c1
                    if not of: f1, f2 = f2, f1
                if radial:
                    kind = rng.choice(["expdec", "rational", "gauss", "mono"])
                    g = {"expdec": Fac("expdec", rng.uniform(0.3, 1.5)), "rational": Fac("rational", rng.uniform(0.1, 2.0)),
                         "gauss": Fac("gauss", rng.uniform(0.5, 3.0), 0.0), "mono": Fac("mono", rng.choice([1.0, 2.0]), rng.choice([0, 1, 2]))}[kind]
                    if method == "Adaptive-Simpson" and kind == "mono" and int(g.p[1]) == 2: g = Fac("mono", 1.0, 1)
                    cs.append(Case(f"spherical {method} {p} {hx(r1)} {hx(r2)} {hx(c1)} {hx(c2)} {hx(f1)} {hx(f2)} {g.text(NORM)} # sphr {g.ann()}",
                                   ("spherical", method, "full" if full else "sub", "radial")))
                else:
                    co = [rng.uniform(0.5, 2.0) * rng.choice([-1, 1]) for _ in range(3)] + [rng.uniform(3.0, 6.0)]
                    txt = f"+ * c {hx(co[0])} x + * c {hx(co[1])} y + * c {hx(co[2])} z c {hx(co[3])}"
                    cs.append(Case(f"spherical {method} {p} {hx(r1)} {hx(r2)} {hx(c1)} {hx(c2)} {hx(f1)} {hx(f2)} {txt} # sphd " + " ".join(hx(x) for x in co),
                                   ("spherical", method, "sub", "directional")))
    cs += gen_narrow(rng, big, P)
    cs += gen_reentrant(rng, big, P)
    cs += gen_ties(rng, big, P)
    cs += gen_sharp(rng, big)
    cs += gen_parameters(rng, big)
    cs += gen_structured(rng, big, P)
    cs += gen_angles(rng, big, P)
    cs += gen_sessions(rng, big, P)
    cs += gen_trapezoid_levels(rng, big)
    cs += gen_scales(rng, big, P)
    cs += gen_preinit(rng, big, P)
    cs += gen_zero_samples(rng, big, P)
    cs += gen_gl_overloads(rng, big)
    cs += gen_deep(rng, big)
    cs += gen_heavy_simpson(rng, big)
    return cs


# ---- the two public overloads of Integrate_Gauss_Legendre that take a table of roots and weights (the back end of "Gauss-Legendre_2" ends in them):
#      tables of 0 .. 100 rows, values and tables of equal and of different sizes, rows that do not consist of a root and a weight (one, three or - for the
#      overload that does not read the root - no component), first, in the middle, last
def gen_gl_overloads(rng, big):
    cs = []

    def fl(v): return f"{len(v)} " + " ".join(hx(x) for x in v) if v else "0"
    def tab(rows): return f"{len(rows)} " + " ".join(fl(r) for r in rows) if rows else "0"

    def table(n):
        return [[rng.uniform(-3.0, 3.0), rng.uniform(0.01, 0.5) * rng.choice([1, 1, 1, -1])] for _ in range(n)]

    def spoil(rows, allow_empty):
        rows = [list(r) for r in rows]
        k = rng.choice([0, len(rows) - 1, rng.randrange(len(rows))])
        how = rng.choice(["short", "long", "empty"] if allow_empty else ["short", "long"])
        rows[k] = {"short": rows[k][:1], "long": rows[k] + [rng.uniform(-1, 1)], "empty": []}[how]
        return rows, how
    sizes = [0, 1, 2, 3, 5, 30, rng.randint(6, 100)] + ([64, 100, 257] if big else [])
    for rep in range(3 if big else 1):
        for n in sizes:
            rows = table(n); fv = [rng.uniform(-2.0, 2.0) for _ in range(n)]
            cs.append(Case(f"glvec {fl(fv)} {tab(rows)}", ("glvec", "well-formed")))
            for dn in ((-1, 1, 2) if big else (rng.choice([-1, 1]),)):
                if n + dn < 0: continue
                fv2 = [rng.uniform(-2.0, 2.0) for _ in range(n + dn)]
                cs.append(Case(f"glvec {fl(fv2)} {tab(rows)}", ("glvec", "sizes-differ")))
            if n > 0:
                bad, how = spoil(rows, True)
                cs.append(Case(f"glvec {fl(fv)} {tab(bad)}", ("glvec", "row-" + how)))
                if rng.random() < 0.3: cs.append(Case(f"glvec {fl(fv[:-1])} {tab(bad)}", ("glvec", "sizes-differ", "row-" + how)))
            f = rand_fac(rng, -3.0, 3.0)
            cs.append(Case(f"glfun {tab(rows)} {f.text('x')} # glf {f.ann()}", ("glfun", "well-formed")))
            if n > 0:
                bad, how = spoil(rows, False)
                cs.append(Case(f"glfun {tab(bad)} {f.text('x')} # glf {f.ann()}", ("glfun", "row-" + how)))
    return cs


def parse_gl(line):
    """(op, values or None, rows, factor or None) of a glvec / glfun line"""
    body, _, ann = line.partition(" # ")
    t = body.split(); k = 1

    def rl():
        nonlocal k
        n = int(t[k]); v = [float.fromhex(x) for x in t[k + 1:k + 1 + n]]; k += 1 + n
        return v
    fv = rl() if t[0] == "glvec" else None
    m = int(t[k]); k += 1
    rows = [rl() for _ in range(m)]
    f = parse_ann(ann.split())[1][0] if ann else None
    return t[0], fv, rows, f


def predicates_gl(line, io):
    """Integrate_Gauss_Legendre(values, table) / (func, table): terminates exactly when the sizes differ or a row is not a root and a weight; else the sum of
    value times weight (the function evaluated once per row, at the root)"""
    out = []
    if io.startswith("CRASH"): return [("CRASH:" + line.split()[0], f"the implementation ended with {io} on this request")]
    if io.startswith(("SANITIZER", "TIMEOUT", "HARNESSERR")): return out
    op, fv, rows, f = parse_gl(line)
    must_exit = any(len(r) != 2 for r in rows) or (fv is not None and len(fv) != len(rows))
    if io.startswith("EXIT"):
        if not must_exit: out.append((f"{op}:exit", "a table of roots and weights with matching sizes and rows of two components terminated the process"))
        return out
    if must_exit:
        out.append((f"{op}:malformed-accepted", f"sizes that differ or a row that is not a root and a weight were accepted (answer {io[:40]})")); return out
    v = parse_vals(io)
    vals = fv if fv is not None else [f.g(r[0]) for r in rows]
    terms = [x * r[1] for x, r in zip(vals, rows)]
    want = math.fsum(terms); sc = math.fsum(abs(x) for x in terms)
    slack = (len(rows) + 2) * 2.0 ** -52 * sc + (1e-14 * sc if fv is None else 0.0)
    if not (abs(v[0] - want) <= slack): out.append((f"{op}:value", f"result {v[0]!r}, sum of value times weight {want!r} (difference {abs(v[0] - want):.3g} > {slack:.3g})"))
    if fv is None and v[1] != len(rows): out.append((f"{op}:sample-count", f"a table of {len(rows)} rows but the function was evaluated {int(v[1])} times"))
    return out


# ---- integrands that vanish where a rule takes its first samples (the limits and the midpoint): damped oscillations whose zeros or extrema are the
#      limits and the midpoint (any number of quarter periods up to two periods, starting at any zero or extremum; one or two whole periods from zero
#      to zero put all three - resp. all five - first samples on zeros, so that the three-point estimate from which the adaptive Simpson rule derives
#      its tolerance is next to nothing while the integral is not), limits on a geometric ladder of distances from such points; polynomial and rational
#      integrands with exact zeros at both limits and at the midpoint (that estimate, and the tolerance, are then exactly 0); and sign-changing
#      integrands under every method, the adaptive Simpson rule included
ZERO_LADDER = (1e-15, 1e-14, 1e-13, 1e-12, 1e-11, 1e-10, 1e-9, 1e-8, 1e-7, 1e-6, 1e-5, 1e-4)


def gen_zero_samples(rng, big, P):
    cs = []
    PI = math.pi

    def osc(all_zero, m=None):
        """a damped oscillation with limits on its lattice of zeros and extrema (quarter periods): all_zero = both limits and the midpoint are zeros"""
        for _ in range(200):
            kind = rng.choice(["dampsin", "dampcos"]); f = Fac(kind, rng.uniform(0.2, 1.5), rng.uniform(1.0, 4.0)); w = f.p[1]
            if all_zero:
                q0 = 2 * rng.randrange(-2, 3) + (1 if kind == "dampcos" else 0); mm = m or rng.choice([4, 4, 8])
            else:
                q0 = rng.randrange(-4, 5); mm = m or rng.choice([1, 2, 3, 5, 6, 7, 4, 8])
            a, b = q0 * PI / (2 * w), (q0 + mm) * PI / (2 * w)
            if abs(f.integral(a, b)) >= 0.05 * f.l1(a, b): return f, a, b
        return Fac("dampsin", 0.3, 2.0), 0.0, PI

    def zeros3():
        """a polynomial or rational integrand with exact zeros at A, B and (A + B)/2 (dyadic numbers: the midpoint and the half width are exact), positive between them"""
        A = rng.randrange(-48, 49) / 16.0; j = rng.randrange(4, 41); B = A + j / 8.0
        return (Fac("zpoly", A, B) if rng.random() < 0.5 else Fac("zrat", A, B, rng.choice([1.0, 0.5, 2.0, rng.uniform(0.1, 2.0)]))), A, B

    def emit(method, f, a, b, *tags):
        if rng.random() < 0.4: a, b = b, a
        p = P(method, rng.random() < 0.3)
        cs.append(Case(f"named1d {method} {p} {hx(a)} {hx(b)} {f.text('x')} # 1d {f.ann()}", ("named1d", method, "zero-samples") + tags))

    for method in METHODS:
        AS = method == "Adaptive-Simpson"
        # the three first samples on zeros of the oscillation (adaptive Simpson: bisection down to the depth limit, 2^21 evaluations)
        for _ in range(2 if big else 1):
            f, a, b = osc(True)
            emit(method, f, a, b, "zeros-of-oscillation")
        # the same at a geometric ladder of distances (relative to the width) from the zeros, both limits moved or only one
        # (adaptive Simpson, quick tier: distances from 1e-11 on - closer ones cost as much as the zeros themselves)
        for step in (rng.sample(ZERO_LADDER[:4], 2) + list(ZERO_LADDER[4:]) if big and AS else rng.sample(ZERO_LADDER[4:7], 1) + rng.sample(ZERO_LADDER[7:10], 1) + rng.sample(ZERO_LADDER[10:], 1) if AS
                     else rng.sample(ZERO_LADDER[:6], 1) + rng.sample(ZERO_LADDER[6:], 1) if big else rng.sample(ZERO_LADDER, 1)):
            f, a, b = osc(True)
            sh = step * (b - a) * rng.choice([-1, 1]); how = rng.randrange(3)
            if how != 1: a += sh
            if how != 2: b += sh
            emit(method, f, a, b, "near-zeros-of-oscillation")
        # limits on zeros and extrema, any number of quarter periods
        for _ in range(4 if big else 1):
            f, a, b = osc(False)
            emit(method, f, a, b, "quarter-periods")
        # exact zeros at the limits and the midpoint
        for _ in range(4 if big else 2 if AS else 1):
            f, A, B = zeros3()
            emit(method, f, A, B, "exact-zeros")
        # exact zeros at all five first samples (limits, midpoint, quarter points): a polynomial of degree 6 with a non-zero integral
        # (adaptive Simpson: both estimates and the tolerance are 0 - theorem C13_adaptive_simpson_accuracy_refuted, known finding K-C13-2)
        if AS or big or rng.random() < 0.3:
            A = rng.randrange(-48, 49) / 16.0; B = A + rng.randrange(1, 11) / 2.0
            emit(method, Fac("zfive", A, B), A, B, "five-exact-zeros")
    # sign-changing integrands at ordinary limits under the adaptive Simpson rule (its tolerance is relative to its own three-point estimate)
    for _ in range(12 if big else 4):
        a, b = limits(rng, rng.randrange(3), True)
        if rng.random() < 0.3: a, b = a - 3.0, b - 3.0
        emit("Adaptive-Simpson", rand_fac(rng, a, b), a, b, "sign-changing")
    return cs


# ---- the nested trapezoidal rule with a curved level: three (two) fully refined levels cost 2049^3 (2049^2) evaluations, one curved level among
#      levels of degree <= 1 costs 2049 * 17 * 17: the curved level at every position (outermost, middle, innermost), every orientation; each is compared
#      bit for bit with boost's rule nested level by level by the harness, and with the closed form at the accuracy of ONE level (the others are exact)
def gen_trapezoid_levels(rng, big):
    cs = []
    for dd in (2, 3):
        for k in (range(dd) if big or dd == 2 else sorted(rng.sample(range(3), 2))):      # (three dimensions: 1.2e6 evaluations per case with the direct nesting)
            for o in ((range(4) if dd == 2 else sorted(rng.sample(range(8), 2))) if big else [rng.randrange(2 ** dd)]):
                lims = [limits(rng, j, bool(o >> j & 1)) for j in range(dd)]
                facs = [rand_fac(rng, *lims[j]) if j == k else rand_fac(rng, *lims[j], affine=True) for j in range(dd)]
                if not facs[k].curved(): facs[k] = Fac("expdec", rng.uniform(0.8, 1.5))
                p = rng.choice([0, 0, 7])
                flat = " ".join(hx(x) for lm in lims for x in lm)
                cs.append(Case(f"nested{dd}d Trapezoidal {p} {flat} {product_text(facs, 'xyz'[:dd])} # nd " + " ".join(f.ann() for f in facs),
                               (f"nested{dd}d", "Trapezoidal", "one-curved-level", "curved-" + "xyz"[k], "o%d" % o)))
    return cs


# ---- axes that live on scales of their own: limits s_k a, s_k b with s_k = 2^e on a geometric ladder from 2^-900 to 2^900, the factor of the axis
#      g(v / s_k) with amplitude 1 or 1 / s_k (a density), chosen so that the integrand, every partial integral and the result are ordinary numbers:
#      every method in one dimension; in two and three dimensions the scales of the axes mixed (all tiny - the product of the widths underflows although no
#      width does and the integral is an ordinary number -, all huge - it overflows -, tiny next to huge, one axis of order one), every orientation
SCALE_LADDER = (30, 100, 300, 500, 700, 900)


def scale_feasible(es, ks):
    """the integrand (product of amplitudes), every partial integral (amplitude * scale on the integrated axes) and the result stay within 2^+-960"""
    sums = [0]
    for e, k in zip(es, ks): sums = [t + u for t in sums for u in (0, k, k + e)]
    return all(abs(t) <= 960 for t in sums)


def pick_amplitudes(rng, es):
    for _ in range(200):
        ks = [rng.choice([0, -e, -e, rng.choice([-1, 1]) * rng.choice([0, 10, 100])]) for e in es]
        if scale_feasible(es, ks): return ks
    return None


def scale_patterns(rng, dd):
    L = SCALE_LADDER
    small = lambda: -rng.choice(L[2:]); huge = lambda: rng.choice(L[2:]); mid = lambda: rng.choice([-1, 1]) * rng.choice(L[:2] + (0,))
    jo = rng.randrange(dd)
    pats = {"all-tiny": [small() for _ in range(dd)], "all-huge": [huge() for _ in range(dd)],
            "tiny-huge": [small() if j % 2 == 0 else huge() for j in range(dd)], "huge-tiny": [huge() if j % 2 == 0 else small() for j in range(dd)],
            "one-ordinary": [mid() if j == jo else rng.choice([small(), huge()]) for j in range(dd)]}
    # all tiny: make sure that the product of the widths is below the smallest subnormal while every product of fewer widths is representable
    if dd == 2: pats["all-tiny"] = rng.choice([[-600, -500], [-500, -700], [-900, -300], [-300, -900], [-700, -700]])
    if dd == 3: pats["all-tiny"] = rng.choice([[-400, -400, -400], [-300, -500, -400], [-500, -100, -500], [-600, -500, -30]])
    if dd == 2: pats["all-huge"] = rng.choice([[600, 500], [900, 300], [700, 700], [500, 600]])
    if dd == 3: pats["all-huge"] = rng.choice([[400, 400, 400], [300, 500, 400], [600, 500, 30]])
    return pats


def gen_scales(rng, big, P):
    cs = []

    def axis(e, k, method, affine=False, poly=False):
        s = 2.0 ** e; c = 2.0 ** k
        a0, b0 = limits(rng, rng.randrange(3), rng.random() < 0.6)
        if rng.random() < 0.2 and method != "Tanh-Sinh": a0, b0 = a0 - 3.0, b0 - 3.0
        base = rand_fac(rng, a0, b0, positive=(method == "Adaptive-Simpson"), affine=affine, poly=poly)
        return (a0 * s, b0 * s), SFac(c, s, base)

    def par(method, cheap):
        if method == "Gauss-Kronrod": return rng.choice([1, 2]) if cheap else rng.choice([0, 1, 3])      # narrow intervals (in absolute terms) take boost's rule to its full depth
        if method == "Gauss-Legendre_2": return rng.choice([0, 20, 24, 31])
        return P(method, rng.random() < 0.3)

    # one dimension: the whole ladder, both signs
    for method in METHODS:
        es = [sg * e for e in SCALE_LADDER for sg in (-1, 1)]
        for e in (es if big else rng.sample(es[:4], 1) + rng.sample(es[4:8], 1) + rng.sample(es[8:], 2)):
            ks = pick_amplitudes(rng, [e])
            lim, f = axis(e, ks[0], method)
            p = par(method, False)
            cs.append(Case(f"named1d {method} {p} {hx(lim[0])} {hx(lim[1])} {f.text('x')} # 1d {f.ann()}", ("named1d", method, "scaled-axis", "tiny" if e < 0 else "huge")))
    # two and three dimensions
    for dd in (2, 3):
        for method in METHODS:
            if dd == 3 and method in ("Gauss-Kronrod", "Tanh-Sinh") and not big: continue
            names = list(scale_patterns(rng, dd))
            if not big: names = ["all-tiny"] + rng.sample(names[1:], 1 if dd == 2 else 0)
            elif dd == 3 and method in ("Gauss-Kronrod", "Tanh-Sinh"): names = ["all-tiny"] + rng.sample(names[1:], 1)      # 1e5 .. 1e6 evaluations each
            for name in names * (2 if big and not (dd == 3 and method in ("Gauss-Kronrod", "Tanh-Sinh")) else 1):
                es = scale_patterns(rng, dd)[name]
                ks = pick_amplitudes(rng, es)
                if ks is None: continue
                curved = rng.randrange(dd) if method == "Trapezoidal" and dd == 2 and rng.random() < 0.5 else None
                # (three nested levels of the adaptive Simpson rule: polynomials, as everywhere in three dimensions)
                axes = [axis(es[j], ks[j], method, affine=(method == "Trapezoidal" and j != curved), poly=(method == "Adaptive-Simpson" and dd == 3)) for j in range(dd)]
                p = par(method, True)
                if method == "Gauss-Legendre_2" and dd == 3: p = rng.choice([20, 24])
                if method == "Gauss-Kronrod" and dd == 3: p = 1
                flat = " ".join(hx(x) for lm, _ in axes for x in lm)
                facs = [f for _, f in axes]
                cs.append(Case(f"nested{dd}d {method} {p} {flat} {product_text(facs, 'xyz'[:dd])} # nd " + " ".join(f.ann() for f in facs),
                               (f"nested{dd}d", method, "scaled-axes", name)))
    return cs


# ---- calls made before main: a caller's translation unit that is linked in front of the library and initialises a namespace-scope object with an
#      integral (a normalisation constant, a tabulated function) calls the library before the namespace-scope objects of the library's own translation
#      units are initialised; every method name, default and explicit method_parameter, every entry point, an unknown name, equal limits
def gen_preinit(rng, big, P):
    cs = []
    for rep in range(2 if big else 1):
        for method in METHODS:
            for explicit in (False, True):
                p = P(method, explicit)
                a, b = limits(rng, rng.randrange(3), rng.random() < 0.6)
                f = rand_fac(rng, a, b, positive=(method == "Adaptive-Simpson"))
                cs.append(Case(f"preinit named1d {method} {p} {hx(a)} {hx(b)} {f.text('x')} # 1d {f.ann()}", ("preinit", "named1d", method, "p0" if p == 0 else "p")))
            p = P(method, rng.random() < 0.3)
            lims = [limits(rng, k, rng.random() < 0.6) for k in range(2)]
            facs = [rand_fac(rng, *lims[k], positive=(method == "Adaptive-Simpson"), affine=(method == "Trapezoidal")) for k in range(2)]
            flat = " ".join(hx(x) for lm in lims for x in lm)
            cs.append(Case(f"preinit nested2d {method} {p} {flat} {product_text(facs, 'xy')} # nd {facs[0].ann()} {facs[1].ann()}", ("preinit", "nested2d", method, "p0" if p == 0 else "p")))
            if method in ("Tanh-Sinh", "Gauss-Kronrod") and not big: continue
            p = P(method, rng.random() < 0.3)
            if method == "Gauss-Legendre_2" and p > 31: p = 24
            if rng.random() < 0.5:
                lims = [limits(rng, k, rng.random() < 0.6) for k in range(3)]
                facs = [rand_fac(rng, *lims[k], poly=(method == "Adaptive-Simpson"), affine=(method == "Trapezoidal")) for k in range(3)]
                flat = " ".join(hx(x) for lm in lims for x in lm)
                cs.append(Case(f"preinit nested3d {method} {p} {flat} {product_text(facs, 'xyz')} # nd " + " ".join(f.ann() for f in facs), ("preinit", "nested3d", method, "p0" if p == 0 else "p")))
            elif method != "Trapezoidal" or big:
                r1 = rng.uniform(0.1, 1.0); r2 = r1 + rng.uniform(0.5, 1.5); c1 = rng.uniform(-1.0, 0.5); c2 = rng.uniform(c1 + 0.2, 1.0); f1 = rng.uniform(0.0, 4.0); f2 = rng.uniform(f1 + 0.3, 6.28)
                g = rng.choice([Fac("expdec", rng.uniform(0.3, 1.5)), Fac("rational", rng.uniform(0.1, 2.0))])
                cs.append(Case(f"preinit spherical {method} {p} " + " ".join(hx(x) for x in (r1, r2, c2, c1, f1, f2)) + f" {radial_text(g)} # sphr {g.ann()}", ("preinit", "spherical", method, "p0" if p == 0 else "p")))
        f = Fac("expdec", 0.7)
        a, b = limits(rng, 0, True)
        cs.append(Case(f"preinit named1d {rng.choice(UNKNOWN)} 0 {hx(a)} {hx(b)} {f.text('x')} # 1d {f.ann()}", ("preinit", "named1d", "unknown-method")))
        m = rng.choice(METHODS)
        cs.append(Case(f"preinit named1d {m} 0 {hx(a)} {hx(a)} {f.text('x')} # 1d {f.ann()}", ("preinit", "named1d", "equal-limits")))
    return cs


# ---- the whole range of explicit method_parameters: numbers of points of Gauss-Legendre_2 on a geometric ladder up to several thousand, on both
#      sides of every power of two (smooth integrands: the accuracy clause applies from 20 points on), at every entry point where the cost allows it;
#      Gauss-Kronrod recursion depths from 1 to 100; parameters of any sign and size for the methods that ignore them
def gen_parameters(rng, big):
    cs = []
    ladder = [33, 50, 63, 64, 65, 100, 127, 128, 129, 200, 255, 256, 257, 258, 272, 300, 400, 511, 512, 513, 700, 1000, 1023, 1024, 1025]
    ladder += [1500, 2047, 2048, 2049, 3000, 4096] if big else [rng.choice([1500, 2047, 2048, 2049])]
    for n in ladder:
        for orient in ((True, False) if big and n < 1500 else (rng.random() < 0.5,)):
            a, b = limits(rng, rng.randrange(3), orient)
            if rng.random() < 0.3: a, b = a - 3.0, b - 3.0
            f = rand_fac(rng, a, b)
            cs.append(Case(f"named1d Gauss-Legendre_2 {n} {hx(a)} {hx(b)} {f.text('x')} # 1d {f.ann()}", ("named1d", "Gauss-Legendre_2", "points-ladder", "p")))
    for n in ([65, 100, 129, 200, 257, 300] if big else [rng.choice([65, 100, 129])]):
        (x1, x2), (y1, y2) = limits(rng, 0, rng.random() < 0.5), limits(rng, 1, rng.random() < 0.5)
        fx, fy = rand_fac(rng, x1, x2), rand_fac(rng, y1, y2)
        cs.append(Case(f"nested2d Gauss-Legendre_2 {n} {hx(x1)} {hx(x2)} {hx(y1)} {hx(y2)} {product_text([fx, fy], 'xy')} # nd {fx.ann()} {fy.ann()}", ("nested2d", "Gauss-Legendre_2", "points-ladder", "p")))
    for n in ([33, 50, 64] if big else [rng.choice([33, 40])]):
        lims = [limits(rng, k, rng.random() < 0.5) for k in range(3)]
        facs = [rand_fac(rng, *lims[k]) for k in range(3)]
        flat = " ".join(hx(x) for lm in lims for x in lm)
        cs.append(Case(f"nested3d Gauss-Legendre_2 {n} {flat} {product_text(facs, 'xyz')} # nd " + " ".join(f.ann() for f in facs), ("nested3d", "Gauss-Legendre_2", "points-ladder", "p")))
        r1 = rng.uniform(0.0, 1.0); r2 = r1 + rng.uniform(0.5, 1.5)
        if rng.random() < 0.5: r1, r2 = r2, r1
        c1 = rng.uniform(-1.0, 0.5); c2 = rng.uniform(c1 + 0.2, 1.0); f1 = rng.uniform(0.0, 4.0); f2 = rng.uniform(f1 + 0.3, 6.28)
        if rng.random() < 0.5: c1, c2 = c2, c1
        if rng.random() < 0.5: f1, f2 = f2, f1
        g = rng.choice([Fac("expdec", rng.uniform(0.3, 1.5)), Fac("rational", rng.uniform(0.1, 2.0)), Fac("gauss", rng.uniform(0.5, 3.0), 0.0)])
        cs.append(Case(f"spherical Gauss-Legendre_2 {n} {hx(r1)} {hx(r2)} {hx(c1)} {hx(c2)} {hx(f1)} {hx(f2)} {radial_text(g)} # sphr {g.ann()}", ("spherical", "Gauss-Legendre_2", "points-ladder", "p")))
    for d in [4, 5, 6, 10, 16, 20, 30, 50, 100]:
        a, b = limits(rng, rng.randrange(3), rng.random() < 0.5)
        f = rand_fac(rng, a, b)
        cs.append(Case(f"named1d Gauss-Kronrod {d} {hx(a)} {hx(b)} {f.text('x')} # 1d {f.ann()}", ("named1d", "Gauss-Kronrod", "depth-ladder", "p")))
    for method in ("Trapezoidal", "Gauss-Legendre", "Tanh-Sinh", "Adaptive-Simpson"):
        for p in ([-1, -30, 30, 256, 300, 65536, 2147483647, -2147483648] if big else rng.sample([-1, -30, 30, 256, 300, 65536, 2147483647, -2147483648], 2)):
            a, b = limits(rng, rng.randrange(3), rng.random() < 0.5)
            f = rand_fac(rng, a, b, positive=(method == "Adaptive-Simpson"))
            cs.append(Case(f"named1d {method} {p} {hx(a)} {hx(b)} {f.text('x')} # 1d {f.ann()}", ("named1d", method, "ignored-parameter", "p")))
    return cs


# ---- limits at structured values: intervals symmetric about the origin, starting or ending at exactly zero, with integer or pi-multiple ends,
#      of width exactly one (requests a caller writes by hand), every method, both orientations
def gen_structured(rng, big, P):
    cs = []
    PI = math.pi

    def special():
        a = rng.choice([0.5, 1.0, 1.5, 2.0, rng.uniform(0.3, 2.0)])
        return rng.choice([(-a, a), (0.0, a), (-a, 0.0), (-0.0, a), (-1.0, 1.0), (0.0, 1.0), (0.0, PI), (-PI / 2, PI / 2), (0.0, PI / 2), (1.0, 2.0), (2.0, 3.0), (-2.0, -1.0),
                           (float(math.floor(a * 3)), float(math.floor(a * 3)) + 1.0)])
    for method in METHODS:
        for _ in range(6 if big else 2):
            a, b = special()
            if rng.random() < 0.5: a, b = b, a
            f = rand_fac(rng, a, b, positive=(method == "Adaptive-Simpson"))
            p = P(method, rng.random() < 0.3)
            cs.append(Case(f"named1d {method} {p} {hx(a)} {hx(b)} {f.text('x')} # 1d {f.ann()}", ("named1d", method, "structured-limits")))
        if method in ("Trapezoidal", "Tanh-Sinh") and not big: continue
        for _ in range(3 if big else 1):
            lims = []
            for k in range(2):
                a, b = special()
                lims.append((b, a) if rng.random() < 0.5 else (a, b))
            if method == "Trapezoidal": facs = [rand_fac(rng, *lims[k], affine=True) for k in range(2)]
            else: facs = [rand_fac(rng, *lims[k], positive=(method == "Adaptive-Simpson")) for k in range(2)]
            p = P(method, rng.random() < 0.3)
            flat = " ".join(hx(x) for lm in lims for x in lm)
            cs.append(Case(f"nested2d {method} {p} {flat} {product_text(facs, 'xy')} # nd {facs[0].ann()} {facs[1].ann()}", ("nested2d", method, "structured-limits")))
    return cs


# ---- all angular sub-ranges of the spherical overload: azimuth ranges anywhere on the real line (negative, beyond 2 pi), starting at multiples of pi/2,
#      of width exactly a quarter, a half, one or two full turns (the end formed in floating point as start + width, or as a multiple of pi itself) and of
#      arbitrary width, cosine ranges over the whole, the upper, the lower half sphere and arbitrary ones: every orientation of every pair; radial profiles
#      (value = (c2 - c1)(phi2 - phi1) times the radial integral) and direction-dependent integrands (closed form)
def gen_angles(rng, big, P):
    cs = []
    PI = math.pi
    methods = ["Gauss-Legendre", "Gauss-Legendre_2", "Gauss-Kronrod", "Adaptive-Simpson", "Gauss-Legendre", "Gauss-Legendre_2"] + (["Tanh-Sinh", "Trapezoidal"] if big else [])
    count = 0
    for method in methods:
        for _ in range(8 if big and method not in ("Tanh-Sinh", "Trapezoidal") else 2 if big else 4):
            count += 1
            if rng.random() < 0.6:
                s0 = rng.choice([0.0, PI / 2, PI, -PI / 2, -PI, 2 * PI, -2 * PI, 3 * PI, 3 * PI / 2, -3 * PI / 2, rng.uniform(-7.0, 7.0), rng.uniform(-7.0, 7.0)])
                w = rng.choice([PI / 2, PI, 2 * PI, 2 * PI, 2 * PI, 3 * PI, 4 * PI, rng.uniform(0.3, 6.0), rng.uniform(0.3, 6.0)])
                f1, f2 = s0, s0 + w
            else:
                k1 = rng.randrange(-4, 7); k2 = k1 + rng.choice([1, 2, 4, 4, 4, 6, 8])
                f1, f2 = k1 * PI / 2, k2 * PI / 2
            c1, c2 = rng.choice([(-1.0, 1.0), (-1.0, 1.0), (0.0, 1.0), (-1.0, 0.0), (-0.5, 0.5), (0.0, 0.5)] + [tuple(sorted((rng.uniform(-1.0, 0.3), rng.uniform(0.4, 1.0))))])
            o = count % 8 if rng.random() < 0.7 else rng.randrange(8)
            if o & 2: c1, c2 = c2, c1
            if (o & 4) or (count % 3 == 0): f1, f2 = f2, f1
            r1 = rng.uniform(0.0, 1.0) if rng.random() < 0.8 else 0.0
            r2 = r1 + rng.uniform(0.5, 1.5)
            if o & 1: r1, r2 = r2, r1
            p = P(method, rng.random() < 0.4)
            if method == "Gauss-Legendre_2" and p > 31: p = 24
            radial = method in ("Adaptive-Simpson", "Trapezoidal") or rng.random() < 0.5
            tags = ("spherical", method, "angular-range", "full-turn" if abs(abs(f2 - f1) - 2 * PI) < 1e-9 else "turns" if abs(f2 - f1) > 2 * PI else "sub")
            if radial:
                kind = rng.choice(["expdec", "rational", "gauss", "mono"])
                g = {"expdec": Fac("expdec", rng.uniform(0.3, 1.5)), "rational": Fac("rational", rng.uniform(0.1, 2.0)),
                     "gauss": Fac("gauss", rng.uniform(0.5, 3.0), 0.0), "mono": Fac("mono", rng.choice([1.0, 2.0]), rng.choice([0, 1]))}[kind]
                cs.append(Case(f"spherical {method} {p} {hx(r1)} {hx(r2)} {hx(c1)} {hx(c2)} {hx(f1)} {hx(f2)} {g.text(NORM)} # sphr {g.ann()}", tags + ("radial",)))
            else:
                co = [rng.uniform(0.5, 2.0) * rng.choice([-1, 1]) for _ in range(3)] + [rng.uniform(3.0, 6.0)]
                # vx and vy carry the factor sqrt(1 - cos_theta^2), which is not smooth in the integration variable at the poles: where the cosine range
                # comes close to them the integrand depends on the direction through vz only
                if max(abs(c1), abs(c2)) > 0.9: co[0] = co[1] = 0.0
                txt = f"+ * c {hx(co[0])} x + * c {hx(co[1])} y + * c {hx(co[2])} z c {hx(co[3])}"
                cs.append(Case(f"spherical {method} {p} {hx(r1)} {hx(r2)} {hx(c1)} {hx(c2)} {hx(f1)} {hx(f2)} {txt} # sphd " + " ".join(hx(x) for x in co), tags + ("directional",)))
    return cs


# ---- call histories: several calls made one after the other by one process (each answer is compared with the answer of the same call in a process
#      that has made no other call, with the model, and with the closed form): numbers of points of Gauss-Legendre_2 that are equal, adjacent, multiples,
#      or equal in their low bits (coarse before fine and fine before coarse), on the same and on different intervals and integrands; default against
#      explicit parameters; every method after every other; recursion depths of Gauss-Kronrod; the entry points mixed; a call with equal limits or a
#      re-entrant call first; the same call repeated
def gen_sessions(rng, big, P):
    cs = []

    def c1(method, p, a, b, f, re=None):
        if re is None: return (f"named1d {method} {p} {hx(a)} {hx(b)} {f.text('x')}", f"1d {f.ann()}")
        return (f"named1d {method} {p} {hx(a)} {hx(b)} {product_text([f], 'x', re)}", f"1d@ {re_ann(re)} {f.ann()}")

    def c2(method, p, lims, facs):
        flat = " ".join(hx(x) for lm in lims for x in lm)
        return (f"nested{len(lims)}d {method} {p} {flat} {product_text(facs, 'xyz'[:len(lims)])}", "nd " + " ".join(f.ann() for f in facs))

    def csph(method, p, lim, g):
        return (f"spherical {method} {p} " + " ".join(hx(x) for x in lim) + f" {radial_text(g)}", f"sphr {g.ann()}")

    def emit(calls, *tags):
        cs.append(Case(f"session {len(calls)} " + " ;; ".join(b for b, _ in calls) + " # " + " ;; ".join(a for _, a in calls), ("session",) + tags))

    def interval():
        a, b = limits(rng, rng.randrange(3), rng.random() < 0.6)
        if rng.random() < 0.3: a, b = a - 3.0, b - 3.0
        return a, b

    GL2 = "Gauss-Legendre_2"
    for rep in range(4 if big else 1):
        # numbers of points that agree in their low k bits, k = 3..8 (and differ by small multiples of 2^k)
        for k in range(3, 9):
            n = rng.randint(1, 12); fine = n + rng.choice([1, 1, 2, 3]) * 2 ** k
            for order in ((0, 1) if big else (0,) if k != rng.randrange(3, 9) else (0, 1)):
                a, b = interval(); f = rand_fac(rng, a, b)
                seq = [c1(GL2, n, a, b, f), c1(GL2, fine, a, b, f)]
                if rng.random() < 0.4:
                    a2, b2 = interval(); seq.append(c1(GL2, fine, b2, a2, rand_fac(rng, a2, b2)))
                emit(seq[::-1] if order else seq, "points-low-bits", "coarse-first" if not order else "fine-first")
        # numbers of points that are congruent modulo m, for every m up to 128 and the usual sizes of tables beyond (a rule kept from an earlier call
        # under a reduced key, of which the low bits above are the case m = 2^k): the coarse rule first, then n0 + m for every m; once the other way round
        n0 = rng.randint(2, 9)
        ms = list(range(1, 129)) + [130, 150, 160, 192, 200, 250, 256, 300, 400, 500, 512, 1000, 1024] + ([2000, 2048, 4096] if big else [])
        rev = rng.randrange(0, len(ms), 12)
        for k0 in range(0, len(ms), 12):
            a, b = interval(); f = rand_fac(rng, a, b)
            seq = [c1(GL2, n0, a, b, f)] + [c1(GL2, n0 + m, a, b, f) for m in ms[k0:k0 + 12]]
            emit(seq[::-1] if k0 == rev else seq, "points-congruent", "coarse-first" if k0 != rev else "fine-first")
        # the same across the entry points: the coarse rule through one entry point, the congruent number of points through another
        for m in (rng.sample([16, 32, 50, 64, 100, 128, 200, 256], 2) if not big else [16, 32, 50, 64, 100, 128, 200, 256]):
            n1 = rng.randint(2, 6)
            a, b = interval(); f = rand_fac(rng, a, b)
            lims = [limits(rng, k, rng.random() < 0.6) for k in range(2)]; facs = [rand_fac(rng, *lims[k]) for k in range(2)]
            seq = rng.choice([[c2(GL2, n1, lims, facs), c1(GL2, n1 + m, a, b, f), c2(GL2, n1 + m, lims, facs)],
                              [c1(GL2, n1, a, b, f), c2(GL2, n1 + m, lims, facs), c1(GL2, n1 + m, b, a, f)]])
            emit(seq, "points-congruent", "entry-points-mixed")
        # adjacent, double, equal numbers of points; the default against the explicit 30
        n = rng.randint(20, 40)
        for pair in ((n, n + 1), (n + 1, n), (n, 2 * n), (2 * n, n), (n, n), (0, 30), (30, 0), (0, 30 + 2 ** rng.randrange(3, 9)), (30 + 2 ** rng.randrange(3, 9), 0), (rng.randint(1, 12), 30, 0)):
            if not big and rng.random() < 0.5: continue
            a, b = interval(); f = rand_fac(rng, a, b)
            emit([c1(GL2, q, a, b, f) for q in pair], "points-related")
        # the same number of points on different intervals and integrands, then the first call again
        for _ in range(2):
            n = rng.choice([0, 20, 24, 31, 40, 64]); a, b = interval(); f = rand_fac(rng, a, b); a2, b2 = interval(); f2 = rand_fac(rng, a2, b2)
            emit([c1(GL2, n, a, b, f), c1(GL2, n, b2, a2, f2), c1(GL2, n, a, b, f)], "same-points-other-interval")
        # every method after the others, on one integrand and interval
        for _ in range(2):
            a, b = interval(); f = rand_fac(rng, a, b, positive=True)
            order = list(METHODS); rng.shuffle(order)
            emit([c1(m, P(m, rng.random() < 0.4), a, b, f) for m in order], "methods-mixed")
        # recursion depths of Gauss-Kronrod, shallow then deep and deep then shallow
        for pair in ((1, 15), (15, 1), (0, 8), (2, 0)):
            if not big and rng.random() < 0.5: continue
            a, b = interval(); f = rand_fac(rng, a, b)
            emit([c1("Gauss-Kronrod", q, a, b, f) for q in pair], "depths")
        # the entry points mixed
        for method in ((GL2, "Gauss-Legendre", "Gauss-Kronrod", "Adaptive-Simpson") if big else (GL2, rng.choice(["Gauss-Legendre", "Gauss-Kronrod", "Adaptive-Simpson"]))):
            pos = method == "Adaptive-Simpson"
            ns = [rng.choice([20, 24, 31]) for _ in range(4)] if method == GL2 else [P(method, rng.random() < 0.4) for _ in range(4)]
            a, b = interval(); f = rand_fac(rng, a, b, positive=pos)
            lims = [limits(rng, k, rng.random() < 0.6) for k in range(2)]; facs = [rand_fac(rng, *lims[k], positive=pos) for k in range(2)]
            r1 = rng.uniform(0.1, 1.0); r2 = r1 + rng.uniform(0.5, 1.5); c1_ = rng.uniform(-1.0, 0.5); c2_ = rng.uniform(c1_ + 0.2, 1.0); f1 = rng.uniform(0.0, 4.0); f2 = rng.uniform(f1 + 0.3, 6.28)
            g = rng.choice([Fac("expdec", rng.uniform(0.3, 1.5)), Fac("rational", rng.uniform(0.1, 2.0))])
            seq = [c1(method, ns[0], a, b, f), c2(method, ns[1], lims, facs), csph(method, ns[2], (r2, r1, c1_, c2_, f2, f1), g), c1(method, ns[3], b, a, f)]
            if rng.random() < 0.5: seq[0], seq[1] = seq[1], seq[0]
            emit(seq, "entry-points-mixed", method)
        # a call with equal limits first; a re-entrant call (coarse rule inside) first
        a, b = interval(); f = rand_fac(rng, a, b); m = rng.choice(METHODS)
        emit([c1(m, 0, a, a, f), c1(m, 0, a, b, rand_fac(rng, a, b, positive=True))], "equal-limits-first")
        a, b = interval(); f = rand_fac(rng, a, b); x0 = rng.uniform(min(a, b), max(a, b)); nin = rng.randint(2, 12)
        emit([c1(GL2, rng.choice([0, 24]), a, b, f, (0, x0, GL2, nin)), c1(GL2, nin + 2 ** rng.randrange(3, 9), a, b, f), c1(GL2, 0, a, b, f, (0, x0, "Gauss-Kronrod", 0))], "reentrant-first")
        # the same call three times
        for m in (METHODS if big else rng.sample(METHODS, 3)):
            a, b = interval(); f = rand_fac(rng, a, b, positive=True); q = P(m, rng.random() < 0.5)
            emit([c1(m, q, a, b, f)] * 3, "repeated", m)
    return cs


# ---- 1-D limits that are distinct but nearly equal (a geometric ladder of relative distances from one ulp to 1e-4, both orientations), and
#      intervals of ordinary width far from the origin (|a| >> |b - a|)
def narrow_rel(lim):
    a, b = lim[0], lim[1]
    m = max(abs(a), abs(b))
    return abs(b - a) / m if m > 0 else math.inf


def tanh_sinh_narrow(op, method, lim):
    """the region of known finding K-C13-1: Tanh-Sinh on a 1-D interval whose width is below 1e-6 of the magnitude of its limits"""
    return op == "named1d" and method == "Tanh-Sinh" and lim[0] != lim[1] and narrow_rel(lim) <= 1e-6


def gen_narrow(rng, big, P):
    cs = []
    steps = ["ulp", "4ulp", 1e-15, 1e-14, 1e-13, 1e-12, 1e-11, 1e-10, 1e-9, 1e-8, 1e-7, 1e-6, 1e-5, 1e-4]
    for method in METHODS:
        for step in (steps if big else rng.sample(steps[:4], 1) + rng.sample(steps[4:9], 1) + rng.sample(steps[9:], 2)):
            a = rng.choice([1.5, -2.25, rng.uniform(0.3, 5.0), -rng.uniform(0.3, 5.0)])
            sg = rng.choice([-1.0, 1.0])
            if step == "ulp": b = math.nextafter(a, sg * math.inf)
            elif step == "4ulp":
                b = a
                for _ in range(4): b = math.nextafter(b, sg * math.inf)
            else: b = a * (1.0 + sg * step * rng.uniform(1.0, 3.0))
            f = rng.choice([Fac("expdec", rng.uniform(0.2, 1.5)), Fac("rational", rng.uniform(0.1, 2.0)), Fac("gauss", rng.uniform(0.5, 4.0), a + rng.uniform(-0.5, 0.5)),
                            Fac("dampcos", rng.uniform(0.2, 1.5), rng.uniform(0.2, 0.9) / abs(a))])
            p = P(method, rng.random() < 0.3)
            cs.append(Case(f"named1d {method} {p} {hx(a)} {hx(b)} {f.text('x')} # 1d {f.ann()}", ("named1d", method, "near-equal-limits")))
        for off in ((1e3, 1e4, 1e5, 1e6, 1e7, 1e9) if big else (rng.choice([1e3, 1e4]), rng.choice([1e5, 1e6, 1e7]))):
            a = off * rng.uniform(1.0, 8.0) * rng.choice([-1, 1]); b = a + rng.uniform(0.5, 1.5) * rng.choice([-1, 1])
            f = Fac("gauss", rng.uniform(0.5, 4.0), a + rng.uniform(-0.3, 1.3) * (b - a))
            p = P(method, rng.random() < 0.3)
            cs.append(Case(f"named1d {method} {p} {hx(a)} {hx(b)} {f.text('x')} # 1d {f.ann()}", ("named1d", method, "far-from-origin")))
    return cs


# ---- user functions that are themselves defined through an integral: the library is re-entered from inside its own integrand,
#      every method name at either level, equal and different method_parameters at the two levels (both orders), reversed and
#      equal inner limits (the anchor x0 lies inside, at an end of, or outside the outer interval)
def gen_reentrant(rng, big, P):
    cs = []

    def anchor(a, b, method, im, exact_var=True):
        """the point x0 from which the inner integral runs: inside, outside, or (where the outer rule evaluates exactly there, so that the
        inner limits are equal) at an end or the middle of the outer interval; inner intervals a few ulps wide are left to the near-equal-limits cases"""
        lo, hi = min(a, b), max(a, b)
        ch = [rng.uniform(lo, hi), lo - rng.uniform(0.05, 0.4), hi + rng.uniform(0.05, 0.4)]
        if exact_var and "Tanh-Sinh" not in (method, im):
            ch += [lo, hi]
            if method != "Trapezoidal": ch.append(0.5 * (lo + hi))
        return rng.choice(ch)

    def fac_for(method, a, b):
        return rand_fac(rng, a, b, positive=(method == "Adaptive-Simpson"), affine=(method == "Trapezoidal" and rng.random() < 0.5))

    # 1-D: every pair (outer, inner) that inner_ok admits
    for rep in range(2 if big else 1):
        for method in METHODS:
            for im in METHODS:
                if not inner_ok(method, im): continue
                for _ in range(20):
                    a, b = limits(rng, rng.randrange(3), rng.random() < 0.6)
                    if rng.random() < 0.3: a, b = a - 3.0, b - 3.0
                    f = fac_for(method, a, b); x0 = anchor(a, b, method, im)
                    _, onesign = f.dl1(min(x0, a, b), max(x0, a, b), want_sign=True)
                    if im != "Adaptive-Simpson" or onesign: break
                else: continue
                p = P(method, rng.random() < 0.5)
                ip = {"Gauss-Legendre_2": rng.choice([0, 20, 24, 31, 40]), "Gauss-Kronrod": rng.choice([0, 8, 15])}.get(im, rng.choice([0, 7]))
                re = (0, x0, im, ip)
                cs.append(Case(f"named1d {method} {p} {hx(a)} {hx(b)} {product_text([f], 'x', re)} # 1d@ {re_ann(re)} {f.ann()}", ("named1d", "reentrant", method, "inner-" + im)))
    # the same rule at both levels with different numbers of points, larger outside and larger inside; default against explicit
    for p, ip in [(0, 20), (40, 20), (20, 40), (24, 0), (0, 31), (31, 31), (64, 24), (21, 20)] + ([(n, m) for n in (20, 30, 50) for m in (22, 30, 48)] if big else []):
        for orient in (True, False):
            a, b = limits(rng, rng.randrange(3), orient)
            if rng.random() < 0.3: a, b = a - 3.0, b - 3.0
            f = rand_fac(rng, a, b); re = (0, anchor(a, b, "Gauss-Legendre_2", "Gauss-Legendre_2"), "Gauss-Legendre_2", ip)
            cs.append(Case(f"named1d Gauss-Legendre_2 {p} {hx(a)} {hx(b)} {product_text([f], 'x', re)} # 1d@ {re_ann(re)} {f.ann()}", ("named1d", "reentrant", "Gauss-Legendre_2", "inner-Gauss-Legendre_2", "points-differ")))
    for p, ip in [(0, 8), (8, 0), (2, 15)]:
        a, b = limits(rng, rng.randrange(3), rng.random() < 0.5)
        f = rand_fac(rng, a, b); re = (0, anchor(a, b, "Gauss-Kronrod", "Gauss-Kronrod"), "Gauss-Kronrod", ip)
        cs.append(Case(f"named1d Gauss-Kronrod {p} {hx(a)} {hx(b)} {product_text([f], 'x', re)} # 1d@ {re_ann(re)} {f.ann()}", ("named1d", "reentrant", "Gauss-Kronrod", "inner-Gauss-Kronrod", "points-differ")))
    # 2-D / 3-D: one factor (any position) written through an integral
    pick3 = rng.choice(["Gauss-Legendre", "Gauss-Kronrod"])          # quick tier: one of the two 30^3-evaluation rules per run in 3-D
    for method in METHODS:
        for dd in (2, 3):
            if dd == 3 and (method == "Tanh-Sinh" or (not big and (method == "Trapezoidal" or (method in ("Gauss-Legendre", "Gauss-Kronrod") and method != pick3)))): continue
            for _ in range(2 if dd == 2 else 1):
                lims = [limits(rng, k, rng.random() < 0.6) for k in range(dd)]
                if method == "Trapezoidal": facs = [rand_fac(rng, *lims[k], affine=True) for k in range(dd)]
                elif method == "Adaptive-Simpson" and dd == 3: facs = [rand_fac(rng, *lims[k], poly=True) for k in range(dd)]
                else: facs = [fac_for(method, *lims[k]) for k in range(dd)]
                k = rng.randrange(dd); x0 = anchor(*lims[k], method, "Tanh-Sinh")
                im, ip = pick_inner(rng, facs[k], x0, *lims[k], outer_method=method, cheap=True)
                if method == "Gauss-Legendre_2" and rng.random() < 0.7: im, ip = "Gauss-Legendre_2", rng.choice([20, 24, 31, 40] if dd == 2 else [20, 24])
                if dd == 3 and im == "Gauss-Legendre_2" and method not in ("Gauss-Legendre_2", "Adaptive-Simpson"): im, ip = "Gauss-Kronrod", rng.choice([0, 8])
                if im != "Tanh-Sinh" and method != "Tanh-Sinh" and rng.random() < 0.4:
                    lo_, hi_ = min(lims[k]), max(lims[k])
                    x1 = rng.choice([lo_, hi_] + ([0.5 * (lo_ + hi_)] if method != "Trapezoidal" else []))
                    if im != "Adaptive-Simpson" or facs[k].dl1(min(x1, lo_), max(x1, hi_), want_sign=True)[1]: x0 = x1
                p = P(method, rng.random() < 0.5)
                if method == "Gauss-Legendre_2" and dd == 3: p = rng.choice([20, 24])
                re = (k, x0, im, ip)
                flat = " ".join(hx(x) for lm in lims for x in lm)
                cs.append(Case(f"nested{dd}d {method} {p} {flat} {product_text(facs, 'xyz'[:dd], re)} # nd@ {re_ann(re)} " + " ".join(f.ann() for f in facs),
                               (f"nested{dd}d", "reentrant", method, "inner-" + im)))
    # spherical: the radial profile written through an integral up to the norm of the vector
    for method in METHODS:
        if method == "Trapezoidal" or (not big and (method == "Tanh-Sinh" or (method in ("Gauss-Legendre", "Gauss-Kronrod") and method == pick3))): continue
        r1 = rng.uniform(0.1, 1.0); r2 = r1 + rng.uniform(0.5, 1.5)
        if rng.random() < 0.4: r1, r2 = r2, r1
        c1 = rng.uniform(-1.0, 0.5); c2 = rng.uniform(c1 + 0.2, 1.0); f1 = rng.uniform(0.0, 4.0); f2 = rng.uniform(f1 + 0.3, 6.28)
        if rng.random() < 0.5: c1, c2 = c2, c1
        if rng.random() < 0.5: f1, f2 = f2, f1
        g = rng.choice([Fac("expdec", rng.uniform(0.3, 1.5)), Fac("rational", rng.uniform(0.1, 2.0)), Fac("gauss", rng.uniform(0.5, 3.0), 0.0)])
        x0 = max(anchor(r1, r2, method, "Tanh-Sinh", exact_var=False), 0.0)
        im, ip = pick_inner(rng, g, x0, r1, r2, outer_method=method, cheap=True)
        if method == "Gauss-Legendre_2": im, ip = "Gauss-Legendre_2", 22
        elif im == "Gauss-Legendre_2" and method != "Adaptive-Simpson": im, ip = "Gauss-Kronrod", rng.choice([0, 8])
        p = P(method, rng.random() < 0.5)
        if method == "Gauss-Legendre_2": p = rng.choice([20, 24])
        re = (x0, im, ip)
        cs.append(Case(f"spherical {method} {p} {hx(r1)} {hx(r2)} {hx(c1)} {hx(c2)} {hx(f1)} {hx(f2)} {radial_text(g, re)} # sphr@ 0 {im} {ip} {hx(x0)} {g.ann()}",
                       ("spherical", "reentrant", method, "inner-" + im)))
    return cs


# ---- limits of different axes that coincide or nearly coincide (adjoining cells of a grid, a box that starts where another range
#      ends, a cosine limit equal to an azimuth limit): every pair of limit arguments belonging to different axes, exact ties and a
#      geometric ladder of relative distances
def gen_ties(rng, big, P):
    cs = []
    ladder = [0.0, rng.choice(["ulp+", "ulp-"]), rng.choice([1e-15, 1e-13, 1e-11, 1e-9, 1e-7, 1e-6])] if big else [0.0, 0.0, 0.0, rng.choice(["ulp+", "ulp-"]), rng.choice([1e-15, 1e-12, 1e-9, 1e-6])]

    def near(v, step):
        if step == 0.0: return v
        if step == "ulp+": return math.nextafter(v, math.inf)
        if step == "ulp-": return math.nextafter(v, -math.inf)
        return v * (1.0 + rng.choice([-1, 1]) * step)

    count = 0
    for dd in (2, 3):
        pairs = [(i, j) for i in range(2 * dd) for j in range(2 * dd) if i // 2 != j // 2]        # ordered: j is moved onto i
        for (i, j) in pairs:
            # quick tier: every unordered pair once as an exact tie, once at a distance from the ladder
            for step in (ladder if big else [0.0] if i < j else [rng.choice(ladder[3:])]):
                count += 1
                method = METHODS[count % len(METHODS)]
                if dd == 3 and method in ("Tanh-Sinh", "Trapezoidal") and (not big or (method == "Tanh-Sinh" and step != 0.0)): method = rng.choice(["Gauss-Legendre", "Gauss-Kronrod", "Gauss-Legendre_2"])
                lims = [list(limits(rng, k, rng.random() < 0.6)) for k in range(dd)]
                target = near(lims[i // 2][i % 2], step)
                shift = target - lims[j // 2][j % 2]
                other = lims[j // 2][1 - j % 2] + shift
                lims[j // 2][j % 2] = target; lims[j // 2][1 - j % 2] = other
                if method == "Trapezoidal": facs = [rand_fac(rng, *lims[k], affine=True) for k in range(dd)]
                elif method == "Adaptive-Simpson" and dd == 3: facs = [rand_fac(rng, *lims[k], poly=True) for k in range(dd)]
                else: facs = [rand_fac(rng, *lims[k], positive=(method == "Adaptive-Simpson")) for k in range(dd)]
                p = P(method, rng.random() < 0.4)
                if method == "Gauss-Legendre_2" and p > 31 and dd == 3: p = 24
                flat = " ".join(hx(x) for lm in lims for x in lm)
                cs.append(Case(f"nested{dd}d {method} {p} {flat} {product_text(facs, 'xyz'[:dd])} # nd " + " ".join(f.ann() for f in facs),
                               (f"nested{dd}d", "cross-axis-tie" if step == 0.0 else "cross-axis-near-tie", method, "pos%d=pos%d" % (j, i))))
    # spherical: r-cos, r-phi, cos-phi
    rng_of = [(0.1, 2.5), (-1.0, 1.0), (0.0, 2 * math.pi)]
    for i in range(6):
        for j in range(6):
            if i // 2 == j // 2 or (not big and i > j and rng.random() < 0.7): continue
            for step in (ladder if big else [0.0] if i < j else [rng.choice(ladder[3:])]):
                count += 1
                method = METHODS[count % len(METHODS)]
                if (method in ("Tanh-Sinh", "Trapezoidal") and not big) or (method in ("Tanh-Sinh", "Trapezoidal") and step != 0.0): method = rng.choice(["Gauss-Legendre", "Gauss-Kronrod", "Gauss-Legendre_2", "Adaptive-Simpson"])
                ai, aj = i // 2, j // 2
                lo = max(rng_of[ai][0], rng_of[aj][0], 0.05); hi = min(rng_of[ai][1], rng_of[aj][1]) - 1e-3
                v = rng.choice([rng.uniform(lo, hi), 0.5, 1.0 if hi > 0.99 else 0.25, 0.0 if 0 not in (ai, aj) else 0.75])
                lim = [None] * 6
                lim[i] = v; lim[j] = near(v, step)
                if 1 in (ai, aj): lim[2 * 1 + (i if ai == 1 else j) % 2] = min(1.0, max(-1.0, lim[2 * 1 + (i if ai == 1 else j) % 2]))
                if 2 in (ai, aj) and lim[4 + (i if ai == 2 else j) % 2] < 0.0: lim[4 + (i if ai == 2 else j) % 2] = 0.0
                for pos in (i, j):
                    ax = pos // 2; o = 2 * ax + 1 - pos % 2; w = lim[pos]
                    if ax == 0: lim[o] = w + rng.uniform(0.5, 1.5) if (w < 0.6 or rng.random() < 0.5) else w - rng.uniform(0.3, 0.5)
                    elif ax == 1:
                        while True:
                            u = rng.uniform(-1.0, 1.0)
                            if abs(u - w) >= 0.2: break
                        lim[o] = rng.choice([u, u, -1.0 if w > -0.8 else u, 1.0 if w < 0.8 else u])
                    else:
                        while True:
                            u = rng.uniform(0.0, 2 * math.pi)
                            if abs(u - w) >= 0.3: break
                        lim[o] = u
                ax3 = 3 - ai - aj
                if ax3 == 0:
                    r1 = rng.uniform(0.0, 1.0); lim[0], lim[1] = (r1, r1 + rng.uniform(0.5, 1.5)) if rng.random() < 0.6 else (r1 + rng.uniform(0.5, 1.5), r1)
                elif ax3 == 1:
                    c1 = rng.uniform(-1.0, 0.6); c2 = rng.uniform(c1 + 0.2, 1.0); lim[2], lim[3] = (c1, c2) if rng.random() < 0.6 else (c2, c1)
                else:
                    f1 = rng.uniform(0.05, 5.0); f2 = rng.uniform(f1 + 0.3, min(f1 + 3.0, 6.2)); lim[4], lim[5] = (f1, f2) if rng.random() < 0.6 else (f2, f1)
                kind = rng.choice(["expdec", "rational", "gauss", "mono"])
                g = {"expdec": Fac("expdec", rng.uniform(0.3, 1.5)), "rational": Fac("rational", rng.uniform(0.1, 2.0)),
                     "gauss": Fac("gauss", rng.uniform(0.5, 3.0), 0.0), "mono": Fac("mono", rng.choice([1.0, 2.0]), rng.choice([0, 1]))}[kind]
                p = P(method, rng.random() < 0.4)
                if method == "Gauss-Legendre_2" and p > 31: p = 24
                cs.append(Case("spherical %s %d %s %s # sphr %s" % (method, p, " ".join(hx(x) for x in lim), radial_text(g), g.ann()),
                               ("spherical", "cross-axis-tie" if step == 0.0 else "cross-axis-near-tie", method, "pos%d=pos%d" % (j, i))))
    return cs


# ---- requests in which the explicit method_parameter matters: sharply peaked (still analytic) integrands that the default number of
#      points does not resolve and the requested number does, at every entry point; and small explicit parameters
_KMAX = {}


def gl_kmax(n):
    """largest K = k h^2 for which the classical bound of n-point Gauss quadrature for exp(-k (t-mu)^2) on an interval of half width h
    (64 M rho^-2n / (15 (1 - rho^-2)), M = exp(K ((rho - 1/rho)/2)^2) on the Bernstein ellipse rho, minimised over rho) is below
    1e-11 of the integral of the Gaussian"""
    if n in _KMAX: return _KMAX[n]

    def bound(K):
        best = math.inf; rho = 1.05
        while rho < 40.0:
            e = K * ((rho - 1 / rho) / 2) ** 2 - 2 * n * math.log(rho)
            if e < 700: best = min(best, 64 / 15 * math.exp(e) / (1 - rho ** -2))
            rho *= 1.01
        return best / (0.5 * math.sqrt(math.pi / K))
    lo, hi = 0.1, 5000.0
    for _ in range(50):
        mid = 0.5 * (lo + hi)
        if bound(mid) <= 1e-11: lo = mid
        else: hi = mid
    _KMAX[n] = lo
    return lo


def gen_sharp(rng, big):
    cs = []

    def sharp_fac(a, b, K):
        lo, hi = min(a, b), max(a, b); h = 0.5 * (hi - lo)
        return Fac("gauss", K / (h * h), 0.5 * (lo + hi) + rng.uniform(-0.3, 0.3) * h)

    def smooth(a, b): return rand_fac(rng, a, b)
    # Gauss-Legendre_2 with enough points for the peak (accuracy claim applies), every entry point, the peak on any axis
    for n in (64, 96, 48) if not big else (48, 64, 96, 128):
        K = rng.uniform(0.8, 1.0) * gl_kmax(n)
        for op in ("named1d", "nested2d", "nested3d", "spherical"):
            if dims(op) == 3 and n > (48 if not big else 64): continue            # n^3 evaluations
            if op == "spherical":
                r1 = rng.uniform(0.3, 0.8); r2 = r1 + rng.uniform(0.6, 1.2)
                g = sharp_fac(r1, r2, K)
                if rng.random() < 0.5: r1, r2 = r2, r1
                if rng.random() < 0.5: c1, c2, f1, f2 = -1.0, 1.0, 0.0, 2 * math.pi
                else:
                    c1 = rng.uniform(-1.0, 0.5); c2 = rng.uniform(c1 + 0.2, 1.0); f1 = rng.uniform(0.0, 4.0); f2 = rng.uniform(f1 + 0.3, 6.28)
                    if rng.random() < 0.5: c1, c2 = c2, c1
                    if rng.random() < 0.5: f1, f2 = f2, f1
                cs.append(Case(f"spherical Gauss-Legendre_2 {n} {hx(r1)} {hx(r2)} {hx(c1)} {hx(c2)} {hx(f1)} {hx(f2)} {radial_text(g)} # sphr {g.ann()}",
                               ("spherical", "Gauss-Legendre_2", "sharp", "p")))
                continue
            dd = dims(op)
            lims = [limits(rng, k, rng.random() < 0.6) for k in range(dd)]
            ks = rng.randrange(dd)
            facs = [sharp_fac(*lims[k], K) if k == ks else smooth(*lims[k]) for k in range(dd)]
            flat = " ".join(hx(x) for lm in lims for x in lm)
            cs.append(Case(f"{op} Gauss-Legendre_2 {n} {flat} {product_text(facs, 'xyz'[:dd])} # {'1d' if dd == 1 else 'nd'} " + " ".join(f.ann() for f in facs),
                           (op, "Gauss-Legendre_2", "sharp", "p")))
    # Gauss-Kronrod with small and large recursion depths on peaks that need several bisections: compared with the direct call
    for p in (1, 2, 3, 8, 15):
        K = math.exp(rng.uniform(math.log(150.0), math.log(3000.0)))
        for op in ("named1d", "nested2d", "spherical") + (("nested3d",) if big else ()):
            if dims(op) == 3:            # three nested adaptive levels: shallow depths and moderate peaks only
                if p in (8, 15) or (p == 3 and not big): continue
                K = min(K, 600.0)
            if op == "spherical":
                r1 = rng.uniform(0.3, 0.8); r2 = r1 + rng.uniform(0.6, 1.2)
                g = sharp_fac(r1, r2, K)
                if rng.random() < 0.5: r1, r2 = r2, r1
                c1 = rng.uniform(-1.0, 0.5); c2 = rng.uniform(c1 + 0.2, 1.0); f1 = rng.uniform(0.0, 4.0); f2 = rng.uniform(f1 + 0.3, 6.28)
                cs.append(Case(f"spherical Gauss-Kronrod {p} {hx(r1)} {hx(r2)} {hx(c1)} {hx(c2)} {hx(f1)} {hx(f2)} {radial_text(g)} # sphcorr {g.ann()}",
                               ("spherical", "Gauss-Kronrod", "sharp", "depth")))
                continue
            dd = dims(op)
            lims = [limits(rng, k, rng.random() < 0.6) for k in range(dd)]
            ks = rng.randrange(dd)
            facs = [sharp_fac(*lims[k], K) if k == ks else smooth(*lims[k]) for k in range(dd)]
            flat = " ".join(hx(x) for lm in lims for x in lm)
            cs.append(Case(f"{op} Gauss-Kronrod {p} {flat} {product_text(facs, 'xyz'[:dd])} # {'1dcorr' if dd == 1 else 'ndcorr'} " + " ".join(f.ann() for f in facs),
                           (op, "Gauss-Kronrod", "sharp", "depth")))
    # small explicit Gauss-Legendre_2 orders through the spherical overload (model and direct call)
    for n in (1, 2, 3, 5, 8):
        r1 = rng.uniform(0.0, 1.0); r2 = r1 + rng.uniform(0.5, 1.5)
        if rng.random() < 0.5: r1, r2 = r2, r1
        c1 = rng.uniform(-1.0, 0.5); c2 = rng.uniform(c1 + 0.2, 1.0); f1 = rng.uniform(0.0, 4.0); f2 = rng.uniform(f1 + 0.3, 6.28)
        if rng.random() < 0.5: c1, c2 = c2, c1
        if rng.random() < 0.5: f1, f2 = f2, f1
        g = rng.choice([Fac("expdec", rng.uniform(0.3, 1.5)), Fac("rational", rng.uniform(0.1, 2.0)), Fac("gauss", rng.uniform(0.5, 3.0), 0.0)])
        cs.append(Case(f"spherical Gauss-Legendre_2 {n} {hx(r1)} {hx(r2)} {hx(c1)} {hx(c2)} {hx(f1)} {hx(f2)} {radial_text(g)} # sphcorr {g.ann()}",
                       ("spherical", "Gauss-Legendre_2", "small-n")))
    return cs


# ---- user functions that are defined through calls of the library to any depth ('@@' in the case grammar): a normalisation computed by an integral inside
#      an integrand whose own integrand does the same again.  Towers of the four entry points (1, 2, 3 and 3 levels of Integrate each) with 4 .. 12 levels
#      active at once, one method at every level or the methods mixed, equal and different method_parameters from level to level, every way of combining a
#      level with the call below it (quotient, product, sum).  Each answer is compared with the model, with the closed form, and with the answer of the same
#      call when every inner call is made beforehand from the top level (flat): the answer of a call does not depend on the depth at which it is made.
#      Low-order Gauss-Legendre_2 rules (n points are exact on polynomials of degree <= 2n - 1) make twelve levels cost 2^12 evaluations.
OPC = {"div": "/", "mul": "*", "add": "+"}
LEVELS_OF = {"named1d": 1, "nested2d": 2, "nested3d": 3, "spherical": 3}


def level_body(lv):
    if lv["op"] == "spherical": return lv["facs"][0].text(NORM)
    return product_text(lv["facs"], "xyz"[:len(lv["facs"])])


def deep_text(levels):
    t = level_body(levels[-1])
    for j in range(len(levels) - 2, -1, -1):
        lv, nx = levels[j], levels[j + 1]
        t = f"{OPC[lv['comb']]} {level_body(lv)} v 3 @@ {nx['op']} {nx['method']} {nx['p']} " + " ".join(f"c {hx(x)}" for x in nx["lims"]) + " " + t
    return t


def deep_ann(levels):
    out = ["deep", str(len(levels))]
    for lv in levels:
        out += [lv["op"], lv["method"], str(lv["p"]), lv["comb"]] + [hx(x) for x in lv["lims"]] + [str(len(lv["facs"]))] + [f.ann() for f in lv["facs"]]
    return " ".join(out)


def parse_deep(ann):
    k = 2; levels = []
    for _ in range(int(ann[1])):
        op, method, p, comb = ann[k], ann[k + 1], int(ann[k + 2]), ann[k + 3]; k += 4
        nl = 2 * dims(op); lims = [float.fromhex(x) for x in ann[k:k + nl]]; k += nl
        nf = int(ann[k]); k += 1; facs = []
        for _ in range(nf):
            m = NPAR[ann[k]]; facs.append(Fac(ann[k], *[float.fromhex(x) for x in ann[k + 1:k + 1 + m]])); k += 1 + m
        levels.append({"op": op, "method": method, "p": p, "comb": comb, "lims": lims, "facs": facs})
    return levels


def poly_degree(f):
    return int(f.p[1]) if f.name == "mono" else 1 if f.name == "affine" else None


def level_accuracy(lv):
    """accuracy spent on one level of Integrate, relative to the integral of |integrand|: the accuracy of the method; for Gauss-Legendre_2 with fewer than 20
    points (no accuracy claim on smooth integrands) the rule is exact on polynomials of degree <= 2n - 1, leaving the rounding of n products and of roots and
    weights (1e-13); None when neither applies"""
    if lv["method"] == "Gauss-Legendre_2" and 0 < lv["p"] < 20:
        for f in lv["facs"]:
            dg = poly_degree(f)
            if dg is None or dg + (2 if lv["op"] == "spherical" else 0) > 2 * lv["p"] - 1: return None
        return 1e-13
    return acc_of(lv["method"])


def deep_exact(levels):
    """(closed form, natural scale, slack) of a tower of calls, innermost first; None when a level carries no claim"""
    N = None
    for lv in reversed(levels):
        lim = lv["lims"]; d = dims(lv["op"]); acc = level_accuracy(lv)
        if acc is None: return None
        if lv["op"] == "spherical":
            g = lv["facs"][0]; r1, r2, c1, c2, f1, f2 = lim
            ang = (c2 - c1) * (f2 - f1)
            I = ang * (g.R2(r2) - g.R2(r1)); vol = ang * (r2 ** 3 - r1 ** 3) / 3
            lo, hi = min(r1, r2), max(r1, r2); n = 64; h = (hi - lo) / n
            sc = abs(ang) * sum((1 if k in (0, n) else 4 if k % 2 else 2) * (lo + k * h) ** 2 * abs(g.g(lo + k * h)) for k in range(n + 1)) * h / 3
        else:
            I = sc = vol = 1.0
            for k, f in enumerate(lv["facs"]):
                a, b = lim[2 * k], lim[2 * k + 1]
                I *= f.integral(a, b); sc *= f.l1(a, b); vol *= (b - a)
        if N is None: ex, scale, slack = I, sc, d * acc * sc
        else:
            n_, nsc, nsl = N
            if lv["comb"] == "mul": ex, scale = I * n_, sc * abs(n_); slack = d * acc * scale + sc * nsl
            elif lv["comb"] == "div" and not (nsl <= 0.01 * abs(n_)): return None
            elif lv["comb"] == "div": ex, scale = I / n_, sc / abs(n_); slack = d * acc * scale + 1.01 * sc * nsl / (n_ * n_)
            else: ex, scale = I + n_ * vol, sc + abs(n_ * vol); slack = d * acc * scale + abs(vol) * nsl
        slack += 1e-13 * scale
        N = (ex, scale, slack)
    return N


def deep_methods(fex):
    t = fex.split()
    return [t[k + 2] for k in range(len(t)) if t[k] == "@@"]


def gen_deep(rng, big):
    cs = []
    GL2 = "Gauss-Legendre_2"

    def level(op, method, p, maxdeg):
        d = dims(op)
        if op == "spherical":
            r1 = rng.uniform(0.2, 1.0); r2 = r1 + rng.uniform(0.5, 1.5)
            if rng.random() < 0.4: r1, r2 = r2, r1
            if rng.random() < 0.3: c1, c2, f1, f2 = -1.0, 1.0, 0.0, 2 * math.pi
            else:
                c1 = rng.uniform(-1.0, 0.5); c2 = rng.uniform(c1 + 0.2, 1.0); f1 = rng.uniform(0.0, 4.0); f2 = rng.uniform(f1 + 0.3, 6.28)
                if rng.random() < 0.4: c1, c2 = c2, c1
                if rng.random() < 0.4: f1, f2 = f2, f1
            lims = [r1, r2, c1, c2, f1, f2]
            facs = [Fac("mono", rng.choice([1.0, 0.5, 2.0]), rng.randint(0, max(0, min(2, maxdeg - 2))))] if maxdeg < 99 else \
                   [rng.choice([Fac("expdec", rng.uniform(0.3, 1.5)), Fac("rational", rng.uniform(0.1, 2.0)), Fac("gauss", rng.uniform(0.5, 3.0), 0.0)])]
        else:
            ls = [limits(rng, k, rng.random() < 0.6) for k in range(d)]
            lims = [x for lm in ls for x in lm]
            if maxdeg < 99: facs = [rng.choice([Fac("mono", rng.choice([1.0, 0.5, 2.0]), rng.randint(1, min(3, maxdeg))), Fac("affine", rng.uniform(0.5, 3), rng.uniform(0.2, 2))]) for _ in range(d)]
            elif method == "Trapezoidal": facs = [rand_fac(rng, *ls[k], affine=True) for k in range(d)]
            else: facs = [rand_fac(rng, *ls[k], positive=True) for k in range(d)]
        return {"op": op, "method": method, "p": p, "comb": rng.choice(["div", "div", "mul", "add"]), "lims": lims, "facs": facs}

    def emit(levels, *tags):
        top = levels[0]
        depth = sum(LEVELS_OF[lv["op"]] for lv in levels)
        cs.append(Case(f"{top['op']} {top['method']} {top['p']} " + " ".join(hx(x) for x in top["lims"]) + f" {deep_text(levels)} # {deep_ann(levels)}",
                       (top["op"], "nested-calls", "depth-%d" % depth) + tags))

    def tower(shape, method_of, par_of, maxdeg_of):
        return [level(op, method_of(j), par_of(j), maxdeg_of(j)) for j, op in enumerate(shape)]

    ops3 = ["nested3d", "spherical"]
    # nine to twelve levels of one low-order rule (the number of points the same at every level, or different from level to level)
    shapes = [["nested3d"] * 3, [rng.choice(ops3) for _ in range(3)], ["spherical", "nested3d", "nested3d"], ["nested2d"] * 5, ["named1d"] * rng.randint(9, 12),
              ["nested3d", "nested2d", "named1d", "nested3d", "nested2d"], [rng.choice(ops3) for _ in range(4)]]
    if big: shapes += [[rng.choice(["named1d", "nested2d", "nested3d", "spherical"]) for _ in range(rng.randint(4, 6))] for _ in range(12)]
    for shape in shapes:
        depth = sum(LEVELS_OF[o] for o in shape)
        if depth < 8: shape = shape + ["nested3d"]; depth += 3
        same = rng.random() < 0.6
        n0 = 2 if depth > 10 or rng.random() < 0.5 else 3
        ns = [n0 if same else rng.choice([2, 3] if depth <= 10 else [2, 2, 3]) for _ in shape]
        emit(tower(shape, lambda j: GL2, lambda j: ns[j], lambda j: 2 * ns[j] - 1), GL2, "same-points" if same else "points-differ")
    # shallower towers: five points; the default rule inside a low-order one; the adaptive Simpson rule and the trapezoidal rule on polynomials (a handful of
    # evaluations per level); the methods mixed from level to level
    emit(tower(["nested3d", "nested3d"], lambda j: GL2, lambda j: 5, lambda j: 3), GL2, "same-points")
    emit(tower(["nested2d", "nested2d", "named1d"], lambda j: GL2, lambda j: (3, 4, 0)[j], lambda j: (3, 3, 99)[j]), GL2, "default-rule-innermost")
    for method, shape in [("Adaptive-Simpson", rng.choice([["nested3d", "nested2d"], ["nested2d", "nested3d"], ["named1d"] * 5])),
                          ("Trapezoidal", rng.choice([["named1d", "nested2d"], ["nested2d", "named1d"], ["named1d", "named1d", "named1d"]]))] + \
                         ([("Adaptive-Simpson", ["nested3d", "nested3d"]), ("Adaptive-Simpson", ["nested3d", "spherical"]), ("Trapezoidal", ["nested2d", "named1d"]),
                           ("Gauss-Legendre", ["nested2d", "named1d"]), ("Gauss-Kronrod", ["named1d", "nested2d"]), ("Tanh-Sinh", ["named1d", "named1d"])] if big else []):
        # (the model answers a boost method by a 60-point stand-in rule per level: at most three such levels)
        if method in ("Adaptive-Simpson", "Trapezoidal"):
            lv = tower(shape, lambda j: method, lambda j: rng.choice([0, 0, 7]), lambda j: 1 if method == "Trapezoidal" else 3)
            if method == "Adaptive-Simpson":        # (radial profiles under three nested adaptive levels: degree <= 1, as elsewhere)
                for l_ in lv:
                    if l_["op"] == "spherical": l_["facs"] = [Fac("mono", 1.0, rng.randint(0, 1))]
        else:
            lv = tower(shape, lambda j: method, lambda j: {"Gauss-Kronrod": rng.choice([0, 1, 2])}.get(method, 0), lambda j: 99)
        emit(lv, method, "same-method")
    for _ in range(6 if big else 2):
        shape = [rng.choice(["named1d", "nested2d", "nested3d", "spherical"]) for _ in range(rng.randint(3, 4))]
        ms = [rng.choice([GL2, GL2, "Adaptive-Simpson"]) for _ in shape]
        if shape[-1] == "named1d" and rng.random() < 0.5: ms[-1] = "Trapezoidal"
        ps = [rng.choice([2, 3]) if m == GL2 else rng.choice([0, 7]) for m in ms]
        lv = tower(shape, lambda j: ms[j], lambda j: ps[j], lambda j: 1 if ms[j] == "Trapezoidal" else min(3, 2 * ps[j] - 1) if ms[j] == GL2 else 3)
        for l_ in lv:
            if l_["op"] == "spherical" and l_["method"] != GL2: l_["facs"] = [Fac("mono", 1.0, rng.randint(0, 1))]
        emit(lv, "methods-mixed")
    return cs


# ---- nested adaptive Simpson integrals that are large as a whole: the numbers of evaluations of the levels multiply (the tolerance is relative, so every
#      inner call takes the same number), and a request whose levels take a few hundred evaluations each takes 2^19 (two levels, every tier) or 2^25.5 and
#      2^27.4 in total (three levels, thorough tier: 1.8e8 evaluations, about a minute for implementation and model) - far beyond what a single one-dimensional call can take (2^22 at
#      the depth limit); whatever is counted or limited per call must not be shared between the levels.  Rational factors 1/(1 + k v^2) on wide intervals
#      (cheap to evaluate, several hundred evaluations per level), distinct limits per axis, every orientation.
class _TooMany(Exception): pass


def as_count(fun, a, b, cap=None):
    """the number of evaluations the adaptive Simpson rule of the source takes on an exactly known integrand (None beyond cap)"""
    cnt = [0]
    def g(t):
        cnt[0] += 1
        if cap and cnt[0] > cap: raise _TooMany()
        return fun(t)
    try: as_sim(g, a, b)
    except _TooMany: return None
    return cnt[0] + 3          # (the three samples of Find_Epsilon)


def as_expected_evaluations(lim, facs):
    """nested adaptive Simpson integral of a product of factors: the tolerance of every call is relative to its own three-point estimate, so a call on g(v) times a
    constant other than zero takes the evaluations of the call on g - the levels multiply (None when a factor has a zero between its limits)"""
    n = 1
    for k, f in enumerate(facs):
        # (a factor that vanishes at a point where an outer level samples it makes the inner integrand identically zero there: accepted at once)
        lo, hi = min(lim[2 * k], lim[2 * k + 1]), max(lim[2 * k], lim[2 * k + 1])
        vals = [f.g(lo + (hi - lo) * j / 256.0) for j in range(257)]
        if not (min(vals) > 0.0 or max(vals) < 0.0): return None
        c = as_count(f.g, lim[2 * k], lim[2 * k + 1], cap=20000)
        if c is None: return None
        n *= c
    return n


def gen_heavy_simpson(rng, big):
    cs = []
    for d, target in ([(2, 5.0e5), (3, 4.5e7), (3, 1.75e8)] if big else [(2, 4.0e5)]):
        for _ in range(2000):
            facs = [Fac("rational", rng.uniform(0.5, 2.0)) for _ in range(d)]
            lims = []
            for k in range(d):
                a = rng.uniform(-8.0, -1.0) + 2.0 * k; lims.append((a, a + rng.uniform(4.0, 20.0)))
            n = 1.0
            for f, lm in zip(facs, lims): n *= as_count(f.g, *lm)
            # (the stopping rule itself is accurate on these: the case is not one of the false acceptances K-C13-2)
            if target <= n <= 1.1 * target and all(abs(as_sim(f.g, *lm) - f.integral(*lm)) <= 1e-10 * f.l1(*lm) for f, lm in zip(facs, lims)): break
        else: continue
        lims = [lm if rng.random() < 0.6 else lm[::-1] for lm in lims]
        flat = " ".join(hx(x) for lm in lims for x in lm)
        cs.append(Case(f"nested{d}d Adaptive-Simpson 0 {flat} {product_text(facs, 'xyz'[:d])} # nd " + " ".join(f.ann() for f in facs),
                       (f"nested{d}d", "Adaptive-Simpson", "many-evaluations", "2^%.1f" % math.log2(n))))
    return cs


# ---------------------------------------------------------------- case parsing
def parse_case(line):
    body, _, ann = line.partition(" # ")
    t = body.split(); op, method, p = t[0], t[1], int(t[2])
    nlim = {"named1d": 2, "nested2d": 4, "nested3d": 6, "spherical": 6}[op]
    lim = [float.fromhex(x) for x in t[3:3 + nlim]]
    fex = " ".join(t[3 + nlim:])
    return op, method, p, lim, fex, ann.split() if ann else []


def split_session(line):
    """the calls of a session line as case lines of their own ('<call> # <annotation>')"""
    body, _, ann = line.partition(" # ")
    calls = body.split(" ", 2)[2].split(" ;; ")
    anns = ann.split(" ;; ") if ann else [""] * len(calls)
    return [c + (" # " + a if a else "") for c, a in zip(calls, anns)]


def split_out(io):
    """the per-call parts of the output line of a session (each: the call's own output, then its value in a fresh process)"""
    parts = [x.strip() for x in io.split("|")]
    return parts[:-1] if parts and parts[-1] == "" else parts


CORR = ("1dcorr", "ndcorr", "sphcorr")        # compared with the model / the direct call only (no accuracy claim)


def exact_and_scale(op, lim, fex, ann):
    """(closed-form value of the integral, its natural scale = integral of |integrand|, extra slack for a user function that is
    itself computed by a quadrature), or None when the case carries no annotation; the annotation is checked against the text of the case"""
    if not ann: return None
    kind = ann[0]
    if kind == "deep":
        levels = parse_deep(ann)
        top = levels[0]
        if deep_text(levels) != fex or top["lims"] != lim: return None
        return deep_exact(levels)
    if kind in ("1d", "1dcorr", "nd", "ndcorr", "1d@", "nd@"):
        _, facs = parse_ann(ann)
        vars_ = "xyz"[:len(facs)]
        re = ann_re(ann) if kind.endswith("@") else None
        if product_text(facs, vars_, re) != fex or 2 * len(facs) != len(lim): return None
        ex, sc = 1.0, 1.0
        for k, f in enumerate(facs):
            a, b = lim[2 * k], lim[2 * k + 1]
            ex *= f.integral(a, b); sc *= f.l1(a, b)
        extra = 0.0
        if len(facs) == 1:
            a, b = lim
            extra = facs[0].node_slack(a, b)
        if re:
            k, x0, im, ip = re
            a, b = lim[2 * k], lim[2 * k + 1]
            extra += acc_of(im) * facs[k].dl1(min(x0, a, b), max(x0, a, b)) * abs(b - a)
            for j, f in enumerate(facs):
                if j != k: extra *= f.l1(lim[2 * j], lim[2 * j + 1])
        return ex, sc, extra
    if kind in ("sphr", "sphcorr", "sphr@"):
        _, facs = parse_ann(ann); g = facs[0]
        re = ann_re(ann)[1:] if kind.endswith("@") else None
        if radial_text(g, re) != fex: return None
        r1, r2, c1, c2, f1, f2 = lim
        rad = g.R2(r2) - g.R2(r1)
        ang = abs((c2 - c1) * (f2 - f1))
        lo, hi = min(r1, r2), max(r1, r2); n = 256; h = (hi - lo) / n            # integral of r^2 |g|
        sc = sum((1 if k in (0, n) else 4 if k % 2 else 2) * (lo + k * h) ** 2 * abs(g.g(lo + k * h)) for k in range(n + 1)) * h / 3
        extra = 0.0
        if re: extra = acc_of(re[1]) * g.dl1(min(re[0], lo), max(re[0], hi)) * abs(r2 ** 3 - r1 ** 3) / 3 * ang
        return (c2 - c1) * (f2 - f1) * rad, ang * sc, extra
    if kind == "sphd":
        co = [float.fromhex(x) for x in ann[1:5]]
        if f"+ * c {hx(co[0])} x + * c {hx(co[1])} y + * c {hx(co[2])} z c {hx(co[3])}" != fex: return None
        r1, r2, c1, c2, f1, f2 = lim
        S = lambda c: (c * math.sqrt(1 - c * c) + math.asin(c)) / 2          # antiderivative of sqrt(1-c^2)
        r3 = (r2 ** 3 - r1 ** 3) / 3; r4 = (r2 ** 4 - r1 ** 4) / 4
        ex = r4 * (co[0] * (S(c2) - S(c1)) * (math.sin(f2) - math.sin(f1)) + co[1] * (S(c2) - S(c1)) * (math.cos(f1) - math.cos(f2))
                   + co[2] * (c2 * c2 - c1 * c1) / 2 * (f2 - f1)) + co[3] * r3 * (c2 - c1) * (f2 - f1)
        sc = abs(r4) * (abs(co[0]) + abs(co[1]) + abs(co[2])) * abs(c2 - c1) * abs(f2 - f1) + abs(co[3] * r3 * (c2 - c1) * (f2 - f1))
        return ex, sc, 0.0
    return None


def dims(op): return {"named1d": 1, "nested2d": 2, "nested3d": 3, "spherical": 3}[op]


# ---------------------------------------------------------------- model vs implementation
def compare(c, io, mo, tol):
    if c.line.startswith(("glvec ", "glfun ")): return compare_lines(io, mo, (1e-13, 0.0))
    if c.line.startswith("preinit "):
        if io == mo: return True, True, ""
        a, b = io.split(), mo.split()
        if len(a) < 2 or len(b) < 2: return False, False, f"impl {io[:60]} model {mo[:60]}"
        return compare_call(c.line.split(" ", 1)[1], " ".join(a[:-1]), " ".join(b[:-1]))
    if not c.line.startswith("session "): return compare_call(c.line, io, mo)
    if io == mo: return True, True, ""
    subs = split_session(c.line); ci, cm = split_out(io), split_out(mo)
    if len(ci) != len(subs) or len(cm) != len(subs): return False, False, f"impl {io[:60]} model {mo[:60]}"
    bit = True
    for j, (sl, x, y) in enumerate(zip(subs, ci, cm)):
        ok, b, detail = compare_call(sl, x, y)
        if not ok: return False, False, f"call {j + 1} of the session: " + detail
        bit = bit and b
    return True, bit, ""


def compare_call(line, io, mo):
    if io == mo: return True, True, ""
    a, b = io.split(), mo.split()
    if io.startswith("CRASH") or (a and tokf(a[0]) is not None):
        op, method, p, lim, fex, ann = parse_case(line)
        # the boost back ends are not modelled (stand-in rule); where Tanh-Sinh is known to abort or to lose accuracy (K-C13-1, reported by the
        # predicates on the implementation's output) the stand-in has nothing to be compared with
        if tanh_sinh_narrow(op, method, lim) and b and tokf(b[0]) is not None: return True, False, ""
    if not a or not b or tokf(a[0]) is None or tokf(b[0]) is None:
        return False, False, f"impl {io[:60]} model {mo[:60]}"
    op, method, p, lim, fex, ann = parse_case(line)
    es = exact_and_scale(op, lim, fex, ann)
    scale = es[1] if es else max(abs(tokf(a[0])), abs(tokf(b[0])))
    inner = inner_of(fex)
    nval = 2
    if method in STANDIN or (inner and inner[0] in STANDIN) or any(m in STANDIN for m in deep_methods(fex)):
        # external back end replaced by a stand-in rule in the model: values agree at the accuracy of the method on the smooth
        # families; on the sharply peaked integrands of the 'corr' kinds the stand-in says nothing about the external code
        if ann and ann[0] in CORR: return True, False, ""
        # where boost's trapezoidal rule stops at its refinement cap short of its accuracy (K-C13-3, reported by the predicates) the stand-in has nothing to be compared with
        if method == "Trapezoidal" and es and len(a) > 2 and a[2].isdigit() and trapezoid_refinement_cap(op, lim, ann, int(a[2]), tokf(a[0]), es[0]): return True, False, ""
        slack = dims(op) * acc_of(method) * scale + 1e-13 * scale + 2 * (es[2] if es else 0.0)
        if "@@" in fex and not es: slack += 1e-6 * scale * len(deep_methods(fex))
        for k in ([0, 1, len(a) - 1] if "@@" in fex and len(a) == len(b) else range(nval)):
            x, y = tokf(a[k]), tokf(b[k])
            if not (abs(x - y) <= slack): return False, False, f"value: impl {x!r} model {y!r} differ by more than {slack:.3g}"
        return True, False, ""
    if len(a) != len(b): return False, False, "shape"
    for k, (x, y) in enumerate(zip(a, b)):
        if x == y: continue
        fx, fy = tokf(x), tokf(y)
        if fx is None or fy is None: return False, False, f"token {k}: impl {x} model {y}"
        if k < nval or ("@@" in fex and k == len(a) - 1): ok = abs(fx - fy) <= 1e-12 * scale
        elif k == nval + 1: ok = abs(fx - fy) <= 1e-9 * max(abs(fx), abs(fy), 1.0)      # digest: order of the two Simpson halves is unspecified in C++
        else: ok = abs(fx - fy) <= 1e-12 * max(abs(fx), abs(fy), 1e-300)
        if not ok: return False, False, f"token {k}: impl {fx!r} model {fy!r}"
    return True, False, ""


# ---------------------------------------------------------------- S4
def as_sim(fun, a, b):
    """the adaptive Simpson rule behind the name "Adaptive-Simpson" as the source states it (epsilon = 1e-9 |three-point Simpson estimate|, a panel is accepted when
    |S2 - S| <= 15 epsilon, epsilon is halved with every bisection, depth 20), evaluated on an exactly known integrand"""
    if a == b: return 0.0
    sign = 1.0
    if a > b: a, b, sign = b, a, -1.0
    c = (a + b) / 2; h = b - a
    fa, fb, fc = fun(a), fun(b), fun(c)
    S = (h / 6) * (fa + 4 * fc + fb)

    def rec(a, b, eps, S, fa, fb, fc, bottom):
        c = (a + b) / 2; h = b - a; d = (a + c) / 2; e = (b + c) / 2
        fd, fe = fun(d), fun(e)
        Sl = (h / 12) * (fa + 4 * fd + fc); Sr = (h / 12) * (fc + 4 * fe + fb); S2 = Sl + Sr
        if bottom <= 0 or abs(S2 - S) <= 15 * eps: return S2 + (S2 - S) / 15
        return rec(a, c, eps / 2, Sl, fa, fc, fd, bottom - 1) + rec(c, b, eps / 2, Sr, fc, fb, fe, bottom - 1)
    return sign * rec(a, b, abs(1e-9 * S), S, fa, fb, fc, 20)


def as_false_acceptance(op, lim, ann, val, ex, slack):
    """known finding K-C13-2: does the stopping rule of the adaptive Simpson method, applied level by level to the exactly known factors of the case (on a separable
    integrand the nested result is the product of the one-dimensional results: the tolerance is relative, so every inner call scales with the outer variables),
    itself miss the exact integral by more than the slack, and is that what the implementation returned?"""
    try:
        kind = ann[0]
        if kind in ("1d", "nd", "1d@", "nd@"):
            _, facs = parse_ann(ann)
            sim = 1.0
            for k, f in enumerate(facs): sim *= as_sim(f.g, lim[2 * k], lim[2 * k + 1])
        elif kind in ("sphr", "sphr@"):
            _, facs = parse_ann(ann); g = facs[0]
            sim = as_sim(lambda r: r * r * g.g(r), lim[0], lim[1]) * (lim[3] - lim[2]) * (lim[5] - lim[4])
        else: return False
        return abs(sim - ex) > slack and abs(sim - val) <= 0.1 * abs(val - ex)
    except (OverflowError, ZeroDivisionError, ValueError): return False


def trapezoid_refinement_cap(op, lim, ann, neval, val, ex):
    """known finding K-C13-3: the trapezoidal rule of boost stops after 12 halvings (2049 evaluations); what is left then is the Euler-Maclaurin term
    h^2/12 (f'(b) - f'(a)), h = (b - a)/2048, of the composite rule.  Did the call stop there, and is that term what the implementation is off by?"""
    try:
        if op != "named1d" or neval != 2049 or not ann or ann[0] != "1d": return False
        f = parse_ann(ann)[1][0]; a, b = lim
        E = (b - a) ** 2 / (2048.0 ** 2 * 12.0) * (f.dg(b) - f.dg(a))
        return abs((val - ex) - E) <= 0.05 * abs(E)
    except (OverflowError, ZeroDivisionError, ValueError, TypeError): return False


def inexact_levels(op, method, ann, d):
    """the number of nesting levels on which the method's accuracy is spent: all of them, except that the trapezoidal rule is exact (to rounding) on a level
    whose variable enters the integrand through a polynomial of degree <= 1, and on the two angular levels of a radial profile (constant in the angles)"""
    if method == "Adaptive-Simpson" and ann and ann[0] in ("1d", "nd") and "@" not in ann:
        # theorems C13_adaptive_simpson_exact_to_degree_5 / C13_adaptive_simpson_2d_3d_exact_to_degree_5: a level whose variable enters through a polynomial of
        # degree <= 5 is exact (every accepted panel is Boole's rule), whatever the tolerance: rounding only
        return sum(1 for f in parse_ann(ann)[1] if poly_degree(f) is None or poly_degree(f) > 5)
    if method != "Trapezoidal" or not ann: return d
    if ann[0] in ("1d", "nd"): return sum(1 for f in parse_ann(ann)[1] if f.curved())
    if ann[0] == "sphr": return 1
    return d


def predicates(c, io):
    if c.line.startswith(("glvec ", "glfun ")): return predicates_gl(c.line, io)
    if c.line.startswith("preinit "): return predicates_preinit(c.line, io)
    if not c.line.startswith("session "): return predicates_call(c.line, io)
    out = []
    if io.startswith("CRASH"): return [("CRASH:session", f"the implementation ended with {io} during this sequence of calls")]
    if io.startswith(("SANITIZER", "TIMEOUT", "HARNESSERR")): return out
    if io.startswith("EXIT"): return [("session:exit", "a sequence of valid requests terminated the process")]
    subs = split_session(c.line); parts = split_out(io)
    if len(parts) != len(subs): return [("session:shape", f"{len(subs)} calls but {len(parts)} answers")]
    for j, (sl, x) in enumerate(zip(subs, parts)):
        t = x.split()
        fresh = t[-1]; own = " ".join(t[:-1])
        where = f"call {j + 1} of {len(subs)} made one after the other in one process ({' '.join(sl.split()[:3])} ...): "
        for sig, msg in predicates_call(sl, own): out.append((sig, where + msg))
        if tokf(fresh) is None: out.append(("session:fresh-process", where + f"the same call made in a fresh process ended with {fresh}"))
        elif t[0] != fresh and not (math.isnan(tokf(t[0])) and math.isnan(tokf(fresh))):
            out.append(("session:history-dependence", where + f"the result is {tokf(t[0])!r} but the same call made in a process that has made no other call gives {tokf(fresh)!r}"))
    return out


def predicates_preinit(line, io):
    """a call made before main (during the static initialisation of the caller's translation unit, linked in front of the library): the clauses of the
    property on its answer, and the answer itself against the one the same call has when it is made from main"""
    sl = line.split(" ", 1)[1]
    what = f"made before main, while the namespace-scope objects of the caller's translation unit are initialised ({' '.join(sl.split()[:3])} ...): "
    if io.startswith("CRASH"): return [("CRASH:preinit", what + f"the implementation ended with {io}")]
    if io.startswith(("SANITIZER", "TIMEOUT", "HARNESSERR")): return []
    if io.startswith("EXIT"): return [(sig, what + msg) for sig, msg in predicates_call(sl, io)]
    t = io.split(); own = " ".join(t[:-1]); late = t[-1]
    out = [(sig, what + msg) for sig, msg in predicates_call(sl, own)]
    if tokf(late) is None or tokf(t[0]) is None: out.append(("preinit:shape", what + f"answers {t[0]} / {late}"))
    elif t[0] != late and not (math.isnan(tokf(t[0])) and math.isnan(tokf(late))):
        out.append(("preinit:initialisation-order-dependence", what + f"the result is {tokf(t[0])!r} but the same call made from main gives {tokf(late)!r}"))
    return out


def predicates_call(line, io):
    out = []
    op, method, p, lim, fex, ann = parse_case(line)
    if io.startswith("CRASH"):
        # (the generic report of tools/vcheck.py is replaced by this one, ALLOW_CRASH, so that the known abort has a signature of its own)
        region = ":tanh-sinh-narrow-interval" if tanh_sinh_narrow(op, method, lim) else ""
        out.append(((f"{op}:crash" + region) if region else f"CRASH:{op}", f"the implementation ended with {io} on this request")); return out
    if io.startswith(("SANITIZER", "TIMEOUT", "HARNESSERR")): return out
    d = dims(op)
    equal = [lim[2 * k] == lim[2 * k + 1] for k in range(d)]
    # the method name is validated before the limits are looked at (1-D and front ends alike)
    known = method in METHODS
    if op == "named1d": should_exit = not known
    else: should_exit = (not known) and method not in ("Monte-Carlo", "Vegas", "Miser")
    if io.startswith("EXIT"):
        if not should_exit: out.append((f"{op}:exit", f"method {method} terminated the process on a valid request"))
        return out
    if should_exit:
        out.append((f"{op}:unknown-method", f"unknown method name {method} was accepted")); return out
    if not known: return out
    v = parse_vals(io)
    val = v[0]; k0 = 2
    neval = v[k0]; mm = v[k0 + 2:]
    # the call equals the back end of the method name, nested level by level with the same method_parameter
    if not (val == v[1] or (math.isnan(val) and math.isnan(v[1]))):
        what = {"named1d": "Integrate", "nested2d": "Integrate_2D", "nested3d": "Integrate_3D", "spherical": "Integrate_3D (spherical)"}[op]
        out.append((f"{op}:delegation", f"{what}(..,\"{method}\",{p}) = {val!r} but the back end of that name, called directly"
                    + (" and nested level by level with the same parameter" if d > 1 else "") + f", gives {v[1]!r}"))
    if any(equal):
        if val != 0.0: out.append((f"{op}:equal-limits", f"equal limits on an axis but the result is {val!r}"))
        if equal[0] and neval != 0: out.append((f"{op}:equal-limits-calls", f"equal outer limits but the integrand was called {neval} times"))
    # rules with a fixed number of points evaluate exactly that many per level
    npts = (30 if p == 0 else p) if method == "Gauss-Legendre_2" else 30 if method == "Gauss-Legendre" else None
    if npts is not None:
        want = 0 if any(equal) else npts ** d
        if neval != want:
            out.append((f"{op}:sample-count", f"{method} with method_parameter {p} is a {npts}-point rule on each of the {d} level(s): {want} evaluations of the integrand, "
                        f"but it was evaluated {neval} times"))
    # the adaptive rule nested on a product of factors takes the product of the evaluations its stopping rule takes on each factor (up to a panel whose
    # acceptance test is decided by rounding: 1e-3); factors on ordinary scales only (a factor 2^-900 takes the products out of the normal range)
    if method == "Adaptive-Simpson" and d >= 2 and ann and ann[0] == "nd" and not any(equal) and "@" not in fex:
        _, facs_ = parse_ann(ann)
        if len(facs_) == d and product_text(facs_, "xyz"[:d]) == fex and all(f.name != "scl" for f in facs_):
            want = as_expected_evaluations(lim, facs_)
            if want is not None and abs(neval - want) > 1e-3 * want + 64:
                out.append((f"{op}:evaluation-count", f"Adaptive-Simpson on a product of {d} factors: its stopping rule takes {want} evaluations (the product of the evaluations per level), "
                            f"but the integrand was evaluated {int(neval)} times"))
    # every argument stays inside the limits of its own axis
    if neval > 0:
        for k in range(d):
            lo, hi = min(lim[2 * k], lim[2 * k + 1]), max(lim[2 * k], lim[2 * k + 1])
            mn, mx = mm[2 * k], mm[2 * k + 1]
            if op == "spherical":
                # the azimuth is recorded as the representative modulo 2 pi within pi of the middle of the range: a range of (nearly) a full turn or more fills that window
                if k == 2 and hi - lo > 2 * math.pi - 0.02: continue
                sl = 4e-16 * max(abs(lo), abs(hi), 1.0) * 4
                if k == 2: sl = 16 * 2.0 ** -52 * max(abs(lo), abs(hi), 2 * math.pi)      # atan2, the difference from the middle, the reduction and the sum: a few roundings at the magnitude of the range
                name = ("norm of the vector", "cosine of its polar angle", "its azimuth")[k]
                if k == 1 and min(abs(lim[0]), abs(lim[1])) == 0.0 and mm[0] < 1e-300: continue
            else:
                sl = 0.0; name = "argument %d" % k
            if not (lo - sl <= mn and mx <= hi + sl):
                out.append((f"{op}:argument-range", f"{name} ranged over [{mn!r},{mx!r}] but its own limits are [{lo!r},{hi!r}]"))
    # a user function defined through calls of the library: the same call with every inner call made beforehand from the top level
    if "@@" in fex.split():
        flat = v[k0 + 2 + 2 * d] if len(v) > k0 + 2 + 2 * d else None
        depth = d + sum(LEVELS_OF.get(o, 0) for o in [t_ for j_, t_ in enumerate(fex.split()) if j_ > 0 and fex.split()[j_ - 1] == "@@"])
        if flat is None: out.append((f"{op}:shape", "the answer of a case with inner calls carries no flat value"))
        elif not (val == flat or (math.isnan(val) and math.isnan(flat))):
            out.append((f"{op}:nesting-depth-dependence", f"{method}: the result is {val!r} with the inner calls made from inside the integrand ({depth} levels of Integrate active at once), "
                        f"but {flat!r} when every inner call is made beforehand from the top level and its value put in its place"))
        if ann and ann[0] == "deep":
            levels = parse_deep(ann); top = levels[0]
            es = exact_and_scale(op, lim, fex, ann) if (top["op"], top["method"], top["p"]) == (op, method, p) else None
            if es and not (abs(val - es[0]) <= es[2]):
                out.append((f"{op}:value", f"{method}, {depth} levels of Integrate active at once: result {val!r}, exact value {es[0]!r} (difference {abs(val - es[0]):.3g} > {es[2]:.3g})"))
        return out
    es = exact_and_scale(op, lim, fex, ann)
    inner = inner_of(fex)
    small = lambda m, q: m == "Gauss-Legendre_2" and 0 < q < 20
    if es and ann[0] not in CORR and not small(method, p) and not (inner and small(*inner)):
        ex, sc, extra = es
        # accuracy of the method per nesting level, relative to the integral of |f|; rounding of the closed form;
        # accuracy of the inner method when the user's function is itself computed by a quadrature
        slack = inexact_levels(op, method, ann, d) * acc_of(method) * sc + 1e-13 * sc + extra
        if not (abs(val - ex) <= slack):
            region = ":tanh-sinh-narrow-interval" if tanh_sinh_narrow(op, method, lim) else \
                     ":adaptive-simpson-false-acceptance" if method == "Adaptive-Simpson" and as_false_acceptance(op, lim, ann, val, ex, slack) else \
                     ":trapezoidal-refinement-cap" if method == "Trapezoidal" and trapezoid_refinement_cap(op, lim, ann, neval, val, ex) else ""
            out.append((f"{op}:value" + region, f"{method}: result {val!r}, exact integral {ex!r} (difference {abs(val-ex):.3g} > {slack:.3g})"))
    return out


def nontrivial(c, io):
    if c.line.startswith(("glvec ", "glfun ")): return io.startswith("EXIT") or (not io.startswith(("CRASH", "TIMEOUT", "SANITIZER", "HARNESSERR")) and int(c.line.split()[1]) >= 2)
    if c.line.startswith("preinit "): return not io.startswith(("CRASH", "TIMEOUT", "SANITIZER", "HARNESSERR"))
    if c.line.startswith("session "): return len(split_session(c.line)) >= 2 and not io.startswith(("CRASH", "EXIT", "TIMEOUT", "SANITIZER", "HARNESSERR"))
    op, method, p, lim, fex, ann = parse_case(c.line)
    if op == "named1d": return lim[0] >= lim[1] or p != 0 or method not in METHODS or "@" in fex
    iv = [(min(lim[2 * k], lim[2 * k + 1]), max(lim[2 * k], lim[2 * k + 1])) for k in range(dims(op))]
    disjoint = all(iv[i][1] < iv[j][0] or iv[j][1] < iv[i][0] for i in range(len(iv)) for j in range(i))
    if "@@" in fex.split(): return True
    if op == "spherical": return bool(ann) and (ann[0] == "sphd" or (lim[2], lim[3], lim[4]) != (-1.0, 1.0, 0.0))
    if not ann or not disjoint: return False
    _, facs = parse_ann(ann)
    return len({f.ann() for f in facs}) == len(facs)
