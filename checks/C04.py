"""C04 — vector and matrix algebra obeys the algebraic laws for every conformable shape.

Case grammar (first token = operation; see harness/C04.cpp and ocaml/C04_driver.ml):
  matrix argument  = table: `rows` then each row as a list `n x1 .. xn`  (goes through Matrix(vector<vector<double>>))
  vector argument  = list `n x1 .. xn`
  block grid       = `GR` then per grid row `GC` and GC blocks `r c e11 .. erc`   (operation `block`; blocks with 0 rows / columns allowed)
                     `blockm GR GC_1 M .. GC_2 M ..` is the same constructor on a grid of matrix ARGUMENTS (tables; with `hist`
                     objects after a call history; in a session also `@j` = a live object, the same one in several places)
Output: matrix `M rows cols e11 e12 ..`, vector `V n e1 ..`, scalars as hex floats, booleans 0/1, `EXIT`.
`v_print L` / `m_print T`: `stream << object` (operator<<) on a string stream with precision 17; output `P n item_1 .. item_n`, an item a number (read
back with strtod) or the name of a fixed string of the source: LP "(" | CM " , " | RP ")" | LC RC LF RF the four corner characters | BAR "|" | TAB | NL.
`m_show T` / `v_show L` print the object as Rows()/Columns()/operator[] (Size()/operator[]) see it; `v_at L i` is v[i].

Call histories: `hist <op> <args>` is the operation <op> on operands that are not fresh: every matrix argument is
`table k step_1 .. step_k`, every vector argument `list k step_1 .. step_k`; the steps are applied, in order, to the object
constructed from the table / list before the operation sees it:
  matrix: rs r c (Resize) | as r c x (Assign) | dr i | dc j (Delete_Row/Column) | st i j x (M[i][j] = x) | cp (copy constructor)
          | eq (operator= through two objects of other shapes) | se (M = M) | pa T | ma T (M += T, M -= T) | sa | ss (M += M, M -= M)
          | pl T | mi T (M = M + T, M = M - T) | tr (M = M.Transpose()) | ms x | dv x (M = M * x, M = M / x)
          | z r c (M = Matrix(r, c)) | df (M = Matrix())
  vector: rs n | as n x | st i x | cp | eq | se | pa L | ma L | sa | ss | pl L | mi L | ms x (v = v * x) | sm x (v = x * v) | dv x
          | z n (v = Vector(n)) | df (v = Vector()) | nz (v.Normalize()) | nd (v = v.Normalized())
The operation is called on the very object the history ran on (not on a copy of it).
The predicates evaluate every clause against the value a FRESH object would have (reference semantics of the steps: mat_history /
vec_history below, independent of the Coq model), so an object whose past matters to an operation is a failing input.

Sessions: `life NM T_1 .. T_NM NV L_1 .. L_NV K step_1 .. step_K` keeps NM matrices and NV vectors alive in one process and calls
members on them one after the other:
  m k <matrix step>   a step of the list above on matrix object k; the operand of pa / ma / pl / mi and of `af T` (M = T) is a
                      table or `@j` = live matrix j itself (also j = k)
  v k <vector step>   the same for vector object k (operands: list or `@j`)
  o <op> <args>       any operation of this grammar that does not change its operands (const members, operators, ==, the laws),
                      every matrix / vector argument a table / list or `@j`; its result is printed, followed by `|`
so that the same question is asked of one object before and after other calls (const ones included), of two objects holding the same
value, and with live objects as both operands.  Every answer is judged against the definition evaluated on the value a fresh object
would hold at that point.  `m_atc` / `v_atc` read through the const operator[].

Returned objects: `made NP (kind L tok_1 .. tok_L)*NP K step_1 .. step_K`: NP producers are called one after the other; what each
RETURNS (the returned temporary itself, copy-elided / copy-constructed, never rebuilt from entries) becomes the next live matrix /
vector; a matrix / vector argument of a producer is a table / list or `@j` = an object made earlier in the case.  Matrix producers:
tr M (Transpose) | sb M i j (Sub_Matrix) | ou V V (Outer_Vector_Product) | id k (Identity_Matrix) | mp M M (operator*) | pr M M (Product)
| pl M M (operator+) | pn M M (Plus) | mi M M (operator-) | ms M x | sm x M | dv M x | fl r c x (Matrix(r,c,x)) | dg L (Matrix(diagonal))
| cp M (copy constructor) | hs T k steps (an object after a call history) | bk <grid of M> (block constructor) | iv M (Inverse)
| ro a d L (Rotation_Matrix) | qq M | qr M (QR_Decomposition .first / .second) | rn M (Round);  vector producers: rr M i | rc M i
(Return_Row / Return_Column) | mv M V | vm V M | cr V V (Cross) | nd V (Normalized) | sc V x | sp a b c (Spherical_Coordinates) | vc V.
Then the session `K step_1 .. step_K` (steps of `life`) runs twice, each time in a forked child: on the returned objects themselves and
on objects built from literals with the same entries (entries read through Rows()/Columns()/operator[]).  Output:
`<answers on the returned objects> && <answers on the literal-built objects> && <the returned objects as operator[] shows them>`.
Predicates: every returned object has the shape (for the selecting / copying producers: the entries) its producer is defined to
return; the two answer lists are equal token for token; the answers on the literals satisfy the clauses (judged as a `life` session).
iv / ro / qq / qr / rn / sp are outside the Coq model (the model line is UNMODELLED and `compare` leaves these cases to the predicates).

Ambient state: `amb K (name L tok_1 .. tok_L)*K <request>` is any request of this grammar (plain, `hist`, `life`) made after K calls
of OTHER facilities of the library in the same process (Eigenvalues / Eigensystem / Eigenvectors / QR_Decomposition / Determinant /
Inverse / Invertible / Rotation_Matrix / Angle / Spherical_Coordinates / Round / Integrate / Integrate_Gauss_Legendre / Find_Root /
Find_Minimum / Interpolation / special functions / statistics / sampling; arguments: FOREIGN below).  Output:
`<answer after the calls> || <answer of the same request in a pristine forked process> || fp c w p`, where c, w, p are 0 when the
floating-point control state of the process (MXCSR control bits, x87 control word; p: what probe operations do - bit 0 subnormal
results flushed, bit 1 subnormal operands read as zero, bits 2-4 rounding not to nearest) is the one the process started with.
The answer after the calls is judged by the clauses of the request itself and must be, token for token, the pristine answer.
"""
import math, itertools, struct, sys
from fractions import Fraction
from vcheck import Case, hx, flist, tokf

PID = "C04"
EPS = 2.0 ** -53
SLACK = 64 * EPS      # DESIGN 5.3: |y_impl - y_exact| <= 64*eps*sum|t_k| for a sum of terms t_k (a priori, loose against
                      # the (n+1)*eps of the standard rounding model for n <= 8 terms, tight against any index/coefficient change)
RULE = ("one case = one call of one spelling (or one law evaluated on the implementation's results) on generated operands, fresh or "
        "after a generated call history (Resize, Assign, writes, copies, compound assignments) on the same object, or one session "
        "(several live objects in one process, calls that change them interleaved with the same questions asked again and again), "
        "or a session on objects RETURNED by the library (members and free functions of the property's list, Inverse, Rotation_Matrix, QR factors, "
        "Round, chained), answered a second time on literal-built objects with the same entries, "
        "or any of these after calls of other facilities of the library in the same process, answered a second time by a pristine process; "
        "non-trivial = the case has a non-square matrix operand or a non-conformable pair (shape guard exercised), or is a session on returned objects; distinct by case text")
LEVEL_TEXT = ("Theorems (Coq/MathComp, every shape and every entry, over an arbitrary commutative ring; the exactness laws over any "
              "number type satisfying only x*y=y*x resp. x*1=x, x*0=0, 0+x=x, x+0=x): see evidence.coverage.theorems. The Gallina model "
              "(coq/C04_Model.v) is the term that is extracted and run against libphysica on every run (bit-identical), and every clause "
              "of the property is also evaluated on the implementation's own results (S4), on fresh operands and on operands that "
              "reached their state through a call history (Resize, Assign, element writes, copies, compound assignments; model "
              "coq/C04_State.v, theorems C04_resize, C04_resize_accessors, C04_assign_set_copy, C04_vector_state: Resize/Assign "
              "re-establish the class invariant from any previous state, so the storage-based accessors agree with Rows()/Columns()), "
              "and in sessions: several live objects in one process, every member that changes an object interleaved with the const "
              "members / operators / laws asked of the same object before and after, of twin objects, and with live objects (the "
              "object itself included) as operands (model coq/C04_Life.v; theorems C04_life_step, C04_life_invariant, "
              "C04_life_compound, C04_life_vector: a call touches only its object, every changing call re-establishes the "
              "invariant so the theorems about const members apply at every point of a life, += / -= leave the same object as "
              "= A + B / = A - B). The block constructor is driven on grids whose blocks differ in character (ordinary, tiny / huge as a whole, a single non-zero entry, all +0.0 / -0.0; sizes along a ladder that includes the points where squares of entries leave the double range) and on objects with a call history / live objects as blocks (theorems C04_block_constructor, C04_block_single: every entry of every block is copied, whatever its value). That an answer of a const member depends on nothing but the current (rows, columns, components) "
              "is how the model is built (the classes have no other data member), not a theorem about the C++: it is what the "
              "sessions test, each answer being judged against the definition on the value a fresh object would hold. "
              "Unbounded statements about whole sessions (coq/C04_Proofs_Hist.v; [life_run] = the fold of the calls of a session, the function "
              "the driver advances the live objects with): C04_session_composition (a session splits at every point), C04_session_invariant "
              "(all live objects satisfy the class invariant after every prefix of a session of any length, none appears or disappears), "
              "C04_session_frame (an object no call addresses keeps its value), C04_session_compound (v += b / v -= b may be written "
              "v = v + b / v = v - b anywhere in a session without changing the final state; for matrices in sessions where the matrix has a "
              "row whenever += / -= is called) - induction over the list of calls. Further laws for every conformable shape "
              "(coq/C04_Proofs_Alg.v): exact for every number type, so for doubles: C04_transpose_linear (transpose of sum / difference / "
              "scalar multiple / quotient, trace of the transpose), C04_symmetric_is_transpose_fixed, C04_commutative_product_laws "
              "(u.v = v.u, v*A = transpose(A)*v, A*v = v*transpose(A), transpose(outer(u,v)) = outer(v,u), transpose(A)*A symmetric; "
              "only x*y = y*x), C04_sum_commutative (only x+y = y+x); over a commutative ring (they reorder sums, so for doubles they are "
              "NOT exact and only the ring statement is a theorem; S4 evaluates products to rounding): C04_product_associative, "
              "C04_product_distributive (both sides, and (s*A)*B = s*(A*B)), C04_trace_norm_laws (Trace(A*B) = Trace(B*A), "
              "Norm(transpose(A)) = Norm(A)), C04_dot_cross_laws (dot bilinear, u x v = -(v x u)). Vector::Normalized() / Normalize() "
              "(anchored Vector code, new in the model: coq/C04_State.v v_normalized / v_normalize, run against the library as "
              "operations, history steps and session steps): C04_normalized (entrywise quotient by Norm(), always defined, the two "
              "spellings leave the same value, invariant kept) for every number type; C04_normalized_unit over a real closed field "
              "(dot with itself and Norm() exactly 1 when an entry is non-zero) - for doubles 'unit to rounding' is only tested (S4). "
              "The new exact laws v*A = transpose(A)*v, A*v = v*transpose(A), transpose(A+-B) = transpose(A)+-transpose(B) are also "
              "evaluated bit for bit on the implementation (operations law_vecmat_tr, law_trsum). Objects RETURNED by the library (`made` cases: every member / free function of the property's list as a producer, chained, plus "
              "Inverse, Rotation_Matrix, QR_Decomposition, Round, Spherical_Coordinates; the session of questions and changing calls is answered "
              "on the returned object itself and on a literal-built object with the same entries, the answers must be equal token for token): "
              "C04_returned_objects (induction over derivations of any depth: every matrix handed out by a composition of the constructor and "
              "the modelled members satisfies the class invariant, so Return_Row - which reads the stored row wholesale - has exactly Columns() "
              "entries and Sub_Matrix gives again such an object with one row and one column less), C04_return_row_size (the invariant alone "
              "suffices). For the producers outside the model (Inverse, Rotation_Matrix, QR factors, Round, Spherical_Coordinates) this is "
              "tested only (S4 predicates made:returned-shape / returned-entries / returned-object), the model gives no answer there. "
              "The stream insertion operators operator<<(ostream, Vector / Matrix) (new in the model: coq/C04_Print.v, the list of items the "
              "code inserts - numbers and the fixed strings of the source - with the entries read through the const operator[] as the code "
              "does; run against the library on fresh operands, operands with a history and live objects in sessions, the stream set to 17 "
              "digits so that every double is read back exactly): C04_print_vector (on an object that satisfies the invariant the printout "
              "is \"(\" e_0 \" , \" ... \")\" item for item, every component once, in order, never an exit or a read outside the storage, "
              "every dimension), C04_print_matrix (the printout is the concatenation of the rounds of the outer loop, its numbers are the "
              "stored entries in row-major order each once, Rows()-1 line ends, never an exit / outside read, every shape) - induction over "
              "the loops, any number type. How the stream turns a double into digits is the standard library's and not modelled; the corner / bar "
              "items of the matrix printout are fixed by the model (compared on every run, S4 predicate printout-structure), the theorem "
              "states them only through [m_round]. "
              "No hidden state (coq/C04_Proofs_Cache.v): C04_session_observers_fresh - after any session every live object IS the fresh "
              "object built from its current entries, so every observer answers on an object with a past what it answers on a fresh object of "
              "equal value; on the implementation this is what the `observer-cache` sessions test (observer; mutator; observer on one live "
              "object and on copies taken in between, touched through the const interface only, every mutator, Resize shrinking by 1, 2, 3.. "
              "and growing, entries with exact zeros followed by non-zeros) - a cache inside the C++ objects is outside the model by construction. "
              "Rounding (coq/C04_Proofs_Round.v; the SAME model terms instantiated at real numbers whose +, -, * are arbitrary functions "
              "satisfying the standard model fl(x op y) = (x op y)(1+d), |d| <= u, 0 + y exact - Section hypotheses, not axioms; induction "
              "over the length, every n and shape): C04_dot_rounding_bound (|fl(u.v) - sum u_i v_i| <= ((1+u)^n - 1) sum |u_i||v_i|), "
              "C04_product_entry_rounding_bound (the same for entry (i,j) of Product / operator* and for the components of Matrix*Vector and "
              "Vector*Matrix), C04_norm2_rounding_bound (the accumulator of squares of Matrix::Norm over rows*columns entries), "
              "C04_sum_entry_rounding_bound (every entry of += / -= within u|a +- b|), C04_dot_exact_arithmetic (u = 0 gives the exact sum), "
              "C04_rounding_hypotheses_satisfiable (exact arithmetic with u = 0; an arithmetic that really rounds with u = 1/4). The S4 "
              "slack for sums of products (close_sum) is this very expression with u = 2^-53 plus an absolute term for underflowing products. "
              "Not theorems: that IEEE double arithmetic satisfies the standard-model hypotheses (true without underflow / overflow; trusted), "
              "rounding of the square root in Norm() and of Trace / cross products (S4 only, a-priori slack); the clauses for shapes with zero rows (outside the quantifier; the theorems that "
              "rebuild a result through Matrix(vector<vector<double>>) assume a row); Angle() and Spherical_Coordinates are not part of C04.")
LEVEL_NOTE = ("Coq 8.16.1 + MathComp 1.15; theorems are axiom-free except the rounding theorems (coq/C04_Proofs_Round.v), which are about Coq's axiomatic real numbers; hand-written model tied by differential correspondence (extraction with "
              "ExtrOcamlBasic only). Theorems are about exact arithmetic in a commutative ring / field (the exact values of the doubles); "
              "the laws proved from commutativity / unit laws alone hold for IEEE doubles as numbers (==) for finite entries. "
              "S4 'to rounding' clauses (products, dot, trace, norm, cross orthogonality) use the standard model with gradual underflow "
              "(relative 64 eps of the sum of |terms| plus 2^-1074 per product; sqrt(n 2^-1074) for a norm) over the whole double range, "
              "and claim nothing where an intermediate can overflow (sum of |terms| >= DBL_MAX): Norm()/Dot() are the plain "
              "accumulations, they return 0 / inf for entries below 1e-162 / above 1e154, which that model allows.")
TOL = (1e-12, 0.0)
TRUSTED = ["operator<<: the formatting of one double by std::ostream is not modelled (an inserted number is one item); the harness sets the stream's precision to 17 and reads the text back with strtod",
           "the int arguments of Matrix::Resize / Matrix::Assign are modelled by nat (only non-negative arguments are requested)",
           "unsigned int dimensions are modelled by nat (no wrap-around below 2^32 entries); int -> unsigned conversion of a negative Sub_Matrix index is modelled as 'not below any row count'"]
ASSUMPTIONS = ["shapes with zero rows or zero columns are outside the property's quantifier (1<=m,n,k): the theorems about operations that rebuild their result through Matrix(vector<vector<double>>) assume at least one row (a 0 x n result is rebuilt as 0 x 0)"]

SUM_OPS = ["m_plus", "m_minus", "m_op_plus", "m_op_minus", "m_add_assign", "m_sub_assign"]
VSUM_OPS = ["v_add", "v_sub", "v_add_assign", "v_sub_assign"]


# ---------------------------------------------------------------- formatting / parsing
def mtab(A): return f"{len(A)} " + " ".join(flist(r) for r in A)


class ExpectExit(Exception):
    """a step of the call history is not defined (the library has to terminate the process)"""


class Skip(Exception):
    """the request is outside what the reference semantics covers (undefined behaviour / empty final shape)"""


def fdiv(a, s):
    """IEEE a / s"""
    if s != 0: return a / s          # Python raises only for a zero divisor
    if a == 0 or math.isnan(a): return math.nan
    return math.copysign(math.inf, a) * math.copysign(1, s)


class Rd:
    def __init__(s, line):
        s.t = line.split(); s.hist = s.t[0] == "hist"; s.i = 2 if s.hist else 1; s.op = s.t[1] if s.hist else s.t[0]
    def word(s): s.i += 1; return s.t[s.i - 1]
    def int(s): s.i += 1; return int(s.t[s.i - 1])
    def num(s): s.i += 1; return tokf(s.t[s.i - 1])
    def plain_list(s): n = s.int(); return [s.num() for _ in range(n)]
    def plain_table(s): n = s.int(); return [s.plain_list() for _ in range(n)]
    def list(s):
        v = s.plain_list()
        return vec_history(s, v) if s.hist else v
    def table(s):
        A = s.plain_table()
        return mat_history(s, A) if s.hist else A
    def block(s):
        r, c = s.int(), s.int(); return (r, c, [[s.num() for _ in range(c)] for _ in range(r)])


def obj_ref(s):
    """`@j` at the reading position -> j, else None"""
    if s.i < len(s.t) and s.t[s.i].startswith("@"): s.i += 1; return int(s.t[s.i - 1][1:])
    return None


def mat_step(s, st, R, C, M, operand):
    """reference semantics of one matrix step: (rows, columns, entries) of the object after the call"""
    if st == "rs":
        p, q = s.int(), s.int()
        M = [[M[i][j] if (i < R and j < C) else 0.0 for j in range(q)] for i in range(p)]; R, C = p, q
    elif st == "as":
        p, q = s.int(), s.int(); e = s.num(); M = [[e] * q for _ in range(p)]; R, C = p, q
    elif st == "dr":
        i = s.int()
        if not 0 <= i < R: raise ExpectExit
        M = [r for a, r in enumerate(M) if a != i]; R -= 1
    elif st == "dc":
        j = s.int()
        if not 0 <= j < C: raise ExpectExit
        M = [[x for b, x in enumerate(r) if b != j] for r in M]; C -= 1
    elif st == "st":
        i, j = s.int(), s.int(); x = s.num()
        if not 0 <= i < R: raise ExpectExit
        if not 0 <= j < C: raise Skip
        M = [list(r) for r in M]; M[i][j] = x
    elif st in ("cp", "eq", "se"): pass
    elif st == "af":
        R, C, B = operand(); M = [list(r) for r in B]
    elif st in ("pa", "ma", "pl", "mi"):
        p, q, B = operand()
        if (p, q) != (R, C): raise ExpectExit
        M = [[(a + b) if st in ("pa", "pl") else (a - b) for a, b in zip(ra, rb)] for ra, rb in zip(M, B)]
    elif st == "sa": M = [[a + a for a in r] for r in M]
    elif st == "ss": M = [[a - a for a in r] for r in M]
    elif st == "tr":
        if R == 0 or C == 0: raise Skip
        M = T(M); R, C = C, R
    elif st == "ms": x = s.num(); M = [[x * a for a in r] for r in M]
    elif st == "dv": x = s.num(); M = [[fdiv(a, x) for a in r] for r in M]
    elif st == "z": p, q = s.int(), s.int(); M = [[0.0] * q for _ in range(p)]; R, C = p, q
    elif st == "df": M = [[1.0 if i == j else 0.0 for j in range(3)] for i in range(3)]; R, C = 3, 3
    else: raise Skip
    return R, C, M


def table_obj(A):
    """(rows, columns, entries) of Matrix(table); a ragged table is not a matrix"""
    C = len(A[0]) if A else 0
    if any(len(r) != C for r in A): raise ExpectExit
    return len(A), C, [list(r) for r in A]


def mat_history(s, A):
    """reference semantics of the matrix steps: the value of the object after the history, as a fresh table"""
    R, C, M = table_obj(A)
    for _ in range(s.int()):
        R, C, M = mat_step(s, s.word(), R, C, M, lambda: table_obj(s.plain_table()))
    if R == 0 or C == 0: raise Skip
    return M


def ref_norm(v):
    """Norm() evaluated as the definition reads: one accumulator of squares in index order, then sqrt (IEEE, no exceptions)"""
    acc = 0.0
    for a in v: acc = acc + a * a
    return math.sqrt(acc) if acc >= 0 else math.nan


def ref_normalized(v):
    N = ref_norm(v)
    return [fdiv(a, N) for a in v]


def vec_step(s, st, v, operand):
    if st == "rs": n = s.int(); v = [v[i] if i < len(v) else 0.0 for i in range(n)]
    elif st == "as": n = s.int(); e = s.num(); v = [e] * n
    elif st == "st":
        i = s.int(); x = s.num()
        if not 0 <= i < len(v): raise ExpectExit
        v = list(v); v[i] = x
    elif st in ("cp", "eq", "se"): pass
    elif st == "af": v = list(operand())
    elif st in ("pa", "ma", "pl", "mi"):
        b = operand()
        if len(b) != len(v): raise ExpectExit
        v = [(x + y) if st in ("pa", "pl") else (x - y) for x, y in zip(v, b)]
    elif st == "sa": v = [x + x for x in v]
    elif st == "ss": v = [x - x for x in v]
    elif st in ("ms", "sm"): x = s.num(); v = [a * x for a in v]
    elif st == "dv": x = s.num(); v = [fdiv(a, x) for a in v]
    elif st == "z": v = [0.0] * s.int()
    elif st == "df": v = [0.0] * 3
    elif st in ("nz", "nd"): v = ref_normalized(v)
    else: raise Skip
    return v


def vec_history(s, v):
    v = list(v)
    for _ in range(s.int()):
        v = vec_step(s, s.word(), v, s.plain_list)
    return v


# arguments of the operations that may appear as `o <op> ...` in a session: M matrix, V vector, s scalar, i integer
OBS_SIG = {"m_plus": "MM", "m_minus": "MM", "m_op_plus": "MM", "m_op_minus": "MM", "m_prod": "MM", "m_op_mul": "MM", "m_eq": "MM",
           "law_trprod": "MM", "m_prod_s": "Ms", "m_op_mul_s": "Ms", "m_div": "Ms", "m_op_div": "Ms", "s_mul_m": "sM",
           "m_prod_v": "MV", "m_op_mul_v": "MV", "law_matvec": "MV", "v_mul_m": "VM", "law_vecmat": "VM",
           "transpose": "M", "trace": "M", "m_norm": "M", "square": "M", "symmetric": "M", "antisymmetric": "M", "diagonal": "M",
           "law_trtr": "M", "law_mulid": "M", "m_show": "M", "m_print": "M", "v_print": "V", "sub_matrix": "Mii", "return_row": "Mi", "return_column": "Mi",
           "m_at": "Mii", "m_atc": "Mii",
           "v_add": "VV", "v_sub": "VV", "v_dot": "VV", "v_op_mul": "VV", "v_cross": "VV", "law_cross": "VV", "law_dotouter": "VV",
           "outer": "VV", "v_eq": "VV", "v_norm": "V", "v_normalized": "V", "law_trsum": "MM", "law_vecmat_tr": "VMV", "v_show": "V", "v_scale": "Vs", "v_div": "Vs", "s_mul_v": "sV",
           "v_at": "Vi", "v_atc": "Vi"}


def life_predicates(c, io):
    """a session: the reference state of every live object is advanced step by step; every `o` step is judged, as a call of its own,
    against the definition on the values the objects hold at that point (the clauses of _predicates)"""
    s = Rd(c.line); s.hist = False
    ex = io.startswith("EXIT")
    chunks = [[]]
    for t in io.split():
        if t == "|": chunks.append([])
        else: chunks[-1].append(t)
    out = []; seen = 0; step = 0
    try:
        ms = [table_obj(s.plain_table()) for _ in range(s.int())]
        vs = [s.plain_list() for _ in range(s.int())]
        def m_operand():
            j = obj_ref(s)
            return ms[j] if j is not None else table_obj(s.plain_table())
        def v_operand():
            j = obj_ref(s)
            return vs[j] if j is not None else s.plain_list()
        for step in range(1, s.int() + 1):
            w = s.word()
            if w == "m":
                k = s.int(); ms[k] = mat_step(s, s.word(), *ms[k], m_operand)
            elif w == "v":
                k = s.int(); vs[k] = vec_step(s, s.word(), vs[k], v_operand)
            else:
                op = s.word(); args = []
                if op == "blockm":
                    GR = s.int(); args.append(str(GR))
                    for _ in range(GR):
                        GC = s.int(); args.append(str(GC))
                        for _ in range(GC):
                            R, C, M = m_operand()
                            if R == 0 or C == 0: raise Skip
                            args.append(mtab(M))
                for a in OBS_SIG.get(op, ""):
                    if a == "M":
                        R, C, M = m_operand()
                        if R == 0 or C == 0: raise Skip
                        args.append(mtab(M))
                    elif a == "V": args.append(flist(v_operand()))
                    else: args.append(s.word())
                call = Case(f"{op} " + " ".join(args))
                if not _predicates(call, "EXIT"): raise ExpectExit        # by the definition this call is not defined
                if ex: continue
                if seen + 1 >= len(chunks): out.append((f"{op}:protocol:life", f"step {step}: no answer printed")); return out
                for sig, msg in _predicates(call, " ".join(chunks[seen])):
                    out.append((sig + ":life", f"step {step} of the session ({op} on objects with a past in this process): {msg}"))
                seen += 1
                if out: return out
    except ExpectExit:
        if ex: return []
        return [("life:guard", f"step {step} of the session is not defined, yet the process went on")]
    if ex: return [("life:defined", "every step of the session is defined, yet the process was terminated")]
    return out


class Out:
    """parser of an output line"""
    def __init__(s, line): s.t = line.split(); s.i = 0
    def more(s): return s.i < len(s.t)
    def num(s): s.i += 1; return tokf(s.t[s.i - 1])
    def int(s): s.i += 1; return int(s.t[s.i - 1])
    def mat(s):
        if s.t[s.i] != "M": raise ValueError("matrix expected")
        s.i += 1; r, c = s.int(), s.int()
        return (r, c, [[s.num() for _ in range(c)] for _ in range(r)])
    def vec(s):
        if s.t[s.i] != "V": raise ValueError("vector expected")
        s.i += 1; n = s.int(); return [s.num() for _ in range(n)]


def shape(A): return (len(A), len(A[0]))
def T(A): return [list(c) for c in zip(*A)]
def feq(x, y): return x == y or (math.isnan(x) and math.isnan(y))
def meq(A, B): return len(A) == len(B) and all(len(r) == len(q) and all(feq(x, y) for x, y in zip(r, q)) for r, q in zip(A, B))


def exact_sum(terms):
    return sum((Fraction(a) * Fraction(b) for a, b in terms), Fraction(0))


DBL_MAX = sys.float_info.max
DBL_MIN = 2.0 ** -1022          # smallest normal double
DEN_MIN = 2.0 ** -1074          # smallest positive double
OVF = Fraction(DBL_MAX) * (1 - Fraction(1, 2 ** 40))


def gamma(n):
    """(1+u)^n - 1 with u = 2^-53, exactly (a Fraction): the relative forward error bound of an accumulation of n products that
    the theorems C04_dot_rounding_bound / C04_product_entry_rounding_bound prove for every arithmetic satisfying the standard model"""
    return (1 + Fraction(EPS)) ** n - 1


def close_sum(got, terms):
    """got vs the exact sum of the n products a*b under the standard rounding model with gradual underflow
    (fl(x op y) = (x op y)(1+d) + e, |d| <= eps, |e| <= 2^-1075 for a product, 0 for a sum):
    |got - exact| <= ((1+eps)^n - 1) * sum|a*b| + (#terms) * 2^-1074  - the expression of the theorems (coq/C04_Proofs_Round.v) plus
    the absolute term for underflowing products, which their hypotheses exclude.  (A cross-product component a*b - c*d and a trace
    are accumulations with n = 2 resp. n terms and fewer roundings.)  The model says nothing when an intermediate can overflow
    (sum|a*b| reaches DBL_MAX): then inf / nan are accepted as well."""
    if any(math.isinf(a) or math.isnan(a) or math.isinf(b) or math.isnan(b) for a, b in terms): return True
    ex = exact_sum(terms); sc = sum(abs(Fraction(a) * Fraction(b)) for a, b in terms)
    if math.isinf(got) or math.isnan(got): return sc >= OVF
    return abs(Fraction(got) - ex) <= gamma(len(terms)) * sc + Fraction(DEN_MIN) * max(8, len(terms))


def close_norm(got, entries):
    """got vs sqrt(sum a^2) computed as the code does (one accumulator of squares, then sqrt): with s^ = S(1+t) + e,
    |t| <= (n+1) eps, |e| <= n 2^-1075 (underflowing squares), |sqrt(s^) - sqrt(S)| <= |t| sqrt(S) + sqrt|e|."""
    if any(math.isinf(a) or math.isnan(a) for a in entries): return True
    S = exact_sum([(a, a) for a in entries]); n = max(len(entries), 1)
    if math.isinf(got) or math.isnan(got): return S >= OVF
    ref = math.sqrt(float(S)) if S < Fraction(DBL_MAX) else math.inf
    if math.isinf(ref): return got >= 1e153
    return abs(got - ref) <= 16 * EPS * n * ref + math.sqrt(n * DEN_MIN)


def f2ord(x):
    b = struct.unpack("<q", struct.pack("<d", x))[0]
    return b if b >= 0 else -(b & 0x7FFFFFFFFFFFFFFF)


def ulps(x, k):
    """the double k units in the last place above (k < 0: below) x"""
    o = f2ord(x) + k
    b = o if o >= 0 else ((-o) | (1 << 63)) - (1 << 64)
    return struct.unpack("<d", struct.pack("<q", b))[0]


# ---------------------------------------------------------------- generators
ABS_LADDER = [DEN_MIN, 2 * DEN_MIN, 3 * DEN_MIN, 2.0 ** -1060, 2.0 ** -1040, 1e-310, ulps(DBL_MIN, -1000), ulps(DBL_MIN, -1), DBL_MIN,
              ulps(DBL_MIN, 1), ulps(DBL_MIN, 1000), 1e-300, 1e-250, 1e-200, 1e-160, 1e-100, 1e-50, 1e-30, 1e-16, 1e-8, 1e-3, 1.0, 1e8,
              1e100, 1e300, DBL_MAX]           # geometric ladder of absolute sizes, dense around the smallest normal double
ULP_LADDER = [1, 2, 3, 10, 100, 1000, 2 ** 13, 2 ** 20, 2 ** 26, 2 ** 33]      # relative distances 1e-16 .. 2e-6


def entry(rng, kind):
    if kind == "int": return float(rng.randint(-4, 4))
    if kind == "unit": return rng.uniform(-1, 1)
    if kind == "dyadic": return rng.choice([0.0, 0.5, 1.0, 1.5, 2.0, -1.0, 3.0, 0.25, -0.5, 1.75, -2.0, 1.0, 0.0])
    if kind == "wide":       # the whole exponent range, subnormals included
        r = rng.random()
        if r < 0.08: return rng.choice([0.0, -0.0])
        return rng.choice([-1, 1]) * math.ldexp(rng.uniform(1, 2), rng.randint(-1075, 1023))
    if kind == "tiny":       # the underflow region: subnormals, the neighbourhood of DBL_MIN, 1e-300
        r = rng.random(); sg = rng.choice([-1, 1])
        if r < 0.15: return rng.choice([0.0, -0.0])
        if r < 0.45: return sg * DEN_MIN * rng.choice([1, 2, 3, rng.randint(1, 2 ** 20), rng.randint(1, 2 ** 52 - 1)])
        if r < 0.75: return sg * ulps(DBL_MIN, rng.choice([-1, 1]) * rng.choice([0] + ULP_LADDER))
        return sg * 10 ** rng.uniform(-323, -280)
    if kind == "huge":       # the overflow region
        r = rng.random(); sg = rng.choice([-1, 1])
        if r < 0.1: return 0.0
        if r < 0.4: return sg * ulps(DBL_MAX, -rng.choice([0] + ULP_LADDER))
        return sg * 10 ** rng.uniform(150, 308)
    r = rng.random()
    if r < 0.12: return 0.0
    if r < 0.15: return -0.0
    if r < 0.35: return float(rng.randint(-9, 9))
    return rng.choice([-1, 1]) * 10 ** rng.uniform(-8, 8) * rng.uniform(1, 10)


def rmat(rng, m, n, kind="mixed"):
    if kind == "scaled":     # one common scale for the whole operand (a change of units): 1e-80 .. 1e80
        sc = 10.0 ** rng.randint(-80, 80)
        return [[entry(rng, "mixed") * sc for _ in range(n)] for _ in range(m)]
    return [[entry(rng, kind) for _ in range(n)] for _ in range(m)]


def rvec(rng, n, kind="mixed"): return rmat(rng, 1, n, kind)[0] if n else []


# sizes at which the SQUARE of an entry leaves the double range (what Norm() and Dot() accumulate): sqrt of the smallest positive
# double, of the smallest normal double and of DBL_MAX, with a ladder of neighbours, on top of the ladder of absolute sizes
SQ_POINTS = [2.0 ** -538, 2.0 ** -537, 2.0 ** -511, 2.0 ** 511, 2.0 ** 512]
OPERAND_SCALES = ABS_LADDER + [1e-180, 1e-170, 1e-165, 1e-155, 1e150, 1e154, 1e160] + \
    [ulps(x, d * u) for x in SQ_POINTS for d in (-1, 1) for u in (0, 1, 1000, 2 ** 33, 2 ** 50)]
BLOCK_KINDS = ["int", "mixed", "mixed", "wide", "tiny", "huge", "one-scale", "one-scale", "one-scale", "single", "zero", "negzero"]


def whole_operand(rng, r, c, kind):
    """an r x c operand all of whose entries are of one character: an entry kind of `entry`, or
       one-scale: (small integers, zeros, uniform numbers) times one size of OPERAND_SCALES - an operand that is small / large as a whole
       single:    zeros and one entry of such a size;   zero / negzero: all +0.0 / all -0.0"""
    if kind in ("zero", "negzero"): return [[0.0 if kind == "zero" else -0.0] * c for _ in range(r)]
    if kind in ("one-scale", "single"):
        sc = rng.choice(OPERAND_SCALES)
        def e():
            x = rng.choice([float(rng.randint(-3, 3)), rng.choice([-1.0, 1.0]), rng.uniform(-2, 2), 0.0]) * sc
            return x if math.isfinite(x) else math.copysign(sc, x)
        if kind == "one-scale":
            M = [[e() for _ in range(c)] for _ in range(r)]
            if r and c and all(x == 0 for row in M for x in row): M[rng.randrange(r)][rng.randrange(c)] = rng.choice([-1, 1]) * sc
            return M
        M = [[0.0] * c for _ in range(r)]
        if r and c: M[rng.randrange(r)][rng.randrange(c)] = rng.choice([-1, 1]) * sc
        return M
    return rmat(rng, r, c, kind)


def nudge(rng, x, step):
    """x moved by the step-th rung of the ladders: an absolute amount when x is zero, a number of ulps otherwise"""
    if x == 0: return rng.choice([-1, 1]) * ABS_LADDER[step % len(ABS_LADDER)]
    return ulps(x, rng.choice([-1, 1]) * ULP_LADDER[step % len(ULP_LADDER)])


SPECIAL = ["identity", "scalar", "diag-trace-n", "diag-det-1", "diag-pm1", "diag-generic", "permutation", "unit-triangular",
           "identity-off", "identity-diag", "zero", "single", "ones", "sym-unit-diag", "full-trace-n", "negzero-identity",
           "diag-norm-n", "nilpotent", "symmetric", "antisymmetric", "upper", "lower"]


def special_square(rng, n, kind):
    """structured n x n operands: matrices that share cheap invariants (diagonal, trace, determinant, norm, unit diagonal,
    first row ...) with the unit or the zero matrix without being it, with simple dyadic entries so that the coincidences are
    exact in floating point"""
    Z = lambda: [[0.0] * n for _ in range(n)]
    def diag(d):
        M = Z()
        for i, x in enumerate(d): M[i][i] = x
        return M
    dy = lambda: entry(rng, "dyadic")
    I = diag([1.0] * n)
    if kind == "identity": return I
    if kind == "scalar": return diag([rng.choice([2.0, -1.0, 0.5, 3.0, 1.0 + 2.0 ** -52, 1e-300])] * n)
    if kind == "diag-trace-n":
        d = [dy() for _ in range(n - 1)]; d.append(float(n) - sum(d)); rng.shuffle(d); return diag(d)
    if kind == "diag-det-1":
        ks = [rng.randint(-3, 3) for _ in range(n - 1)]; ks.append(-sum(ks)); rng.shuffle(ks); return diag([2.0 ** k for k in ks])
    if kind == "diag-pm1": return diag([rng.choice([1.0, -1.0]) for _ in range(n)])
    if kind == "diag-generic": return diag([entry(rng, "mixed") for _ in range(n)])
    if kind == "diag-norm-n":      # sum of squares = n without being +-1 throughout: (2,0,0,0) in place of four ones
        d = [rng.choice([1.0, -1.0]) for _ in range(n)]
        if n >= 4: i = rng.randrange(n - 3); d[i:i + 4] = [2.0, 0.0, 0.0, 0.0]
        rng.shuffle(d); return diag(d)
    if kind == "permutation":
        p = list(range(n)); rng.shuffle(p); M = Z()
        for i in range(n): M[i][p[i]] = 1.0
        return M
    if kind == "unit-triangular":
        M = diag([1.0] * n); up = rng.random() < 0.5
        for i in range(n):
            for j in range(n):
                if (i < j) if up else (i > j): M[i][j] = dy()
        return M
    if kind == "identity-off":
        M = diag([1.0] * n)
        if n > 1:
            i = rng.randrange(n); j = rng.choice([b for b in range(n) if b != i])
            M[i][j] = rng.choice([-1, 1]) * rng.choice(ABS_LADDER)
        return M
    if kind == "identity-diag":
        M = diag([1.0] * n)
        i = rng.randrange(n); M[i][i] = rng.choice([0.0, -1.0, 2.0, ulps(1.0, 1), ulps(1.0, -1), -0.0, 1e-300]); return M
    if kind == "zero": return Z()
    if kind == "single":
        M = Z(); M[rng.randrange(n)][rng.randrange(n)] = rng.choice([1.0, -2.0, entry(rng, "mixed"), DEN_MIN]); return M
    if kind == "ones": return [[1.0] * n for _ in range(n)]
    if kind == "sym-unit-diag":
        M = diag([1.0] * n)
        for i in range(n):
            for j in range(i + 1, n): M[i][j] = M[j][i] = dy()
        return M
    if kind == "full-trace-n":
        M = [[dy() for _ in range(n)] for _ in range(n)]
        M[n - 1][n - 1] = float(n) - sum(M[i][i] for i in range(n - 1)); return M
    if kind == "negzero-identity":
        return [[1.0 if i == j else -0.0 for j in range(n)] for i in range(n)]
    if kind in ("symmetric", "antisymmetric", "upper", "lower"):      # random entries, structure only
        ek = rng.choice(["mixed", "int", "dyadic"]); M = Z()
        for i in range(n):
            for j in range(i, n):
                x = entry(rng, ek)
                if kind == "symmetric": M[i][j] = M[j][i] = x
                elif kind == "antisymmetric": M[i][j] = x if i != j else 0.0; M[j][i] = -x if i != j else 0.0
                elif kind == "upper": M[i][j] = x
                else: M[j][i] = x
        return M
    if kind == "nilpotent":
        M = Z()
        for i in range(n - 1): M[i][i + 1] = dy() or 1.0
        return M
    return I


def special_vec(rng, n):
    r = rng.random()
    if r < 0.35: v = [0.0] * n; v[rng.randrange(n)] = rng.choice([1.0, -1.0, 2.0]); return v
    if r < 0.5: return [0.0] * n
    if r < 0.65: return [1.0] * n
    if r < 0.8: return [rng.choice([1.0, -1.0]) for _ in range(n)]
    return [entry(rng, "dyadic") for _ in range(n)]


# ---- call histories (grammar in the module docstring); every generated history is valid and ends in a shape >= 1 x 1
def hist_mat(rng, m, n, kind="mixed", final=None, steps=None):
    """returns (text of the argument, final shape)"""
    A = rmat(rng, m, n, kind); R, C = m, n; out = []
    k = rng.choice([1, 1, 2, 2, 3, 4]) if steps is None else steps
    def num(): return hx(entry(rng, kind if kind != "scaled" else "mixed"))
    for _ in range(k):
        r = rng.random()
        if r < 0.34 or R == 0 or C == 0:       # Resize: every combination of growing / shrinking / keeping rows and columns
            how = rng.choice(["cols-", "cols-", "rows-", "both-", "both+", "cols+", "rows+", "rows+cols-", "rows-cols+", "same", "zero"])
            p, q = R, C
            if "rows-" in how or how == "both-": p = rng.randint(1, max(R - 1, 1))
            if "cols-" in how or how == "both-": q = rng.randint(1, max(C - 1, 1))
            if "rows+" in how or how == "both+": p = R + rng.randint(1, 3)
            if "cols+" in how or how == "both+": q = C + rng.randint(1, 3)
            if how == "zero" and R > 0 and C > 0: p, q = rng.choice([(0, C), (R, 0), (0, 0)])
            if (R == 0 or C == 0): p, q = max(p, 1) if R else rng.randint(1, 4), max(q, 1) if C else rng.randint(1, 4)
            p, q = min(p, 8), min(q, 8)
            out.append(f"rs {p} {q}"); R, C = p, q
        elif r < 0.42: p, q = rng.randint(1, 6), rng.randint(1, 6); out.append(f"as {p} {q} {num()}"); R, C = p, q
        elif r < 0.48 and R > 1: out.append(f"dr {rng.randrange(R)}"); R -= 1
        elif r < 0.54 and C > 1: out.append(f"dc {rng.randrange(C)}"); C -= 1
        elif r < 0.64: out.append(f"st {rng.randrange(R)} {rng.randrange(C)} {num()}")
        elif r < 0.70: out.append(rng.choice(["cp", "eq", "se"]))
        elif r < 0.80: out.append(f"{rng.choice(['pa', 'ma', 'pl', 'mi'])} {mtab(rmat(rng, R, C, kind))}")
        elif r < 0.84: out.append(rng.choice(["sa", "ss"]))
        elif r < 0.90: out.append("tr"); R, C = C, R
        elif r < 0.95: out.append(f"{rng.choice(['ms', 'dv'])} {hx(entry(rng, 'mixed') or 2.0)}")
        elif r < 0.98: p, q = rng.randint(1, 5), rng.randint(1, 5); out.append(f"z {p} {q}"); R, C = p, q
        else: out.append("df"); R, C = 3, 3
    if R == 0 or C == 0:
        p, q = (final or (rng.randint(1, 4), rng.randint(1, 4))); out.append(f"rs {p} {q}"); R, C = p, q
    if final is not None and (R, C) != tuple(final):
        out.append(rng.choice([f"rs {final[0]} {final[1]}", f"rs {final[0]} {final[1]}", f"as {final[0]} {final[1]} {num()}"])); R, C = final
    return f"{mtab(A)} {len(out)}" + "".join(" " + o for o in out), (R, C)


def hist_vec(rng, n, kind="mixed", final=None):
    v = rvec(rng, n, kind); N = n; out = []
    def num(): return hx(entry(rng, kind if kind != "scaled" else "mixed"))
    for _ in range(rng.choice([1, 1, 2, 3])):
        r = rng.random()
        if r < 0.3 or N == 0:
            p = rng.choice([max(N - rng.randint(1, 3), 0 if rng.random() < 0.2 else 1), N + rng.randint(1, 3), N])
            if N == 0: p = rng.randint(1, 5)
            p = min(p, 8); out.append(f"rs {p}"); N = p
        elif r < 0.4: p = rng.randint(1, 6); out.append(f"as {p} {num()}"); N = p
        elif r < 0.55: out.append(f"st {rng.randrange(N)} {num()}")
        elif r < 0.65: out.append(rng.choice(["cp", "eq", "se"]))
        elif r < 0.78: out.append(f"{rng.choice(['pa', 'ma', 'pl', 'mi'])} {flist(rvec(rng, N, kind))}")
        elif r < 0.83: out.append(rng.choice(["sa", "ss"]))
        elif r < 0.93: out.append(f"{rng.choice(['ms', 'sm', 'dv'])} {hx(entry(rng, 'mixed') or 2.0)}")
        elif r < 0.96: p = rng.randint(1, 5); out.append(f"z {p}"); N = p
        elif r < 0.985:
            # Normalize() / Normalized() where the object holds a vector with a finite non-zero norm and a normal quotient
            # (a zero vector becomes all-NaN: judged in the fresh cases `v_normalized` / `v_normalize`, not carried into other operations)
            cur = hist_value(f"{flist(v)} {len(out)}" + "".join(" " + o_ for o_ in out), True)
            nz_ = [abs(a) for a in cur if a != 0]
            if nz_ and all(math.isfinite(a) for a in cur) and 1e-140 <= min(nz_) and max(nz_) <= 1e140: out.append(rng.choice(["nz", "nd"]))
            else: out.append("cp")
        else: out.append("df"); N = 3
    if N == 0: p = final or rng.randint(1, 4); out.append(f"rs {p}"); N = p
    if final is not None and N != final: out.append(f"rs {final}"); N = final
    return f"{flist(v)} {len(out)}" + "".join(" " + o for o in out), N


def hist_value(text, vector=False):
    """the value a fresh object would have after the history (reference semantics)"""
    r = Rd("hist x " + text)
    return r.list() if vector else r.table()



# ---- coincidences: an exact instance of a predicate spoilt in SEVERAL places at once, so that a cheap aggregate of the entries
#      (trace, sum of all entries, every row and column sum, the norm, the multiset of entries, A - A^T resp. A + A^T) still has the
#      value it has for an instance, while the entry-wise definition fails
COINCIDENCES = ["traceless-diagonal", "sym-pair", "anti-pair", "two-offdiag", "swap", "row-col-sums", "negate-row", "diag-swap"]


def zero_sum(rng, k):
    """k >= 2 non-zero doubles whose floating-point sum, taken left to right from 0.0, is exactly 0.0"""
    r = rng.random()
    if k >= 3 and r < 0.3:       # mixed magnitudes: the small ones are absorbed
        big = rng.choice([1e20, 2.0 ** 60, 1e300, 3e17]); d = [big] + [float(rng.randint(1, 9)) * rng.choice([1.0, 0.5, 1e-3]) for _ in range(k - 2)] + [-big]
    elif r < 0.6:                # small dyadic numbers, exact arithmetic
        d = [rng.choice([0.25, 0.5, 0.75, 1.0, 1.5, 2.0, 3.0, 5.0]) * rng.choice([-1, 1]) for _ in range(k - 1)]; d.append(-sum(d))
    else:                        # +x, -x pairs of any size (and one more pair split in two when k is odd)
        d = []
        while len(d) + 2 <= k: x = entry(rng, rng.choice(["mixed", "wide", "dyadic", "int"])) or 1.0; d += [x, -x]
        if len(d) < k: d.append(0.0)
        if rng.random() < 0.5 and k > 2: rng.shuffle(d)
    t = 0.0
    for x in d: t += x
    if t != 0.0 or all(x == 0 for x in d): d = [1.0, -1.0] + [0.0] * (k - 2)
    return d


def coincide(rng, S, how):
    """S (n x n, n >= 2) spoilt in the manner `how`"""
    n = len(S); M = [list(r) for r in S]
    def offdiag():
        i = rng.randrange(n); j = rng.choice([b for b in range(n) if b != i]); return i, j
    d = rng.choice([1.0, 0.5, -2.0, 3.0, entry(rng, "mixed") or 1.0])
    if how == "traceless-diagonal":
        k = rng.randint(2, n); pos = sorted(rng.sample(range(n), k)); z = zero_sum(rng, k)
        for i, x in zip(pos, z): M[i][i] = (M[i][i] + x) if (M[i][i] != 0 and rng.random() < 0.5) else x
    elif how == "sym-pair": i, j = offdiag(); M[i][j] += d; M[j][i] += d
    elif how == "anti-pair": i, j = offdiag(); M[i][j] += d; M[j][i] -= d
    elif how == "two-offdiag":
        i, j = offdiag(); k, l = offdiag()
        if (k, l) in ((i, j), (j, i)): k, l = (j, i) if n == 2 else ((i + 1) % n, (j + 1) % n) if (i + 1) % n != (j + 1) % n else (j, i)
        M[i][j] += d; M[k][l] -= d
    elif how == "swap":
        i, j = offdiag(); k, l = rng.randrange(n), rng.randrange(n)
        if M[i][j] == M[k][l]: M[i][j] += d
        M[i][j], M[k][l] = M[k][l], M[i][j]
    elif how == "row-col-sums":
        i, j = offdiag(); k = rng.choice([a for a in range(n) if a != i]); l = rng.choice([b for b in range(n) if b != j])
        M[i][j] += d; M[k][l] += d; M[i][l] -= d; M[k][j] -= d
    elif how == "negate-row":
        i = rng.randrange(n)
        if all(x == 0 for x in M[i]): M[i][(i + 1) % n] = d
        M[i] = [-x for x in M[i]]
    elif how == "diag-swap":     # two different diagonal entries change places (same trace, same everything but their positions)
        i, j = offdiag()
        if M[i][i] == M[j][j]: M[i][i] += d
        M[i][i], M[j][j] = M[j][j], M[i][i]
    return M


# ---- sessions (grammar in the module docstring): several live objects, member calls on them one after the other, the same
#      questions asked before and after every call.  The builder tracks the shapes only; every generated step is defined unless
#      the session is closed by `undefined()`.
M_PROBES = ["return_column", "return_column", "return_row", "m_show", "m_atc", "m_at", "transpose", "trace", "m_norm", "square",
            "symmetric", "antisymmetric", "diagonal", "sub_matrix", "m_eq", "sum", "prod", "prod-left", "law_trprod", "law_mulid",
            "law_trtr", "scalar", "matvec", "vecmat", "blockm", "blockm"]
V_PROBES = ["v_show", "v_atc", "v_at", "v_norm", "dot", "vsum", "v_eq", "outer", "vscalar", "cross"]


class Session:
    def __init__(s, rng, kind):
        s.rng = rng; s.kind = kind; s.m0 = []; s.v0 = []; s.ms = []; s.vs = []; s.steps = []; s.lits = {}
    def num(s): return hx(entry(s.rng, s.kind))
    def scal(s): return hx(entry(s.rng, "mixed") or 2.0)
    def mat(s, A): s.m0.append(mtab(A)); s.ms.append((len(A), len(A[0]))); return len(s.ms) - 1
    def vec(s, v): s.v0.append(flist(v)); s.vs.append(len(v)); return len(s.vs) - 1
    def line(s):
        return (f"life {len(s.m0)} " + " ".join(s.m0) + f" {len(s.v0)} " + " ".join(s.v0) + f" {len(s.steps)} " + " ".join(s.steps)).replace("  ", " ")
    def lit(s, key, m, n):
        """a literal operand of the given shape, the same one whenever the same probe asks again"""
        if (key, m, n) not in s.lits: s.lits[(key, m, n)] = mtab(rmat(s.rng, m, n, s.kind)) if m else flist(rvec(s.rng, n, s.kind))
        return s.lits[(key, m, n)]
    def other(s, k, shp):
        """a live matrix (not necessarily another one) of the given shape, as `@j`, or None"""
        c = [j for j, x in enumerate(s.ms) if x == shp]
        return f"@{s.rng.choice(c)}" if c and s.rng.random() < 0.6 else None
    def other_v(s, n):
        c = [j for j, x in enumerate(s.vs) if x == n]
        return f"@{s.rng.choice(c)}" if c and s.rng.random() < 0.6 else None
    # -- calls that change matrix k
    def mutate_m(s, k, inplace=None):
        rng = s.rng; R, C = s.ms[k]
        r = rng.random() if inplace is None else (rng.uniform(0, 0.5) if inplace else rng.uniform(0.5, 1))
        if r < 0.22:
            st = rng.choice(["pa", "ma", "pa", "ma", "pl", "mi"]); st = f"{st} {s.other(k, (R, C)) or mtab(rmat(rng, R, C, s.kind))}"
        elif r < 0.30: st = rng.choice(["sa", "ss"])
        elif r < 0.42: st = f"st {rng.randrange(R)} {rng.randrange(C)} {s.num()}"
        elif r < 0.46: st = rng.choice(["cp", "eq", "se"])
        elif r < 0.50: st = f"{rng.choice(['ms', 'dv'])} {s.scal()}"
        elif r < 0.64:
            p = max(1, min(8, R + rng.choice([-2, -1, 0, 0, 1, 2]))); q = max(1, min(8, C + rng.choice([-2, -1, 0, 0, 1, 2])))
            st = f"rs {p} {q}"; s.ms[k] = (p, q)
        elif r < 0.70: p, q = rng.randint(1, 5), rng.randint(1, 5); st = f"as {p} {q} {s.num()}"; s.ms[k] = (p, q)
        elif r < 0.76 and R > 1: st = f"dr {rng.randrange(R)}"; s.ms[k] = (R - 1, C)
        elif r < 0.82 and C > 1: st = f"dc {rng.randrange(C)}"; s.ms[k] = (R, C - 1)
        elif r < 0.88: st = "tr"; s.ms[k] = (C, R)
        elif r < 0.95:
            j = rng.randrange(len(s.ms))
            if rng.random() < 0.5: st = f"af @{j}"; s.ms[k] = s.ms[j]
            else: p, q = rng.randint(1, 5), rng.randint(1, 5); st = f"af {mtab(rmat(rng, p, q, s.kind))}"; s.ms[k] = (p, q)
        elif r < 0.98: p, q = rng.randint(1, 5), rng.randint(1, 5); st = f"z {p} {q}"; s.ms[k] = (p, q)
        else: st = "df"; s.ms[k] = (3, 3)
        s.steps.append(f"m {k} {st}")
    def mutate_v(s, k, inplace=None):
        rng = s.rng; N = s.vs[k]
        r = rng.random() if inplace is None else (rng.uniform(0, 0.6) if inplace else rng.uniform(0.6, 1))
        if r < 0.25: st = f"{rng.choice(['pa', 'ma', 'pa', 'ma', 'pl', 'mi'])} {s.other_v(N) or flist(rvec(rng, N, s.kind))}"
        elif r < 0.33: st = rng.choice(["sa", "ss"])
        elif r < 0.45: st = f"st {rng.randrange(N)} {s.num()}"
        elif r < 0.50: st = rng.choice(["cp", "eq", "se"])
        elif r < 0.60: st = f"{rng.choice(['ms', 'sm', 'dv'])} {s.scal()}"
        elif r < 0.78: p = max(1, min(8, N + rng.choice([-2, -1, 1, 2, 0]))); st = f"rs {p}"; s.vs[k] = p
        elif r < 0.84: p = rng.randint(1, 6); st = f"as {p} {s.num()}"; s.vs[k] = p
        elif r < 0.94:
            j = rng.randrange(len(s.vs))
            if rng.random() < 0.5: st = f"af @{j}"; s.vs[k] = s.vs[j]
            else: p = rng.randint(1, 6); st = f"af {flist(rvec(rng, p, s.kind))}"; s.vs[k] = p
        elif r < 0.965: p = rng.randint(1, 5); st = f"z {p}"; s.vs[k] = p
        elif r < 0.985:
            # Normalize() / Normalized() right after the object was given a value with a finite non-zero norm
            p = rng.randint(1, 6); w = [x if x != 0 and abs(x) < 1e6 else 1.0 for x in rvec(rng, p, "int")]
            s.steps.append(f"v {k} af {flist(w)}"); s.vs[k] = p; st = rng.choice(["nz", "nd"])
        else: st = "df"; s.vs[k] = 3
        s.steps.append(f"v {k} {st}")
    # -- questions about matrix k that leave it alone; `probe` = (name, u, v, spelling): indices are the fractions u, v of the
    #    current shape, so that the same probe is the same question as long as the shape stays
    def new_probe(s, pool): return (s.rng.choice(pool), s.rng.random(), s.rng.random(), s.rng.randrange(1 << 16))
    def ask_m(s, k, probe):
        rng = s.rng; name, u, v, sp = probe; R, C = s.ms[k]; i, j = int(u * R), int(v * C); me = f"@{k}"
        pick = lambda l: l[sp % len(l)]
        if name in ("return_column",): st = f"{name} {me} {j}"
        elif name == "return_row": st = f"{name} {me} {i}"
        elif name in ("m_atc", "m_at", "sub_matrix"): st = f"{name} {me} {i} {j}"
        elif name == "m_show": st = f"{'m_print' if sp & 4 else 'm_show'} {me}"
        elif name in ("transpose", "m_norm", "square", "symmetric", "antisymmetric", "diagonal", "law_mulid", "law_trtr"): st = f"{name} {me}"
        elif name == "trace": st = f"trace {me}" if R == C else f"m_norm {me}"
        elif name == "m_eq":
            o_ = s.other(k, (R, C)) or s.lit(probe, R, C); st = f"m_eq {me} {o_}" if sp & 1 else f"m_eq {o_} {me}"
        elif name == "sum":
            o_ = s.other(k, (R, C)) or s.lit(probe, R, C); f = pick(["m_plus", "m_minus", "m_op_plus", "m_op_minus"])
            st = f"{f} {me} {o_}" if sp & 16 else f"{f} {o_} {me}"
        elif name in ("prod", "law_trprod"):
            q = 1 + sp % 4; o_ = s.other(k, (C, q)) or s.lit(probe, C, q)
            st = f"{pick(['m_prod', 'm_op_mul']) if name == 'prod' else name} {me} {o_}"
        elif name == "prod-left":
            q = 1 + sp % 4; o_ = s.other(k, (q, R)) or s.lit(probe, q, R); st = f"{pick(['m_prod', 'm_op_mul', 'law_trprod'])} {o_} {me}"
        elif name == "scalar":
            f = pick(["m_prod_s", "m_op_mul_s", "m_div", "m_op_div", "s_mul_m"]); x = hx(float(1 + sp % 7) * 0.5)
            st = f"s_mul_m {x} {me}" if f == "s_mul_m" else f"{f} {me} {x}"
        elif name == "matvec": st = f"{pick(['m_prod_v', 'm_op_mul_v', 'law_matvec'])} {me} {s.other_v(C) or s.lit(probe, 0, C)}"
        elif name == "blockm":      # the live object as a block (alone, twice, with fitting neighbours, with a live twin)
            p, q = 1 + sp % 3, 1 + (sp >> 2) % 3; lay = (sp >> 4) % 6
            if lay == 0: st = f"blockm 1 1 {me}"
            elif lay == 1: st = f"blockm 1 2 {me} {me}"
            elif lay == 2: st = f"blockm 2 1 {me} 1 {me}"
            elif lay == 3: st = f"blockm 2 2 {me} {s.lit((probe, 1), R, q)} 2 {s.lit((probe, 2), p, C)} {s.lit((probe, 3), p, q)}"
            elif lay == 4: st = f"blockm 2 2 {s.lit((probe, 3), p, q)} {s.lit((probe, 2), p, C)} 2 {s.lit((probe, 1), R, q)} {me}"
            else:
                o_ = s.other(k, (R, C)) or s.lit(probe, R, C); st = f"blockm 2 2 {me} {o_} 2 {o_} {me}"
        else: st = f"{pick(['v_mul_m', 'law_vecmat'])} {s.other_v(R) or s.lit(probe, 0, R)} {me}"
        s.steps.append("o " + st)
    def ask_v(s, k, probe):
        name, u, v, sp = probe; N = s.vs[k]; me = f"@{k}"
        pick = lambda l: l[sp % len(l)]
        if name == "v_show": st = f"{'v_print' if sp & 4 else 'v_show'} {me}"
        elif name == "v_norm": st = f"{'v_norm' if sp & 8 else 'v_normalized'} {me}"
        elif name in ("v_atc", "v_at"): st = f"{name} {me} {int(u * N)}"
        elif name in ("dot", "vsum", "v_eq"):
            f = pick(["v_dot", "v_op_mul", "law_dotouter"]) if name == "dot" else pick(["v_add", "v_sub"]) if name == "vsum" else "v_eq"
            o_ = s.other_v(N) or s.lit(probe, 0, N); st = f"{f} {me} {o_}" if sp & 16 else f"{f} {o_} {me}"
        elif name == "outer": o_ = s.lit(probe, 0, 1 + sp % 4); st = f"outer {me} {o_}" if sp & 16 else f"outer {o_} {me}"
        elif name == "vscalar":
            f = pick(["v_scale", "v_div", "s_mul_v"]); x = hx(float(1 + sp % 7) * 0.5)
            st = f"s_mul_v {x} {me}" if f == "s_mul_v" else f"{f} {me} {x}"
        else:
            if N != 3: st = f"v_norm {me}"
            else: o_ = s.other_v(3) or s.lit(probe, 0, 3); st = f"{'law_cross' if s.kind not in ('wide', 'tiny') else 'v_cross'} {me} {o_}" if sp & 16 else f"v_cross {o_} {me}"
        s.steps.append("o " + st)
    def undefined(s):
        """closes the session with a call that is not defined on the objects as they are now"""
        rng = s.rng
        if s.ms and (not s.vs or rng.random() < 0.7):
            k = rng.randrange(len(s.ms)); R, C = s.ms[k]; me = f"@{k}"
            bad = mtab(rmat(rng, *rng.choice([(R + 1, C), (R, C + 1), (C, R) if R != C else (R + 1, C + 1)]), "int"))
            s.steps.append(rng.choice([f"m {k} {rng.choice(['pa', 'ma', 'pl', 'mi'])} {bad}", f"m {k} dr {R}", f"m {k} dc {C + rng.randint(0, 2)}",
                                       f"m {k} st {R} 0 {s.num()}", f"o return_column {me} {C}", f"o return_row {me} {R}", f"o sub_matrix {me} {R} 0",
                                       f"o sub_matrix {me} 0 {C}", f"o m_atc {me} {R} 0", f"o {rng.choice(['m_plus', 'm_op_minus'])} {me} {bad}",
                                       f"o {rng.choice(['m_prod', 'm_op_mul'])} {me} {mtab(rmat(rng, C + 1, 2, 'int'))}",
                                       f"o m_prod_v {me} {flist(rvec(rng, C + 1, 'int'))}", f"o v_mul_m {flist(rvec(rng, R + 1, 'int'))} {me}",
                                       f"o blockm 1 2 {me} {bad}" if bad.split()[0] != str(R) else f"o blockm 2 1 {me} 1 {bad}",
                                       f"o trace {me}" if R != C else f"m {k} dr {R + 1}"]))
        else:
            k = rng.randrange(len(s.vs)); N = s.vs[k]; me = f"@{k}"; bad = flist(rvec(rng, N + rng.choice([1, 2]), "int"))
            s.steps.append(rng.choice([f"v {k} {rng.choice(['pa', 'ma', 'pl', 'mi'])} {bad}", f"v {k} st {N} {s.num()}", f"o v_atc {me} {N}", f"o v_at {me} {N + 1}",
                                       f"o {rng.choice(['v_dot', 'v_add', 'v_sub', 'v_op_mul'])} {me} {bad}",
                                       f"o v_cross {me} {flist(rvec(rng, 3, 'int'))}" if N != 3 else f"o v_cross {me} {flist(rvec(rng, 4, 'int'))}"]))


def life_cases(rng, big, add):
    def HK(): return rng.choice(["int", "int", "int", "mixed", "mixed", "dyadic", "dyadic", "wide", "wide", "tiny"])
    # (1) one matrix: the same questions before and after every call (calls that keep the shape twice as often), longer lives too
    for it in range(3000 if big else 170):
        s = Session(rng, HK()); m, n = rng.randint(1, 6), rng.randint(1, 6); k = s.mat(rmat(rng, m, n, s.kind))
        if rng.random() < 0.4: s.vec(rvec(rng, rng.choice([m, n]), s.kind))
        probes = [s.new_probe(M_PROBES) for _ in range(rng.choice([1, 2, 2, 3]))]
        if it % 3 == 0: probes[0] = ("return_column",) + probes[0][1:]
        for p in probes: s.ask_m(k, p)
        for _ in range(rng.choice([1, 2, 2, 3, 5] if big else [1, 2, 2, 3])):
            s.mutate_m(k, inplace=rng.random() < 0.65)
            for p in probes: s.ask_m(k, p)
        if rng.random() < 0.12: s.undefined()
        add(s.line(), "life", "matrix", "probe-mutate-probe")
    # (2) twins: two (three) objects built from the same table, one of them changed (and possibly changed back), both asked
    for _ in range(1200 if big else 60):
        s = Session(rng, HK()); A = rmat(rng, rng.randint(1, 5), rng.randint(1, 5), s.kind)
        ks = [s.mat(A) for _ in range(rng.choice([2, 2, 3]))]
        probes = [s.new_probe(M_PROBES) for _ in range(2)] + [("m_eq", 0, 0, rng.randrange(1 << 16))]
        for k in ks: s.ask_m(k, probes[0])
        for _ in range(rng.randint(1, 3)):
            s.mutate_m(rng.choice(ks), inplace=rng.random() < 0.7)
            for k in ks:
                for p in probes: s.ask_m(k, p)
        if rng.random() < 0.1: s.undefined()
        add(s.line(), "life", "matrix", "twins")
    # (3) live objects as both operands: A (m x n), B (n x q), C (m x n), vectors of sizes n and m
    for _ in range(1200 if big else 60):
        s = Session(rng, HK()); m, n, q = rng.randint(1, 5), rng.randint(1, 5), rng.randint(1, 4)
        a = s.mat(rmat(rng, m, n, s.kind)); b = s.mat(rmat(rng, n, q, s.kind)); c = s.mat(rmat(rng, m, n, s.kind))
        x = s.vec(rvec(rng, n, s.kind)); y = s.vec(rvec(rng, m, s.kind))
        def questions():
            qs = []
            if s.ms[a][1] == s.ms[b][0]: qs += [f"{rng.choice(['m_prod', 'm_op_mul', 'law_trprod'])} @{a} @{b}"]
            if s.ms[a] == s.ms[c]: qs += [f"{rng.choice(['m_plus', 'm_op_minus', 'm_eq'])} @{a} @{c}", f"m_op_plus @{c} @{a}"]
            if s.vs[x] == s.ms[a][1]: qs += [f"{rng.choice(['m_prod_v', 'm_op_mul_v', 'law_matvec'])} @{a} @{x}"]
            if s.vs[y] == s.ms[a][0]: qs += [f"{rng.choice(['v_mul_m', 'law_vecmat'])} @{y} @{a}"]
            qs += [f"m_plus @{a} @{a}", f"m_eq @{a} @{a}", f"return_column @{a} {rng.randrange(s.ms[a][1])}", f"outer @{y} @{x}"]
            if s.ms[a][0] == s.ms[a][1]: qs += [f"m_prod @{a} @{a}"]
            for t in rng.sample(qs, min(len(qs), 3)): s.steps.append("o " + t)
        questions()
        for _ in range(rng.randint(1, 3)):
            r = rng.random()
            if r < 0.5: s.mutate_m(rng.choice([a, b, c]), inplace=rng.random() < 0.75)
            elif r < 0.8: s.mutate_v(rng.choice([x, y]), inplace=rng.random() < 0.75)
            else: s.steps.append(f"m {a} {rng.choice(['pa', 'ma'])} @{a}")
            questions()
        if rng.random() < 0.1: s.undefined()
        add(s.line(), "life", "operands")
    # (4) vectors
    for it in range(1500 if big else 80):
        s = Session(rng, HK()); n = rng.choice([1, 2, 3, 3, 3, 4, 5, 6])
        ks = [s.vec(rvec(rng, n, s.kind))]
        if rng.random() < 0.5: ks.append(s.vec(rvec(rng, n, s.kind)))
        probes = [s.new_probe(V_PROBES) for _ in range(rng.choice([1, 2, 3]))]
        for k in ks:
            for p in probes: s.ask_v(k, p)
        for _ in range(rng.choice([1, 2, 3])):
            s.mutate_v(rng.choice(ks), inplace=rng.random() < 0.65)
            for k in ks:
                for p in probes: s.ask_v(k, p)
        if rng.random() < 0.12: s.undefined()
        add(s.line(), "life", "vector")
    # (5) larger, then smaller (and back): the storage a Resize leaves behind must not be seen by anything
    for _ in range(800 if big else 40):
        s = Session(rng, HK()); m, n = rng.randint(1, 5), rng.randint(1, 5); k = s.mat(rmat(rng, m, n, s.kind))
        probes = [s.new_probe(M_PROBES) for _ in range(2)]
        for (p, q) in [(m + rng.randint(1, 3), n + rng.randint(1, 3)), (max(1, m - 1), max(1, n - 1)), (m, n), (m + 1, max(1, n - 1))][:rng.randint(2, 4)]:
            s.steps.append(f"m {k} rs {p} {q}"); s.ms[k] = (p, q)
            for pr in probes: s.ask_m(k, pr)
            if rng.random() < 0.5: s.mutate_m(k, inplace=True); s.ask_m(k, probes[0])
        add(s.line(), "life", "matrix", "grow-shrink")




# ---- objects RETURNED by the library (grammar in the module docstring): every producer kind, alone and chained (a producer applied to
#      an object made earlier), then the questions / mutators of a session on the returned objects
M_PRODUCERS = ["iv", "sb", "tr", "ou", "id", "mp", "pr", "pl", "pn", "mi", "ms", "sm", "dv", "fl", "dg", "cp", "hs", "bk", "ro", "qq", "qr", "rn"]
V_PRODUCERS = ["rr", "rc", "mv", "vm", "cr", "nd", "sc", "sp", "vc"]
UNMODELLED = ("iv", "ro", "qq", "qr", "rn", "sp")


def made_cases(rng, big, add):
    def HK(): return rng.choice(["int", "int", "mixed", "mixed", "dyadic", "dyadic", "wide", "tiny"])
    def dom(n):      # strictly diagonally dominant: invertible, QR defined
        M = [[rng.uniform(-1, 1) for _ in range(n)] for _ in range(n)]
        for i in range(n): M[i][i] = rng.choice([-1, 1]) * (n + rng.uniform(0.5, 2))
        return M
    ALL = M_PRODUCERS + V_PRODUCERS
    for it in range(6000 if big else 420):
        s = Session(rng, HK()); K = s.kind; prods = []; inv = set()      # inv: made matrices known to be invertible
        def P(kind, toks, shp):
            prods.append(f"{kind} {len(toks.split())} {toks}")
            if isinstance(shp, tuple): s.ms.append(shp); return len(s.ms) - 1
            s.vs.append(shp); return len(s.vs) - 1
        def marg(m, n):
            """a matrix argument of the shape: an object made earlier, or a table"""
            return s.other(None, (m, n)) or mtab(rmat(rng, m, n, K))
        def varg(n): return s.other_v(n) or flist(rvec(rng, n, K))
        def produce(kind, src=None):
            """one producer; src = index of a made matrix it has to use (None: fresh arguments)"""
            if src is not None: m, n = s.ms[src]; A = f"@{src}"
            else: m, n = rng.randint(1, 6), rng.randint(1, 6); A = None
            sc = hx(float(rng.choice([2, 3, 0.5, -1, 1.5])))
            if kind == "iv":
                if A is None or src not in inv: m = rng.choice([1, 2, 2, 3, 3, 4, 5]); A = mtab(dom(m))
                k = P("iv", A, (m, m)); inv.add(k); return k
            if kind in ("qq", "qr"):
                q = rng.randint(2, 4); k = P(kind, mtab(dom(q)), (q, q)); inv.add(k) if kind == "qq" else None; return k
            if kind == "rn":
                A = A or mtab([[rng.choice([-1, 1]) * rng.uniform(0.1, 1000) for _ in range(n)] for _ in range(m)]); return P("rn", A, (m, n))
            if kind == "ro":
                d = rng.choice([2, 3]); return P("ro", f"{hx(rng.uniform(-3, 3))} {d} {flist([rng.uniform(0.2, 2) for _ in range(3)])}", (d, d))
            if kind == "sb":
                if A is None or m < 2 or n < 2: m, n = rng.randint(2, 6), rng.randint(2, 6); A = mtab(rmat(rng, m, n, K))
                return P("sb", f"{A} {rng.randrange(m)} {rng.randrange(n)}", (m - 1, n - 1))
            if kind == "tr": return P("tr", A or mtab(rmat(rng, m, n, K)), (n, m))
            if kind == "cp": return P("cp", A or mtab(rmat(rng, m, n, K)), (m, n))
            if kind == "ou": return P("ou", f"{varg(m)} {varg(n)}", (m, n))
            if kind == "id": k = rng.randint(1, 6); return P("id", str(k), (k, k))
            if kind in ("mp", "pr"):
                q = rng.randint(1, 5)
                if A is not None and rng.random() < 0.5: return P(kind, f"{marg(q, m)} {A}", (q, n))
                return P(kind, f"{A or mtab(rmat(rng, m, n, K))} {marg(n, q)}", (m, q))
            if kind in ("pl", "pn", "mi"):
                B = marg(m, n); A = A or mtab(rmat(rng, m, n, K)); return P(kind, f"{A} {B}" if rng.random() < 0.6 else f"{B} {A}", (m, n))
            if kind in ("ms", "dv"): return P(kind, f"{A or mtab(rmat(rng, m, n, K))} {sc}", (m, n))
            if kind == "sm": return P("sm", f"{sc} {A or mtab(rmat(rng, m, n, K))}", (m, n))
            if kind == "fl": return P("fl", f"{m} {n} {s.num()}", (m, n))
            if kind == "dg": return P("dg", flist(rvec(rng, m, K)), (m, m))
            if kind == "hs":
                return P("hs", hist_mat(rng, rng.randint(1, 6), rng.randint(1, 6), K if K != "dyadic" else "int", final=(m, n))[0], (m, n))
            if kind == "bk":
                p, q = rng.randint(1, 3), rng.randint(1, 3); A = A or mtab(rmat(rng, m, n, K))
                lay = rng.randrange(4)
                if lay == 0: return P("bk", f"1 1 {A}", (m, n))
                if lay == 1: return P("bk", f"1 2 {A} {marg(m, q)}", (m, n + q))
                if lay == 2: return P("bk", f"2 1 {marg(p, n)} 1 {A}", (m + p, n))
                return P("bk", f"2 2 {A} {marg(m, q)} 2 {marg(p, n)} {marg(p, q)}", (m + p, n + q))
            # vectors
            A = A or mtab(rmat(rng, m, n, K))
            if kind == "rr": return P("rr", f"{A} {rng.randrange(m)}", n)
            if kind == "rc": return P("rc", f"{A} {rng.randrange(n)}", m)
            if kind == "mv": return P("mv", f"{A} {varg(n)}", m)
            if kind == "vm": return P("vm", f"{varg(m)} {A}", n)
            if kind == "cr": return P("cr", f"{varg(3)} {varg(3)}", 3)
            if kind == "nd": q = rng.randint(1, 6); return P("nd", flist([x if x != 0 and abs(x) < 1e6 else 1.0 for x in rvec(rng, q, "int")]), q)
            if kind == "sc": q = rng.randint(1, 6); return P("sc", f"{varg(q)} {sc}", q)
            if kind == "sp": return P("sp", f"{hx(rng.uniform(0.1, 5))} {hx(rng.uniform(0.1, 3))} {hx(rng.uniform(0, 6))}", 3)
            q = rng.randint(1, 6); return P("vc", varg(q), q)
        first = ALL[it % len(ALL)]
        produce(first)
        nm0 = len(s.ms)
        # chains: members applied to the returned object give objects again (minor of an inverse, row of a minor, product with itself ..)
        for _ in range(rng.choice([0, 0, 1, 1, 2])):
            if s.ms:
                src = rng.randrange(len(s.ms))
                produce(rng.choice(["sb", "tr", "cp", "rr", "rc", "rr", "mv", "vm", "mp", "pl", "ms", "bk", "iv", "rn"]), src)
            else: produce(rng.choice(M_PRODUCERS))
        # the questions: on every returned object, before and after calls that change it
        for k in range(len(s.ms)):
            probes = [s.new_probe(M_PROBES) for _ in range(rng.choice([2, 3, 4]))]
            probes[0] = (rng.choice(["return_row", "sub_matrix", "return_row", "vecmat", "matvec"]),) + probes[0][1:]
            if s.ms[k][0] < 2 or s.ms[k][1] < 2: probes = [p for p in probes if p[0] != "sub_matrix"] or [s.new_probe(["return_row"])]
            for p in probes: s.ask_m(k, p)
            if rng.random() < 0.4:
                if rng.random() < 0.5:
                    R, C = s.ms[k]; g = (R + rng.randint(0, 2), C + rng.randint(1, 2)); s.steps.append(f"m {k} rs {g[0]} {g[1]}"); s.ms[k] = g
                else: s.mutate_m(k, inplace=rng.random() < 0.7)
                probes = [p for p in probes if p[0] != "sub_matrix" or (s.ms[k][0] >= 2 and s.ms[k][1] >= 2)] or [s.new_probe(["return_row"])]
                for p in probes[:2]: s.ask_m(k, p)
                s.steps.append(f"o m_show @{k}")
        for k in range(len(s.vs)):
            for _ in range(rng.choice([1, 2, 3])): s.ask_v(k, s.new_probe(V_PROBES))
            # the returned vector as an operand next to returned matrices
            c = [j for j, (R, C) in enumerate(s.ms) if R == s.vs[k]]
            if c: s.steps.append(f"o {rng.choice(['v_mul_m', 'law_vecmat'])} @{k} @{rng.choice(c)}")
            c = [j for j, (R, C) in enumerate(s.ms) if C == s.vs[k]]
            if c: s.steps.append(f"o {rng.choice(['m_prod_v', 'm_op_mul_v', 'law_matvec'])} @{rng.choice(c)} @{k}")
            if rng.random() < 0.3:
                s.mutate_v(k, inplace=rng.random() < 0.7); s.ask_v(k, s.new_probe(V_PROBES)); s.steps.append(f"o v_show @{k}")
        line = (f"made {len(prods)} " + " ".join(prods) + f" {len(s.steps)} " + " ".join(s.steps)).replace("  ", " ")
        add(line, "made", "unmodelled-producer" if any(p.split()[0] in UNMODELLED for p in prods) else "modelled-producer", first)


# ---- the ambient floating-point state (grammar in the module docstring): calls of other facilities of the library, each with
#      arguments on which it is defined and terminates normally, and requests whose answers depend on the control state: results
#      and operands in the subnormal range (flush-to-zero, denormals-are-zero) and inexact results (rounding direction)
FEXPRS = ["exp neg * x x", "+ c 0x1p+0 * x x", "sin x", "/ c 0x1p+0 + c 0x1p+0 * x x", "* x exp neg x"]


def foreign(rng, name=None):
    """one call `name L tok_1 .. tok_L`"""
    name = name or rng.choice(FOREIGN)
    def spd(n):      # symmetric, eigenvalues near 1, 2, 4, 8 times a scale: the QR iteration converges, the matrix is invertible
        sc = rng.choice([1.0, 0.5, 3.0, 10.0]); d = [sc * 2.0 ** k * rng.uniform(0.95, 1.05) for k in range(n)]; rng.shuffle(d)
        M = [[0.0] * n for _ in range(n)]
        for i in range(n):
            M[i][i] = d[i]
            for j in range(i + 1, n): M[i][j] = M[j][i] = sc * rng.uniform(-0.05, 0.05)
        return M
    def dom(n):      # strictly diagonally dominant: invertible
        M = [[rng.uniform(-1, 1) for _ in range(n)] for _ in range(n)]
        for i in range(n): M[i][i] = rng.choice([-1, 1]) * (n + rng.uniform(0.5, 2))
        return M
    if name in ("eigenvalues", "eigensystem", "eigenvectors"):
        t = mtab([[2.0, -1.0, 0.0], [-1.0, 2.0, -1.0], [0.0, -1.0, 2.0]] if rng.random() < 0.2 else spd(rng.randint(2, 4)))
    elif name in ("qr", "determinant", "inverse", "invertible"): t = mtab(dom(rng.randint(1 if name != "qr" else 2, 4)))
    elif name == "rotation": t = f"{hx(rng.uniform(-3, 3))} {rng.choice([2, 3])}"
    elif name == "angle": n = rng.randint(2, 4); t = f"{flist([rng.uniform(0.1, 2) for _ in range(n)])} {flist([rng.uniform(-2, -0.1) for _ in range(n)])}"
    elif name == "spherical": t = f"{hx(rng.uniform(0.1, 5))} {hx(rng.uniform(0.1, 3))} {hx(rng.uniform(0, 6))}"
    elif name == "round": q = rng.randint(1, 3); t = mtab([[rng.choice([-1, 1]) * rng.uniform(0.1, 1000) for _ in range(q)] for _ in range(rng.randint(1, 3))])
    elif name == "integrate": t = f"{rng.choice(FEXPRS)} {hx(0.0)} {hx(rng.choice([1.0, 2.0, 0.5]))} {hx(1e-6)}"
    elif name == "gauss_legendre": t = f"{rng.choice(FEXPRS)} {hx(0.0)} {hx(rng.choice([1.0, 2.0, 0.5]))} {rng.choice([5, 30])}"
    elif name == "find_root": t = f"- * x x c {hx(rng.choice([0.5, 2.0, 3.0]))} {hx(0.0)} {hx(3.0)} {hx(1e-8)}"
    elif name == "find_minimum": c0 = hx(rng.choice([0.7, 1.0, 1.3])); t = f"* - x c {c0} - x c {c0} {hx(0.0)} {hx(2.0)}"
    elif name == "interpolation":
        n = rng.randint(4, 7); xs = [float(k) + rng.uniform(0, 0.5) for k in range(n)]
        t = f"{flist(xs)} {flist([rng.uniform(-2, 2) for _ in range(n)])} {hx(rng.uniform(xs[0], xs[-1]))}"
    elif name == "special": t = hx(rng.uniform(0.5, 5))
    elif name == "statistics": t = f"{hx(rng.uniform(-2, 2))} {hx(rng.uniform(-1, 1))} {hx(rng.uniform(0.5, 2))} {flist([rng.uniform(-3, 3) for _ in range(rng.randint(3, 7))])}"
    else: name = "sample"; t = f"{rng.randint(1, 10 ** 6)} {rng.randint(1, 20)}"
    return f"{name} {len(t.split())} {t}"


FOREIGN = ["eigenvalues", "eigensystem", "eigenvectors", "qr", "determinant", "inverse", "invertible", "rotation", "angle", "spherical",
           "round", "integrate", "gauss_legendre", "find_root", "find_minimum", "interpolation", "special", "statistics", "sample"]


def pow2s(rng, lo, hi):
    """+-(1, 1.5 or a random mantissa) * 2^e with e in lo..hi (0 below the smallest positive double)"""
    return rng.choice([-1, 1]) * math.ldexp(rng.choice([1.0, 1.0, 1.5, 1.75, rng.uniform(1, 2)]), rng.randint(lo, hi))


def underflow_request(rng):
    """a request of the grammar some of whose results are subnormal (or whose operands are) - the ladder of result exponents runs from
    well inside the normal range (2^-1000) through 2^-1022 and the subnormals down to below 2^-1074 - with ordinary entries mixed in"""
    top = rng.choice([-1000, -1015, -1022, -1030, -1050, -1070]); m, n, q = rng.randint(1, 4), rng.randint(1, 4), rng.randint(1, 4)
    ea = rng.randint(-900, -100); eb = top - ea          # a_ik * b_kj around 2^top
    def fa(): return pow2s(rng, ea - 8, ea) if rng.random() < 0.85 else entry(rng, "int")
    def fb(): return pow2s(rng, eb - 8, eb) if rng.random() < 0.85 else entry(rng, "int")
    A = [[fa() for _ in range(n)] for _ in range(m)]; B = [[fb() for _ in range(q)] for _ in range(n)]
    u = [fa() for _ in range(n)]; v = [fb() for _ in range(n)]; w = [fb() for _ in range(m)]
    def tiny(r_, c_): return rmat(rng, r_, c_, "tiny")
    r = rng.random()
    if r < 0.16: return f"{rng.choice(['m_prod', 'm_op_mul', 'law_trprod'])} {mtab(A)} {mtab(B)}"
    if r < 0.26: return f"law_mulid {mtab(rng.choice([tiny(m, n), [[pow2s(rng, -1074, -1020) for _ in range(n)] for _ in range(m)]]))}"
    if r < 0.34: return f"{rng.choice(['m_prod_v', 'm_op_mul_v', 'law_matvec'])} {mtab(A)} {flist(v)}"
    if r < 0.40: return f"{rng.choice(['v_mul_m', 'law_vecmat'])} {flist(w)} {mtab(A)}"
    if r < 0.44: return f"law_vecmat_tr {flist(w)} {mtab(A)} {flist(v)}"
    if r < 0.52: return f"{rng.choice(['v_dot', 'v_op_mul', 'law_dotouter', 'outer'])} {flist(u)} {flist(v)}"
    if r < 0.56: return f"v_cross {flist([fa() for _ in range(3)])} {flist([fb() for _ in range(3)])}"
    if r < 0.70:
        s_ = pow2s(rng, eb - 4, eb); op = rng.choice(["m_prod_s", "m_op_mul_s", "s_mul_m", "v_scale", "s_mul_v", "m_div", "m_op_div", "v_div"])
        if op in ("m_div", "m_op_div", "v_div"): s_ = pow2s(rng, -eb, -eb + 4)
        if op == "s_mul_m": return f"s_mul_m {hx(s_)} {mtab(A)}"
        if op == "s_mul_v": return f"s_mul_v {hx(s_)} {flist(u)}"
        if op in ("v_scale", "v_div"): return f"{op} {flist(u)} {hx(s_)}"
        return f"{op} {mtab(A)} {hx(s_)}"
    if r < 0.80:     # sums and differences of neighbours of the smallest normal double: subnormal results
        op = rng.choice(SUM_OPS + VSUM_OPS + ["law_trsum"])
        if op in VSUM_OPS: return f"{op} {flist(rvec(rng, n, 'tiny'))} {flist(rvec(rng, n, 'tiny'))}"
        return f"{op} {mtab(tiny(m, n))} {mtab(tiny(m, n))}"
    if r < 0.88:     # norms and traces whose squares / partial sums are subnormal
        sq = [[pow2s(rng, top // 2 - 6, top // 2 + 1) for _ in range(n)] for _ in range(m)]
        op = rng.choice(["m_norm", "v_norm", "v_normalized", "trace"])
        if op == "trace": return f"trace {mtab(tiny(n, n))}"
        return f"m_norm {mtab(sq)}" if op == "m_norm" else f"{op} {flist(sq[0])}"
    # comparisons of subnormal entries (with each other, with zero)
    k = rng.randint(2, 4); S = [[0.0] * k for _ in range(k)]; kind = rng.choice(["sym", "anti", "diag"])
    for i in range(k):
        for j in range(i, k):
            x = entry(rng, rng.choice(["tiny", "int"]))
            if kind == "sym": S[i][j] = S[j][i] = x
            elif kind == "anti" and i != j: S[i][j] = x; S[j][i] = -x
            elif kind == "diag" and i == j: S[i][j] = x
    i, j = rng.sample(range(k), 2)
    if rng.random() < 0.75: S[i][j] = S[i][j] + rng.choice([-1, 1]) * DEN_MIN * rng.choice([1, 2, 3, 1000, 2 ** 30, 2 ** 51])
    op = rng.choice(["symmetric", "antisymmetric", "diagonal", "m_eq", "v_eq"])
    if op == "m_eq": return f"m_eq {mtab(S)} {mtab(T(S))}"
    if op == "v_eq": return f"v_eq {flist(S[i])} {flist([row[i] for row in S])}"
    return f"{op} {mtab(S)}"


def cache_cases(rng, big, add):
    """observer; mutator; observer on ONE live object and on copies taken in between (state cached inside an object by a const
    observer and invalidated incompletely by a mutator).  The sessions touch the objects through the const interface only between
    the steps (v_norm / v_show / v_atc / v_dot / v_print, m_norm / trace / m_show / m_atc / ...: the harness prints through
    const references; v_at / m_at, which go through the non-const operator[], are not used here).  Every mutator: Resize
    shrinking by 1, 2, 3.. entries and growing, Assign, compound assignments, Normalize, element writes, scalings, transposition,
    row / column deletion; entries with exact zeros (+0.0 / -0.0) followed by non-zeros, so that what a shrinking Resize cuts off
    begins with a zero and goes on with a non-zero.  Every answer is judged against a fresh object of equal value (life_predicates)."""
    kinds = ["int", "int", "dyadic", "mixed", "mixed", "wide"]
    def nz(k):
        x = entry(rng, k)
        return x if x not in (0.0, None) and not math.isinf(x) and not math.isnan(x) else 3.0
    def ze(k): return rng.choice([0.0, 0.0, -0.0]) if rng.random() < 0.45 else nz(k)
    for _ in range(3000 if big else 170):
        k = rng.choice(kinds); N = rng.randint(3, 8)
        v = [nz(k)] + [ze(k) for _ in range(N - 1)]
        d0 = None
        if rng.random() < 0.6:                        # what a Resize to d0 cuts off: a zero first, a non-zero later
            d0 = rng.randint(1, N - 2); v[d0] = rng.choice([0.0, -0.0]); v[rng.randint(d0 + 1, N - 1)] = nz(k)
        w = [nz(k)] + [ze(k) for _ in range(rng.randint(1, 6))]
        size = [N, len(w)]; steps = []
        def obs(j, first=False):
            f = "v_norm" if first or rng.random() < 0.5 else rng.choice(["v_normalized", "v_show", "v_dot", "v_print", "v_atc", "v_norm"])
            if f == "v_dot": steps.append(f"o v_dot @{j} @{j}")
            elif f == "v_atc": steps.append(f"o v_atc @{j} {rng.randrange(size[j])}")
            else: steps.append(f"o {f} @{j}")
        for rnd in range(rng.choice([1, 1, 2, 3])):
            obs(0, True)
            if rng.random() < 0.4: steps.append("v 1 af @0"); size[1] = size[0]; obs(1) if rng.random() < 0.5 else None
            n = size[0]; r = rng.random()
            if rnd == 0 and d0 is not None and r < 0.75: steps.append(f"v 0 rs {d0}"); size[0] = d0
            elif r < 0.45:
                d = max(1, n + rng.choice([-1, -2, -2, -3, -3, -4, -5, 1, 2, 3])); steps.append(f"v 0 rs {d}"); size[0] = d
            elif r < 0.52: d = rng.randint(1, 8); steps.append(f"v 0 as {d} {hx(ze(k))}"); size[0] = d
            elif r < 0.66: steps.append(f"v 0 {rng.choice(['pa', 'ma'])} {flist([ze(k) for _ in range(n)])}")
            elif r < 0.72: steps.append("v 0 sa")
            elif r < 0.80: steps.append("v 0 nz")
            elif r < 0.90: steps.append(f"v 0 st {rng.randrange(n)} {hx(ze(k))}")
            elif r < 0.95: steps.append(f"v 0 {rng.choice(['ms', 'sm', 'dv'])} {hx(nz('dyadic'))}")
            else: steps.append("v 0 cp")
            if rng.random() < 0.3: steps.append("v 1 af @0"); size[1] = size[0]
            obs(0, True); obs(1, rng.random() < 0.7)
            if rng.random() < 0.3: obs(0)
        add(f"life 0 2 {flist(v)} {flist(w)} {len(steps)} " + " ".join(steps), "life", "observer-cache", "vector")
    for _ in range(2000 if big else 110):
        k = rng.choice(kinds); R, C = rng.randint(2, 6), rng.randint(2, 6)
        A = [[ze(k) for _ in range(C)] for _ in range(R)]; A[0][0] = nz(k)
        B = [[ze(k) for _ in range(rng.randint(1, 4))] for _ in range(1)]
        shp = [[R, C], [1, len(B[0])]]; steps = []
        def mobs(j):
            r_, c_ = shp[j]
            f = rng.choice(["m_norm", "m_norm", "trace", "trace", "m_show", "symmetric", "diagonal", "m_atc", "m_print", "transpose", "square"])
            if f == "trace" and r_ != c_: f = "m_norm"
            if f == "m_atc": steps.append(f"o m_atc @{j} {rng.randrange(r_)} {rng.randrange(c_)}")
            else: steps.append(f"o {f} @{j}")
        for rnd in range(rng.choice([1, 1, 2, 3])):
            mobs(0); mobs(0)
            if rng.random() < 0.4: steps.append("m 1 af @0"); shp[1] = list(shp[0])
            r_, c_ = shp[0]; r = rng.random()
            if r < 0.40:
                nr = max(1, r_ + rng.choice([0, -1, -2, -3, 1, 2])); nc = max(1, c_ + rng.choice([0, -1, -2, -3, 1, 2]))
                if rng.random() < 0.3: nr = nc = min(nr, nc)
                steps.append(f"m 0 rs {nr} {nc}"); shp[0] = [nr, nc]
            elif r < 0.47: nr, nc = rng.randint(1, 6), rng.randint(1, 6); steps.append(f"m 0 as {nr} {nc} {hx(ze(k))}"); shp[0] = [nr, nc]
            elif r < 0.55 and r_ > 1: steps.append(f"m 0 dr {rng.randrange(r_)}"); shp[0] = [r_ - 1, c_]
            elif r < 0.63 and c_ > 1: steps.append(f"m 0 dc {rng.randrange(c_)}"); shp[0] = [r_, c_ - 1]
            elif r < 0.75: steps.append(f"m 0 st {rng.randrange(r_)} {rng.randrange(c_)} {hx(ze(k))}")
            elif r < 0.85: steps.append(f"m 0 {rng.choice(['pa', 'ma'])} {mtab([[ze(k) for _ in range(c_)] for _ in range(r_)])}")
            elif r < 0.89: steps.append("m 0 sa")
            elif r < 0.94: steps.append("m 0 tr"); shp[0] = [c_, r_]
            else: steps.append(f"m 0 {rng.choice(['ms', 'dv'])} {hx(nz('dyadic'))}")
            mobs(0); mobs(0); mobs(1)
        add(f"life 2 {mtab(A)} {mtab(B)} 0 {len(steps)} " + " ".join(steps), "life", "observer-cache", "matrix")


def amb_cases(rng, big, add, pool):
    def calls():
        k = rng.choice([1, 1, 1, 2, 3]); return f"amb {k} " + " ".join(foreign(rng) for _ in range(k))
    # (1) every facility once in front of requests aimed at the underflow range, then random facilities
    for it in range(6000 if big else 420):
        pre = f"amb 1 {foreign(rng, FOREIGN[it % len(FOREIGN)])}" if it < 4 * len(FOREIGN) else calls()
        add(f"{pre} {underflow_request(rng)}", "ambient", "underflow")
    # (2) any request of the grammar (fresh operands, call histories, sessions) after calls of other facilities
    for it in range(4000 if big else 260):
        c = rng.choice(pool)
        pre = f"amb 1 {foreign(rng, FOREIGN[it % len(FOREIGN)])}" if it < 2 * len(FOREIGN) else calls()
        add(f"{pre} {c.line}", "ambient", *c.tags)
    # (3) no call at all: the pristine answer twice
    for _ in range(200 if big else 20): add(f"amb 0 {underflow_request(rng)}", "ambient", "no-call")


def generate(rng, tier):
    cs = []
    big = tier != "quick"
    L = 5 if big else 4
    kinds = ["mixed", "mixed", "int", "unit", "scaled"]
    def K(): return rng.choice(kinds)
    # operations whose reference is exact (one rounding per entry or none) also get the whole double range
    xkinds = ["mixed", "int", "scaled", "wide", "wide", "tiny", "tiny", "huge"]
    def KX(): return rng.choice(xkinds)

    def add(line, *tags): cs.append(Case(line, tags))

    # ---- sums: every shape pair up to L (all spellings), random shapes up to 8
    shapes = [(m, n) for m in range(1, L + 1) for n in range(1, L + 1)]
    for (m, n) in shapes:
        for (p, q) in shapes:
            if (m, n) != (p, q) and not big and rng.random() < 0.55 and (p, q) != (n, m) and not (p == m or q == n): continue
            reps = (2 if big else 1) if (m, n) == (p, q) else 1
            for _ in range(reps):
                for op in SUM_OPS:
                    if (m, n) != (p, q) and not big and rng.random() < 0.5 and op not in ("m_plus", "m_add_assign"): continue
                    k = K(); add(f"{op} {mtab(rmat(rng, m, n, k))} {mtab(rmat(rng, p, q, k))}", "sum", "conformable" if (m, n) == (p, q) else "nonconformable")
    for _ in range(3000 if big else 150):
        m, n = rng.randint(1, 8), rng.randint(1, 8)
        r = rng.random()
        if r < 0.6: p, q = m, n
        elif r < 0.75: p, q = n, m
        elif r < 0.85: p, q = m + rng.choice([-1, 1]), n
        else: p, q = rng.randint(1, 8), rng.randint(1, 8)
        p = max(p, 1)
        k = K(); add(f"{rng.choice(SUM_OPS)} {mtab(rmat(rng, m, n, k))} {mtab(rmat(rng, p, q, k))}", "sum", "random-shape")
    # ---- products: every shape triple up to L, both spellings, and the product laws
    for m in range(1, L + 1):
        for n in range(1, L + 1):
            for k_ in range(1, L + 1):
                A = rmat(rng, m, n, K()); B = rmat(rng, n, k_, K())
                add(f"{rng.choice(['m_prod', 'm_op_mul'])} {mtab(A)} {mtab(B)}", "product", "triple")
                A = rmat(rng, m, n, K()); B = rmat(rng, n, k_, K())
                add(f"law_trprod {mtab(A)} {mtab(B)}", "law", "transpose-product")
                if big:
                    A = rmat(rng, m, n, K()); B = rmat(rng, n, k_, K())
                    add(f"m_prod {mtab(A)} {mtab(B)}", "product", "triple"); add(f"m_op_mul {mtab(A)} {mtab(B)}", "product", "triple")
    for (m, n) in shapes:
        for (p, q) in shapes:
            if n != p and (big or rng.random() < 0.35):
                add(f"{rng.choice(['m_prod', 'm_op_mul'])} {mtab(rmat(rng, m, n, 'int'))} {mtab(rmat(rng, p, q, 'int'))}", "product", "nonconformable")
    for _ in range(4000 if big else 200):
        m, n, k_ = rng.randint(1, 8), rng.randint(1, 8), rng.randint(1, 8)
        A = rmat(rng, m, n, K()); B = rmat(rng, n, k_, K())
        add(f"{rng.choice(['m_prod', 'm_op_mul', 'law_trprod', 'law_trprod'])} {mtab(A)} {mtab(B)}", "product", "random-shape")
    # ---- identity / transpose laws, scalar spellings, predicates, on every shape
    allshapes = shapes + [(rng.randint(1, 8), rng.randint(1, 8)) for _ in range(400 if big else 40)]
    for (m, n) in allshapes:
        A = rmat(rng, m, n, K())
        add(f"law_mulid {mtab(A)}", "law", "mul-identity")
        add(f"law_trtr {mtab(rmat(rng, m, n, K()))}", "law", "transpose-involutive")
        add(f"transpose {mtab(rmat(rng, m, n, K()))}", "transpose")
        s = entry(rng, "mixed") or 3.0
        for op in ("m_prod_s", "m_op_mul_s", "m_div", "m_op_div"):
            if big or rng.random() < 0.5: add(f"{op} {mtab(rmat(rng, m, n, K()))} {hx(s)}", "scalar")
        if big or rng.random() < 0.5: add(f"s_mul_m {hx(s)} {mtab(rmat(rng, m, n, K()))}", "scalar")
        add(f"m_norm {mtab(rmat(rng, m, n, K()))}", "norm")
        add(f"trace {mtab(rmat(rng, m, n, K()))}", "trace")
        add(f"square {mtab(rmat(rng, m, n, 'int'))}", "predicate")
        # mat-vec, vec-mat
        A = rmat(rng, m, n, K())
        add(f"law_matvec {mtab(A)} {flist(rvec(rng, n, K()))}", "law", "mat-vec")
        add(f"law_vecmat {flist(rvec(rng, m, K()))} {mtab(A)}", "law", "vec-mat")
        add(f"law_vecmat_tr {flist(rvec(rng, m, K()))} {mtab(A)} {flist(rvec(rng, n, K()))}", "law", "vec-mat-transpose")
        kk = K(); add(f"law_trsum {mtab(rmat(rng, m, n, kk))} {mtab(rmat(rng, m, n, kk))}", "law", "transpose-sum")
        if rng.random() < 0.3:
            add(f"law_trsum {mtab(rmat(rng, m, n, 'int'))} {mtab(rmat(rng, n, m, 'int') if m != n else rmat(rng, m, n + 1, 'int'))}", "law", "transpose-sum", "nonconformable")
            add(f"law_vecmat_tr {flist(rvec(rng, n if m != n else m + 1, 'int'))} {mtab(A)} {flist(rvec(rng, n, 'int'))}", "law", "vec-mat-transpose", "nonconformable")
        add(f"{rng.choice(['m_prod_v', 'm_op_mul_v'])} {mtab(A)} {flist(rvec(rng, n, K()))}", "mat-vec")
        add(f"v_mul_m {flist(rvec(rng, m, K()))} {mtab(A)}", "vec-mat")
        bad = rng.choice([n - 1, n + 1, m if m != n else n + 2]); bad = max(bad, 1) if bad != n else n + 1
        add(f"{rng.choice(['m_prod_v', 'm_op_mul_v'])} {mtab(A)} {flist(rvec(rng, bad, 'int'))}", "mat-vec", "nonconformable")
        bad = rng.choice([m - 1, m + 1, n if m != n else m + 2]); bad = max(bad, 1) if bad != m else m + 1
        add(f"v_mul_m {flist(rvec(rng, bad, 'int'))} {mtab(A)}", "vec-mat", "nonconformable")
        # sub-matrix / rows / columns: indices on both sides of every guard
        A = rmat(rng, m, n, "int")
        for i in sorted(set([-1, 0, m - 1, m, rng.randint(0, m - 1)])):
            for j in sorted(set([-1, 0, n - 1, n, rng.randint(0, n - 1)])):
                if big or rng.random() < 0.3: add(f"sub_matrix {mtab(A)} {i} {j}", "sub_matrix")
        for i in sorted(set([0, m - 1, m, m + 1])):
            add(f"return_row {mtab(A)} {i}", "return_row"); add(f"delete_row {mtab(A)} {i}", "delete")
            add(f"m_at {mtab(A)} {i} {rng.randint(0, n - 1)}", "m_at")
        for j in sorted(set([0, n - 1, n, n + 1])):
            add(f"return_column {mtab(A)} {j}", "return_column"); add(f"delete_column {mtab(A)} {j}", "delete")
        # symmetric / antisymmetric / diagonal / m_eq on non-square operands too
        for op in ("symmetric", "antisymmetric", "diagonal"):
            add(f"{op} {mtab(rmat(rng, m, n, 'int'))}", "predicate")
        B = [list(r) for r in A]
        if rng.random() < 0.5: B[rng.randrange(m)][rng.randrange(n)] += 1.0
        add(f"m_eq {mtab(A)} {mtab(B)}", "predicate")
        add(f"m_eq {mtab(A)} {mtab(rmat(rng, n, m, 'int'))}", "predicate")
    # ---- symmetric / antisymmetric / diagonal: exact instances and single-entry near misses
    for _ in range(1500 if big else 150):
        n = rng.randint(1, 6)
        S = [[0.0] * n for _ in range(n)]
        kind = rng.choice(["sym", "anti", "diag", "zero"])
        for i in range(n):
            for j in range(i, n):
                x = entry(rng, rng.choice(["int", "mixed"]))
                if kind == "sym": S[i][j] = S[j][i] = x
                elif kind == "anti": S[i][j] = x if i != j else 0.0; S[j][i] = -x if i != j else 0.0
                elif kind == "diag": S[i][j] = x if i == j else 0.0
        r = rng.random()
        if r < 0.55:
            i, j = rng.randrange(n), rng.randrange(n)
            where = rng.random()
            if where < 0.3: j = i                      # on the diagonal
            elif where < 0.65 and i < j: i, j = j, i    # strictly below the diagonal
            S[i][j] += rng.choice([1.0, -1.0, 0.5])
        for op in ("symmetric", "antisymmetric", "diagonal"):
            add(f"{op} {mtab(S)}", "predicate", kind)
    add("antisymmetric 2 2 0x1p+0 0x0p+0 2 0x0p+0 0x1p+0", "predicate", "anti-diagonal-entry")
    add("antisymmetric 2 2 0x1p+0 0x1p+1 2 -0x1p+1 0x0p+0", "predicate", "anti-diagonal-entry")
    add("antisymmetric 1 1 0x1p+0", "predicate", "anti-diagonal-entry")
    add("antisymmetric 1 1 0x0p+0", "predicate", "anti-diagonal-entry")
    add("symmetric 2 2 0x1p+0 0x1p+1 2 0x1.8p+1 0x0p+0", "predicate")
    # ---- vectors: every spelling, both sides of the dimension guards
    for _ in range(2500 if big else 250):
        n = rng.randint(1, 8)
        r = rng.random()
        p = n if r < 0.7 else max(1, n + rng.choice([-1, 1, 2]))
        k = K(); u, v = rvec(rng, n, k), rvec(rng, p, k)
        op = rng.choice(VSUM_OPS + ["v_dot", "v_op_mul", "law_dotouter" if n == p else "v_dot", "outer", "v_eq"])
        if op == "v_eq" and n == p and rng.random() < 0.5: v = list(u)
        add(f"{op} {flist(u)} {flist(v)}", "vector", "conformable" if n == p else "nonconformable")
        s = entry(rng, "mixed") or 2.0
        op = rng.choice(["v_scale", "v_div", "s_mul_v", "v_norm"])
        if op == "s_mul_v": add(f"s_mul_v {hx(s)} {flist(u)}", "vector", "scalar")
        elif op == "v_norm": add(f"v_norm {flist(u)}", "vector", "norm")
        else: add(f"{op} {flist(u)} {hx(s)}", "vector", "scalar")
        if rng.random() < 0.4:
            w = rvec(rng, n, KX() if rng.random() < 0.3 else k)
            if rng.random() < 0.1: w = [0.0] * n
            add(f"{rng.choice(['v_normalized', 'v_normalize'])} {flist(w)}", "vector", "normalize")
    for n in range(1, 7):
        for p in range(1, 7):
            k = K(); u, v = rvec(rng, n, k), rvec(rng, p, k)
            add(f"outer {flist(u)} {flist(v)}", "vector", "outer")
            add(f"{'law_cross' if (n, p) == (3, 3) else 'v_cross'} {flist(u)} {flist(v)}", "vector", "cross")
            for op in VSUM_OPS + ["v_dot"]:
                if n != p: add(f"{op} {flist(rvec(rng, n, 'int'))} {flist(rvec(rng, p, 'int'))}", "vector", "nonconformable")
    for _ in range(1500 if big else 150):
        k = K(); add(f"law_cross {flist(rvec(rng, 3, k))} {flist(rvec(rng, 3, k))}", "vector", "cross")
        add(f"law_dotouter {flist(rvec(rng, 3, k))} {flist(rvec(rng, 3, k))}", "vector", "law")
    # ---- constructors
    for n in range(0, 9):
        add(f"identity {n}", "constructor")
        add(f"mat_diag {flist(rvec(rng, n))}", "constructor") if n else None
    for _ in range(400 if big else 40):
        m, n = rng.randint(1, 6), rng.randint(1, 6)
        A = rmat(rng, m, n, "int")
        if m > 1 and rng.random() < 0.5:
            i = rng.randrange(1, m); A[i] = A[i][:-1] if (n > 1 and rng.random() < 0.5) else A[i] + [1.0]
        add(f"mat_ctor {mtab(A)}", "constructor", "ragged-or-not")
        add(f"mat_fill {rng.randint(0, 5)} {rng.randint(0, 5)} {hx(entry(rng, 'mixed'))}", "constructor")
    # ---- block constructor
    def blk(r, c, kind="int"): return f"{r} {c}" + "".join(" " + hx(entry(rng, kind)) for _ in range(r * c))
    for _ in range(2500 if big else 300):
        GR, GC = rng.choice([1, 1, 2, 2, 2, 3]), rng.choice([1, 2, 2, 2, 3])
        br = [rng.randint(0 if rng.random() < 0.15 else 1, 3) for _ in range(GR)]
        bc = [rng.randint(0 if rng.random() < 0.15 else 1, 3) for _ in range(GC)]
        grid = [[[br[R], bc[C]] for C in range(GC)] for R in range(GR)]
        tag = "valid"
        r = rng.random()
        if r < 0.3 and GR * GC > 1:
            R, C = rng.randrange(GR), rng.randrange(GC)
            grid[R][C][rng.randrange(2)] += rng.choice([1, 1, 2]); tag = "maybe-invalid"
        elif r < 0.40 and GR > 1:
            # ragged grid: one grid row shorter or longer than row 0 (possibly empty)
            R = rng.randrange(0, GR)
            if rng.random() < 0.5: grid[R] = grid[R][:rng.randrange(0, len(grid[R]))]
            else: grid[R] = grid[R] + [[br[R], rng.randint(1, 2)]]
            tag = "ragged-grid"
        add(f"block {GR} " + " ".join(f"{len(row)} " + " ".join(blk(b[0], b[1], rng.choice(['int', 'mixed'])) for b in row) for row in grid), "block", tag)
    # blocks of different character side by side (BLOCK_KINDS): ordinary ones next to blocks that are tiny / huge as a whole, that hold
    # a single non-zero entry, that are all +0.0 / -0.0; every size of OPERAND_SCALES, i.e. also where squares of the entries underflow
    # or overflow
    def wblk(r, c, kind): return f"{r} {c}" + "".join(" " + hx(x) for row in whole_operand(rng, r, c, kind) for x in row)
    for it in range(4000 if big else 320):
        GR, GC = rng.choice([1, 1, 2, 2, 2, 3]), rng.choice([1, 2, 2, 2, 3])
        br = [rng.randint(0 if rng.random() < 0.08 else 1, 3) for _ in range(GR)]; bc = [rng.randint(0 if rng.random() < 0.08 else 1, 3) for _ in range(GC)]
        if it % 4 == 0: kinds_ = [rng.choice(["one-scale", "single", "tiny", "huge"])] * (GR * GC)      # the whole grid of one character
        else: kinds_ = [rng.choice(BLOCK_KINDS) for _ in range(GR * GC)]
        add(f"block {GR} " + " ".join(f"{GC} " + " ".join(wblk(br[R], bc[C], kinds_[R * GC + C]) for C in range(GC)) for R in range(GR)), "block", "valid", "block-magnitudes")
    add("block 0", "block", "empty-grid"); add("block 1 0", "block", "empty-grid"); add("block 2 0 0", "block", "empty-grid")
    add("mat_ctor 0", "constructor", "empty-table")
    # the shape QR_Decomposition builds: {{Identity(i), Zero(i, n-i)}, {Zero(n-i, i), P}}
    for n in range(1, 5):
        for i in range(0, n):
            add(f"block 2 2 {blk(i, i)} {blk(i, n - i)} 2 {blk(n - i, i)} {blk(n - i, n - i, 'mixed')}", "block", "qr-shape")
    # ---- the whole double range (subnormals, the neighbourhood of DBL_MIN, 1e+-300, DBL_MAX) through every spelling
    for _ in range(3000 if big else 400):
        m, n = rng.randint(1, 5), rng.randint(1, 5); k = KX(); A = rmat(rng, m, n, k)
        r = rng.random()
        if r < 0.22: add(f"{rng.choice(SUM_OPS)} {mtab(A)} {mtab(rmat(rng, m, n, KX()))}", "sum", "extreme-range")
        elif r < 0.40:
            sc = entry(rng, rng.choice(["mixed", "wide", "tiny", "huge"])) or 2.0
            op = rng.choice(["m_prod_s", "m_op_mul_s", "m_div", "m_op_div", "s_mul_m"])
            add(f"s_mul_m {hx(sc)} {mtab(A)}" if op == "s_mul_m" else f"{op} {mtab(A)} {hx(sc)}", "scalar", "extreme-range")
        elif r < 0.50: add(f"{rng.choice(['transpose', 'law_trtr', 'law_mulid', 'm_show'])} {mtab(A)}", "law", "extreme-range")
        elif r < 0.62:
            B = rmat(rng, n, rng.randint(1, 4), KX())
            add(f"{rng.choice(['m_prod', 'm_op_mul', 'law_trprod'])} {mtab(A)} {mtab(B)}", "product", "extreme-range")
        elif r < 0.72:
            v = rvec(rng, n, KX())
            add(f"{rng.choice(['m_prod_v', 'm_op_mul_v', 'law_matvec'])} {mtab(A)} {flist(v)}", "mat-vec", "extreme-range")
            add(f"{rng.choice(['v_mul_m', 'law_vecmat'])} {flist(rvec(rng, m, KX()))} {mtab(A)}", "vec-mat", "extreme-range")
        elif r < 0.80: add(f"m_norm {mtab(A)}", "norm", "extreme-range")
        elif r < 0.86: add(f"trace {mtab(rmat(rng, n, n, k))}", "trace", "extreme-range")
        elif r < 0.93: add(f"sub_matrix {mtab(A)} {rng.randrange(m)} {rng.randrange(n)}", "sub_matrix", "extreme-range")
        else:
            add(f"return_row {mtab(A)} {rng.randrange(m)}", "return_row", "extreme-range"); add(f"return_column {mtab(A)} {rng.randrange(n)}", "return_column", "extreme-range")
    for _ in range(1500 if big else 160):
        n = rng.randint(1, 6); k = KX(); u, v = rvec(rng, n, k), rvec(rng, n, KX())
        op = rng.choice(VSUM_OPS + ["v_dot", "v_op_mul", "law_dotouter", "outer", "v_eq", "v_norm", "v_scale", "v_div", "s_mul_v", "v_show"])
        sc = entry(rng, rng.choice(["mixed", "wide", "tiny", "huge"])) or 2.0
        if op in ("v_norm", "v_show"): add(f"{op} {flist(u)}", "vector", "extreme-range")
        elif op in ("v_scale", "v_div"): add(f"{op} {flist(u)} {hx(sc)}", "vector", "extreme-range")
        elif op == "s_mul_v": add(f"s_mul_v {hx(sc)} {flist(u)}", "vector", "extreme-range")
        else: add(f"{op} {flist(u)} {flist(v)}", "vector", "extreme-range")
    for _ in range(300 if big else 30):
        k = rng.choice(["scaled", "scaled", "tiny", "wide"])      # cross products: scaled operands; tiny / wide ones for the component formula
        add(f"{'law_cross' if k == 'scaled' else 'v_cross'} {flist(rvec(rng, 3, k))} {flist(rvec(rng, 3, k))}", "vector", "cross", "extreme-range")
    # ---- predicates: exact instances and single-entry near misses along the ladders (absolute sizes from the smallest
    #      positive double up to DBL_MAX where the entry is zero, 1 .. 2^33 ulps where it is not)
    for rep in range(4 if big else 1):
        for step in range(len(ABS_LADDER)):
            for kind in ("sym", "anti", "diag", "zero"):
                n = rng.randint(2, 6 if big else 5)
                S = [[0.0] * n for _ in range(n)]
                for i in range(n):
                    for j in range(i, n):
                        x = entry(rng, rng.choice(["int", "mixed", "wide"]))
                        if kind == "sym": S[i][j] = S[j][i] = x
                        elif kind == "anti": S[i][j] = x if i != j else 0.0; S[j][i] = -x if i != j else 0.0
                        elif kind == "diag": S[i][j] = x if i == j else 0.0
                i, j = rng.randrange(n), rng.randrange(n)
                if kind != "anti" or rng.random() < 0.7:
                    while i == j: j = rng.randrange(n)
                S[i][j] = nudge(rng, S[i][j], step)
                for op in ("symmetric", "antisymmetric", "diagonal"):
                    add(f"{op} {mtab(S)}", "predicate", kind, "near-miss-ladder")
            # operator== on operands that differ in one entry by the same rungs
            m, n = rng.randint(1, 5), rng.randint(1, 5); A = rmat(rng, m, n, rng.choice(["int", "mixed", "wide"]))
            B = [list(r_) for r_ in A]; i, j = rng.randrange(m), rng.randrange(n); B[i][j] = nudge(rng, B[i][j], step)
            add(f"m_eq {mtab(A)} {mtab(B)}", "predicate", "near-miss-ladder")
            u = rvec(rng, n, rng.choice(["int", "mixed", "wide"])); v = list(u); i = rng.randrange(n); v[i] = nudge(rng, v[i], step)
            add(f"v_eq {flist(u)} {flist(v)}", "vector", "near-miss-ladder")
    # ---- predicates and ==: instances spoilt in several places at once (COINCIDENCES): the aggregates an implementation could
    #      be tempted to test instead of the entries keep the value they have for an instance
    for rep in range(8 if big else 1):
        for n in range(2, 7 if big else 6):
            for base in ("symmetric", "antisymmetric", "diag-generic", "zero", "identity", "scalar"):
                for how in COINCIDENCES:
                    S = special_square(rng, n, base); M = coincide(rng, S, how)
                    for op in ("symmetric", "antisymmetric", "diagonal"):
                        if big or rng.random() < 0.75 or (op[:4] == base[:4]): add(f"{op} {mtab(M)}", "predicate", "coincidence", how, base)
                    if big or rng.random() < 0.5: add(f"m_eq {mtab(S)} {mtab(M)}" if rng.random() < 0.5 else f"m_eq {mtab(M)} {mtab(S)}", "predicate", "coincidence", how)
                    if big or rng.random() < 0.3: add(f"trace {mtab(M)}", "trace", "coincidence", how)
        # the same for rectangular operands of == and for vectors
        for _ in range(60 if big else 40):
            m, n = rng.randint(1, 5), rng.randint(2, 6); A = rmat(rng, m, n, rng.choice(["int", "mixed", "dyadic", "wide"])); B = [list(r_) for r_ in A]
            i = rng.randrange(m); z = zero_sum(rng, n if rng.random() < 0.5 else 2) + [0.0] * n
            how = rng.choice(["row-zero-sum", "swap-in-row", "negate", "transposed-shape"])
            if how == "row-zero-sum": B[i] = [x + y for x, y in zip(B[i], z)]
            elif how == "swap-in-row": B[i] = B[i][1:] + B[i][:1]
            elif how == "negate": B = [[-x for x in r_] for r_ in B]
            else: B = T(A)
            add(f"m_eq {mtab(A)} {mtab(B)}", "predicate", "coincidence", how)
            u = A[i]; v = B[i] if how != "transposed-shape" else list(reversed(u))
            add(f"v_eq {flist(u)} {flist(v)}", "vector", "coincidence", how)
    # ---- structured operands: every kind of SPECIAL as right and as left factor of a product with a rectangular partner, in
    #      the laws, with vectors, and through the functions whose value they share with the unit / zero matrix
    for rep in range(6 if big else 1):
        for n in range(1, (7 if big else 6)):
            for kind in SPECIAL:
                S = special_square(rng, n, kind); m = rng.randint(1, 5); dk = rng.choice(["dyadic", "mixed", "int"])
                A = rmat(rng, m, n, dk); B = rmat(rng, n, m, dk)
                add(f"{rng.choice(['m_prod', 'm_op_mul'])} {mtab(A)} {mtab(S)}", "product", "structured", kind)
                add(f"{rng.choice(['m_prod', 'm_op_mul'])} {mtab(S)} {mtab(B)}", "product", "structured", kind)
                add(f"law_trprod {mtab(rmat(rng, m, n, dk))} {mtab(S)}", "law", "structured", kind)
                if rng.random() < 0.5: add(f"law_trprod {mtab(S)} {mtab(rmat(rng, n, m, dk))}", "law", "structured", kind)
                S2 = special_square(rng, n, rng.choice(SPECIAL))
                add(f"{rng.choice(['m_prod', 'm_op_mul', 'law_trprod'])} {mtab(S)} {mtab(S2)}", "product", "structured", kind)
                S3 = special_square(rng, n, kind)        # both factors of the same structure
                add(f"{rng.choice(['m_prod', 'm_op_mul'])} {mtab(S)} {mtab(S3)}", "product", "structured", "same-structure", kind)
                add(f"law_trprod {mtab(special_square(rng, n, kind))} {mtab(special_square(rng, n, kind))}", "law", "structured", "same-structure", kind)
                v = rng.choice([special_vec(rng, n), rvec(rng, n, dk)])
                add(f"{rng.choice(['m_prod_v', 'm_op_mul_v', 'law_matvec'])} {mtab(S)} {flist(v)}", "mat-vec", "structured", kind)
                add(f"{rng.choice(['v_mul_m', 'law_vecmat'])} {flist(rng.choice([special_vec(rng, n), rvec(rng, n, dk)]))} {mtab(S)}", "vec-mat", "structured", kind)
                op = rng.choice(["trace", "m_norm", "diagonal", "symmetric", "antisymmetric", "transpose", "law_mulid", "law_trtr"])
                add(f"{op} {mtab(S)}", "structured", kind)
                add(f"m_eq {mtab(S)} {mtab(special_square(rng, n, rng.choice(['identity', 'zero', kind])))}", "predicate", "structured", kind)
                add(f"{rng.choice(SUM_OPS)} {mtab(rmat(rng, n, n, dk))} {mtab(S)}", "sum", "structured", kind)
                if n > 1: add(f"sub_matrix {mtab(S)} {rng.randrange(n)} {rng.randrange(n)}", "sub_matrix", "structured", kind)
    for _ in range(600 if big else 60):
        n = rng.randint(1, 6); u, v = special_vec(rng, n), rng.choice([special_vec(rng, n), rvec(rng, n, "dyadic")])
        add(f"{rng.choice(['v_dot', 'v_op_mul', 'law_dotouter', 'outer', 'v_eq'] + VSUM_OPS)} {flist(u)} {flist(v)}", "vector", "structured")
        u3 = special_vec(rng, 3); add(f"law_cross {flist(u3)} {flist(rng.choice([u3, [-x for x in u3], special_vec(rng, 3)]))}", "vector", "cross", "structured")
    # ---- call histories: the same operations on objects that reached their state through Resize / Assign / writes / copies /
    #      compound assignments (and the constructors Matrix(r,c), Matrix(), Vector(n), Vector())
    def HK(): return rng.choice(["int", "int", "mixed", "dyadic", "wide"])
    for _ in range(2500 if big else 260):
        k = HK(); ta, (R, C) = hist_mat(rng, rng.randint(1, 6), rng.randint(1, 6), k)
        add(f"hist m_show {ta}", "history", "show")
        add(f"hist m_eq {ta} {mtab(hist_value(ta))} 0", "history", "equals-fresh")
        i, j = rng.randrange(R), rng.randrange(C)
        add(f"hist return_row {ta} {rng.choice([i, i, R - 1, R])}", "history", "return_row")
        add(f"hist sub_matrix {ta} {i} {j}", "history", "sub_matrix")
        ops = rng.sample(["return_column", "delete_row", "delete_column", "m_at", "transpose", "law_trtr", "m_norm", "trace", "square",
                          "symmetric", "diagonal", "sum", "sum", "sum-bad", "prod", "prod-left", "law_trprod", "law_mulid", "matvec", "vecmat",
                          "law_matvec", "scalar", "again"], 4 if big else 3)
        for op in ops:
            if op in ("return_column", "delete_column"): add(f"hist {op} {ta} {rng.choice([j, C - 1, C])}", "history", op)
            elif op == "delete_row": add(f"hist {op} {ta} {rng.choice([i, R])}", "history", op)
            elif op == "m_at": add(f"hist m_at {ta} {rng.choice([i, R])} {j}", "history", op)
            elif op in ("transpose", "law_trtr", "m_norm", "trace", "square", "symmetric", "diagonal", "law_mulid"): add(f"hist {op} {ta}", "history", op)
            elif op == "sum":
                tb = hist_mat(rng, rng.randint(1, 6), rng.randint(1, 6), k, final=(R, C))[0] if rng.random() < 0.5 else f"{mtab(rmat(rng, R, C, k))} 0"
                add(f"hist {rng.choice(SUM_OPS)} {ta} {tb}" if rng.random() < 0.6 else f"hist {rng.choice(SUM_OPS)} {tb} {ta}", "history", "sum")
            elif op == "sum-bad":
                tb, shp = hist_mat(rng, rng.randint(1, 6), rng.randint(1, 6), k)
                add(f"hist {rng.choice(SUM_OPS)} {ta} {tb}", "history", "sum", "conformable" if shp == (R, C) else "nonconformable")
            elif op in ("prod", "law_trprod"):
                q = rng.randint(1, 5)
                tb = hist_mat(rng, rng.randint(1, 6), rng.randint(1, 6), k, final=(C, q))[0] if rng.random() < 0.5 else f"{mtab(rmat(rng, C, q, k))} 0"
                add(f"hist {rng.choice(['m_prod', 'm_op_mul']) if op == 'prod' else op} {ta} {tb}", "history", "product")
            elif op == "prod-left":
                q = rng.randint(1, 5)
                add(f"hist {rng.choice(['m_prod', 'm_op_mul'])} {mtab(rmat(rng, q, R, k))} 0 {ta}", "history", "product")
            elif op in ("matvec", "law_matvec"):
                tv = hist_vec(rng, rng.randint(1, 6), k, final=C)[0] if rng.random() < 0.6 else f"{flist(rvec(rng, C, k))} 0"
                add(f"hist {rng.choice(['m_prod_v', 'm_op_mul_v']) if op == 'matvec' else op} {ta} {tv}", "history", "mat-vec")
            elif op == "vecmat":
                tv = hist_vec(rng, rng.randint(1, 6), k, final=R)[0] if rng.random() < 0.6 else f"{flist(rvec(rng, R, k))} 0"
                add(f"hist {rng.choice(['v_mul_m', 'law_vecmat'])} {tv} {ta}", "history", "vec-mat")
            elif op == "scalar":
                sc = hx(entry(rng, "mixed") or 2.0); o_ = rng.choice(["m_prod_s", "m_op_mul_s", "m_div", "m_op_div", "s_mul_m"])
                add(f"hist s_mul_m {sc} {ta}" if o_ == "s_mul_m" else f"hist {o_} {ta} {sc}", "history", "scalar")
            elif op == "again":      # a second, longer history on the same start
                t2, (R2, C2) = hist_mat(rng, R, C, k, steps=rng.randint(4, 7))
                add(f"hist m_show {t2}", "history", "show"); add(f"hist return_row {t2} {rng.randrange(R2)}", "history", "return_row")
                add(f"hist sub_matrix {t2} {rng.randrange(R2)} {rng.randrange(C2)}", "history", "sub_matrix")
    for _ in range(1500 if big else 160):
        k = HK(); tu, N = hist_vec(rng, rng.randint(1, 6), k)
        add(f"hist v_show {tu}", "history", "vector", "show")
        add(f"hist v_eq {tu} {flist(hist_value(tu, True))} 0", "history", "vector", "equals-fresh")
        tv = hist_vec(rng, rng.randint(1, 6), k, final=N)[0] if rng.random() < 0.6 else f"{flist(rvec(rng, N, k))} 0"
        op = rng.choice(VSUM_OPS + ["v_dot", "v_op_mul", "law_dotouter", "outer", "v_at", "v_norm", "v_scale", "v_div", "s_mul_v", "cross"])
        sc = hx(entry(rng, "mixed") or 2.0)
        if op == "v_at": add(f"hist v_at {tu} {rng.choice([rng.randrange(N), N - 1, N, N + 1])}", "history", "vector", "v_at")
        elif op == "v_norm": add(f"hist {rng.choice(['v_norm', 'v_normalized', 'v_normalize'])} {tu}", "history", "vector", "norm")
        elif op in ("v_scale", "v_div"): add(f"hist {op} {tu} {sc}", "history", "vector", "scalar")
        elif op == "s_mul_v": add(f"hist s_mul_v {sc} {tu}", "history", "vector", "scalar")
        elif op == "cross":
            t3 = hist_vec(rng, rng.randint(1, 6), k, final=3)[0]
            add(f"hist {'law_cross' if k != 'wide' else 'v_cross'} {t3} {hist_vec(rng, rng.randint(1, 6), k, final=3)[0]}", "history", "vector", "cross")
        else: add(f"hist {op} {tu} {tv}" if rng.random() < 0.7 else f"hist {op} {tv} {tu}", "history", "vector", op)
    # ---- the block constructor on objects with a call history (and on plain tables through the same entry point)
    for _ in range(1500 if big else 110):
        GR, GC = rng.choice([1, 1, 2, 2, 3]), rng.choice([1, 2, 2, 3])
        br = [rng.randint(1, 3) for _ in range(GR)]; bc = [rng.randint(1, 3) for _ in range(GC)]
        shp = [[(br[R], bc[C]) for C in range(GC)] for R in range(GR)]; tag = "valid"
        if rng.random() < 0.15 and GR * GC > 1:
            R, C = rng.randrange(GR), rng.randrange(GC); shp[R][C] = (br[R] + rng.choice([0, 1]), bc[C] + 1); tag = "invalid"
        def one(sh):
            k = rng.choice(["int", "mixed", "dyadic", "wide", "tiny"])
            if rng.random() < 0.6: return hist_mat(rng, rng.randint(1, 5), rng.randint(1, 5), k, final=sh)[0]
            return f"{mtab(whole_operand(rng, sh[0], sh[1], rng.choice(BLOCK_KINDS)))} 0"
        add(f"hist blockm {GR} " + " ".join(f"{GC} " + " ".join(one(sh) for sh in row) for row in shp), "history", "block", tag)
    for _ in range(400 if big else 40):      # the same entry point on fresh tables
        GR, GC = rng.choice([1, 2, 2, 3]), rng.choice([1, 2, 2, 3])
        br = [rng.randint(1, 3) for _ in range(GR)]; bc = [rng.randint(1, 3) for _ in range(GC)]
        add(f"blockm {GR} " + " ".join(f"{GC} " + " ".join(mtab(whole_operand(rng, br[R], bc[C], rng.choice(BLOCK_KINDS))) for C in range(GC)) for R in range(GR)), "block", "valid", "block-magnitudes")
    life_cases(rng, big, add)
    cache_cases(rng, big, add)
    made_cases(rng, big, add)
    amb_cases(rng, big, add, [c for c in cs if c is not None and len(c.line) < 1500])
    # ---- stream insertion (operator<<(ostream, Vector / Matrix), model coq/C04_Print.v): every shape up to L, random shapes up to 8,
    #      the whole double range (every entry must come back exactly), objects with a call history
    for (m, n) in shapes: add(f"m_print {mtab(rmat(rng, m, n, KX()))}", "print")
    for n in range(1, 9): add(f"v_print {flist(rvec(rng, n, KX()))}", "print", "vector")
    for _ in range(2500 if big else 120):
        add(f"m_print {mtab(rmat(rng, rng.randint(1, 8), rng.randint(1, 8), KX()))}", "print")
        if big or rng.random() < 0.5: add(f"v_print {flist(rvec(rng, rng.randint(1, 8), KX()))}", "print", "vector")
    for _ in range(400 if big else 40):
        add(f"hist m_print {hist_mat(rng, rng.randint(1, 6), rng.randint(1, 6), K())[0]}", "history", "print")
        add(f"hist v_print {hist_vec(rng, rng.randint(1, 6), K())[0]}", "history", "print", "vector")
    for n in range(1, 7):
        add(f"v_at {flist(rvec(rng, n))} {n - 1}", "vector", "v_at"); add(f"v_at {flist(rvec(rng, n))} {n}", "vector", "v_at"); add(f"v_at {flist(rvec(rng, n))} {n + 3}", "vector", "v_at")
    return [c for c in cs if c is not None]


# ---------------------------------------------------------------- nontrivial
def operands(line):
    """shapes of the matrix operands and whether the pair is conformable for the operation"""
    if line.startswith("amb "): line = amb_split(line)[1]
    r = Rd(line); op = r.op
    try:
        if op == "life":
            r.hist = False
            return [shape(r.plain_table()) for _ in range(r.int())], True
        if op in SUM_OPS or op == "m_eq":
            A, B = r.table(), r.table(); return [shape(A), shape(B)], shape(A) == shape(B)
        if op in ("m_prod", "m_op_mul", "law_trprod"):
            A, B = r.table(), r.table(); return [shape(A), shape(B)], shape(A)[1] == shape(B)[0]
        if op in ("m_prod_v", "m_op_mul_v", "law_matvec"):
            A, v = r.table(), r.list(); return [shape(A)], shape(A)[1] == len(v)
        if op in ("v_mul_m", "law_vecmat"):
            v, A = r.list(), r.table(); return [shape(A)], shape(A)[0] == len(v)
        if op in VSUM_OPS + ["v_dot", "v_op_mul", "law_dotouter"]:
            u, v = r.list(), r.list(); return [], len(u) == len(v)
        if op in ("v_cross", "law_cross"):
            u, v = r.list(), r.list(); return [], len(u) == 3 and len(v) == 3
        if op == "outer":
            u, v = r.list(), r.list(); return [(len(u), len(v))], True
        if op == "s_mul_m":
            r.num(); return [shape(r.table())], True
        if op == "block":
            GR = r.int(); shp = []
            for _ in range(GR):
                for _ in range(r.int()): b = r.block(); shp.append((b[0], b[1]))
            return shp, True
        if op == "blockm":
            shp = []
            for _ in range(r.int()):
                for _ in range(r.int()): shp.append(shape(r.table()))
            return shp, True
        if op in ("identity", "mat_diag", "mat_fill", "v_scale", "v_div", "s_mul_v", "v_norm", "v_normalized", "v_normalize", "v_eq", "mat_ctor", "v_at", "v_show", "v_print"): return [], True
        if op == "law_vecmat_tr":
            v = r.list(); A = r.table(); w = r.list(); return [shape(A)], shape(A) == (len(v), len(w))
        if op == "law_trsum":
            A, B = r.table(), r.table(); return [shape(A), shape(B)], shape(A) == shape(B)
        return [shape(r.table())], True
    except Exception:
        return [], True


def compare(c, io, mo, tol):
    """the generic token-wise comparison; a `made` case whose producer is outside the model (UNMODELLED) is decided by its predicates"""
    from vcheck import compare_lines
    if mo.split()[-1:] == ["UNMODELLED"] or mo.split()[:1] == ["UNMODELLED"]:
        req = amb_split(c.line)[1] if c.line.startswith("amb ") else c.line
        if req.startswith("made ") and any(k in UNMODELLED for k, _ in made_split(req)[0]): return True, False, ""
    return compare_lines(io, mo, tol)


def nontrivial(c, io):
    if c.line.startswith("made ") or " made " in c.line[:4000] and c.line.startswith("amb "): return True
    shp, conf = operands(c.line)
    return (not conf) or any(a != b for a, b in shp)


# ---------------------------------------------------------------- S4 predicates
def amb_split(line):
    """(calls, request) of an `amb` case"""
    t = line.split(); i = 2; calls = []
    for _ in range(int(t[1])):
        L = int(t[i + 1]); calls.append((t[i], t[i + 2:i + 2 + L])); i += 2 + L
    return calls, " ".join(t[i:])


def amb_predicates(c, io):
    """a request after calls of other facilities of the library: (1) the clauses of the request itself, on the answer given after the
    calls; (2) that answer is the one a pristine process gives; (3) the control state the calls leave is the one they found"""
    calls, req = amb_split(c.line); names = ", ".join(n for n, _ in calls) or "no call"
    inner = Case(req)
    if io.startswith("EXIT"): return predicates(inner, io)
    parts = [p.strip() for p in io.split("||")]
    if len(parts) != 3: return [("amb:protocol", "three parts expected")]
    after, alone, fp = parts
    out = [(sig + ":amb", f"after {names} in the same process: {msg}") for sig, msg in predicates(inner, after)]
    op = Rd(req).op
    if not out and after.split() != alone.split():
        ta, tb = after.split(), alone.split()
        k = next((i for i, (x, y) in enumerate(zip(ta, tb)) if x != y), min(len(ta), len(tb)))
        out.append((f"{op}:ambient:amb", f"after {names} in the same process the answer differs from the answer of a pristine process "
                    f"(token {k}: {ta[k] if k < len(ta) else 'missing'} vs {tb[k] if k < len(tb) else 'missing'})"))
    f = fp.split()
    if len(f) != 4 or f[0] != "fp": return out + [("amb:protocol", "fp state expected")]
    if any(int(x) != 0 for x in f[1:]):
        what = []
        cw, xw, pr = int(f[1]), int(f[2]), int(f[3])
        if cw & 0x8000 or pr & 1: what.append("flush-to-zero is on (subnormal results become 0)")
        if cw & 0x0040 or pr & 2: what.append("denormals-are-zero is on")
        if cw & 0x6000 or pr & 28 or xw & 0x0C00: what.append("the rounding direction is not to-nearest")
        if cw & 0x1F80: what.append("floating-point exception masks changed")
        if xw & 0x0300: what.append("x87 precision control changed")
        out.append((f"{op}:ambient-state:amb", f"{names} left the floating-point control state of the process changed (mxcsr^={cw:#x}, x87cw^={xw:#x}, "
                    f"probes={pr}): {'; '.join(what) or 'control bits differ'} - every Vector / Matrix operation that follows is evaluated in that state"))
    return out


def made_split(line):
    """(producers, body tokens) of a `made` case"""
    t = line.split(); i = 2; prods = []
    for _ in range(int(t[1])):
        L = int(t[i + 1]); prods.append((t[i], t[i + 2:i + 2 + L])); i += 2 + L
    return prods, t[i:]


PRODUCER_NAME = {"iv": "Inverse", "sb": "Sub_Matrix", "tr": "Transpose", "ou": "Outer_Vector_Product", "id": "Identity_Matrix", "mp": "operator*", "pr": "Product",
                 "pl": "operator+", "pn": "Plus", "mi": "operator-", "ms": "M*s", "sm": "s*M", "dv": "M/s", "fl": "Matrix(r,c,x)", "dg": "Matrix(diagonal)",
                 "cp": "copy constructor", "hs": "call history", "bk": "block constructor", "ro": "Rotation_Matrix", "qq": "QR_Decomposition.first",
                 "qr": "QR_Decomposition.second", "rn": "Round", "rr": "Return_Row", "rc": "Return_Column", "mv": "M*v", "vm": "v*M", "cr": "Cross",
                 "nd": "Normalized", "sc": "v*s", "sp": "Spherical_Coordinates", "vc": "Vector copy constructor"}


def made_producers(prods, shown):
    """(0) every returned object, as Rows() / Columns() / operator[] (Size() / operator[]) show it, has the shape its producer is defined to
    return on the arguments it was given; the producers that select or copy entries (Return_Row / Return_Column / Sub_Matrix / Transpose /
    copies) return exactly these entries"""
    o = Out(shown); objs = []
    while o.more():
        if o.t[o.i] == "M": R, C, G = o.mat(); objs.append(("M", (R, C), G))
        else: v = o.vec(); objs.append(("V", len(v), v))
    Ms = [x for x in objs if x[0] == "M"]; Vs = [x for x in objs if x[0] == "V"]
    out = []; im = iv = 0
    for kind, toks in prods:
        r = Rd("x " + " ".join(toks)); r.hist = False
        def M():
            j = obj_ref(r)
            if j is not None: return Ms[j][2], Ms[j][1]
            A = r.plain_table(); return A, shape(A)
        def V():
            j = obj_ref(r)
            return Vs[j][2] if j is not None else r.plain_list()
        want = None; ent = None; vec = kind in V_PRODUCERS
        if kind in ("tr",): A, (m, n) = M(); want = (n, m); ent = T(A) if m and n else None
        elif kind == "cp": A, want = M(); ent = A
        elif kind == "sb":
            A, (m, n) = M(); i, j = r.int(), r.int(); want = (m - 1, n - 1)
            ent = [[x for b, x in enumerate(row) if b != j] for a, row in enumerate(A) if a != i]
        elif kind == "ou": want = (len(V()), len(V()))
        elif kind == "id": k = r.int(); want = (k, k)
        elif kind in ("mp", "pr"): (_, (m, _n)), (_, (_k, q)) = M(), M(); want = (m, q)
        elif kind in ("pl", "pn", "mi", "ms", "dv", "iv", "rn"): want = M()[1]
        elif kind == "sm": r.num(); want = M()[1]
        elif kind == "fl": want = (r.int(), r.int())
        elif kind == "dg": k = len(r.plain_list()); want = (k, k)
        elif kind == "ro": r.num(); k = r.int(); want = (k, k)
        elif kind in ("qq", "qr"): (_, (m, n)) = M(); want = (m, m) if kind == "qq" else (m, n)
        elif kind == "rr": A, (m, n) = M(); i = r.int(); want = n; ent = A[i]
        elif kind == "rc": A, (m, n) = M(); i = r.int(); want = m; ent = [row[i] for row in A]
        elif kind == "mv": want = M()[1][0]
        elif kind == "vm": V(); want = M()[1][1]
        elif kind in ("cr", "sp"): want = 3
        elif kind in ("nd", "sc"): want = len(V())
        elif kind == "vc": ent = V(); want = len(ent)
        elif kind == "hs":
            r.hist = True
            try: A = r.table(); want = shape(A); ent = A
            except (Skip, ExpectExit, IndexError): want = ent = None
            r.hist = False
        elif kind == "bk":
            g = [[M()[0] for _ in range(r.int())] for _ in range(r.int())]
            ent = [sum((blk[a] for blk in row), []) for row in g for a in range(len(row[0]))]; want = shape(ent)
        got = (Vs[iv] if vec else Ms[im]) if (iv < len(Vs) if vec else im < len(Ms)) else None
        if vec: iv += 1
        else: im += 1
        if got is None: return [("made:protocol", "a returned object is not shown")]
        name = PRODUCER_NAME.get(kind, kind)
        if want is not None and got[1] != want:
            out.append((f"made:returned-shape:{kind}", f"{name} returned an object that shows itself as {got[1]} (Rows/Columns/Size), its definition gives {want}")); return out
        if ent is not None and want not in (0, None) and not (isinstance(want, tuple) and 0 in want):
            same = meq(got[2], ent) if not vec else (len(got[2]) == len(ent) and all(feq(x, y) for x, y in zip(got[2], ent)))
            if not same: out.append((f"made:returned-entries:{kind}", f"{name} returned entries {got[2]} where its definition selects {ent}")); return out
    return out


def made_predicates(c, io):
    """objects returned by the library: (1) every answer given on the returned objects is, token for token, the answer given on
    objects built from literals with the same entries; (2) the answers on the literal-built objects satisfy the clauses (judged as the
    session `life` on these literals)"""
    prods, body = made_split(c.line); names = "+".join(k for k, _ in prods)
    said = ", ".join(PRODUCER_NAME.get(k, k) for k, _ in prods)
    if io.split()[:1] == ["EXIT"] and "&&" not in io: return [(f"made:defined:{names}", f"a producer ({said}) terminated the process on arguments it is defined on")]
    parts = [p.strip() for p in io.split("&&")]
    if len(parts) != 3: return [("made:protocol", "three parts expected")]
    obj, lit, shown = parts
    o = Out(shown); ms = []; vs = []
    while o.more():
        if o.t[o.i] == "M":
            R, C, G = o.mat()
            if R == 0 or C == 0: return []
            ms.append(G)
        else: vs.append(o.vec())
    out = made_producers(prods, shown)
    if out: return out
    if obj.split() != lit.split():
        ta, tb = obj.split(), lit.split()
        k = next((i for i, (x, y) in enumerate(zip(ta, tb)) if x != y), min(len(ta), len(tb)))
        q = ta[:k].count("|") + 1
        out.append((f"made:returned-object:{names}", f"question {q} of the session on the object(s) returned by {said} is answered differently than on literal-built "
                    f"objects with the same entries (token {k}: {ta[k] if k < len(ta) else 'missing'} vs {tb[k] if k < len(tb) else 'missing'}; "
                    f"returned objects as operator[] shows them: {shown[:300]})"))
    inner = f"life {len(ms)} " + " ".join(mtab(A) for A in ms) + f" {len(vs)} " + " ".join(flist(v) for v in vs) + " " + " ".join(body)
    out += [(sig + ":made", f"objects returned by {said}, rebuilt from literals: {msg}") for sig, msg in life_predicates(Case(inner.replace("  ", " ")), lit)]
    return out


def predicates(c, io):
    try:
        if c.line.startswith("made "):
            if io.startswith(("CRASH", "SANITIZER", "TIMEOUT", "HARNESSERR")): return []
            return made_predicates(c, io)
        if c.line.startswith("amb "):
            if io.startswith(("CRASH", "SANITIZER", "TIMEOUT", "HARNESSERR")): return []
            return amb_predicates(c, io)
        if c.line.startswith("life "):
            if io.startswith(("CRASH", "SANITIZER", "TIMEOUT", "HARNESSERR")): return []
            return life_predicates(c, io)
        return _predicates(c, io)
    except ExpectExit:
        if io.startswith("EXIT"): return []
        return [(f"{Rd(c.line).op}:guard:hist", "a step of the call history is not defined, yet the process went on")]
    except Skip:
        return []


def _predicates(c, io):
    if io.startswith(("CRASH", "SANITIZER", "TIMEOUT", "HARNESSERR")): return []
    r = Rd(c.line); op = r.op; out = []
    ex = io.startswith("EXIT")
    o = Out(io)
    def bad(clause, msg): out.append((f"{op}:{clause}" + (":hist" if r.hist else ""), msg + (" (operands with a call history)" if r.hist else "")))
    def guard(should_exit, what):
        """returns True when the case is finished (exit expected or wrongly taken)"""
        if should_exit and not ex: bad("guard", f"{what}: the request is not defined, yet a result was returned"); return True
        if (not should_exit) and ex: bad("defined", f"{what}: the request is defined, yet the process was terminated"); return True
        return should_exit
    def expect_mat(E, clause, exact=True):
        rr, cc, G = o.mat()
        if (rr, cc) != (len(E), len(E[0]) if E else cc): bad(clause + "-shape", f"result is {rr}x{cc}, expected {len(E)}x{len(E[0]) if E else '?'}"); return G
        if not meq(G, E): bad(clause, f"entries differ from the definition: got {G[:2]}, expected {E[:2]}")
        return G
    def expect_vec(E, clause):
        G = o.vec()
        if len(G) != len(E) or not all(feq(x, y) for x, y in zip(G, E)): bad(clause, f"got {G[:6]}, expected {E[:6]}")
        return G

    if op in SUM_OPS:
        A, B = r.table(), r.table()
        if guard(shape(A) != shape(B), f"({shape(A)[0]}x{shape(A)[1]}) +/- ({shape(B)[0]}x{shape(B)[1]})"): return out
        minus = op in ("m_minus", "m_op_minus", "m_sub_assign")
        expect_mat([[(a - b) if minus else (a + b) for a, b in zip(ra, rb)] for ra, rb in zip(A, B)], "entrywise")
    elif op in VSUM_OPS:
        u, v = r.list(), r.list()
        if guard(len(u) != len(v), f"vectors of size {len(u)} and {len(v)}"): return out
        minus = op in ("v_sub", "v_sub_assign")
        expect_vec([(a - b) if minus else (a + b) for a, b in zip(u, v)], "entrywise")
    elif op in ("m_prod", "m_op_mul"):
        A, B = r.table(), r.table()
        if guard(shape(A)[1] != shape(B)[0], f"({shape(A)[0]}x{shape(A)[1]})*({shape(B)[0]}x{shape(B)[1]})"): return out
        rr, cc, G = o.mat()
        if (rr, cc) != (len(A), len(B[0])): bad("shape", f"product is {rr}x{cc}, expected {len(A)}x{len(B[0])}"); return out
        for i in range(rr):
            for j in range(cc):
                if not close_sum(G[i][j], [(A[i][k], B[k][j]) for k in range(len(B))]):
                    bad("entries", f"entry ({i},{j}) = {G[i][j]!r} is not sum_k a_ik*b_kj = {float(exact_sum([(A[i][k], B[k][j]) for k in range(len(B))]))!r}"); return out
    elif op == "law_trprod":
        A, B = r.table(), r.table()
        if ex: bad("defined", "conformable product terminated the process"); return out
        r1 = o.mat(); r2 = o.mat()
        if (r1[0], r1[1]) != (len(B[0]), len(A)): bad("shape", f"transpose(A*B) is {r1[0]}x{r1[1]}")
        if (r1[0], r1[1]) != (r2[0], r2[1]) or not meq(r1[2], r2[2]): bad("transpose-product", "transpose(A*B) != transpose(B)*transpose(A)")
    elif op == "law_mulid":
        A = r.table()
        if ex: bad("defined", "A*I terminated the process"); return out
        r1 = o.mat(); r2 = o.mat()
        # the law is about numbers: an operand that already holds inf / nan (an earlier step overflowed) has inf*0 = nan in A*I
        fin = all(math.isfinite(a) for row in A for a in row)
        if (r1[0], r1[1]) != shape(A) or (fin and not meq(r1[2], A)): bad("mul-identity", "A*I != A")
        if (r2[0], r2[1]) != shape(A) or (fin and not meq(r2[2], A)): bad("identity-mul", "I*A != A")
    elif op == "law_trtr":
        A = r.table()
        if ex: bad("defined", "transpose terminated the process"); return out
        r1 = o.mat()
        if (r1[0], r1[1]) != shape(A) or not meq(r1[2], A): bad("transpose-involutive", "transpose(transpose(A)) != A")
    elif op == "transpose":
        A = r.table()
        if ex: bad("defined", "transpose terminated the process"); return out
        expect_mat(T(A), "definition")
    elif op in ("m_prod_s", "m_op_mul_s", "m_div", "m_op_div", "s_mul_m"):
        if op == "s_mul_m": s = r.num(); A = r.table()
        else: A = r.table(); s = r.num()
        if ex: bad("defined", "scalar operation terminated the process"); return out
        div = op in ("m_div", "m_op_div")
        expect_mat([[fdiv(a, s) if div else s * a for a in row] for row in A], "entrywise")
    elif op in ("v_scale", "v_div", "s_mul_v"):
        if op == "s_mul_v": s = r.num(); v = r.list()
        else: v = r.list(); s = r.num()
        if ex: bad("defined", "scalar operation terminated the process"); return out
        expect_vec([fdiv(a, s) if op == "v_div" else a * s for a in v], "entrywise")
    elif op in ("m_prod_v", "m_op_mul_v", "v_mul_m"):
        if op == "v_mul_m": v = r.list(); A = r.table(); conf = len(v) == len(A)
        else: A = r.table(); v = r.list(); conf = len(v) == len(A[0])
        if guard(not conf, f"matrix {shape(A)} with vector of size {len(v)}"): return out
        G = o.vec()
        E = [[(v[j], A[j][i]) for j in range(len(A))] for i in range(len(A[0]))] if op == "v_mul_m" else [[(A[i][j], v[j]) for j in range(len(v))] for i in range(len(A))]
        if len(G) != len(E): bad("shape", f"result has {len(G)} components, expected {len(E)}"); return out
        for i, terms in enumerate(E):
            if not close_sum(G[i], terms): bad("entries", f"component {i} = {G[i]!r} is not the sum of products {float(exact_sum(terms))!r}"); return out
    elif op == "law_matvec":
        A = r.table(); v = r.list()
        if ex: bad("defined", "conformable product terminated the process"); return out
        g = o.vec(); m = o.mat()
        if (m[0], m[1]) != (len(A), 1) or len(g) != len(A) or not all(feq(x, row[0]) for x, row in zip(g, m[2])): bad("column-matrix", "M*v differs from M*(column matrix of v)")
    elif op == "law_vecmat":
        v = r.list(); A = r.table()
        if ex: bad("defined", "conformable product terminated the process"); return out
        g = o.vec(); m = o.mat()
        if (m[0], m[1]) != (1, len(A[0])) or len(g) != len(A[0]) or not all(feq(x, y) for x, y in zip(g, m[2][0])): bad("row-matrix", "v*M differs from (row matrix of v)*M")
    elif op == "law_vecmat_tr":
        v = r.list(); A = r.table(); w = r.list()
        if guard(len(v) != len(A) or len(w) != len(A[0]), f"vector of size {len(v)} * ({len(A)}x{len(A[0])}) * vector of size {len(w)}"): return out
        g1 = o.vec(); g2 = o.vec(); g3 = o.vec(); g4 = o.vec()
        if len(g1) != len(g2) or not all(feq(x, y) for x, y in zip(g1, g2)): bad("vecmat-transpose", "v*M differs from transpose(M)*v")
        if len(g3) != len(g4) or not all(feq(x, y) for x, y in zip(g3, g4)): bad("matvec-transpose", "M*v differs from v*transpose(M)")
    elif op == "law_trsum":
        A, B = r.table(), r.table()
        if guard(shape(A) != shape(B), f"({shape(A)[0]}x{shape(A)[1]}) +/- ({shape(B)[0]}x{shape(B)[1]})"): return out
        p1 = o.mat(); p2 = o.mat(); q1 = o.mat(); q2 = o.mat()
        E = T([[a + b for a, b in zip(ra, rb)] for ra, rb in zip(A, B)])
        if (p1[0], p1[1]) != (len(A[0]), len(A)) or not meq(p1[2], E): bad("transpose-sum", "transpose(A+B) is not the transposed entrywise sum")
        if (p1[0], p1[1]) != (p2[0], p2[1]) or not meq(p1[2], p2[2]): bad("transpose-sum", "transpose(A+B) != transpose(A)+transpose(B)")
        if (q1[0], q1[1]) != (q2[0], q2[1]) or not meq(q1[2], q2[2]): bad("transpose-difference", "transpose(A-B) != transpose(A)-transpose(B)")
    elif op in ("v_normalized", "v_normalize"):
        u = r.list()
        if ex: bad("defined", "terminated the process"); return out
        g = o.vec()
        if len(g) != len(u): bad("shape", f"normalised vector has size {len(g)}, expected {len(u)}"); return out
        # definition: every entry divided by Norm(); Norm() is judged to rounding (close_norm), the division is exact IEEE
        N0 = ref_norm(u); cands = [N0]
        if math.isfinite(N0) and N0 > 0:
            x = y = N0
            for _ in range(3):
                x = math.nextafter(x, math.inf); y = math.nextafter(y, 0.0); cands += [x, y]
        if not any(close_norm(N, u) and all(feq(x, fdiv(a, N)) for x, a in zip(g, u)) for N in cands):
            bad("definition", f"entries {g[:4]} are not u_i / Norm(u) (expected {ref_normalized(u)[:4]})")
        nz = [abs(a) for a in u if a != 0]
        if nz and all(math.isfinite(a) for a in u) and min(nz) >= 1e-140 and max(nz) <= 1e140 and all(math.isfinite(x) for x in g):
            S = exact_sum([(x, x) for x in g])
            if abs(S - 1) > Fraction(SLACK): bad("unit", f"the normalised vector has squared norm {float(S)!r}, not 1 within rounding")
    elif op == "law_dotouter":
        u, v = r.list(), r.list()
        if ex: bad("defined", "terminated the process"); return out
        d = o.num(); m1 = o.mat(); ou = o.mat(); m2 = o.mat()
        if (m1[0], m1[1]) != (1, 1) or not feq(m1[2][0][0], d): bad("dot-row-column", "u.v differs from (row u)*(column v)")
        if not close_sum(d, list(zip(u, v))): bad("dot", f"u.v = {d!r} is not sum u_i*v_i")
        if (ou[0], ou[1]) != (len(u), len(v)) or not meq(ou[2], [[a * b for b in v] for a in u]): bad("outer", "outer product entries are not u_i*v_j")
        if (ou[0], ou[1]) != (m2[0], m2[1]) or not meq(ou[2], m2[2]): bad("outer-column-row", "outer(u,v) differs from (column u)*(row v)")
    elif op in ("v_dot", "v_op_mul"):
        u, v = r.list(), r.list()
        if guard(len(u) != len(v), f"dot of sizes {len(u)} and {len(v)}"): return out
        d = o.num()
        if not close_sum(d, list(zip(u, v))): bad("definition", f"u.v = {d!r} is not sum u_i*v_i")
    elif op == "v_norm":
        u = r.list()
        if ex: bad("defined", "terminated the process"); return out
        d = o.num()
        if not close_norm(d, u): bad("definition", f"norm {d!r} is not sqrt(sum u_i^2) within rounding")
    elif op == "outer":
        u, v = r.list(), r.list()
        if ex: bad("defined", "terminated the process"); return out
        expect_mat([[a * b for b in v] for a in u], "definition") if u and v else None
    elif op in ("v_cross", "law_cross"):
        u, v = r.list(), r.list()
        if guard(len(u) != 3 or len(v) != 3, f"cross product of sizes {len(u)} and {len(v)}"): return out
        w = o.vec()
        E = [[(u[1], v[2]), (-u[2], v[1])], [(u[2], v[0]), (-u[0], v[2])], [(u[0], v[1]), (-u[1], v[0])]]
        if len(w) != 3: bad("shape", "cross product is not a 3-vector"); return out
        for i in range(3):
            if not close_sum(w[i], E[i]): bad("formula", f"component {i} = {w[i]!r}, formula gives {float(exact_sum(E[i]))!r}")
        if op == "law_cross" and not out:
            for name, a in (("u", u), ("v", v)):
                d = o.num()
                # u.(u x v) expands into 6 products of three factors that cancel exactly; every product may lose 2^-1075 to
                # underflow (the inner ones are then multiplied by |a_i|); nothing is claimed when an intermediate can overflow
                sc = sum(abs(Fraction(a[i])) * sum(abs(Fraction(x) * Fraction(y)) for x, y in E[i]) for i in range(3))
                if sc >= OVF or any(math.isinf(t) or math.isnan(t) for t in u + v): continue
                lim = Fraction(4 * SLACK) * sc + Fraction(DEN_MIN) * (2 * sum(abs(Fraction(t)) for t in a) + 4)
                if math.isnan(d) or math.isinf(d) or not (abs(Fraction(d)) <= lim): bad("orthogonal", f"{name}.(u x v) = {d!r} is not zero within rounding ({float(lim)!r})")
    elif op == "trace":
        A = r.table()
        if guard(len(A) != len(A[0]), f"trace of a {shape(A)} matrix"): return out
        d = o.num()
        if not close_sum(d, [(A[i][i], 1.0) for i in range(len(A))]): bad("definition", f"trace {d!r} is not the sum of the diagonal")
    elif op == "m_norm":
        A = r.table()
        if ex: bad("defined", "terminated the process"); return out
        d = o.num()
        if not close_norm(d, [a for row in A for a in row]): bad("definition", f"norm {d!r} is not sqrt(sum a_ij^2) within rounding")
    elif op in ("square", "symmetric", "antisymmetric", "diagonal"):
        A = r.table(); m, n = shape(A)
        if ex: bad("defined", "terminated the process"); return out
        g = o.int(); sq = m == n
        if op == "square": e = sq
        elif op == "symmetric": e = sq and all(A[i][j] == A[j][i] for i in range(m) for j in range(n))
        elif op == "antisymmetric": e = sq and all(A[i][j] == -A[j][i] for i in range(m) for j in range(n))
        else: e = sq and all(A[i][j] == 0 for i in range(m) for j in range(n) if i != j)
        if g != int(e): bad("definition", f"{op}() = {g}, definition gives {int(e)}")
    elif op == "m_eq":
        A, B = r.table(), r.table()
        if ex: bad("defined", "terminated the process"); return out
        e = shape(A) == shape(B) and all(x == y for ra, rb in zip(A, B) for x, y in zip(ra, rb))
        if o.int() != int(e): bad("definition", f"operator== disagrees with entrywise equality ({int(e)})")
    elif op == "v_eq":
        u, v = r.list(), r.list()
        if ex: bad("defined", "terminated the process"); return out
        e = len(u) == len(v) and all(x == y for x, y in zip(u, v))
        if o.int() != int(e): bad("definition", f"operator== disagrees with entrywise equality ({int(e)})")
    elif op == "sub_matrix":
        A = r.table(); i, j = r.int(), r.int(); m, n = shape(A)
        if guard(not (0 <= i < m and 0 <= j < n), f"Sub_Matrix({i},{j}) of a {m}x{n} matrix"): return out
        E = [[A[a][b] for b in range(n) if b != j] for a in range(m) if a != i]
        rr, cc, G = o.mat()
        if (rr, cc) != (m - 1, n - 1) or not meq(G, E): bad("definition", f"Sub_Matrix({i},{j}) is not the matrix without row {i} and column {j}")
    elif op in ("delete_row", "delete_column", "return_row", "return_column"):
        A = r.table(); i = r.int(); m, n = shape(A); lim = m if op.endswith("row") else n
        if guard(not (0 <= i < lim), f"{op}({i}) of a {m}x{n} matrix"): return out
        if op == "return_row": expect_vec(A[i], "definition")
        elif op == "return_column": expect_vec([row[i] for row in A], "definition")
        else:
            E = [row for a, row in enumerate(A) if a != i] if op == "delete_row" else [[x for b, x in enumerate(row) if b != i] for row in A]
            rr, cc, G = o.mat()
            if (rr, cc) != ((m - 1, n) if op == "delete_row" else (m, n - 1)) or not meq(G, E): bad("definition", f"{op}({i}) result wrong")
    elif op in ("m_at", "m_atc"):
        A = r.table(); i, j = r.int(), r.int()
        if guard(i >= len(A), f"M[{i}] of a matrix with {len(A)} rows"): return out
        if not feq(o.num(), A[i][j]): bad("definition", "M[i][j] is not the entry")
    elif op in ("v_at", "v_atc"):
        v = r.list(); i = r.int()
        if guard(not (0 <= i < len(v)), f"v[{i}] of a vector of size {len(v)}"): return out
        if not feq(o.num(), v[i]): bad("definition", "v[i] is not the component")
    elif op == "m_show":
        A = r.table()
        if ex: bad("defined", "terminated the process"); return out
        expect_mat(A, "state")
    elif op in ("v_print", "m_print"):
        # the text operator<< is defined to insert: "(" e_0 " , " e_1 ... ")"  resp. the rows between the corner / bar
        # characters, entries separated by tabs, rows by line ends; every entry exactly once and exactly (17 digits)
        if op == "v_print":
            v = r.list(); E = ["LP"]
            for i, x in enumerate(v): E += [x] + (["CM"] if i < len(v) - 1 else [])
            E.append("RP")
        else:
            A = r.table(); R_, C_ = shape(A); E = []
            for i in range(R_):
                E.append("LC" if i == 0 else "LF" if i == R_ - 1 else "BAR")
                for j in range(C_):
                    E.append(A[i][j])
                    E.append("TAB" if j < C_ - 1 else "RC" if i == 0 else "RF" if i == R_ - 1 else "BAR")
                if i < R_ - 1: E.append("NL")
        if ex: bad("defined", "printing terminated the process"); return out
        if o.t[o.i] != "P": bad("printout", "no printout"); return out
        o.i += 1; n = o.int(); G = o.t[o.i:o.i + n]; o.i += n
        if n != len(E): bad("printout-items", f"{n} items were inserted, the definition has {len(E)}: got {G[:12]}")
        else:
            for k, (g, e) in enumerate(zip(G, E)):
                if isinstance(e, str):
                    if g != e: bad("printout-structure", f"item {k} is {g}, the definition has {e}"); break
                else:
                    try: gv = tokf(g)
                    except Exception: gv = None
                    if gv is None or not feq(gv, e) or (gv == 0.0 and math.copysign(1.0, gv) != math.copysign(1.0, e)):
                        bad("printout-entries", f"item {k} is {g}, the entry there is {e!r}"); break
    elif op == "v_show":
        v = r.list()
        if ex: bad("defined", "terminated the process"); return out
        expect_vec(v, "state")
    elif op == "identity":
        n = r.int()
        if ex: bad("defined", "terminated the process"); return out
        rr, cc, G = o.mat()
        if (rr, cc) != (n, n) or not meq(G, [[1.0 if i == j else 0.0 for j in range(n)] for i in range(n)]): bad("definition", "Identity_Matrix is not the identity")
    elif op == "mat_diag":
        d = r.list(); n = len(d)
        if ex: bad("defined", "terminated the process"); return out
        rr, cc, G = o.mat()
        if (rr, cc) != (n, n) or not meq(G, [[d[i] if i == j else 0.0 for j in range(n)] for i in range(n)]): bad("definition", "diagonal constructor wrong")
    elif op == "mat_fill":
        a, b = r.int(), r.int(); e = r.num()
        if ex: bad("defined", "terminated the process"); return out
        rr, cc, G = o.mat()
        if (rr, cc) != (a, b) or not meq(G, [[e] * b for _ in range(a)]): bad("definition", "fill constructor wrong")
    elif op == "mat_ctor":
        A = r.table()
        if guard(len(set(len(row) for row in A)) > 1, "ragged table"): return out
        rr, cc, G = o.mat()
        if (rr, cc) != (shape(A) if A else (0, 0)) or not meq(G, A): bad("definition", "constructor does not reproduce the table")
    elif op in ("block", "blockm"):
        GR = r.int(); grid = []
        if op == "block":
            for _ in range(GR): grid.append([r.block() for _ in range(r.int())])
        else:
            for _ in range(GR):
                row = []
                for _ in range(r.int()): A = r.table(); row.append((len(A), len(A[0]), A))
                grid.append(row)
        # definition: a non-empty rectangular grid, all blocks of a grid row have the same number of rows,
        # blocks above one another the same number of columns
        valid = GR > 0 and len(grid[0]) > 0 and all(len(row) == len(grid[0]) for row in grid) and \
            all(b[0] == row[0][0] for row in grid for b in row) and \
            all(grid[R][C][1] == grid[R - 1][C][1] for R in range(1, GR) for C in range(len(grid[R])))
        if guard(not valid, "block grid with inconsistent dimensions"): return out
        br = [row[0][0] for row in grid]; bc = [b[1] for b in grid[0]]
        rr, cc, G = o.mat()
        if (rr, cc) != (sum(br), sum(bc)): bad("shape", f"block matrix is {rr}x{cc}, expected {sum(br)}x{sum(bc)}"); return out
        E = [[0.0] * cc for _ in range(rr)]
        for R, row in enumerate(grid):
            for C, b in enumerate(row):
                for i in range(b[0]):
                    for j in range(b[1]): E[sum(br[:R]) + i][sum(bc[:C]) + j] = b[2][i][j]
        if not meq(G, E):
            w = [(i, j) for i in range(rr) for j in range(cc) if not feq(G[i][j], E[i][j])][0]
            bad("offsets", f"block entries are not at their offsets: entry {w} of the result is {G[w[0]][w[1]]!r}, the block there has {E[w[0]][w[1]]!r}")
    return out
