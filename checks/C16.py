"""C16 — rotations and spherical coordinates."""
import functools
import math
from vcheck import Case, hx, flist, parse_vals

PID = "C16"
RULE = ("non-trivial = a 3-D rotation / axis-relative spherical-coordinate case whose axis is within 1e-6 of +-z "
        "(polar distance of the normalised axis) or has length outside [0.1,10], or a rotation with |alpha| > 2 pi, "
        "or axis-relative spherical coordinates with r outside [1e-3,1e3], "
        "or whose argument objects (axis, rotated vector, multiplied matrices) reach the call through a non-empty call history, "
        "or a history of at least two calls made in one pristine process (`seq`), or a product of at least two rotation matrices (`rotchain`, `chaindt`), "
        "or the library's Determinant() / Trace() of a matrix with at least three rows (`matdt`: the Laplace recursion is exercised); "
        "or the library's Inverse() / Invertible() / Orthogonal() / Transpose() / Norm() of a matrix with at least three rows (`matinv`, `matorth`: pivot search and elimination over at least three rows), `rotinv` as `rot`; "
        "guard requests (wrong dimension / axis size) count when they exit; distinct by case text")
LEVEL_TEXT = ("Theorems (Coq, over the reals, for every angle and every non-zero axis of any length): the 2-D and 3-D matrices returned by the "
              "model of Rotation_Matrix are orthogonal (R^T R = R R^T = 1, all entries), have determinant one, the 3-D rotation fixes the axis and its unit vector, "
              "maps every v perpendicular to the axis to cos(alpha) v + sin(alpha) (n x v) (and every v by Rodrigues' formula), "
              "R(alpha) R(beta) = R(alpha+beta) in 2-D and 3-D, and (R v) R = v with the library's own vector-times-matrix product; Spherical_Coordinates without axis is the textbook formula; with an axis every non-zero axis reaches "
              "exactly one of three branches whose formula is well defined (ev = +z, ev = -z, or aux <> 0 in the general branch that divides by aux), and for all r, theta, phi "
              "the result is r (sin(theta) cos(phi) e1 + sin(theta) sin(phi) e2 + cos(theta) ev) in an explicit right-handed orthonormal frame (e1, e2, ev) that depends on the axis only; "
              "hence norm r, component r cos(theta) along the axis, (ev x u) . du/dphi = r^2 sin^2(theta) >= 0 (derivative taken of the model's own result as a function of phi), "
              "R(alpha) u(phi) = u(phi + alpha) (the rotation and the azimuth turn the same way about the same axis), and the library's own Angle(u, axis) = Angle(axis, u) = theta for r > 0, theta in [0, pi]. "
              "Argument objects with a past: in the model an object is its component list; a history is a list of steps (writes, +=, -=, assignments of sums, scalings, Resize, Assign, Normalize, "
              "Cross, copies, and questions: Norm, Dot, Angle, reads, earlier Rotation_Matrix / Spherical_Coordinates calls with the object); theorems: questions leave the object alone, "
              "+= / -= give the value of the sum / difference, two objects of equal value give equal results whatever their histories, and a rotation / spherical coordinates about an object "
              "with any history are proper / of norm r at polar angle theta with respect to the value the object has at the call. "
              "Histories of calls in one process: the model of a run of calls (Rotation_Matrix 2-D / 3-D / default axis, both Spherical_Coordinates, Angle) is the list of the "
              "answers (the source keeps nothing between two calls); theorems: every call of a history gets the answer a process gets that makes this call only, a repeated call the same answer, "
              "every 3-D / 2-D rotation at any position is the proper right-handed rotation by its own angle, alpha / -alpha / alpha again gives R, R^T = R^-1, R, "
              "spherical coordinates at any position have norm r and polar angle theta. "
              "Products, lengths, whole turns, guards, Angle (C16_Proofs_Chain.v, C16_Proofs_Angle.v; unbounded statements): [rot_chain] is the model of P = Identity_Matrix(dim); P = P * Rotation_Matrix(alpha_k, dim, axis_k) "
              "for a list of factors; theorems by induction over that list: the product of ANY number of 3-D rotations about ANY non-zero axes is returned, proper orthogonal and an isometry (C16_rotation_chain_proper), "
              "any number of factors along one direction with different axis lengths - and any number of 2-D factors - give the rotation by the sum of the angles, R(alpha)^n = R(n alpha) for every n (C16_rotation_chain_adds_angles), "
              "a chain applied to a vector is its factors applied in turn (C16_rotation_chain_applies_factors); the matrix and the axis-relative spherical coordinates depend on the direction of the axis only "
              "(every positive multiple gives the same result, every negative multiple the transpose = the rotation by -alpha; C16_axis_direction_decides); alpha, theta, phi plus any integer number of whole turns give the same results "
              "(C16_whole_turns, for all k in Z); the default axis gives [[cos,-sin,0],[sin,cos,0],[0,0,1]] and trace R = 1 + 2 cos(alpha) (C16_rotation3_default_axis_and_trace); "
              "for EVERY number type, the doubles included: Rotation_Matrix returns exactly for dim = 2 and for dim = 3 with a 3-component axis (a dim x dim matrix) and ends the process otherwise, Angle returns exactly "
              "for equal dimensions, Spherical_Coordinates with an axis returns a 3-vector for >= 3 components and ends the process for fewer, except for a 2-component axis whose norm compares equal to zero (C16_guards); "
              "Angle for two non-zero vectors of ANY common dimension returns the angle in [0, pi] with cosine v1.v2 / (|v1| |v2|), symmetrically, the clamp of the source never acting over the reals "
              "(Cauchy-Schwarz for the library's Dot by induction over the components), Angle(v, v) = 0, Angle(v, -v) = pi (C16_angle_any_dimension); the library's own Angle(v, R v) = Angle(R v, v) = |alpha| for v perpendicular to the axis and alpha in [-pi, pi] "
              "(C16_rotation3_turns_by_alpha); by induction over the history of an axis OBJECT: an object that was only asked questions, copied, rescaled by positive factors, doubled by v += v and normalised, "
              "any number of times in any order, is a positive multiple of the vector it was constructed from and both functions answer as for that vector (C16_history_keeping_direction; generated as `direction-keeping` histories, "
              "whose answers S4 evaluates against the original vector as well).  These model functions are tied to the code by the new operations `rotchain` (the library's Identity_Matrix, operator* and Rotation_Matrix for 0 .. 24 factors, bit-identical, "
              "with S4 clauses: product orthogonal / determinant one, columns = factors applied in turn, product = rotation by the sum for factors about one direction and in 2-D) and `rotangle` (Angle(v, R v) against |alpha| modulo whole turns). "
              "The library's own observers (C16_Proofs_Det.v): [mdet] / [mtrace] mirror Matrix::Determinant() (recursive Laplace expansion along the first row through Sub_Matrix, sizes 1 and 2 special-cased) and Matrix::Trace(); "
              "theorems: Rotation_Matrix(alpha, 3, axis).Determinant() = 1 and .Trace() = 1 + 2 cos(alpha) for every non-zero axis, 1 and 2 cos(alpha) in 2-D; by induction over the factors, Determinant() of the product of ANY number of 3-D rotations about ANY non-zero axes is 1, "
              "Trace() of a product of factors along one direction is 1 + 2 cos(sum of the angles), and Determinant() = 1, Trace() = 2 cos(sum) for any number of 2-D factors (C16_determinant_and_trace_by_the_library); "
              "for EVERY number type and EVERY size n, by induction over the recursion depth: Determinant() returns (no exit, fuel never exhausted) for every well-formed n x n matrix, Trace() returns for rows = columns, both end the process exactly for rows <> columns (C16_determinant_trace_guards); "
              "a product of any number of rotations about one direction turns the axis-relative spherical vector of (r, theta, phi) into that of (r, theta, phi + sum of the angles) (C16_rotation_chain_turns_spherical_vector); "
              "the 2-D rotation turns every non-zero vector by alpha as measured by the library's Angle: Angle(v, R v) = Angle(R v, v) = |alpha| on [-pi, pi] (C16_rotation2_turns_by_alpha; a theorem only - the 2-D Angle is exercised by the `angle` cases, not by an operation of its own). "
              "Tied to the code by the operations `rotdt` (Determinant() and Trace() of one Rotation_Matrix, 2-D and 3-D, every kind of axis, guards), `chaindt` (of the library-built product of 0 .. 24 rotations) and `matdt` (of arbitrary rectangular matrices with 1 .. 6 rows: "
              "integer, Gaussian, sparse, badly scaled, singular; non-square shapes must end the process), bit-identical, with S4 clauses: Determinant() = 1 and Trace() = 1 + 2 cos / 2 cos to a-priori slack, Trace() of same-direction products against the sum of the angles, "
              "Determinant() against an exact rational determinant, Trace() against the exactly summed diagonal.  Seventh pass (C16_Model2.v, C16_Proofs_Inv.v, coverage/C16.md): Matrix::Inverse() (Gauss-Jordan elimination with partial pivoting on the augmented matrix, row swaps, the 'Matrix is singular' exit, normalisation, removal of the left half), "
              "Matrix::Invertible(), Matrix::Orthogonal() (Transpose() == Inverse() with operator==, an exact comparison), Matrix::Transpose() and Matrix::Norm() are now in the model line by line ([minverse], [minvertible], [morthogonal], [meqb], [mtranspose], [mnorm]) "
              "and tied to the code by the operations `rotinv` (Inverse(), Transpose(), Norm() of one Rotation_Matrix), `matinv` and `matorth` (arbitrary rectangular matrices of 1 .. 5 rows: integer, Gaussian, sparse, badly scaled, singular, signed permutations, embedded plane rotations; bit-identical), "
              "with S4 clauses: Inverse() of a rotation = Transpose() to 1024 eps, Transpose() = the rotation by -alpha, Norm() = sqrt(dim), Inverse() against the exact rational inverse with the a-priori forward-error bound 64 n^3 2^(n-1) kappa eps, Transpose() exactly, "
              "Invertible() against the exact determinant on small-integer matrices, Orthogonal() true on signed permutations and only on matrices with M^T M = 1 to that bound, non-square and singular requests end the process.  "
              "Theorems: for EVERY regular 2 x 2 real matrix, on both branches of the pivot search, Inverse() returns the adjugate over the determinant and it is the two-sided inverse under the library's product (C16_inverse_2x2_by_the_library); "
              "for the 2-D rotation and every angle Inverse() = Transpose() entry by entry, Invertible() and Orthogonal() answer true, Norm() = sqrt 2 (C16_rotation2_inverse_is_transpose_by_the_library); in 3-D, for every angle and non-zero axis, Transpose() is the two-sided inverse and the rotation by -alpha, "
              "Invertible() answers true, Norm() = sqrt 3 (C16_rotation3_transpose_norm_by_the_library); for EVERY number type and size: Inverse() ends the process / Invertible() and Orthogonal() answer false for rows <> columns and for a determinant that compares equal to zero, "
              "and Inverse() of a well-formed square matrix either returns or ends the process - never out of fuel (induction over the pivot loop; C16_inverse_guards).  "
              "T-tie: the brace-initialised entry lists of Rotation_Matrix (2-D, 3-D: all nine Rodrigues entries with cosa, sina, n1..n3) and of both Spherical_Coordinates (plain, antiparallel, the unit vector of the general branch) are translated from clang's AST of the current source on every run "
              "(tools/cxx2gallina_C16.py -> coq/Gen_C16_Formulas.v) and proved equal to the hand model for every number type by reflexivity (C16_generated_*_is_model): a changed sign / index / operand / operation order there is a broken proof obligation before any case runs.  "
              "NOT a theorem: that Inverse() returns the transpose for a 3-D rotation (the value of the Gauss-Jordan inverse is proved for 2 x 2 only; n >= 3 is correspondence + S4); the value of Determinant() for sizes above 3 is tested (matdt), not proved equal to the Leibniz determinant; "
              "the branch conditions of Spherical_Coordinates(.., axis), axis.Normalize() and r * unit_vector are hand-written (not generated). "
              "Not theorems: everything about rounding (orthogonality etc. 'to rounding', the behaviour near the poles in floating point, underflow of ev0^2+ev1^2, acos of a quotient an ulp above 1), "
              "and that the C++ objects carry no state beyond their components (the model has none by construction). "
              "Both are covered by the differential run of the extracted model against the library (bit-identical) - every Vector argument also as ONE live object taken through a generated "
              "history (questions before the last change of value, compound assignments, copies, resizes, earlier calls with the same object), every multiplied matrix through a value-preserving history, and runs of calls in ONE pristine process (the same |alpha| with both signs and again, repeated and nearly equal "
              "arguments, angles a period apart, 2-D / 3-D / default-axis entry points mixed, the same axis as one live object / as equal objects / negated / rescaled, interleaved with spherical-coordinate and Angle calls), "
              "each answer compared bit for bit with the answer of a fresh process to the same call - and by "
              "the S4 predicates on the library's output (orthogonality, determinant, fixed axis, Rodrigues image, composition, (R v) R = v, R(alpha) u(phi) = u(phi+alpha), plain formula, norm (also by the library's Norm()), "
              "polar cosine and sine - for radii of every magnitude, subnormal .. 1e307, also aimed at r / aux and r * aux near the overflow / underflow thresholds for axes tilted slightly from +-z, each clause evaluated on the scale of r -, the library's Angle, finite-difference handedness (ev x u(phi)).(u(phi+h)-u(phi)) = r^2 sin^2(theta) sin(h)) with a-priori rounding slack 64 eps, "
              "evaluated against the value the reference semantics of the history gives the object.")
LEVEL_NOTE = ("Coq 8.16.1 kernel, theorems over R with the standard library's sin, cos, sqrt, acos and Coquelicot's is_derive (axioms of the real numbers as printed by Print Assumptions); "
              "hand-written model tied by differential correspondence (extraction with ExtrOcamlBasic only); T-tie for the entry lists of Rotation_Matrix and Spherical_Coordinates: tools/cxx2gallina_C16.py (wrapping tools/cxx2gallina.py) regenerates coq/Gen_C16_Formulas.v from clang's AST before the proofs are rebuilt "
              "(Vector::operator[] with a literal index is a variable, the tokens 1.0 / 0.0 are n1 / n0); which parts of the code are modelled line by line, by specification or not at all: coverage/C16.md; std::hypot is a function argument of the model, instantiated with "
              "sqrt(x*x+y*y) in the theorems and with libm's hypot in the float instance; libm sin/cos/sqrt/hypot/acos are the same functions on both sides; "
              "the class invariant dimension = components.size() of Vector / Matrix (theorems of C04) lets an object be modelled by its component list")
TOL = (1e-13, 1e-300)
TRUSTED = ["tools/cxx2gallina_C16.py, tools/cxx2gallina.py and clang 14's JSON AST for the generated entry formulas (validated on every run: the generated terms are proved equal to the model that is run against the library)",
           "libm sin, cos, acos, hypot and IEEE sqrt are modelled by the real functions of the same name / by sqrt(x^2+y^2) (the S4 predicates assume each is accurate to about one ulp)"]
ASSUMPTIONS = ["Rotation_Matrix with a zero axis returns NaN entries and Spherical_Coordinates with a zero axis falls back to the plain formula: "
               "outside the property's quantifier (non-zero axes); both are still compared with the model"]

EPS = 2.0 ** -53
PI = math.pi


def regenerate():
    """T-tie: the entry formulas of Rotation_Matrix (2-D, 3-D) and of both Spherical_Coordinates are translated from clang's AST of the
    current source into coq/Gen_C16_Formulas.v; coq/C16_GenTie.v proves them equal to the hand model for every number type"""
    import os, vbuild, cxx2gallina, cxx2gallina_C16
    try:
        ch = cxx2gallina_C16.regenerate_c16(vbuild.REPO, os.path.join(vbuild.VERIF, "coq"))
    except cxx2gallina.Unsupported as e:
        raise RuntimeError(f"tools/cxx2gallina_C16.py cannot translate src/Linear_Algebra.cpp: {e}")
    return "Gen_C16_Formulas.v regenerated from the current source" if ch else ""


def _axes(rng, n_random):
    """(axis, tag) pairs aimed at the case splits: coordinate directions, near the poles, lengths 1e-6..1e6"""
    out = []
    lens = [1.0, 1e-6, 1e6, 0.1, 10.0, 3.0]
    for d in ([1, 0, 0], [-1, 0, 0], [0, 1, 0], [0, -1, 0], [0, 0, 1], [0, 0, -1]):
        for L in lens + [10 ** rng.uniform(-6, 6)]:
            out.append(([L * x for x in d], "axis-coordinate"))
    for L in (1.0, -1.0, 10 ** rng.uniform(-6, 5.7), -10 ** rng.uniform(-6, 5.7)):
        out.append(([L, L, L], "axis-diagonal"))
    for delta in (1e-12, 1e-9, 1e-7, 1e-5, 1e-3, 1e-15, 1e-17, 1e-160, 1e-170, 3e-8, 2e-6):
        for sgn in (1.0, -1.0):
            for _ in range(3):
                psi = rng.choice([0.0, PI / 2, PI, rng.uniform(0, 2 * PI), rng.uniform(0, 2 * PI)])
                L = rng.choice([1.0, 1.0, 10 ** rng.uniform(-6, 6)])
                out.append(([L * delta * math.cos(psi), L * delta * math.sin(psi), L * sgn], "axis-near-pole"))
    for _ in range(n_random):
        while True:
            d = [rng.gauss(0, 1) for _ in range(3)]
            if math.sqrt(sum(x * x for x in d)) > 1e-3: break
        if rng.random() < 0.15: d[rng.randrange(3)] = 0.0
        if d == [0.0, 0.0, 0.0]: d = [1.0, 2.0, 2.0]
        L = 10 ** rng.uniform(-6, 6) if rng.random() < 0.7 else 1.0
        nrm = math.sqrt(sum(x * x for x in d))
        out.append(([L * x / nrm for x in d], "axis-random"))
    return out


def _angle(rng):
    r = rng.random()
    if r < 0.2:
        return rng.choice([0.0, PI / 2, -PI / 2, PI, -PI, 2 * PI, -2 * PI, 4 * PI, -4 * PI, 3 * PI, PI / 4, 1e-9, -1e-9, 1e-300,
                           math.nextafter(PI, 4), math.nextafter(2 * PI, 0)])
    return rng.uniform(-4 * PI, 4 * PI)


def _theta(rng):
    r = rng.random()
    if r < 0.25:
        return rng.choice([0.0, PI, PI / 2, 1e-9, PI - 1e-9, 1e-5, PI - 1e-5, 1e-3, math.nextafter(PI, 0), 1e-300, PI / 3])
    return rng.uniform(0, PI)


def _phi(rng):
    r = rng.random()
    if r < 0.2:
        return rng.choice([0.0, PI / 2, PI, 3 * PI / 2, math.nextafter(2 * PI, 0), 1e-9, 1e-300])
    return rng.uniform(0, 2 * PI)


TINY = 5e-324          # the smallest subnormal, 2^-1074
RMAX = 1e307           # r (1 + a few eps) must stay finite: the property cannot hold "to rounding" above DBL_MAX / (1 + 64 eps)
_R_LADDER = [5e-324, 1e-320, 1e-310, 2.2250738585072014e-308, 1e-305, 1e-300, 1e-290, 1e-200, 1e-160, 1e-150, 1e-100, 1e-30, 1e-6,
             1e6, 1e30, 1e100, 1e150, 1e160, 1e200, 1e290, 1e295, 1e297, 1e300, 1e304, 3e304, 1e306, RMAX]


def _radius(rng, lo=-323.0, hi=307.0, p_extreme=0.3):
    """r > 0 of every magnitude: mostly moderate (1e-3..1e3), else a rung of a geometric ladder over the whole range of doubles
    (subnormal .. 1e307) or log-uniform over it; lo / hi (decimal exponents) bound it where the check itself calls Norm() / Angle() on the result"""
    if rng.random() >= p_extreme: return 10 ** rng.uniform(-3, 3)
    if rng.random() < 0.5:
        c = [x for x in _R_LADDER if 10.0 ** lo <= x <= 10.0 ** hi]
        return rng.choice(c) * rng.choice([1.0, 1.0, rng.uniform(0.5, 2.0)]) if c else 10 ** rng.uniform(lo, hi)
    x = 10 ** rng.uniform(lo, hi)
    return min(max(x, TINY), RMAX)


def _radius_for_axis(rng, axis):
    """radii aimed at the intermediates of the axis-relative formula: r / aux and r * aux (aux = sine of the tilt of the axis from +-z) on a
    geometric ladder around the overflow and underflow thresholds, as far as r itself stays in (0, 1e307]"""
    aux = _polar_distance(axis)
    out = []
    if 0.0 < aux < 1.0:
        for k in (-6, -3, -1, 0, 1, 2, 4, 8):
            for big in (True, False):
                x = (1.7e308 * aux * 10.0 ** k) if big else _div(2.3e-308 * 10.0 ** -k, aux)
                if TINY <= x <= RMAX and math.isfinite(x): out.append(x)
    return out


def _rtag(r):
    if r < 1e-290: return ("r-tiny",)
    if r > 1e290: return ("r-huge",)
    if not 1e-3 <= r <= 1e3: return ("r-extreme",)
    return ()


def _rtol(r):
    """tolerance of the differential comparison for a result of scale r: relative 1e-13, absolute 1e-300 r (and a few subnormal ulps)"""
    if 1e-3 <= r <= 1e3: return None
    return (1e-13, max(min(1e-300, 1e-300 * r), 64 * TINY))


def _perp(rng, n):
    """a vector perpendicular (to rounding) to the unit vector n"""
    while True:
        w = [rng.gauss(0, 1) for _ in range(3)]
        c = _cross(n, w)
        if math.sqrt(_dot(c, c)) > 0.1: break
    s = 10 ** rng.uniform(-3, 3)
    return [s * x for x in c]

# ---------------------------------------------------------------- call histories of the argument objects
# One step = a tuple (name, args...).  Grammar (harness/C16.cpp, ocaml/C16_driver.ml): after a Vector argument `k step_1 .. step_k`:
#   st i x | pa <list> | ma <list> | sa | ss | pl <list> | mi <list> | ms x | sm x | dv x | rs n | as n x | nz | nd | cx <list> | df
#   cp | eq | se                                         (copy-constructed replacement, assignment through other objects, self-assignment)
#   qn qN qz qp | qd qo qO qe qa qb qc <list> | qr i | qw i (const members / reads, result dropped)
#   cs r theta phi | cr alpha dim                        (earlier Spherical_Coordinates / Rotation_Matrix calls with this object)
# and for a Matrix: pa ma pl mi <table> | tr | ms sm dv x | rs p q | cp eq se | sw i j | qd qi qo qt qn qs qT qe qp qm qb | qr i | qc j | qv <list>
# Histories of CALLS: `seq p obj_1 .. obj_p m call_1 .. call_m` - the m calls are made one after the other in ONE process that has run nothing
# before; obj_i (lists) are live Vector objects that serve several calls.  call = rot alpha dim <vec> | rotdef alpha dim | sph r theta phi |
# spha r theta phi <vec> | angle <vec> <vec>;  <vec> = o i (object i) | l <list> (a temporary).  Output: m, the m answers inside the history,
# then the answer of a fresh process to each call alone (FRESH_<outcome> when that process does not answer).
class _Exit(Exception):
    pass


def _div(a, b):
    """IEEE division (python raises on a zero divisor)"""
    if b == 0.0:
        if a == 0.0 or math.isnan(a): return math.nan
        return math.copysign(math.inf, a) * math.copysign(1.0, b)
    return a / b


def _sdot(a, b):
    """Vector::Dot as the library sums it (left to right)"""
    r = 0.0
    for x, y in zip(a, b): r += x * y
    return r


_V_LIST = ("pa", "ma", "pl", "mi", "cx", "qd", "qo", "qO", "qe", "qa", "qb", "qc")
_V_NONE = ("sa", "ss", "nz", "nd", "df", "cp", "eq", "se", "qn", "qN", "qz", "qp")


def _vstep(v, st):
    """the value of the object after one step (reference semantics, IEEE doubles); _Exit where the library terminates"""
    k = st[0]; n = len(v)
    if k == "st":
        if st[1] >= n: raise _Exit
        return v[:st[1]] + [st[2]] + v[st[1] + 1:]
    if k in ("pa", "pl"):
        if len(st[1]) != n: raise _Exit
        return [a + b for a, b in zip(v, st[1])]
    if k in ("ma", "mi"):
        if len(st[1]) != n: raise _Exit
        return [a - b for a, b in zip(v, st[1])]
    if k == "sa": return [a + a for a in v]
    if k == "ss": return [a - a for a in v]
    if k in ("ms", "sm"): return [a * st[1] for a in v]
    if k == "dv": return [_div(a, st[1]) for a in v]
    if k == "rs": return v[:st[1]] + [0.0] * (st[1] - n)
    if k == "as": return [st[2]] * st[1]
    if k in ("nz", "nd"):
        nr = math.sqrt(_sdot(v, v)); return [_div(a, nr) for a in v]
    if k == "cx":
        if n != 3 or len(st[1]) != 3: raise _Exit
        return _cross(v, st[1])
    if k == "df": return [0.0, 0.0, 0.0]
    if k in ("cp", "eq", "se", "qn", "qN", "qz", "qp", "qe"): return v
    if k in ("qd", "qo", "qO", "qa", "qb"):
        if len(st[1]) != n: raise _Exit
        return v
    if k in ("qr", "qw"):
        if st[1] >= n: raise _Exit
        return v
    if k == "qc":
        if n != 3 or len(st[1]) != 3: raise _Exit
        return v
    if k == "cs":
        # ev[0], ev[1] are always read; ev[2] unless axis.Norm() == 0
        if n >= 3 or (n == 2 and math.sqrt(_sdot(v, v)) == 0.0): return v
        raise _Exit
    if k == "cr":
        if st[2] == 2 or (st[2] == 3 and n == 3): return v
        raise _Exit
    raise ValueError("unknown vector step " + str(k))


def _fmt_vstep(st):
    k = st[0]
    if k in _V_NONE: return k
    if k in _V_LIST: return f"{k} {flist(st[1])}"
    if k == "st": return f"st {st[1]} {hx(st[2])}"
    if k in ("ms", "sm", "dv"): return f"{k} {hx(st[1])}"
    if k == "rs": return f"rs {st[1]}"
    if k == "as": return f"as {st[1]} {hx(st[2])}"
    if k in ("qr", "qw"): return f"{k} {st[1]}"
    if k == "cs": return f"cs {hx(st[1])} {hx(st[2])} {hx(st[3])}"
    if k == "cr": return f"cr {hx(st[1])} {st[2]}"
    raise ValueError(k)


def _fmt_vhist(steps): return f"{len(steps)}" + "".join(" " + _fmt_vstep(st) for st in steps)


class _Cur:
    def __init__(self, line): self.t = parse_vals(line); self.i = 0
    def nxt(self):
        x = self.t[self.i]; self.i += 1; return x
    def num(self): return float(self.nxt())
    def int(self): return int(self.nxt())
    def lst(self): return [self.num() for _ in range(self.int())]
    def tab(self): return [self.lst() for _ in range(self.int())]


def _rd_vstep(cur):
    k = cur.nxt()
    if k in _V_NONE: return (k,)
    if k in _V_LIST: return (k, cur.lst())
    if k == "st": return (k, cur.int(), cur.num())
    if k in ("ms", "sm", "dv"): return (k, cur.num())
    if k == "rs": return (k, cur.int())
    if k == "as": return (k, cur.int(), cur.num())
    if k in ("qr", "qw"): return (k, cur.int())
    if k == "cs": return (k, cur.num(), cur.num(), cur.num())
    if k == "cr": return (k, cur.num(), cur.int())
    raise ValueError("unknown vector step " + str(k))


_M_TAB = ("pa", "ma", "pl", "mi")
_M_NONE = ("tr", "cp", "eq", "se", "qd", "qi", "qo", "qt", "qn", "qs", "qT", "qe", "qp", "qm", "qb")


def _rd_mstep(cur):
    k = cur.nxt()
    if k in _M_NONE: return (k,)
    if k in _M_TAB: return (k, cur.tab())
    if k in ("ms", "sm", "dv"): return (k, cur.num())
    if k in ("rs", "sw"): return (k, cur.int(), cur.int())
    if k in ("qr", "qc"): return (k, cur.int())
    if k == "qv": return (k, cur.lst())
    raise ValueError("unknown matrix step " + str(k))


def _fmt_tab(Z): return f"{len(Z)} " + " ".join(flist(r) for r in Z)


def _fmt_mstep(st):
    k = st[0]
    if k in _M_NONE: return k
    if k in _M_TAB: return f"{k} {_fmt_tab(st[1])}"
    if k in ("ms", "sm", "dv"): return f"{k} {hx(st[1])}"
    if k in ("rs", "sw"): return f"{k} {st[1]} {st[2]}"
    if k in ("qr", "qc"): return f"{k} {st[1]}"
    if k == "qv": return f"qv {flist(st[1])}"
    raise ValueError(k)


def _fmt_mhist(steps): return f"{len(steps)}" + "".join(" " + _fmt_mstep(st) for st in steps)


def _maxabs(M): return max([abs(x) for r in M for x in r] + [0.0])


def _mhist_effect(M, steps):
    """(matrix after the history, a-priori bound on the rounding the history adds to an entry): every + - * / rounds its result
    by at most EPS |result|; a scaling scales the error made before it"""
    extra = 0.0
    for st in steps:
        k = st[0]
        if k in ("pa", "pl", "ma", "mi"):
            Z = st[1]
            if len(Z) != len(M) or (Z and M and len(Z[0]) != len(M[0])): raise _Exit
            sg = 1.0 if k in ("pa", "pl") else -1.0
            M = [[a + sg * b for a, b in zip(ra, rb)] for ra, rb in zip(M, Z)]
            extra += EPS * _maxabs(M)
        elif k == "tr":
            M = [list(col) for col in zip(*M)]
        elif k in ("ms", "sm"):
            M = [[st[1] * a for a in r] for r in M]; extra = extra * abs(st[1]) + EPS * _maxabs(M)
        elif k == "dv":
            M = [[_div(a, st[1]) for a in r] for r in M]; extra = _div(extra, abs(st[1])) + EPS * _maxabs(M)
        elif k == "rs":
            p, q = st[1], st[2]
            M = [(r[:q] + [0.0] * (q - len(r))) for r in (M[:p] + [[] for _ in range(p - len(M))])]
    return M, extra


@functools.lru_cache(maxsize=8)
def _decode(line):
    """the request as the reference sees it: the operation, its scalar arguments, the VALUE of every Vector argument after its history
    ('exit': the history itself is a request the library refuses), the histories of the multiplied matrices"""
    cur = _Cur(line); op = cur.nxt(); hist = False
    if op == "hist": hist = True; op = cur.nxt()
    d = {"op": op, "hist": hist, "exit": False, "nsteps": 0}

    def history(v):
        if not hist: return v
        k = cur.int(); d["nsteps"] += k
        for _ in range(k): v = _vstep(v, _rd_vstep(cur))
        return v

    def vec(): return history(cur.lst())
    def vec3(): return history([cur.num(), cur.num(), cur.num()])

    def mh():
        if not hist: return ()
        k = cur.int(); d["nsteps"] += k
        return tuple(_rd_mstep(cur) for _ in range(k))
    if op == "seq":
        pool = [cur.lst() for _ in range(cur.int())]; calls = []

        def ref():
            k = cur.nxt()
            if k == "o": i = cur.int(); return list(pool[i]), ("o", i)
            return cur.lst(), ("l",)
        for _ in range(cur.int()):
            k = cur.nxt(); c = {"k": k}
            if k == "rot": c.update(alpha=cur.num(), dim=cur.int()); c["axis"], c["ref"] = ref()
            elif k == "rotdef": c.update(alpha=cur.num(), dim=cur.int(), axis=[0.0, 0.0, 1.0])
            elif k == "sph": c.update(r=cur.num(), theta=cur.num(), phi=cur.num())
            elif k == "spha": c.update(r=cur.num(), theta=cur.num(), phi=cur.num()); c["axis"], c["ref"] = ref()
            elif k == "angle": c["a"], _ = ref(); c["b"], _ = ref()
            else: raise ValueError("unknown call " + str(k))
            calls.append(c)
        d.update(pool=pool, calls=calls)
        return d
    try:
        if op == "rot": d.update(alpha=cur.num(), dim=cur.int()); d["axis"] = vec()
        elif op == "rotdef": d.update(alpha=cur.num(), dim=cur.int(), axis=[0.0, 0.0, 1.0])
        elif op == "rotcomp": d.update(a=cur.num(), b=cur.num()); d["axis"] = vec3(); d["mha"] = mh(); d["mhb"] = mh()
        elif op in ("rotapply", "rotback"): d.update(alpha=cur.num()); d["axis"] = vec3(); d["v"] = vec3(); d["mh"] = mh()
        elif op == "sph": d.update(r=cur.num(), theta=cur.num(), phi=cur.num())
        elif op in ("spha", "sphang"): d.update(r=cur.num(), theta=cur.num(), phi=cur.num()); d["axis"] = vec()
        elif op == "sphad": d.update(r=cur.num(), theta=cur.num(), phi=cur.num(), h=cur.num()); d["axis"] = vec3()
        elif op == "sphrot":
            d.update(r=cur.num(), theta=cur.num(), phi=cur.num(), alpha=cur.num()); d["axis"] = vec3()
            d["usteps"] = tuple(_rd_vstep(cur) for _ in range(cur.int())) if hist else ()
            d["nsteps"] += len(d["usteps"])
        elif op == "rotaxis": d.update(alpha=cur.num()); d["axis"] = vec3(); d["mh"] = mh()
        elif op == "rotsph": d.update(alpha=cur.num(), r=cur.num(), theta=cur.num(), phi=cur.num()); d["axis"] = vec3(); d["mh"] = mh()
        elif op in ("angle", "cross"): d["a"] = vec(); d["b"] = vec()
        elif op == "rotchain":
            d.update(dim=cur.int()); n = cur.int(); d["factors"] = [(cur.num(), cur.lst()) for _ in range(n)]
        elif op == "rotangle": d.update(alpha=cur.num()); d["axis"] = vec3(); d["v"] = vec3()
        elif op == "rotdt": d.update(alpha=cur.num(), dim=cur.int()); d["axis"] = cur.lst()
        elif op == "chaindt":
            d.update(dim=cur.int()); n = cur.int(); d["factors"] = [(cur.num(), cur.lst()) for _ in range(n)]
        elif op == "matdt": d["M"] = [cur.lst() for _ in range(cur.int())]
        elif op in ("matinv", "matorth"): d["M"] = [cur.lst() for _ in range(cur.int())]
        elif op == "rotinv": d.update(alpha=cur.num(), dim=cur.int()); d["axis"] = cur.lst()
    except _Exit:
        d["exit"] = True
    return d


# ---- generators of histories
def _scale_of(v):
    m = max([abs(x) for x in v if math.isfinite(x)] + [0.0])
    return m if 1e-200 < m < 1e200 else 1.0


def _other(rng, v, n=None):
    """a second operand of the size of v (or n) and of comparable magnitude"""
    n = len(v) if n is None else n
    sc = _scale_of(v) * rng.choice([1.0, 1.0, 0.1, 10.0, 1e-3, 1e3])
    return [rng.choice([rng.gauss(0, 1), rng.gauss(0, 1), float(rng.randint(-3, 3))]) * sc for _ in range(n)]


_REL = []      # the angles of the call a history is generated for (set by _hist_cases): earlier calls with the object re-use them, with either sign


def _rel_angle(rng):
    if _REL and rng.random() < 0.6: return rng.choice(_REL)
    return _angle(rng)


def _question(rng, v):
    """a step that leaves the value alone: const members, reads, copies, earlier calls of the property's own functions"""
    n = len(v)
    pool = ["qn", "qn", "qN", "qN", "qa", "qb", "qd", "qo", "qO", "qe", "qz", "qp", "cp", "cp", "eq", "se", "cr2"]
    if n >= 1: pool += ["qr", "qw", "qw"]
    if n == 3: pool += ["qc", "cr3", "cr3", "cr3"]
    if n >= 3: pool += ["cs", "cs", "cs"]
    k = rng.choice(pool)
    if k in ("qa", "qb", "qd", "qo", "qO", "qe", "qc"): return (k, _other(rng, v))
    if k in ("qr", "qw"): return (k, rng.randrange(n))
    if k == "cs": return ("cs", _radius(rng), _theta(rng), _phi(rng))
    if k == "cr2": return ("cr", _rel_angle(rng), 2)
    if k == "cr3": return ("cr", _rel_angle(rng), 3)
    return (k,)


def _change(rng, v):
    """a step that changes the object in place or assigns a new value to it"""
    n = len(v)
    pool = ["pa", "pa", "pa", "ma", "ma", "ma", "pl", "mi", "sa", "ms", "sm", "dv", "rs", "as", "df"]
    if n >= 1: pool += ["st", "st", "st"]
    if n == 3: pool += ["cx"]
    nr = math.sqrt(_sdot(v, v)) if all(math.isfinite(x) for x in v) else 0.0
    if 1e-150 < nr < 1e150: pool += ["nz", "nz", "nd"]
    if rng.random() < 0.05: pool += ["ss"]
    k = rng.choice(pool)
    if k in ("pa", "ma", "pl", "mi", "cx"): return (k, _other(rng, v))
    if k == "st": return ("st", rng.randrange(n), rng.gauss(0, 1) * _scale_of(v))
    if k in ("ms", "sm", "dv"): return (k, rng.choice([2.0, 0.5, -1.0, 3.0, 1e3, 1e-3, rng.uniform(0.1, 10.0), -rng.uniform(0.1, 10.0)]))
    if k == "rs": return ("rs", rng.choice([3, 3, 2, 4, 5, 1, 6]))
    if k == "as": return ("as", rng.choice([3, 3, 2, 4, 5]), rng.gauss(0, 1) * _scale_of(v))
    return (k,)


def _arrive(rng, v, goal):
    """steps that take the 3-component object v to (within rounding of) goal, by compound assignment, by assignment of a sum, or by writes"""
    k = rng.choice(["pa", "pa", "pa", "ma", "ma", "ma", "pl", "mi", "st", "st"])
    if k in ("pa", "pl"): return [(k, [g - x for g, x in zip(goal, v)])]
    if k in ("ma", "mi"): return [(k, [x - g for g, x in zip(goal, v)])]
    order = [0, 1, 2]; rng.shuffle(order)
    return [("st", i, goal[i]) for i in order]


def _steer(rng, v, target):
    """the last value-changing steps of a history: whatever the object was, it ends (within rounding) at target.  Questions are
    slipped in between the steps, so that each kind of step is, in some case, the only change after the object was last asked"""
    steps = []

    def run(sts):
        nonlocal v
        for st in sts:
            v = _vstep(v, st); steps.append(st)
            if rng.random() < 0.35:
                q = _question(rng, v); v = _vstep(v, q); steps.append(q)
    if len(v) != 3 or not all(math.isfinite(x) and abs(x) < 1e150 for x in v):
        run([rng.choice([("rs", 3), ("as", 3, rng.gauss(0, 1)), ("df",)])])
        if not all(math.isfinite(x) and abs(x) < 1e150 for x in v): run([("as", 3, rng.gauss(0, 1))])
    L = math.sqrt(_dot(target, target))
    ways = ["direct", "direct", "direct", "direct", "scale", "divide", "double", "resize", "cross"]
    if abs(L - 1.0) < 1e-12: ways += ["normalize", "normalize"]
    if target[0] == target[1] == target[2]: ways += ["assign"] * 4
    how = rng.choice(ways)
    if how == "direct": run(_arrive(rng, v, target))
    elif how == "scale":
        s = rng.choice([2.0, 0.5, -1.0, 3.0, 1e3, 1e-3, rng.uniform(0.1, 10.0)])
        run(_arrive(rng, v, [_div(t, s) for t in target])); run([(rng.choice(["ms", "sm"]), s)])
    elif how == "divide":
        s = rng.choice([2.0, 0.5, -1.0, 3.0, 1e3, 1e-3, rng.uniform(0.1, 10.0)])
        run(_arrive(rng, v, [t * s for t in target])); run([("dv", s)])
    elif how == "double":
        run(_arrive(rng, v, [t / 2 for t in target])); run([("sa",)])
    elif how == "resize":
        run([("rs", 5), ("st", 3, rng.gauss(0, 1) * L), ("st", 4, rng.gauss(0, 1) * L)])
        w = [g - x for g, x in zip(target, v)] + [rng.gauss(0, 1) * L, rng.gauss(0, 1) * L]
        run([(rng.choice(["pa", "pl"]), w), ("rs", 3)])
    elif how == "cross":
        # p x ((t x p) / p.p) = t for p perpendicular to t
        pp = _perp(rng, [x / L for x in target]); q = _cross(target, pp); d = _dot(pp, pp)
        run(_arrive(rng, v, pp)); run([("cx", [x / d for x in q])])
    elif how == "normalize":
        s = 10 ** rng.uniform(-3, 3)
        run(_arrive(rng, v, [t * s for t in target])); run([(rng.choice(["nz", "nd"]),)])
    else:
        run([("as", 3, target[0])])
    return steps, v


def _valid_axis(v):
    if len(v) != 3 or not all(math.isfinite(x) for x in v): return False
    L = math.sqrt(_dot(v, v))
    return 0.999e-6 <= L <= 1.001e6


def _vhist(rng, target=None, accept=_valid_axis, three=False):
    """(start, steps, final value): an object constructed from `start` whose history ends at `target` (within rounding), or, without a
    target, wherever the random history leads (accepted when it is an argument inside the property's quantifier)"""
    for _ in range(40):
        n0 = 3 if three else rng.choice([3, 3, 3, 3, 3, 2, 4, 5, 1])      # three: the harness constructs Vector({a, b, c})
        sc = _scale_of(target) if target is not None else 10 ** rng.uniform(-3, 3)
        if target is not None and rng.random() < 0.3: start = list(target) if n0 == 3 else (list(target) + [1.0, 2.0])[:n0]
        else: start = [rng.choice([rng.gauss(0, 1), 0.0, 1.0]) * sc for _ in range(n0)]
        if n0 == 3 and rng.random() < 0.25: start = rng.choice([[0.0, 0.0, sc], [0.0, 0.0, -sc], [sc, 0.0, 0.0], [0.0, sc, 0.0]])
        v = list(start); steps = []
        try:
            for _ in range(rng.choice([0, 1, 1, 2, 2, 3, 5])):
                st = _question(rng, v) if rng.random() < 0.6 else _change(rng, v)
                v = _vstep(v, st); steps.append(st)
            if target is not None:
                # at least one question before the last change of value: what the object knew about itself is then out of date
                if rng.random() < 0.8 and len(v) >= 1:
                    for _ in range(rng.choice([1, 1, 2])):
                        st = _question(rng, v); v = _vstep(v, st); steps.append(st)
                sts, v = _steer(rng, v, list(target)); steps += sts
            for _ in range(rng.choice([0, 0, 0, 1, 2])):
                st = _question(rng, v); v = _vstep(v, st); steps.append(st)
        except _Exit:
            continue
        if accept(v) and (target is None or all(abs(a - b) <= 1e-9 * max(_scale_of(target), 1e-300) for a, b in zip(v, target))):
            return start, steps, v
    t = list(target) if target is not None else [1.0, 2.0, 2.0]
    return t, [], t


def _mhist(rng, n=3):
    """a history of a returned n x n rotation matrix that leaves its value alone (up to the rounding of += Z ... -= Z):
    copies, assignments, writes of an entry's own value, questions, balanced pairs of changes"""
    def questions(square=True):
        out = []
        for _ in range(rng.choice([0, 0, 1, 1, 2])):
            k = rng.choice(["qd", "qd", "qo", "qt", "qn", "qs", "qT", "qe", "qp", "qm", "qb", "qr", "qc", "qv", "cp", "eq", "se", "sw"])
            if k in ("qr", "qc"): out.append((k, rng.randrange(n)))
            elif k == "qv": out.append((k, [rng.gauss(0, 1) for _ in range(n)]))
            elif k == "sw": out.append((k, rng.randrange(n), rng.randrange(n)))
            else: out.append((k,))
        return out
    steps = []
    for _ in range(rng.choice([1, 1, 2, 3])):
        b = rng.choice(["q", "q", "inv", "addsub", "addsub", "subadd", "plmi", "trtr", "scale", "resize", "copy"])
        if b == "q": steps += questions() or [("qd",)]
        elif b == "inv": steps += [("qi",)]
        elif b in ("addsub", "subadd", "plmi"):
            Z = [[rng.choice([rng.uniform(-1, 1), rng.uniform(-1, 1), float(rng.randint(-2, 2)), 0.0]) for _ in range(n)] for _ in range(n)]
            a, m = {"addsub": ("pa", "ma"), "subadd": ("ma", "pa"), "plmi": ("pl", "mi")}[b]
            steps += [(a, Z)] + questions() + [(m, Z)]
        elif b == "trtr": steps += [("tr",)] + questions() + [("tr",)]
        elif b == "scale":
            x = rng.choice([2.0, 0.5, -1.0, 4.0, 1.0])
            steps += rng.choice([[("ms", x), ("dv", x)], [("sm", x), ("dv", x)], [("dv", x), ("ms", x)]])
        elif b == "resize": steps += rng.choice([[("rs", n, n)], [("rs", n + 1, n + 2), ("rs", n, n)], [("rs", n, n + 1), ("qT",), ("rs", n, n)]])
        else: steps += [(rng.choice(["cp", "eq", "se"]),), ("sw", rng.randrange(n), rng.randrange(n))]
    return steps


def _v3(v): return " ".join(hx(x) for x in v)


def _hist_cases(rng, axis, tag, kinds):
    """requests whose argument objects have a past; the value each object has when the call sees it is the reference's business"""
    cs = []

    def obj(target, three):
        if rng.random() < 0.15: return _vhist(rng, None, three=three)
        return _vhist(rng, target, three=three)
    for kind in kinds:
        # the angle of the call comes first: the earlier Rotation_Matrix calls in the histories of its argument objects use it too (same |alpha|, both signs, repeated)
        alpha = _angle(rng); beta = _angle(rng)
        if abs(alpha + beta) > 4 * PI: beta = -beta      # the composed angle stays in the quantified range
        _REL[:] = [alpha, -alpha, alpha, -alpha, beta, -beta] if kind.startswith("rot") or kind == "sphrot" else []
        try: cs += _hist_case(rng, axis, tag, kind, alpha, beta, obj)
        finally: _REL[:] = []
    return cs


def _hist_case(rng, axis, tag, kind, alpha, beta, obj):
    cs = []
    st, hs, fin = obj(axis, kind not in ("rot", "spha", "sphang"))
    nrm = math.sqrt(_dot(fin, fin)); n = [x / nrm for x in fin]
    tags = (kind, tag, "history")
    if kind == "rot":
        cs.append(Case(f"hist rot {hx(alpha)} 3 {flist(st)} {_fmt_vhist(hs)}", tags))
    elif kind == "rotcomp":
        a, b = alpha, beta
        cs.append(Case(f"hist rotcomp {hx(a)} {hx(b)} {_v3(st)} {_fmt_vhist(hs)} {_fmt_mhist(_mhist(rng))} {_fmt_mhist(_mhist(rng))}", tags))
    elif kind in ("rotapply", "rotback"):
        v = _perp(rng, n) if rng.random() < 0.7 else [rng.gauss(0, 1) for _ in range(3)]
        vs, vh, vf = _vhist(rng, v, accept=lambda w: len(w) == 3 and all(math.isfinite(x) for x in w), three=True)
        cs.append(Case(f"hist {kind} {hx(alpha)} {_v3(st)} {_fmt_vhist(hs)} {_v3(vs)} {_fmt_vhist(vh)} {_fmt_mhist(_mhist(rng))}", tags))
    elif kind == "rotaxis":
        cs.append(Case(f"hist rotaxis {hx(alpha)} {_v3(st)} {_fmt_vhist(hs)} {_fmt_mhist(_mhist(rng))}", tags))
    elif kind == "rotsph":
        r = _radius(rng)
        cs.append(Case(f"hist rotsph {hx(alpha)} {hx(r)} {hx(_theta(rng))} {hx(_phi(rng))} {_v3(st)} {_fmt_vhist(hs)} {_fmt_mhist(_mhist(rng))}", tags + _rtag(r), tol=_rtol(r)))
    elif kind == "sphrot":
        r = 10 ** rng.uniform(-3, 3); th = _theta(rng); ph = _phi(rng)
        # the returned vector is asked, changed by moderate amounts and asked again before it serves as an axis
        u = [r * x for x in n]; us = []
        for _ in range(rng.choice([0, 1, 2, 3])):
            q = _question(rng, u) if rng.random() < 0.6 else rng.choice([("pa", _other(rng, u)), ("ma", _other(rng, u)), ("sa",), ("ms", 2.0), ("st", rng.randrange(3), r * rng.gauss(0, 1))])
            us.append(q)
        cs.append(Case(f"hist sphrot {hx(r)} {hx(th)} {hx(ph)} {hx(alpha)} {_v3(st)} {_fmt_vhist(hs)} {_fmt_vhist(us)}", tags))
    elif kind in ("spha", "sphang"):
        r = _radius(rng) if kind == "spha" else _radius(rng, -140.0, 140.0)
        cs.append(Case(f"hist {kind} {hx(r)} {hx(_theta(rng))} {hx(_phi(rng))} {flist(st)} {_fmt_vhist(hs)}", tags + _rtag(r), tol=_rtol(r)))
    elif kind == "sphad":
        r = _radius(rng)
        h = rng.choice([1e-3, 1e-2, 0.1, 0.5, 1.0, rng.uniform(1e-3, 1.5)])
        cs.append(Case(f"hist sphad {hx(r)} {hx(_theta(rng))} {hx(_phi(rng))} {hx(h)} {_v3(st)} {_fmt_vhist(hs)}", tags + _rtag(r), tol=_rtol(r)))
    return cs


def _angle_pairs(rng, n):
    """pairs of 3-vectors for Angle: generic, perpendicular, and at a geometric ladder of distances from parallel and antiparallel"""
    out = []
    for _ in range(n):
        a = [rng.gauss(0, 1) for _ in range(3)]
        if rng.random() < 0.2: a[rng.randrange(3)] = 0.0
        if not any(a): a = [1.0, 2.0, 2.0]
        La, Lb = (10 ** rng.uniform(-6, 6) for _ in range(2))
        na = math.sqrt(_dot(a, a)); a = [La * x / na for x in a]
        k = rng.random()
        if k < 0.3: b = [rng.gauss(0, 1) for _ in range(3)]; tag = "angle-generic"
        elif k < 0.4: b = _perp(rng, [x / La for x in a]); tag = "angle-perpendicular"
        elif k < 0.55: b = [x * rng.choice([1.0, 2.0, 0.5, 3.0, -1.0, -2.0, -0.3]) for x in a]; tag = "angle-parallel"
        else:
            d = 10 ** rng.uniform(-17, -1) if rng.random() < 0.7 else rng.choice([1e-16, 1e-12, 1e-9, 1e-8, 3e-8, 1e-7, 1e-6, 1e-3])
            p = _perp(rng, [x / La for x in a]); npn = math.sqrt(_dot(p, p)); sg = rng.choice([1.0, -1.0])
            b = [sg * x / La + d * y / npn for x, y in zip(a, p)]; tag = "angle-near-parallel"
        nb = math.sqrt(_dot(b, b)); b = [Lb * x / nb for x in b]
        out.append((a, b, tag))
    return out


# ---------------------------------------------------------------- histories of calls in one process (`seq`)
def _near(rng, x):
    """a neighbour of x on a geometric ladder of distances: 1 .. 1000 ulp, or a relative distance 1e-16 .. 1e-6"""
    if x == 0.0: return rng.choice([5e-324, 1e-300, 1e-16, 1e-9])
    if rng.random() < 0.4:
        y = x
        for _ in range(rng.choice([1, 1, 2, 3, 10, 100, 1000])): y = math.nextafter(y, rng.choice([-math.inf, math.inf]))
        return y
    return x * (1.0 + rng.choice([-1.0, 1.0]) * 10 ** rng.uniform(-16, -6))


def _in_range(x, lo, hi, period):
    while x > hi: x -= period
    while x < lo: x += period
    return min(max(x, lo), hi)


def _angle_motif(rng):
    """a run of rotation angles in [-4pi, 4pi] that a memory of earlier calls (last angle, last |angle|, last sine / cosine, reduced angle, a table keyed by
    the angle ...) would confuse: the same angle again, both signs back and forth, a period or half a period apart, supplementary, nearly equal,
    larger then smaller, two angles interleaved, zeros of either sign"""
    a = _angle(rng)
    if a == 0.0 or rng.random() < 0.3: a = rng.choice([-1.0, 1.0]) * rng.choice([0.7, 2.5, 4.0, PI / 3, PI / 2, PI, 3.0, 1e-3, 7.0, 11.0, rng.uniform(0.01, 4 * PI)])
    b = _angle(rng)
    W = lambda x: _in_range(x, -4 * PI, 4 * PI, 2 * PI)
    m = rng.choice(["repeat", "flip", "flip", "flip", "flip2", "flip3", "fliplong", "period", "half", "suppl", "near", "nearflip", "scale", "pair", "pairflip",
                    "pairflip2", "zero", "walk"])
    if m == "repeat": return [a] * rng.choice([2, 3, 4]), m
    if m == "flip": return [a, -a, a], m
    if m == "flip2": return [a, -a, -a], m
    if m == "flip3": return [-a, a, a, -a], m
    if m == "fliplong": return [a, -a, a, -a, a, a, -a], m
    if m == "period": return [a, W(a + 2 * PI), a, W(a - 2 * PI), W(a + 4 * PI), a], m
    if m == "half": return [a, W(a + PI), a, W(a - PI), -a], m
    if m == "suppl": return [a, PI - a if abs(PI - a) <= 4 * PI else a, a, -(PI - a) if abs(PI - a) <= 4 * PI else -a], m
    if m == "near": x = _near(rng, a); return [a, x, a, _near(rng, a), x], m
    if m == "nearflip": x = _near(rng, a); return [a, -x, a, x, -a], m
    if m == "scale": return [a, a / 2, a, W(2 * a), a / 2, -a], m
    if m == "pair": return [a, b, a, b], m
    if m == "pairflip": return [a, b, -a, -b, a], m
    if m == "pairflip2": return [a, -a, b, -b, a, -b], m
    if m == "zero": return [a, 0.0, -a, -0.0, a, 0.0], m
    xs = [a]
    for _ in range(rng.choice([3, 5, 7])):
        x = xs[-1]; xs.append(rng.choice([x, -x, -x, a, -a, _near(rng, x), W(x + 2 * PI), W(x + PI), x / 2, b]))
    return xs, m


def _seq_case(rng, axis, atag):
    """one history of calls; `axis` (from _axes: coordinate directions, near the poles, every length) is the axis most calls turn about"""
    A = list(axis); L = math.sqrt(_dot(A, A)); n = [x / L for x in A]
    Bv = rng.choice([[0.0, 0.0, 1.0], [0.0, 0.0, -1.0], [1.0, 0.0, 0.0], _perp(rng, n), [rng.gauss(0, 1) for _ in range(3)] ])
    if not any(Bv): Bv = [1.0, 2.0, 2.0]
    u = [rng.gauss(0, 1) * 10 ** rng.uniform(-3, 3) for _ in range(3)]
    kf = rng.choice([2.0, -1.0, 0.5])
    v = rng.choice([_perp(rng, _unit(u)), [x * kf for x in u], [rng.gauss(0, 1) for _ in range(3)], A])
    if not any(u): u = [1.0, 0.0, 0.0]
    if not any(v): v = [0.0, 1.0, 0.0]
    pool = [A, list(A), Bv, u, v]          # objects 0 and 1: two objects of equal value
    neg = lambda w: [-x for x in w]
    sc = lambda w, k: [k * x for x in w]

    def vecref(w, obj=None):
        """the Vector argument w as a temporary or (when it is the value of a live object) as that object"""
        if obj is not None and rng.random() < 0.6: return f"o {obj}"
        return "l " + flist(w)
    threads = []; tags = set(); radii = []
    # ---- Rotation_Matrix threads
    for t in range(rng.choice([1, 1, 1, 1, 2, 0])):
        angles, m = _angle_motif(rng); tags.add("seq-angles-" + m)
        style = rng.choice(["same", "same", "same", "entries", "axes", "objects"])
        fixed = rng.choice(["r2", "r3A", "r3A", "r3A", "r3o", "rd3", "rd2", "r3z"])
        th = []
        for a in angles:
            k = fixed if style == "same" else rng.choice({"entries": ["r2", "rd2", "rd3", "r3z", "r3A", "r2ax"], "axes": ["r3A", "r3A", "r3-A", "r3kA", "r3B", "r3o"],
                                                          "objects": ["r3o", "r3o2", "r3A", "r3o"]}[style])
            if k == "r2": th.append(f"rot {hx(a)} 2 l 0")
            elif k == "r2ax": th.append(f"rot {hx(a)} 2 {vecref(A, 0)}")
            elif k == "rd2": th.append(f"rotdef {hx(a)} 2")
            elif k == "rd3": th.append(f"rotdef {hx(a)} 3")
            elif k == "r3z": th.append(f"rot {hx(a)} 3 l {flist([0.0, 0.0, rng.choice([1.0, 1.0, 2.0, L])])}")
            elif k == "r3A": th.append(f"rot {hx(a)} 3 l {flist(A)}")
            elif k == "r3o": th.append(f"rot {hx(a)} 3 o 0")
            elif k == "r3o2": th.append(f"rot {hx(a)} 3 o 1")
            elif k == "r3-A": th.append(f"rot {hx(a)} 3 l {flist(neg(A))}")
            elif k == "r3kA": th.append(f"rot {hx(a)} 3 l {flist(sc(A, rng.choice([2.0, 0.5, 3.0, 1e3, 1e-3])))}")
            else: th.append(f"rot {hx(a)} 3 {vecref(Bv, 2)}")
        threads.append(th); tags.add("seq-rot-" + style)
    # ---- Spherical_Coordinates threads: the same request again, r / theta / phi changed alone, reflected, nearly equal; with and without axis
    for t in range(rng.choice([0, 1, 1, 2])):
        r = _radius(rng); th0 = _theta(rng); ph0 = _phi(rng); radii.append(r); tags.update(_rtag(r))
        D = lambda x: min(2 * x, RMAX)
        if threads and threads[0][0].startswith("rot") and rng.random() < 0.3:
            # the numbers a rotation of this history was called with
            a = abs(float.fromhex(threads[0][0].split()[1])); th0 = _in_range(a, 0.0, PI, PI) if a > PI else a; ph0 = _in_range(a, 0.0, math.nextafter(2 * PI, 0), 2 * PI)
        P = lambda x: _in_range(x, 0.0, math.nextafter(2 * PI, 0.0), 2 * PI)
        T = lambda x: min(max(x, 0.0), PI)
        m = rng.choice(["repeat", "r", "phi-reflect", "phi-half", "theta-reflect", "near", "swap", "walk"])
        if m == "repeat": reqs = [(r, th0, ph0)] * 3
        elif m == "r": reqs = [(r, th0, ph0), (D(r), th0, ph0), (r, th0, ph0), (min(_near(rng, r), RMAX), th0, ph0)]
        elif m == "phi-reflect": reqs = [(r, th0, ph0), (r, th0, P(2 * PI - ph0)), (r, th0, ph0)]
        elif m == "phi-half": reqs = [(r, th0, ph0), (r, th0, P(ph0 + PI)), (r, th0, ph0)]
        elif m == "theta-reflect": reqs = [(r, th0, ph0), (r, T(PI - th0), ph0), (r, th0, ph0)]
        elif m == "near": reqs = [(r, th0, ph0), (r, T(_near(rng, th0)), ph0), (r, th0, P(_near(rng, ph0))), (r, th0, ph0)]
        elif m == "swap": reqs = [(r, th0, ph0), (r, T(ph0 if ph0 <= PI else ph0 - PI), P(th0)), (r, th0, ph0)]
        else:
            reqs = [(r, th0, ph0)]
            for _ in range(rng.choice([3, 5])):
                rr, tt, pp = reqs[-1]
                reqs.append(rng.choice([(rr, tt, pp), (r, th0, ph0), (D(rr), tt, pp), (rr, T(PI - tt), pp), (rr, tt, P(2 * PI - pp)), (rr, T(_near(rng, tt)), pp), (rr, tt, P(_near(rng, pp)))]))
        style = rng.choice(["plain", "axis", "axis", "mixed", "mixed"])
        th = []
        for (rr, tt, pp) in reqs:
            k = {"plain": "s", "axis": rng.choice(["A", "A", "o", "o2"]), "mixed": rng.choice(["s", "z", "A", "o", "-A", "kA", "B", "-z"])}[style]
            head = f"{hx(rr)} {hx(tt)} {hx(pp)}"
            if k == "s": th.append("sph " + head)
            elif k == "z": th.append(f"spha {head} l {flist([0.0, 0.0, rng.choice([1.0, 2.0, L])])}")
            elif k == "-z": th.append(f"spha {head} l {flist([0.0, 0.0, -rng.choice([1.0, 2.0, L])])}")
            elif k == "A": th.append(f"spha {head} l {flist(A)}")
            elif k == "o": th.append(f"spha {head} o 0")
            elif k == "o2": th.append(f"spha {head} o 1")
            elif k == "-A": th.append(f"spha {head} l {flist(neg(A))}")
            elif k == "kA": th.append(f"spha {head} l {flist(sc(A, rng.choice([2.0, 0.5, 1e3, 1e-3])))}")
            else: th.append(f"spha {head} {vecref(Bv, 2)}")
        threads.append(th); tags.add("seq-sph-" + m)
    # ---- Angle threads: the same pair again, swapped, one vector negated / rescaled, a vector with itself
    for t in range(rng.choice([0, 0, 1])):
        U = lambda: vecref(u, 3)
        V = lambda: vecref(v, 4)
        th = [f"angle {U()} {V()}"]
        for _ in range(rng.choice([2, 3, 4])):
            th.append(rng.choice([f"angle {U()} {V()}", f"angle {V()} {U()}", f"angle {U()} l {flist(neg(v))}", f"angle l {flist(sc(u, 2.0))} {V()}",
                                  f"angle {U()} {U()}", f"angle {V()} l {flist(A)}", f"angle o 0 o 1"]))
        threads.append(th); tags.add("seq-angle")
    if not threads: threads.append([f"rot {hx(a)} 3 o 0" for a in _angle_motif(rng)[0]])
    # ---- one process makes them all: thread after thread, or interleaved (each thread keeps its order)
    if len(threads) > 1 and rng.random() < 0.5:
        calls = []; idx = [0] * len(threads)
        while True:
            live = [i for i in range(len(threads)) if idx[i] < len(threads[i])]
            if not live: break
            i = rng.choice(live); calls.append(threads[i][idx[i]]); idx[i] += 1
        tags.add("seq-interleaved")
    else:
        rng.shuffle(threads); calls = [c for th in threads for c in th]
    tol = _rtol(min(radii)) if radii and min(radii) < 1e-3 else None
    return Case(f"seq {len(pool)} " + " ".join(flist(w) for w in pool) + f" {len(calls)} " + " ".join(calls), ("seq", atag) + tuple(sorted(tags)), tol=tol)


def _seq_cases(rng, n_random):
    cs = [_seq_case(rng, axis, tag) for axis, tag in _axes(rng, n_random)]
    # a call the library refuses ends the process wherever it stands in the history
    z = flist([0.0, 0.0, 1.0])
    for bad in ("rot 0x1p-2 4 l " + z, "rot 0x1p-2 3 l " + flist([1.0, 0.0]), "rotdef 0x1p-2 1", "spha 0x1p+0 0x1p-2 0x1p-1 l " + flist([1.0]),
                "angle l " + z + " l " + flist([1.0, 0.0]), "rot 0x1p-2 3 o 1"):
        for k in (0, 1, 2):
            good = ["rot 0x1p-1 3 o 0", "sph 0x1p+0 0x1p-2 0x1p-1", "rot -0x1p-1 2 l 0"]
            calls = good[:k] + [bad] + good[k:]
            cs.append(Case(f"seq 2 {z} {flist([1.0, 2.0])} {len(calls)} " + " ".join(calls), ("seq", "seq-guard")))
    return cs


def _chain_cases(rng, n_cases, nmax):
    """products of rotations: factors about one direction with different lengths (the angles add), about arbitrary non-zero axes
    (coordinate directions, near the poles, every length), n equal factors, back and forth, 2-D with anything as axis; 0 .. nmax factors;
    every angle and the sum of the angles stay in [-4 pi, 4 pi]"""
    cs = []; pool = _axes(rng, 30)
    def angles(n):
        while True:
            a = [_angle(rng) if rng.random() < 0.7 else rng.uniform(-1.0, 1.0) for _ in range(n)]
            part = 0.0; ok = True
            for x in a:
                part += x; ok = ok and abs(part) <= 4 * PI
            if ok: return a
    for _ in range(n_cases):
        kind = rng.choice(["same", "same", "general", "general", "power", "backforth", "2d"])
        n = rng.choice([0, 1, 2, 2, 3, 3, 4, 5, rng.randint(2, nmax)])
        if kind == "2d":
            fs = [(a, rng.choice([[], [0.0, 0.0, 1.0], [1.0], [0.0, 0.0, 0.0]])) for a in angles(n)]
            cs.append(Case(f"rotchain 2 {n} " + " ".join(f"{hx(a)} {flist(ax)}" for a, ax in fs), ("rotchain", "chain-2d"))); continue
        axis, tag = rng.choice(pool)
        if kind == "same":
            fs = [(a, [rng.choice([1.0, 1.0, 2.0, 0.5, 10 ** rng.uniform(-3, 3)]) * x for x in axis]) for a in angles(n)]
        elif kind == "general":
            fs = [(a, rng.choice(pool)[0]) for a in angles(n)]
        elif kind == "power":
            a = rng.uniform(-4 * PI, 4 * PI) / max(n, 1); fs = [(a, list(axis))] * n
        else:
            h = angles(n // 2); fs = [(a, list(axis)) for a in h] + [(-a, list(axis)) for a in reversed(h)]
        cs.append(Case(f"rotchain 3 {len(fs)} " + " ".join(f"{hx(a)} {flist(ax)}" for a, ax in fs), ("rotchain", "chain-" + kind, tag)))
    return cs


def _dt_cases(rng, big):
    """the library's own Determinant() (recursive Laplace expansion) and Trace(): of one rotation, of products of rotations, and of
    arbitrary rectangular matrices of 1 .. 6 rows (ties the recursive model for every size; non-square shapes must end the process)"""
    cs = []
    pool = _axes(rng, 400 if big else 40)
    for axis, tag in (pool if big else rng.sample(pool, min(len(pool), 70))):
        cs.append(Case(f"rotdt {hx(_angle(rng))} 3 {flist(axis)}", ("rotdt", tag)))
    for _ in range(300 if big else 25):
        cs.append(Case(f"rotdt {hx(_angle(rng))} 2 {flist(rng.choice([[], [0.0, 0.0, 1.0], [1.0]]))}", ("rotdt", "rot2")))
    for dim, ax in ((0, [0.0, 0.0, 1.0]), (4, [0.0, 0.0, 1.0]), (3, [1.0, 0.0]), (3, [0.0, 0.0, 1.0, 0.0]), (-3, [])):
        cs.append(Case(f"rotdt {hx(0.3)} {dim} {flist(ax)}", ("rot-guard",)))
    for c in _chain_cases(rng, 600 if big else 50, 24 if big else 9):
        cs.append(Case("chaindt" + c.line[len("rotchain"):], ("chaindt",) + tuple(c.tags[1:])))
    for _ in range(1500 if big else 90):
        n = rng.choice([1, 2, 3, 3, 4, 4, 5, 6]); m = n if rng.random() < 0.85 else rng.choice([k for k in range(1, 7) if k != n])
        kind = rng.choice(["int", "int", "gauss", "sparse", "scaled"])
        def ent():
            if kind == "int": return float(rng.randint(-4, 4))
            if kind == "sparse": return rng.choice([0.0, 0.0, 1.0, -1.0, rng.gauss(0, 1)])
            if kind == "scaled": return rng.gauss(0, 1) * 10 ** rng.uniform(-20, 20)
            return rng.gauss(0, 1)
        M = [[ent() for _ in range(m)] for _ in range(n)]
        if kind == "int" and n == m and rng.random() < 0.3: M[-1] = list(M[0])          # a singular matrix
        cs.append(Case(f"matdt {_fmt_tab(M)}", ("matdt", f"matdt-{n}x{m}" if n != m else f"matdt-square-{n}", "matdt-" + kind)))
    return cs


def _inv_cases(rng, big):
    """the library's own Inverse() (Gauss-Jordan, partial pivoting), Invertible(), Orthogonal(), Transpose(), operator== and Norm():
    of one rotation (every kind of axis, 2-D, guards) and of arbitrary rectangular matrices of 1 .. 5 rows aimed at the branches of the
    elimination: pivot already on the diagonal / below it / ties of |.|, zero pivots (singular: the process must end), non-square shapes,
    exactly orthogonal matrices (signed permutations: Orthogonal() must say 1)"""
    cs = []
    pool = _axes(rng, 400 if big else 40)
    for axis, tag in (pool if big else rng.sample(pool, min(len(pool), 60))):
        cs.append(Case(f"rotinv {hx(_angle(rng))} 3 {flist(axis)}", ("rotinv", tag)))
    for _ in range(300 if big else 25):
        cs.append(Case(f"rotinv {hx(_angle(rng))} 2 {flist(rng.choice([[], [0.0, 0.0, 1.0], [1.0]]))}", ("rotinv", "rot2")))
    for dim, ax in ((0, [0.0, 0.0, 1.0]), (4, [0.0, 0.0, 1.0]), (3, [1.0, 0.0]), (3, [0.0, 0.0, 1.0, 0.0])):
        cs.append(Case(f"rotinv {hx(0.3)} {dim} {flist(ax)}", ("rot-guard",)))
    for _ in range(2000 if big else 120):
        n = rng.choice([1, 2, 2, 3, 3, 3, 4, 5]); m = n if rng.random() < 0.9 else rng.choice([k for k in range(1, 6) if k != n])
        kind = rng.choice(["int", "int", "gauss", "sparse", "scaled", "perm", "rotlike"])
        def ent():
            if kind == "int": return float(rng.randint(-3, 3))
            if kind == "sparse": return rng.choice([0.0, 0.0, 1.0, -1.0, rng.gauss(0, 1)])
            if kind == "scaled": return rng.gauss(0, 1) * 10 ** rng.uniform(-8, 8)
            return rng.gauss(0, 1)
        M = [[ent() for _ in range(m)] for _ in range(n)]
        if kind == "perm" and n == m:
            pm = list(range(n)); rng.shuffle(pm)
            M = [[(rng.choice([1.0, -1.0]) if pm[i] == j else 0.0) for j in range(n)] for i in range(n)]
        if kind == "rotlike" and n == m and n >= 2:
            # a plane rotation embedded in the identity, with exactly representable entries (3/5, 4/5 are not; 0, +-1 and halves are)
            M = [[1.0 if i == j else 0.0 for j in range(n)] for i in range(n)]
            i, j = rng.sample(range(n), 2); a = _angle(rng); c, sn = math.cos(a), math.sin(a)
            M[i][i] = c; M[j][j] = c; M[i][j] = -sn; M[j][i] = sn
        if kind == "int" and n == m and n >= 2 and rng.random() < 0.25: M[-1] = list(M[0])          # a singular matrix
        op = "matinv" if rng.random() < 0.6 else "matorth"
        cs.append(Case(f"{op} {_fmt_tab(M)}", (op, f"{op}-{n}x{m}" if n != m else f"{op}-square-{n}", op + "-" + kind)))
    return cs


def generate(rng, tier):
    cs = []
    big = tier != "quick"
    nrand = 6000 if big else 200
    reps = 6 if big else 2
    # ---- 2-D rotations
    for _ in range(4000 if big else 300):
        cs.append(Case(f"rot {hx(_angle(rng))} 2 0", ("rot2",)))
    for a in (0.0, PI / 2, PI, -PI, 4 * PI, -4 * PI, PI / 4):
        cs.append(Case(f"rot {hx(a)} 2 3 0x0p+0 0x0p+0 0x1p+0", ("rot2",)))
    # ---- the default axis: Rotation_Matrix(alpha, dim)
    for _ in range(600 if big else 60):
        cs.append(Case(f"rotdef {hx(_angle(rng))} {rng.choice([2, 3, 3, 3])}", ("rot-default-axis",)))
    for dim in (0, 1, 4, -3):
        cs.append(Case(f"rotdef {hx(0.3)} {dim}", ("rot-guard",)))
    # ---- 3-D rotations
    for axis, tag in _axes(rng, nrand):
        for _ in range(reps):
            a = _angle(rng)
            cs.append(Case(f"rot {hx(a)} 3 {flist(axis)}", ("rot3", tag)))
        a, b = _angle(rng), _angle(rng)
        if abs(a + b) > 4 * PI: b = -b      # the composed angle stays in the quantified range
        cs.append(Case(f"rotcomp {hx(a)} {hx(b)} " + _v3(axis), ("rotcomp", tag)))
        nrm = math.sqrt(_dot(axis, axis)); n = [x / nrm for x in axis]
        v = _perp(rng, n) if rng.random() < 0.8 else [rng.gauss(0, 1) for _ in range(3)]
        cs.append(Case(f"{rng.choice(['rotapply', 'rotback'])} {hx(_angle(rng))} " + _v3(axis) + " " + _v3(v), ("rotapply", tag)))
        if rng.random() < 0.5: cs.append(Case(f"rotaxis {hx(_angle(rng))} " + _v3(axis), ("rotaxis", tag)))
        r = _radius(rng)
        cs.append(Case(f"rotsph {hx(_angle(rng))} {hx(r)} {hx(_theta(rng))} {hx(_phi(rng))} " + _v3(axis), ("rotsph", tag) + _rtag(r), tol=_rtol(r)))
    # ---- chains: P = Identity_Matrix(dim); P = P * Rotation_Matrix(alpha_k, dim, axis_k) for any number of factors
    cs += _chain_cases(rng, 2500 if big else 140, 24 if big else 9)
    # ---- the library's own Angle between v and R v
    for axis, tag in _axes(rng, 2000 if big else 40):
        if not big and rng.random() < 0.5: continue
        nrm = math.sqrt(_dot(axis, axis)); n = [x / nrm for x in axis]
        v = _perp(rng, n) if rng.random() < 0.8 else [rng.gauss(0, 1) for _ in range(3)]
        cs.append(Case(f"rotangle {hx(_angle(rng))} " + _v3(axis) + " " + _v3(v), ("rotangle", tag)))
    # ---- guards of Rotation_Matrix
    for dim in (0, 1, 4, -3, 5):
        cs.append(Case(f"rot {hx(0.3)} {dim} 3 0x0p+0 0x0p+0 0x1p+0", ("rot-guard",)))
    for ax in ([], [1.0], [1.0, 0.0], [0.0, 0.0, 1.0, 0.0]):
        cs.append(Case(f"rot {hx(0.3)} 3 {flist(ax)}", ("rot-guard",)))
    cs.append(Case(f"rot {hx(0.3)} 3 {flist([0.0, 0.0, 0.0])}", ("rot-zero-axis",)))
    # ---- plain spherical coordinates
    for _ in range(5000 if big else 400):
        r = _radius(rng)
        cs.append(Case(f"sph {hx(r)} {hx(_theta(rng))} {hx(_phi(rng))}", ("sph",) + _rtag(r), tol=_rtol(r)))
    # ---- spherical coordinates about an axis
    for axis, tag in _axes(rng, nrand):
        for _ in range(reps):
            r = _radius(rng)
            cs.append(Case(f"spha {hx(r)} {hx(_theta(rng))} {hx(_phi(rng))} {flist(axis)}", ("spha", tag) + _rtag(r), tol=_rtol(r)))
        # every magnitude of r with every kind of axis: r / aux and r * aux (aux = sine of the tilt from +-z) around the overflow / underflow thresholds
        aimed = _radius_for_axis(rng, axis)
        if aimed and (big or tag == "axis-near-pole" or rng.random() < 0.15):
            for r in (aimed if big else rng.sample(aimed, min(2, len(aimed)))):
                r *= rng.choice([1.0, rng.uniform(0.5, 2.0)]); r = min(max(r, TINY), RMAX)
                cs.append(Case(f"spha {hx(r)} {hx(_theta(rng))} {hx(_phi(rng))} {flist(axis)}", ("spha", tag, "r-aimed-at-r/aux") + _rtag(r), tol=_rtol(r)))
        r = _radius(rng); th = _theta(rng); ph = _phi(rng)
        h = rng.choice([1e-3, 1e-2, 0.1, 0.5, 1.0, rng.uniform(1e-3, 1.5)])
        cs.append(Case(f"sphad {hx(r)} {hx(th)} {hx(ph)} {hx(h)} " + _v3(axis), ("sphad", tag) + _rtag(r), tol=_rtol(r)))
        # the library's own Norm() / Angle() of the result square its components: r stays where r^2 is a normal number
        r = _radius(rng, -140.0, 140.0)
        if rng.random() < 0.5: cs.append(Case(f"sphang {hx(r)} {hx(_theta(rng))} {hx(_phi(rng))} {flist(axis)}", ("sphang", tag) + _rtag(r), tol=_rtol(r)))
        else: cs.append(Case(f"sphrot {hx(r)} {hx(_theta(rng))} {hx(_phi(rng))} {hx(_angle(rng))} " + _v3(axis), ("sphrot", tag)))
    for ax in ([0.0, 0.0, 0.0], [0.0, 0.0], [], [1.0], [1.0, 0.0], [0.0, 1.0], [0.0, 0.0, 2.0, 0.0], [0.0, 0.0, -2.0, 0.0], [1.0, 2.0, 3.0, 4.0]):
        cs.append(Case(f"spha {hx(2.0)} {hx(0.3)} {hx(0.4)} {flist(ax)}", ("spha-guard",)))
    # ---- argument objects with a call history (same axes: coordinate directions, near the poles, every length)
    rk = ["rot", "rot", "rotcomp", "rotapply", "rotback", "rotaxis", "rotsph", "sphrot"]; sk = ["spha", "spha", "sphad", "sphang"]
    for axis, tag in _axes(rng, 4000 if big else 300):
        cs += _hist_cases(rng, axis, tag, [rng.choice(rk), rng.choice(sk)] if not big else [rng.choice(rk), rng.choice(rk), rng.choice(sk), rng.choice(sk)])
    # direction-keeping histories (theorem C16_history_keeping_direction): questions, copies, positive rescalings, v += v, Normalize in any order
    for axis, tag in _axes(rng, 600 if big else 30):
        if not big and rng.random() < 0.7: continue
        hs = []
        for _ in range(rng.randint(1, 7)):
            k = rng.choice(["qn", "cp", "ms", "sm", "dv", "nz", "nd", "sa", "cr", "cs", "se", "eq"])
            if k in ("ms", "sm", "dv"): hs.append((k, rng.choice([2.0, 0.5, 3.0, rng.uniform(0.1, 10.0)])))
            elif k == "cr": hs.append(("cr", _angle(rng), 3))
            elif k == "cs": hs.append(("cs", 1.0, _theta(rng), _phi(rng)))
            else: hs.append((k,))
        if rng.random() < 0.5: cs.append(Case(f"hist rot {hx(_angle(rng))} 3 {flist(axis)} {_fmt_vhist(hs)}", ("hist", "direction-keeping", tag)))
        else: cs.append(Case(f"hist spha {hx(10 ** rng.uniform(-3, 3))} {hx(_theta(rng))} {hx(_phi(rng))} {flist(axis)} {_fmt_vhist(hs)}", ("hist", "direction-keeping", tag)))
    # histories that end in an object the library must refuse (or, for a zero 2-vector, may accept)
    z3 = flist([0.0, 0.0, 1.0])
    for hs in ([("rs", 2)], [("qn",), ("rs", 4)], [("as", 2, 1.0)], [("pa", [1.0, 0.0])], [("st", 3, 1.0)], [("qr", 3)], [("qd", [1.0, 2.0])],
               [("rs", 2), ("cs", 1.0, 0.3, 0.4)], [("rs", 2), ("cr", 0.3, 3)], [("rs", 2), ("cx", [1.0, 0.0, 0.0])], [("rs", 2), ("rs", 3)],
               [("ss",), ("rs", 2)], [("ss",), ("rs", 2), ("cs", 1.0, 0.3, 0.4)], [("rs", 2), ("cr", 0.3, 2), ("rs", 3), ("st", 2, 0.5)]):
        cs.append(Case(f"hist rot {hx(0.3)} 3 {z3} {_fmt_vhist(hs)}", ("hist-guard",)))
        cs.append(Case(f"hist spha {hx(2.0)} {hx(0.3)} {hx(0.4)} {z3} {_fmt_vhist(hs)}", ("hist-guard",)))
    # ---- Angle
    for a, b, tag in _angle_pairs(rng, 4000 if big else 250):
        if rng.random() < 0.25:
            sa, ha, _ = _vhist(rng, a); sb, hb, _ = _vhist(rng, b)
            cs.append(Case(f"hist angle {flist(sa)} {_fmt_vhist(ha)} {flist(sb)} {_fmt_vhist(hb)}", ("angle", tag, "history")))
        else: cs.append(Case(f"angle {flist(a)} {flist(b)}", ("angle", tag)))
    for a, b in (([1.0, 0.0], [0.0, 1.0]), ([1.0, 2.0, 3.0, 4.0], [4.0, -3.0, 2.0, 1.0]), ([1.0], [-2.0])):
        cs.append(Case(f"angle {flist(a)} {flist(b)}", ("angle", "angle-other-dimension")))
    cs.append(Case(f"angle {flist([1.0, 0.0])} {flist([1.0, 0.0, 0.0])}", ("angle-guard",)))
    # ---- Cross
    for _ in range(3000 if big else 200):
        a = [rng.gauss(0, 1) * 10 ** rng.uniform(-3, 3) for _ in range(3)]
        k = rng.random()
        if k < 0.15: b = [x * rng.choice([1.0, 2.0, -1.0, 0.5, -3.0]) for x in a]
        elif k < 0.25: b = _perp(rng, [x / math.sqrt(_dot(a, a)) for x in a])
        else: b = [rng.gauss(0, 1) * 10 ** rng.uniform(-3, 3) for _ in range(3)]
        if rng.random() < 0.15:
            acc = lambda w: len(w) == 3 and all(math.isfinite(x) for x in w)
            sa, ha, _ = _vhist(rng, a, accept=acc); sb, hb, _ = _vhist(rng, b, accept=acc)
            cs.append(Case(f"hist cross {flist(sa)} {_fmt_vhist(ha)} {flist(sb)} {_fmt_vhist(hb)}", ("cross", "history")))
        else: cs.append(Case(f"cross {flist(a)} {flist(b)}", ("cross",)))
    cs.append(Case(f"cross {flist([1.0, 0.0])} {flist([1.0, 0.0, 0.0])}", ("cross-guard",)))
    # ---- histories of calls in one pristine process
    cs += _seq_cases(rng, 1500 if big else 150)
    # ---- the library's own Determinant() / Trace() of rotations, of their products, and of matrices of every size (appended last: the
    #      random stream of the older regions is unchanged)
    cs += _dt_cases(rng, big)
    # ---- the library's own Inverse() / Invertible() / Orthogonal() / Transpose() / Norm() (seventh pass; appended last)
    cs += _inv_cases(rng, big)
    return cs


# ---------------------------------------------------------------- helpers (independent of the model)
def _dot(a, b): return math.fsum(x * y for x, y in zip(a, b))
def _cross(a, b): return [a[1] * b[2] - a[2] * b[1], a[2] * b[0] - a[0] * b[2], a[0] * b[1] - a[1] * b[0]]
def _unit(a):
    n = math.sqrt(_dot(a, a)); return [x / n for x in a]
def _polar_distance(axis):
    """distance of the normalised axis from the nearer of +-z"""
    n = _unit(axis); return math.hypot(n[0], n[1])


def nontrivial(c, io):
    d = _decode(c.line); op = d["op"]
    def ax_nt(axis):
        if len(axis) != 3 or not any(axis) or not all(math.isfinite(x) for x in axis): return False
        L = math.sqrt(_dot(axis, axis))
        return L > 0 and (_polar_distance(axis) < 1e-6 or not (0.1 <= L <= 10.0))
    if io.startswith("EXIT"): return "guard" in " ".join(c.tags)
    if d["exit"]: return False
    if op in ("cross", "angle", "sph"): return False
    if op == "seq": return len(d["calls"]) >= 2
    if d["nsteps"] > 0: return True
    if op in ("rot", "rotdef"): return (d["dim"] == 3 and (ax_nt(d["axis"]) or abs(d["alpha"]) > 2 * PI)) or (d["dim"] == 2 and abs(d["alpha"]) > 2 * PI)
    if op == "rotcomp": return ax_nt(d["axis"]) or abs(d["a"]) > 2 * PI or abs(d["b"]) > 2 * PI
    if op in ("rotchain", "chaindt"): return len(d["factors"]) >= 2
    if op == "rotdt": return (d["dim"] == 3 and (ax_nt(d["axis"]) or abs(d["alpha"]) > 2 * PI)) or (d["dim"] == 2 and abs(d["alpha"]) > 2 * PI)
    if op == "matdt": return len(d["M"]) >= 3
    if op == "rotinv": return (d["dim"] == 3 and (ax_nt(d["axis"]) or abs(d["alpha"]) > 2 * PI)) or (d["dim"] == 2 and abs(d["alpha"]) > 2 * PI)
    if op in ("matinv", "matorth"): return len(d["M"]) >= 3
    if op == "rotangle": return ax_nt(d["axis"]) or abs(d["alpha"]) > 2 * PI
    if op == "rotsph" and not 1e-3 <= d["r"] <= 1e3: return True
    if op in ("rotapply", "rotback", "rotaxis", "rotsph", "sphrot"): return ax_nt(d["axis"]) or abs(d["alpha"]) > 2 * PI
    if op in ("spha", "sphad", "sphang"): return ax_nt(d["axis"]) or not 1e-3 <= d["r"] <= 1e3
    return False


def _mat(vals):
    r, cdim = vals[0], vals[1]; e = vals[2:2 + r * cdim]
    return [[e[i * cdim + j] for j in range(cdim)] for i in range(r)], vals[2 + r * cdim:]


def _rot_checks(op, R, alpha, n, out, tag="", extra=0.0):
    """orthogonality, determinant, fixed axis for a 3x3 matrix; slack 64 eps: every entry is a sum of <= 3 products of
    numbers of magnitude <= 1, each carrying <= 8 rounding errors, so R^T R, det and R n are off by < 64 eps
    (extra: what the histories of multiplied matrices add, see _mhist_effect)"""
    sl = 64 * EPS + extra
    for i in range(3):
        for j in range(3):
            g = math.fsum(R[k][i] * R[k][j] for k in range(3))
            if not abs(g - (1.0 if i == j else 0.0)) <= sl:
                out.append((f"{op}:orthogonal", f"(R^T R)[{i}][{j}] = {g!r}{tag}")); return
    det = math.fsum([R[0][0] * R[1][1] * R[2][2], R[0][1] * R[1][2] * R[2][0], R[0][2] * R[1][0] * R[2][1],
                     -R[0][2] * R[1][1] * R[2][0], -R[0][1] * R[1][0] * R[2][2], -R[0][0] * R[1][2] * R[2][1]])
    if not abs(det - 1.0) <= sl: out.append((f"{op}:determinant", f"det R = {det!r}{tag}"))
    if n is not None:
        Rn = [_dot(R[i], n) for i in range(3)]
        if not all(abs(Rn[i] - n[i]) <= sl for i in range(3)): out.append((f"{op}:axis-fixed", f"R n = {Rn!r}, n = {n!r}{tag}"))


def _rodrigues(alpha, n, v):
    c, s = math.cos(alpha), math.sin(alpha); nxv = _cross(n, v); nv = _dot(n, v)
    return [c * v[i] + s * nxv[i] + (1.0 - c) * nv * n[i] for i in range(3)]


def _rot3_matrix_checks(R, alpha, axis, out, note=""):
    """the clauses for a matrix returned by Rotation_Matrix(alpha, 3, axis)"""
    if len(R) != 3 or len(R[0]) != 3: out.append(("rot:shape", "3-D rotation is not 3x3")); return
    n = _unit(axis)
    _rot_checks("rot3", R, alpha, n, out, note)
    # the entries are Rodrigues' formula: images of the basis vectors
    for j in range(3):
        e = [1.0 if k == j else 0.0 for k in range(3)]
        ref = _rodrigues(alpha, n, e)
        if not all(abs(R[i][j] - ref[i]) <= 64 * EPS for i in range(3)):
            out.append(("rot3:rodrigues", f"column {j} of R is {[R[i][j] for i in range(3)]!r}, Rodrigues' formula gives {ref!r}{note}")); break


def _rot_answer_checks(alpha, dim, axis, R, out, note=""):
    """the clauses for the matrix a valid Rotation_Matrix(alpha, dim, axis) call returned"""
    if dim == 2:
        if len(R) != 2 or len(R[0]) != 2: out.append(("rot:shape", "2-D rotation is not 2x2")); return
        ca, sa = math.cos(alpha), math.sin(alpha); sl = 8 * EPS
        # proper orthogonal and right-handed: the columns are (cos, sin) and (-sin, cos)
        if not (abs(R[0][0] - ca) <= sl and abs(R[1][1] - ca) <= sl and abs(R[1][0] - sa) <= sl and abs(R[0][1] + sa) <= sl):
            out.append(("rot2:entries", f"R = {R!r} is not [[cos,-sin],[sin,cos]] of alpha = {alpha!r}"))
        g = [[math.fsum(R[k][i] * R[k][j] for k in range(2)) for j in range(2)] for i in range(2)]
        if not all(abs(g[i][j] - (1.0 if i == j else 0.0)) <= 64 * EPS for i in range(2) for j in range(2)):
            out.append(("rot2:orthogonal", f"R^T R = {g!r}"))
        det = R[0][0] * R[1][1] - R[0][1] * R[1][0]
        if not abs(det - 1.0) <= 64 * EPS: out.append(("rot2:determinant", f"det R = {det!r}"))
    else:
        if not any(axis) or not all(math.isfinite(x) for x in axis): return          # zero axis: outside the quantifier
        _rot3_matrix_checks(R, alpha, axis, out, note)


def _ldexp(x, k):
    try: return math.ldexp(x, k)
    except OverflowError: return math.copysign(math.inf, x)


def _unit_scale(r, *vecs):
    """(r', vecs', sub): r and the vectors times the power of two that takes r into [0.5, 1) (exact), so that the clauses can be evaluated for
    every r > 0 without overflow / underflow in the evaluation itself; sub = 32 subnormal ulps on that scale: where the result is subnormal
    each of its <= 24 roundings loses up to half a subnormal ulp absolutely instead of eps relatively"""
    k = math.frexp(r)[1]
    return _ldexp(r, -k), [[_ldexp(x, -k) for x in v] for v in vecs], 32 * _ldexp(TINY, -k)


def _region(r):
    """signature suffix: the magnitude region of r"""
    return ":r-tiny" if r < 1e-290 else ":r-huge" if r > 1e290 else ""


def _sph_answer_checks(r, th, ph, o, out):
    w = o[1:4]
    if o[0] != 3 or not all(math.isfinite(x) for x in w):
        out.append(("sph:formula" + _region(r), f"Spherical_Coordinates({r!r}, {th!r}, {ph!r}) = {w!r} is not a finite 3-vector")); return
    r1, (w1,), sub = _unit_scale(r, w)
    ref = [r1 * math.sin(th) * math.cos(ph), r1 * math.sin(th) * math.sin(ph), r1 * math.cos(th)]
    if not all(abs(w1[i] - ref[i]) <= 8 * EPS * r1 + sub for i in range(3)):
        out.append(("sph:formula" + _region(r), f"Spherical_Coordinates({r!r}, {th!r}, {ph!r}) = {w!r}, i.e. r * {[x / r1 for x in w1]!r}; the formula gives r * {[x / r1 for x in ref]!r}"))


# ---- histories of calls (`seq`)
def _call_valid(c):
    """does the library answer this call (True) or end the process (False)?"""
    k = c["k"]
    if k == "rot": return c["dim"] == 2 or (c["dim"] == 3 and len(c["axis"]) == 3)
    if k == "rotdef": return c["dim"] in (2, 3)
    if k == "spha": return len(c["axis"]) >= 3 or (len(c["axis"]) == 2 and math.sqrt(_sdot(c["axis"], c["axis"])) == 0.0)
    if k == "angle": return len(c["a"]) == len(c["b"])
    return True


def _show_call(c):
    k = c["k"]
    if k in ("rot", "rotdef"): return f"Rotation_Matrix({c['alpha']!r}, {c['dim']}" + (f", {c['axis']!r})" if k == "rot" else ")")
    if k == "sph": return f"Spherical_Coordinates({c['r']!r}, {c['theta']!r}, {c['phi']!r})"
    if k == "spha": return f"Spherical_Coordinates({c['r']!r}, {c['theta']!r}, {c['phi']!r}, {c['axis']!r})"
    return f"Angle({c['a']!r}, {c['b']!r})"


def _take_answer(c, o, i):
    """(the tokens of the answer to call c that start at o[i], the index behind them)"""
    if isinstance(o[i], str): return [o[i]], i + 1                 # FRESH_<outcome>
    if c["k"] in ("rot", "rotdef"): n = 2 + o[i] * o[i + 1]
    elif c["k"] in ("sph", "spha"): n = 1 + o[i]
    else: n = 1
    return o[i:i + n], i + n


def _same_tokens(a, b):
    return len(a) == len(b) and all((x == y and (not isinstance(x, float) or math.copysign(1.0, x) == math.copysign(1.0, y))) or
                                    (isinstance(x, float) and isinstance(y, float) and math.isnan(x) and math.isnan(y)) for x, y in zip(a, b))


def _call_clause_checks(c, a, out):
    """the property's clauses for one answered call"""
    k = c["k"]
    if k in ("rot", "rotdef"):
        R, _ = _mat(a); _rot_answer_checks(c["alpha"], c["dim"], c["axis"], R, out, f" (axis {c['axis']!r})")
    elif k == "sph": _sph_answer_checks(c["r"], c["theta"], c["phi"], a, out)
    elif k == "spha":
        axis = c["axis"]
        if len(axis) == 3 and any(axis) and all(math.isfinite(x) for x in axis): _spha_checks("spha", c["r"], c["theta"], axis, a[1:4], out)
    elif k == "angle":
        p, q = c["a"], c["b"]
        if any(p) and any(q) and all(math.isfinite(x) for x in p + q): _angle_checks("angle", a[0], p, q, out, "Angle(a, b)")


def _seq_checks(d, o, exited, out):
    calls = d["calls"]
    if not all(_call_valid(c) for c in calls):
        if not exited: out.append(("seq:guard", "a history with a call the library must refuse was answered"))
        return
    if exited: out.append(("seq:exit", "a history of valid calls terminated the process")); return
    m = o[0]; i = 1; ans = []; fresh = []
    if m != len(calls): out.append(("seq:shape", f"{m} answers for {len(calls)} calls")); return
    for c in calls:
        a, i = _take_answer(c, o, i); ans.append(a)
    for c in calls:
        a, i = _take_answer(c, o, i); fresh.append(a)
    before = lambda j: "; ".join(_show_call(c) for c in calls[:j]) or "nothing"
    for j, (c, a, f) in enumerate(zip(calls, ans, fresh)):
        sub = []; _call_clause_checks(c, a, sub)
        fsub = []
        if isinstance(f[0], str): out.append(("history:fresh-process", f"a fresh process does not answer {_show_call(c)} ({f[0]}), the history does")); continue
        _call_clause_checks(c, f, fsub)
        for sg, msg in sub:
            if any(sg == g for g, _ in fsub): out.append((sg, f"call {j + 1} of a history, {_show_call(c)}: {msg}"))
            else: out.append(("history:" + sg, f"call {j + 1}, {_show_call(c)}, after the calls [{before(j)}] in the same process: {msg}; a fresh process answers {f!r}, which meets the clause"))
        if not sub and fsub:
            for sg, msg in fsub: out.append((sg, f"{_show_call(c)} in a fresh process: {msg}"))
        if not _same_tokens(a, f):
            out.append((f"history:{c['k']}:depends-on-earlier-calls", f"call {j + 1}, {_show_call(c)}, answers {a!r} after the calls [{before(j)}] in the same process, but {f!r} in a fresh process"))
    # clauses that relate two calls of the history: R(-alpha) = R(alpha)^T = R(alpha)^-1 about the same axis ("compose by adding angles": the sum is the
    # identity); each entry is within 64 eps (3-D) / 8 eps (2-D) of the true one
    rots = [(j, c, _mat(a)[0]) for j, (c, a) in enumerate(zip(calls, ans)) if c["k"] in ("rot", "rotdef")]
    for x in range(len(rots)):
        for y in range(x + 1, len(rots)):
            (j1, c1, R1), (j2, c2, R2) = rots[x], rots[y]
            if c1["dim"] != c2["dim"] or c1["alpha"] != -c2["alpha"] or (c1["dim"] == 3 and (c1["axis"] != c2["axis"] or not any(c1["axis"]))): continue
            if not all(math.isfinite(v) for v in c1["axis"]): continue
            nd = c1["dim"]; sl = (128 if nd == 3 else 16) * EPS
            if len(R1) != nd or len(R2) != nd: continue
            if not all(abs(R2[a_][b_] - R1[b_][a_]) <= sl for a_ in range(nd) for b_ in range(nd)):
                out.append(("history:rot:opposite-angles", f"calls {j1 + 1} and {j2 + 1} of a history, {_show_call(c1)} and {_show_call(c2)}: the second matrix {R2!r} is not the transpose (= inverse) of the first {R1!r}"))
                return


def _matrix_history_slack(alpha, axis, steps):
    """None when the history of a multiplied matrix does not leave its value alone (then the clauses say nothing about the product),
    else the a-priori bound on what it adds to an entry"""
    if not steps: return 0.0
    n = _unit(axis)
    R0 = [[_rodrigues(alpha, n, [1.0 if k == j else 0.0 for k in range(3)])[i] for j in range(3)] for i in range(3)]
    try: R1, extra = _mhist_effect(R0, steps)
    except _Exit: return None
    if len(R1) != 3 or any(len(r) != 3 for r in R1): return None
    if not all(abs(R1[i][j] - R0[i][j]) <= 2 * extra for i in range(3) for j in range(3)): return None
    return extra


def _spha_checks(op, r, th, axis, w, out):
    n = _unit(axis); reg = _region(r)
    if len(w) != 3 or not all(math.isfinite(x) for x in w):
        out.append(("spha:norm" + reg, f"Spherical_Coordinates(r = {r!r}, theta = {th!r}, axis {axis!r}) = {w!r} is not a finite 3-vector")); return
    # evaluated on the scale of r (exact scaling by a power of two): no overflow / underflow in the check for any r > 0
    r0 = r; r, (w,), sub = _unit_scale(r, w); ss = sub / r
    # slack 64 eps r: each component is a sum of <= 3 terms of magnitude <= r with <= 8 roundings each
    nr = math.sqrt(_dot(w, w))
    if not abs(nr - r) <= 64 * EPS * r + 2 * sub: out.append(("spha:norm" + reg, f"norm {nr / r!r} r instead of r = {r0!r} (theta {th!r}, axis {axis!r})"))
    ct = _dot(w, n) / r
    if not abs(ct - math.cos(th)) <= 64 * EPS + 2 * ss: out.append(("spha:polar-angle" + reg, f"unit . axis = {ct!r}, cos(theta) = {math.cos(th)!r} (r {r0!r}, axis {axis!r})"))
    # the component perpendicular to the axis has length r sin(theta) (polar angle theta, seen where the cosine is flat)
    perp = [w[i] - _dot(w, n) * n[i] for i in range(3)]; sp = math.sqrt(_dot(perp, perp)) / r
    if not abs(sp - math.sin(th)) <= 64 * EPS + 2 * ss:
        out.append(("spha:polar-sine" + reg, f"|u - (u.ev) ev| / r = {sp!r}, sin(theta) = {math.sin(th)!r} (r {r0!r}, theta {th!r}, axis {axis!r})"))


def _acos_interval(c, delta):
    """the angles whose cosine is within delta of c"""
    return math.acos(min(1.0, c + delta)), math.acos(max(-1.0, c - delta))


def _angle_checks(sig, got, a, b, out, what, c_claim=None, delta=16 * EPS):
    """Angle(a, b) = acos(a.b / (|a| |b|)): the quotient carries <= 8 eps of rounding (3 eps from the sum of three products, 2 eps from
    each norm, 1 eps from the product and the quotient), the reference cosine 2 eps more, acos one ulp (< 8 eps absolute): the result must lie
    in the interval of angles whose cosine is within 16 eps of the true one.  c_claim/delta: the cosine the property claims and its slack."""
    if c_claim is None:
        c = _dot(a, b) / (math.sqrt(_dot(a, a)) * math.sqrt(_dot(b, b)))
    else: c = c_claim
    lo, hi = _acos_interval(c, delta)
    if math.isnan(got):
        region = "parallel" if (abs(c) + delta >= 1.0) else "generic"
        out.append((f"{sig}:nan:{region}", f"{what} is NaN for vectors at an angle of {math.acos(max(-1.0, min(1.0, c)))!r} ({a!r}, {b!r})"))
    elif not (lo - 8 * EPS <= got <= hi + 8 * EPS):
        out.append((f"{sig}:value", f"{what} = {got!r}, the angle between {a!r} and {b!r} lies in [{lo!r}, {hi!r}]"))


def _chain_checks(d, o, out):
    """P = 1 * R(a_1, ax_1) * ... * R(a_n, ax_n) built by the library.  Every factor is within 64 eps of the exact rotation (the slack of the
    single-matrix clauses), every product adds 4 eps per entry: the clauses of the product get (n + 1) * 64 eps."""
    dim, fs = d["dim"], d["factors"]; n = len(fs)
    P, rest = _mat(o); ssum = rest[0]; rest = rest[1:]
    if len(P) != dim or any(len(r) != dim for r in P): out.append(("rotchain:shape", f"the product of {n} {dim}-D rotations is {len(P)}x{len(P[0]) if P else 0}")); return
    sl = (n + 1) * 64 * EPS
    exact = math.fsum(a for a, _ in fs); mag = sum(abs(a) for a, _ in fs)
    if not abs(ssum - exact) <= n * EPS * mag + TINY: out.append(("rotchain:harness-sum", f"sum of the angles {ssum!r} vs {exact!r}")); return
    sumsl = (n * mag + abs(exact)) * EPS       # rounding of the running sum, seen through sin / cos
    if dim == 2:
        c, sn = math.cos(exact), math.sin(exact)
        if not (abs(P[0][0] - c) <= sl + sumsl and abs(P[1][1] - c) <= sl + sumsl and abs(P[1][0] - sn) <= sl + sumsl and abs(P[0][1] + sn) <= sl + sumsl):
            out.append(("rot2:composition", f"the product of {n} 2-D rotations is {P!r}, the rotation by the sum {exact!r} of the angles is [[{c!r}, {-sn!r}], [{sn!r}, {c!r}]]"))
        if n >= 1:
            Rs, _ = _mat(rest); _rot_answer_checks(ssum, 2, [], Rs, out, " (rotation by the sum of the angles)")
        return
    if any(len(ax) != 3 or not any(ax) or not all(math.isfinite(x) for x in ax) for _, ax in fs): return
    _rot_checks("rot3", P, None, None, out, f" (for the product of {n} rotations)", extra=n * 64 * EPS)
    # the product applied to the basis vectors is the factors applied one after the other, the last factor first
    units = [_unit(ax) for _, ax in fs]
    for j in range(3):
        v = [1.0 if k == j else 0.0 for k in range(3)]
        for (a, _), u in zip(reversed(fs), reversed(units)): v = _rodrigues(a, u, v)
        if not all(abs(P[i][j] - v[i]) <= sl for i in range(3)):
            out.append(("rotchain:factors-applied", f"column {j} of the product of {n} rotations is {[P[i][j] for i in range(3)]!r}, the factors applied in turn give {v!r}")); break
    # factors about one direction (any lengths): the product is the rotation by the sum of the angles
    if n >= 1 and all(max(abs(units[k][i] - units[0][i]) for i in range(3)) <= 4 * EPS for k in range(n)):
        Rs, _ = _mat(rest)
        _rot3_matrix_checks(Rs, ssum, fs[0][1], out, " (rotation by the sum of the angles)")
        for j in range(3):
            ref = _rodrigues(exact, units[0], [1.0 if k == j else 0.0 for k in range(3)])
            if not all(abs(P[i][j] - ref[i]) <= sl + sumsl for i in range(3)):
                out.append(("rot3:composition", f"the product of {n} rotations about {fs[0][1]!r} by {[a for a, _ in fs]!r} has column {j} = {[P[i][j] for i in range(3)]!r}, the rotation by the sum {exact!r} has {ref!r}")); break


def _exact_det(M):
    """the determinant of a square matrix of doubles, exactly (fraction-free expansion over the rationals)"""
    from fractions import Fraction
    A = [[Fraction(x) for x in r] for r in M]; n = len(A); det = Fraction(1)
    for i in range(n):
        p = next((k for k in range(i, n) if A[k][i] != 0), None)
        if p is None: return Fraction(0)
        if p != i: A[i], A[p] = A[p], A[i]; det = -det
        det *= A[i][i]
        for k in range(i + 1, n):
            f = A[k][i] / A[i][i]
            if f != 0: A[k] = [A[k][j] - f * A[i][j] for j in range(n)]
    return det


def _exact_inverse(M):
    """the inverse of a square matrix of doubles over the rationals (None when singular)"""
    from fractions import Fraction
    n = len(M); A = [[Fraction(x) for x in r] + [Fraction(int(i == j)) for j in range(n)] for i, r in enumerate(M)]
    for i in range(n):
        p = next((k for k in range(i, n) if A[k][i] != 0), None)
        if p is None: return None
        A[i], A[p] = A[p], A[i]
        piv = A[i][i]; A[i] = [x / piv for x in A[i]]
        for k in range(n):
            if k != i and A[k][i] != 0:
                f = A[k][i]; A[k] = [x - f * y for x, y in zip(A[k], A[i])]
    return [r[n:] for r in A]


def _gj_slack(n): return 64 * n ** 3 * 2 ** (n - 1) * EPS      # c n^3 rho eps with the growth bound 2^(n-1) of partial pivoting


def _inv_checks(d, o, exited, out):
    """'transpose equals inverse' asked of the library's own objects: Inverse() (Gauss-Jordan with partial pivoting), Invertible(), Orthogonal(),
    Transpose(), Norm().  A-priori slack: the forward error of Gaussian elimination with partial pivoting, c n^3 2^(n-1) kappa eps (c = 64),
    kappa = |M|_inf |M^-1|_inf computed exactly over the rationals; 1024 eps for a rotation (kappa = 1, n <= 3, entries off by <= 64 eps)."""
    op = d["op"]
    if op == "rotinv":
        alpha, dim, axis = d["alpha"], d["dim"], d["axis"]
        valid = dim == 2 or (dim == 3 and len(axis) == 3)
        if not valid:
            if not exited: out.append(("rot:guard", f"Rotation_Matrix accepted dim={dim} with a {len(axis)}-component axis"))
            return
        if dim == 3 and (not any(axis) or not all(math.isfinite(x) for x in axis)): return
        if exited: out.append(("rotinv:exit", f"Inverse() of Rotation_Matrix({alpha!r}, {dim}, {axis!r}) terminated the process")); return
        Ri, rest = _mat(o); Rt, rest = _mat(rest); nr = rest[0]
        if len(Ri) != dim or len(Rt) != dim: out.append(("rotinv:shape", f"Inverse() / Transpose() of a {dim}-D rotation has {len(Ri)} / {len(Rt)} rows")); return
        bad = [(i, j) for i in range(dim) for j in range(dim) if not abs(Ri[i][j] - Rt[i][j]) <= 1024 * EPS]
        if bad:
            i, j = bad[0]
            out.append((f"rot{dim}:transpose-is-inverse", f"Rotation_Matrix({alpha!r}, {dim}, {axis!r}): Inverse()[{i}][{j}] = {Ri[i][j]!r}, Transpose()[{i}][{j}] = {Rt[i][j]!r}"))
        # the transpose is the rotation by -alpha about the same axis
        _rot_answer_checks(-alpha, dim, axis, Rt, out, " (Transpose() of the rotation by alpha)")
        if not abs(nr - math.sqrt(dim)) <= 64 * EPS: out.append((f"rot{dim}:norm", f"Norm() of a {dim}-D rotation is {nr!r}, sqrt({dim}) expected"))
        return
    M = d["M"]; n = len(M); sq = all(len(r) == n for r in M)
    finite = all(math.isfinite(x) for r in M for x in r)
    small_int = finite and all(x == int(x) and abs(x) <= 3 for r in M for x in r)        # Determinant() is exact on these
    X = _exact_inverse(M) if (sq and finite) else None
    if op == "matinv":
        if not sq:
            if not exited: out.append(("matinv:guard", f"Inverse() of a {n}x{len(M[0])} matrix returned"))
            return
        if not finite: return
        if X is None:
            if small_int and not exited: out.append(("matinv:singular", f"Inverse() of the singular matrix {M!r} returned"))
            return
        nm = max(math.fsum(abs(x) for x in r) for r in M); nx = float(max(sum(abs(x) for x in r) for r in X)); kappa = nm * nx
        if exited:
            if small_int or kappa < 1e6: out.append(("matinv:exit", f"Inverse() of the regular matrix {M!r} (condition number {kappa:.3g}) terminated the process"))
            return
        Y, rest = _mat(o); nr = rest[0]
        if len(Y) != n or any(len(r) != n for r in Y): out.append(("matinv:shape", f"Inverse() of a {n}x{n} matrix is {len(Y)}x{len(Y[0]) if Y else 0}")); return
        sl = _gj_slack(n) * kappa
        if sl < 1e-3:
            bad = [(i, j) for i in range(n) for j in range(n) if not abs(Y[i][j] - float(X[i][j])) <= sl * nx]
            if bad:
                i, j = bad[0]; out.append(("matinv:inverse", f"Inverse() of {M!r}: entry [{i}][{j}] = {Y[i][j]!r}, exactly {float(X[i][j])!r} (condition number {kappa:.3g})"))
        sq2 = math.fsum(x * x for r in M for x in r)
        if 1e-290 < sq2 < 1e290 and not abs(nr - math.sqrt(sq2)) <= (n * n + 2) * EPS * math.sqrt(sq2): out.append(("matinv:norm", f"Norm() of {M!r} is {nr!r}, exactly {math.sqrt(sq2)!r}"))
        return
    # matorth: Invertible(), Orthogonal(), Transpose()
    if exited:
        # Orthogonal() calls Inverse(), which ends the process on a zero pivot; only a regular well-conditioned matrix must be answered
        if not sq or (X is not None and small_int): out.append(("matorth:exit", f"Invertible() / Orthogonal() / Transpose() of {M!r} terminated the process"))
        return
    inv, orth = o[0], o[1]; Tm, _ = _mat(o[2:])
    want = [list(col) for col in zip(*M)]
    if [list(r) for r in Tm] != want and finite: out.append(("matorth:transpose", f"Transpose() of {M!r} is {Tm!r}"))
    if not sq:
        if inv != 0 or orth != 0: out.append(("matorth:guard", f"a {n}x{len(M[0])} matrix is called invertible ({inv}) / orthogonal ({orth})"))
        return
    if not finite: return
    if small_int and inv != (0 if X is None else 1): out.append(("matorth:invertible", f"Invertible() of {M!r} is {inv}, the determinant is {float(_exact_det(M))!r}"))
    if orth == 1:
        nm = max(math.fsum(abs(x) for x in r) for r in M); nt = max(math.fsum(abs(x) for x in r) for r in want)
        sl = _gj_slack(n) * nm * nt * nm
        G = [[math.fsum(M[k][i] * M[k][j] for k in range(n)) for j in range(n)] for i in range(n)]
        bad = [(i, j) for i in range(n) for j in range(n) if not abs(G[i][j] - (1.0 if i == j else 0.0)) <= sl]
        if bad: out.append(("matorth:orthogonal", f"Orthogonal() of {M!r} is true, (M^T M){list(bad[0])} = {G[bad[0][0]][bad[0][1]]!r}"))
    # a signed permutation matrix is exactly orthogonal and the elimination is exact on it
    if n >= 1 and all(x in (0.0, 1.0, -1.0) for r in M for x in r) and all(sum(1 for x in r if x) == 1 for r in M) and all(sum(1 for x in c if x) == 1 for c in want):
        if orth != 1: out.append(("matorth:permutation", f"Orthogonal() of the signed permutation matrix {M!r} is false"))


def _dt_checks(d, o, exited, out):
    """Determinant() and Trace() asked of the library's own objects.  A 3x3 Laplace expansion of entries of magnitude <= 1 carries < 16 rounding
    errors on top of the entries' own (64 eps for a rotation, (n + 1) 64 eps for a product of n, as in the single-matrix clauses)."""
    op = d["op"]
    if op == "matdt":
        M = d["M"]; n = len(M); sq = all(len(r) == n for r in M)
        if not sq:
            if not exited: out.append(("matdt:guard", f"Determinant() / Trace() of a {n}x{len(M[0])} matrix returned"))
            return
        if exited: out.append(("matdt:exit", f"Determinant() of a square {n}x{n} matrix terminated the process")); return
        if not all(math.isfinite(x) for r in M for x in r): return
        det, tr = o[0], o[1]
        B = 1.0
        for r in M: B *= math.fsum(abs(x) for x in r)
        ref = float(_exact_det(M))
        # every one of the n! terms goes through <= 3 n roundings on its way up the recursion; the terms sum to at most B in magnitude
        if math.isfinite(B) and B > 1e-280 and not abs(det - ref) <= 4 * n * n * EPS * B:
            out.append(("matdt:determinant", f"Determinant() of {M!r} is {det!r}, exactly {ref!r}"))
        dg = [M[i][i] for i in range(n)]; rt = math.fsum(dg)
        if not abs(tr - rt) <= n * EPS * math.fsum(abs(x) for x in dg): out.append(("matdt:trace", f"Trace() of {M!r} is {tr!r}, the diagonal sums to {rt!r}"))
        return
    if op == "rotdt":
        alpha, dim, axis = d["alpha"], d["dim"], d["axis"]
        valid = dim == 2 or (dim == 3 and len(axis) == 3)
        if not valid:
            if not exited: out.append(("rot:guard", f"Rotation_Matrix accepted dim={dim} with a {len(axis)}-component axis"))
            return
        if exited: out.append(("rotdt:exit", "Determinant() / Trace() of a valid rotation terminated the process")); return
        if dim == 3 and (not any(axis) or not all(math.isfinite(x) for x in axis)): return
        det, tr = o[0], o[1]; want = (1.0 if dim == 3 else 0.0) + 2.0 * math.cos(alpha)
        if not abs(det - 1.0) <= 80 * EPS: out.append((f"rot{dim}:determinant", f"Rotation_Matrix({alpha!r}, {dim}, {axis!r}).Determinant() = {det!r}"))
        if not abs(tr - want) <= 80 * EPS: out.append((f"rot{dim}:trace", f"Rotation_Matrix({alpha!r}, {dim}, {axis!r}).Trace() = {tr!r}, {'1 + ' if dim == 3 else ''}2 cos(alpha) = {want!r}"))
        return
    dim, fs = d["dim"], d["factors"]; n = len(fs)
    if exited: out.append(("chaindt:exit", "Determinant() / Trace() of a product of valid rotations terminated the process")); return
    det, tr = o[0], o[1]
    sl = (n + 1) * 64 * EPS + 16 * EPS
    exact = math.fsum(a for a, _ in fs); mag = sum(abs(a) for a, _ in fs); sumsl = (n * mag + abs(exact)) * EPS
    if dim == 3 and any(len(ax) != 3 or not any(ax) or not all(math.isfinite(x) for x in ax) for _, ax in fs): return
    if not abs(det - 1.0) <= 3 * sl: out.append((f"rot{dim}:determinant", f"the product of {n} {dim}-D rotations has Determinant() = {det!r}"))
    if dim == 2:
        if not abs(tr - 2.0 * math.cos(exact)) <= 2 * (sl + sumsl):
            out.append(("rot2:composition", f"the product of {n} 2-D rotations has Trace() = {tr!r}, 2 cos(sum of the angles) = {2.0 * math.cos(exact)!r}"))
        return
    if not -1.0 - 3 * sl <= tr <= 3.0 + 3 * sl: out.append(("rot3:trace", f"the product of {n} rotations has Trace() = {tr!r} outside [-1, 3]"))
    units = [_unit(ax) for _, ax in fs]
    if n >= 1 and all(max(abs(units[k][i] - units[0][i]) for i in range(3)) <= 4 * EPS for k in range(n)):
        want = 1.0 + 2.0 * math.cos(exact)
        if not abs(tr - want) <= 3 * (sl + sumsl):
            out.append(("rot3:composition", f"the product of {n} rotations about {fs[0][1]!r} by {[a for a, _ in fs]!r} has Trace() = {tr!r}, 1 + 2 cos(sum) = {want!r}"))


def predicates(c, io):
    """S4: the property's own clauses evaluated on the implementation's output."""
    out = []
    if io.startswith(("CRASH", "SANITIZER", "TIMEOUT", "HARNESSERR")): return out
    d = _decode(c.line); op = d["op"]
    o = parse_vals(io)
    exited = io.startswith("EXIT")
    if d["exit"]:
        # the history of an argument object is itself a request the library refuses (index / dimension guards)
        if not exited: out.append(("hist:guard", "a history step with an index or a dimension outside the object was accepted"))
        return out
    if op == "seq":
        _seq_checks(d, o, exited, out)
    elif op in ("rot", "rotdef"):
        alpha, dim, axis = d["alpha"], d["dim"], d["axis"]; na = len(axis)
        valid = dim == 2 or (dim == 3 and na == 3)
        if not valid:
            if not exited: out.append(("rot:guard", f"Rotation_Matrix accepted dim={dim} with a {na}-component axis"))
            return out
        if exited: return [("rot:exit", "Rotation_Matrix terminated the process on a valid request")]
        R, _ = _mat(o)
        _rot_answer_checks(alpha, dim, axis, R, out, f" (axis {axis!r})" if d["hist"] else "")
        if "direction-keeping" in c.tags:
            # the object is a positive multiple of the vector it was constructed from: the clauses hold for that vector as well
            cur = _Cur(c.line); cur.nxt(); cur.nxt(); cur.num(); cur.int(); start = cur.lst()
            _rot_answer_checks(alpha, dim, start, R, out, f" (the axis object was constructed from {start!r} and only rescaled / normalised / asked since)")
    elif op == "rotcomp":
        a, b, axis = d["a"], d["b"], d["axis"]
        if exited: return [("rotcomp:exit", "Rotation_Matrix terminated the process on a valid request")]
        ea, eb = _matrix_history_slack(a, axis, d["mha"]), _matrix_history_slack(b, axis, d["mhb"])
        if ea is None or eb is None: return out
        P, rest = _mat(o); Rab, _ = _mat(rest)
        # slack: 64 eps for the entries of the product and of R(a+b), plus the rounding of a+b (|a+b| eps / 2) seen through sin/cos
        # (+ what the histories of the two factors add: each entry of the product sees at most sqrt(3) of it per factor)
        sl = (128 + abs(a + b)) * EPS + 2 * (ea + eb)
        if not all(abs(P[i][j] - Rab[i][j]) <= sl for i in range(3) for j in range(3)):
            out.append(("rot3:composition", f"R(a) R(b) = {P!r} differs from R(a+b) = {Rab!r}"))
        _rot_checks("rot3", P, None, _unit(axis), out, " (for the product R(a) R(b))", extra=4 * (ea + eb))
    elif op in ("rotapply", "rotback"):
        alpha, axis, vec = d["alpha"], d["axis"], d["v"]
        if exited: return [(f"{op}:exit", "terminated the process on a valid request")]
        ex = _matrix_history_slack(alpha, axis, d["mh"])
        if ex is None: return out
        w = o[1:4]; n = _unit(axis); ref = _rodrigues(alpha, n, vec); sc = math.sqrt(_dot(vec, vec))
        # v perpendicular to the axis is turned by alpha in the right-handed sense: R v = cos(alpha) v + sin(alpha) n x v
        if not all(abs(w[i] - ref[i]) <= (64 * EPS + 2 * ex) * sc for i in range(3)):
            out.append(("rot3:perpendicular-turned", f"R v = {w!r}, cos(alpha) v + sin(alpha) n x v (+ axial part) = {ref!r} (axis {axis!r}, v {vec!r})"))
        if op == "rotback":
            # transpose equals inverse: (R v) R = R^T R v = v.  R = R_true + E with |E_ij| <= 64 eps (+ history): each component of
            # (E^T R + R^T E) v is at most 2 * 64 eps * sqrt(3) |v|, the two products round by about 11 eps |v| more
            back = o[5:8]
            if not all(abs(back[i] - vec[i]) <= (256 * EPS + 4 * ex) * sc for i in range(3)):
                out.append(("rot3:transpose-is-inverse", f"(R v) R = {back!r} instead of v = {vec!r} (axis {axis!r})"))
    elif op == "rotaxis":
        alpha, axis = d["alpha"], d["axis"]
        if exited: return [("rotaxis:exit", "terminated the process on a valid request")]
        ex = _matrix_history_slack(alpha, axis, d["mh"])
        if ex is None or not any(axis): return out
        # "leaves the axis fixed", for the axis object itself (any length): |E_ij| <= 64 eps in R, so |(E a)_i| <= 64 sqrt(3) eps |a| (+ 3 eps |a| of the product, + history of R)
        w = o[1:4]; sc = math.sqrt(_dot(axis, axis))
        if not all(abs(w[i] - axis[i]) <= (128 * EPS + 2 * ex) * sc for i in range(3)):
            out.append(("rot3:axis-fixed", f"R a = {w!r} for the axis a = {axis!r} itself"))
    elif op == "rotsph":
        alpha, r, th, ph, axis = d["alpha"], d["r"], d["theta"], d["phi"], d["axis"]
        if exited: return [("rotsph:exit", "terminated the process on a valid request")]
        ex = _matrix_history_slack(alpha, axis, d["mh"])
        if ex is None: return out
        w = o[1:4]; u2 = o[5:8]
        # R(alpha) u(phi) = u(phi + alpha): the rotation and the azimuth are right-handed about the same axis.  Errors: 64 eps in R,
        # 64 eps r in each u, seen through a sum of three products (<= 3 * 64 + 3 * 64 + 4 eps r), 64 eps r for u(phi+alpha) and
        # |phi + alpha| eps r for the rounded sum of the angles: < 512 eps r
        if not all(math.isfinite(x) for x in w + u2):
            out.append(("rotsph:turning-is-increasing-phi" + _region(r), f"R(alpha) u(phi) = {w!r}, u(phi+alpha) = {u2!r}: not finite (r {r!r}, alpha {alpha!r}, axis {axis!r})")); return out
        r1, (w1, v1), sub = _unit_scale(r, w, u2)
        if not all(abs(w1[i] - v1[i]) <= (512 * EPS + 3 * ex) * r1 + 4 * sub for i in range(3)):
            out.append(("rotsph:turning-is-increasing-phi" + _region(r), f"R(alpha) u(phi) = {w!r} but u(phi+alpha) = {u2!r} (r {r!r}, alpha {alpha!r}, axis {axis!r})"))
        _spha_checks("rotsph", r, th, axis, u2, out)
    elif op == "sph":
        r, th, ph = d["r"], d["theta"], d["phi"]
        if exited: return [("sph:exit", "terminated the process")]
        _sph_answer_checks(r, th, ph, o, out)
    elif op in ("spha", "sphad", "sphang", "sphrot"):
        r, th, ph, axis = d["r"], d["theta"], d["phi"], d["axis"]
        if len(axis) != 3 or not any(axis) or not all(math.isfinite(x) for x in axis):
            return out                                # guards / zero axis: correspondence only
        if exited: return [(f"{op}:exit", "Spherical_Coordinates terminated the process for a non-zero axis")]
        n = _unit(axis)
        w = o[1:4]
        if op != "sphrot" or not d["usteps"]: _spha_checks(op, r, th, axis, w, out)
        if op == "spha" and "direction-keeping" in c.tags:
            cur = _Cur(c.line); cur.nxt(); cur.nxt(); cur.num(); cur.num(); cur.num(); start = cur.lst()
            _spha_checks(op, r, th, start, w, out)
        if op == "sphad":
            h = d["h"]
            w2 = o[5:8]
            if not all(math.isfinite(x) for x in w + w2):
                _spha_checks(op, r, th, axis, w2, out); return out           # reported by the norm clause
            r0 = r; r, (w, w2), sub = _unit_scale(r, w, w2)
            dd = [w2[i] - w[i] for i in range(3)]
            val = _dot(_cross(n, w), dd); ref = r * r * math.sin(th) ** 2 * math.sin(h)
            # (ev x u(phi)) . (u(phi+h) - u(phi)) = r^2 sin^2(theta) sin(h) > 0: increasing phi moves the vector around the axis
            # in the right-handed sense; slack 2 * 64 eps r^2 (errors of u(phi), u(phi+h)) + rounding of phi+h
            if not abs(val - ref) <= (128 + 8) * EPS * r * r + 4 * sub:
                out.append(("spha:right-handed" + _region(r0), f"(ev x u(phi)) . (u(phi+h)-u(phi)) = {val / (r * r)!r} r^2, expected r^2 sin^2(theta) sin(h) = {ref / (r * r)!r} r^2 (r {r0!r}, axis {axis!r})"))
            w, w2 = o[1:4], o[5:8]; r = r0
            _spha_checks(op, r, th, axis, w2, out)
        elif op == "sphang":
            # the library's own Norm() and Angle() of the returned vector: r and theta
            nr, a1, a2 = o[4], o[5], o[6]
            if not abs(nr - r) <= 66 * EPS * r: out.append(("spha:norm", f"Norm() of the result is {nr!r} instead of r = {r!r} (axis {axis!r})"))
            for got, what in ((a1, "Angle(u, axis)"), (a2, "Angle(axis, u)")):
                _angle_checks("angle", got, w, axis, out, what)
                # u . ev / r is within 64 eps of cos(theta) (the polar-angle clause), the quotient inside Angle within 16 eps of that
                if not math.isnan(got): _angle_checks("spha:angle-is-theta", got, w, axis, out, what + f" for theta = {th!r}", c_claim=math.cos(th), delta=80 * EPS)
        elif op == "sphrot":
            # the vector the library returned (and what became of it) is the axis of a rotation
            u = w; R, _ = _mat(o[4:])
            if any(u) and all(math.isfinite(x) for x in u) and 1e-150 < math.sqrt(_dot(u, u)) < 1e150:
                _rot3_matrix_checks(R, d["alpha"], u, out, f" (axis {u!r}, a vector returned by Spherical_Coordinates)")
    elif op in ("rotdt", "chaindt", "matdt"):
        _dt_checks(d, o, exited, out)
    elif op in ("rotinv", "matinv", "matorth"):
        _inv_checks(d, o, exited, out)
    elif op == "rotchain":
        if exited: return [("rotchain:exit", "a product of valid rotations terminated the process")]
        _chain_checks(d, o, out)
    elif op == "rotangle":
        alpha, axis, vec = d["alpha"], d["axis"], d["v"]
        if exited: return [("rotangle:exit", "terminated the process on a valid request")]
        w = o[1:4]; n = _unit(axis); ref = _rodrigues(alpha, n, vec); sc = math.sqrt(_dot(vec, vec))
        if not all(abs(w[i] - ref[i]) <= 64 * EPS * sc for i in range(3)):
            out.append(("rot3:perpendicular-turned", f"R v = {w!r}, Rodrigues' formula gives {ref!r} (axis {axis!r}, v {vec!r})")); return out
        perp = abs(_dot(n, vec)) <= 16 * EPS * sc
        for got, what in ((o[4], "Angle(v, R v)"), (o[5], "Angle(R v, v)")):
            _angle_checks("angle", got, vec, w, out, what)
            # v perpendicular to the axis is turned by alpha: the cosine of the angle between v and R v is cos(alpha); R v carries <= 64 eps |v|,
            # the quotient inside Angle 16 eps, the residual (n.v)^2 / |v|^2 of the generated v is below eps
            if perp and not math.isnan(got):
                _angle_checks("rot3:turned-by-alpha", got, vec, w, out, what + f" for alpha = {alpha!r}", c_claim=math.cos(alpha), delta=96 * EPS)
    elif op == "angle":
        a, b = d["a"], d["b"]
        if len(a) != len(b):
            if not exited: out.append(("angle:guard", "Angle accepted vectors of differing dimensions"))
        elif exited: out.append(("angle:exit", "Angle terminated the process"))
        elif any(a) and any(b) and all(math.isfinite(x) for x in a + b):
            _angle_checks("angle", o[0], a, b, out, "Angle(a, b)")
    elif op == "cross":
        a, b = d["a"], d["b"]
        if len(a) != 3 or len(b) != 3:
            if not exited: out.append(("cross:guard", "Cross accepted a non-3-vector"))
        elif exited: out.append(("cross:exit", "Cross terminated the process"))
        else:
            ref = _cross(a, b); sc = math.sqrt(_dot(a, a) * _dot(b, b))
            if not all(abs(o[1 + i] - ref[i]) <= 4 * EPS * sc for i in range(3)): out.append(("cross:definition", f"a x b = {o[1:4]!r}, definition gives {ref!r}"))
    return out
