"""C16 — rotations and spherical coordinates."""
import math
from vcheck import Case, hx, flist, parse_vals

PID = "C16"
RULE = ("non-trivial = a 3-D rotation / axis-relative spherical-coordinate case whose axis is within 1e-6 of +-z "
        "(polar distance of the normalised axis) or has length outside [0.1,10], or a rotation with |alpha| > 2 pi, "
        "or whose argument objects (axis, rotated vector, multiplied matrices) reach the call through a non-empty call history; "
        "guard requests (wrong dimension / axis size) count when they exit; distinct by case text")
LEVEL_TEXT = ("Theorems (Coq, over the reals, for every angle and every non-zero axis of any length): the 2-D and 3-D matrices returned by the "
              "model of Rotation_Matrix are orthogonal (R^T R = R R^T = 1, all entries), have determinant one, the 3-D rotation fixes the axis and its unit vector, "
              "maps every v perpendicular to the axis to cos(alpha) v + sin(alpha) (n x v) (and every v by Rodrigues' formula), and "
              "R(alpha) R(beta) = R(alpha+beta) in 2-D and 3-D; Spherical_Coordinates without axis is the textbook formula; with an axis every non-zero axis reaches "
              "exactly one of three branches whose formula is well defined (ev = +z, ev = -z, or aux <> 0 in the general branch that divides by aux), and for all r, theta, phi "
              "the result is r (sin(theta) cos(phi) e1 + sin(theta) sin(phi) e2 + cos(theta) ev) in an explicit right-handed orthonormal frame (e1, e2, ev) that depends on the axis only; "
              "hence norm r, component r cos(theta) along the axis, and (ev x u) . du/dphi = r^2 sin^2(theta) >= 0 (derivative taken of the model's own result as a function of phi). "
              "Not theorems: everything about rounding (orthogonality etc. 'to rounding', the behaviour near the poles in floating point, underflow of ev0^2+ev1^2). "
              "The float behaviour is covered by the differential run of the extracted model against the library (bit-identical) and by "
              "the S4 predicates on the library's output (orthogonality, determinant, fixed axis, Rodrigues image, composition, plain formula, norm, polar cosine and sine, "
              "finite-difference handedness (ev x u(phi)).(u(phi+h)-u(phi)) = r^2 sin^2(theta) sin(h)) with a-priori rounding slack 64 eps.")
LEVEL_NOTE = ("Coq 8.16.1 kernel, theorems over R with the standard library's sin, cos, sqrt and Coquelicot's is_derive (axioms of the real numbers as printed by Print Assumptions); "
              "hand-written model tied by differential correspondence (extraction with ExtrOcamlBasic only); std::hypot is a function argument of the model, instantiated with "
              "sqrt(x*x+y*y) in the theorems and with libm's hypot in the float instance; libm sin/cos/sqrt/hypot are the same functions on both sides")
TOL = (1e-13, 1e-300)
TRUSTED = ["libm sin, cos, hypot and IEEE sqrt are modelled by the real functions of the same name / by sqrt(x^2+y^2) (the S4 predicates assume each is accurate to about one ulp)"]
ASSUMPTIONS = ["Rotation_Matrix with a zero axis returns NaN entries and Spherical_Coordinates with a zero axis falls back to the plain formula: "
               "outside the property's quantifier (non-zero axes); both are still compared with the model"]

EPS = 2.0 ** -53
PI = math.pi


def _axes(rng, n_random):
    """(axis, tag) pairs aimed at the case splits: coordinate directions, near the poles, lengths 1e-6..1e6"""
    out = []
    lens = [1.0, 1e-6, 1e6, 0.1, 10.0, 3.0]
    for d in ([1, 0, 0], [-1, 0, 0], [0, 1, 0], [0, -1, 0], [0, 0, 1], [0, 0, -1]):
        for L in lens + [10 ** rng.uniform(-6, 6)]:
            out.append(([L * x for x in d], "axis-coordinate"))
    for delta in (1e-12, 1e-9, 1e-7, 1e-5, 1e-3, 1e-15, 1e-17, 1e-160, 1e-170, 3e-8, 2e-6):
        for sgn in (1.0, -1.0):
            for _ in range(3):
                psi = rng.choice([0.0, PI / 2, PI, rng.uniform(0, 2 * PI), rng.uniform(0, 2 * PI)])
                L = rng.choice([1.0, 1.0, 10 ** rng.uniform(-6, 6)])
                out.append(([L * delta * math.cos(psi), L * delta * math.sin(psi), L * sgn], "axis-near-pole"))
    for _ in range(n_random):
        while True:
            d = [rng.gauss(0, 1) for _ in range(3)]
            if math.sqrt(sum(x * x for x in d)) > 1e-3: break
        if rng.random() < 0.15: d[rng.randrange(3)] = 0.0
        if d == [0.0, 0.0, 0.0]: d = [1.0, 2.0, 2.0]
        L = 10 ** rng.uniform(-6, 6) if rng.random() < 0.7 else 1.0
        nrm = math.sqrt(sum(x * x for x in d))
        out.append(([L * x / nrm for x in d], "axis-random"))
    return out


def _angle(rng):
    r = rng.random()
    if r < 0.2:
        return rng.choice([0.0, PI / 2, -PI / 2, PI, -PI, 2 * PI, -2 * PI, 4 * PI, -4 * PI, 3 * PI, PI / 4, 1e-9, -1e-9, 1e-300,
                           math.nextafter(PI, 4), math.nextafter(2 * PI, 0)])
    return rng.uniform(-4 * PI, 4 * PI)


def _theta(rng):
    r = rng.random()
    if r < 0.25:
        return rng.choice([0.0, PI, PI / 2, 1e-9, PI - 1e-9, 1e-5, PI - 1e-5, 1e-3, math.nextafter(PI, 0), 1e-300, PI / 3])
    return rng.uniform(0, PI)


def _phi(rng):
    r = rng.random()
    if r < 0.2:
        return rng.choice([0.0, PI / 2, PI, 3 * PI / 2, math.nextafter(2 * PI, 0), 1e-9, 1e-300])
    return rng.uniform(0, 2 * PI)


def _perp(rng, n):
    """a vector perpendicular (to rounding) to the unit vector n"""
    while True:
        w = [rng.gauss(0, 1) for _ in range(3)]
        c = _cross(n, w)
        if math.sqrt(_dot(c, c)) > 0.1: break
    s = 10 ** rng.uniform(-3, 3)
    return [s * x for x in c]


def generate(rng, tier):
    cs = []
    big = tier != "quick"
    nrand = 6000 if big else 300
    reps = 6 if big else 3
    # ---- 2-D rotations
    for _ in range(4000 if big else 300):
        cs.append(Case(f"rot {hx(_angle(rng))} 2 0", ("rot2",)))
    for a in (0.0, PI / 2, PI, -PI, 4 * PI, -4 * PI, PI / 4):
        cs.append(Case(f"rot {hx(a)} 2 3 0x0p+0 0x0p+0 0x1p+0", ("rot2",)))
    # ---- 3-D rotations
    for axis, tag in _axes(rng, nrand):
        for _ in range(reps):
            a = _angle(rng)
            cs.append(Case(f"rot {hx(a)} 3 {flist(axis)}", ("rot3", tag)))
        a, b = _angle(rng), _angle(rng)
        if abs(a + b) > 4 * PI: b = -b      # the composed angle stays in the quantified range
        cs.append(Case(f"rotcomp {hx(a)} {hx(b)} " + " ".join(hx(x) for x in axis), ("rotcomp", tag)))
        nrm = math.sqrt(_dot(axis, axis)); n = [x / nrm for x in axis]
        v = _perp(rng, n) if rng.random() < 0.8 else [rng.gauss(0, 1) for _ in range(3)]
        cs.append(Case(f"rotapply {hx(_angle(rng))} " + " ".join(hx(x) for x in axis) + " " + " ".join(hx(x) for x in v), ("rotapply", tag)))
    # ---- guards of Rotation_Matrix
    for dim in (0, 1, 4, -3, 5):
        cs.append(Case(f"rot {hx(0.3)} {dim} 3 0x0p+0 0x0p+0 0x1p+0", ("rot-guard",)))
    for ax in ([], [1.0], [1.0, 0.0], [0.0, 0.0, 1.0, 0.0]):
        cs.append(Case(f"rot {hx(0.3)} 3 {flist(ax)}", ("rot-guard",)))
    cs.append(Case(f"rot {hx(0.3)} 3 {flist([0.0, 0.0, 0.0])}", ("rot-zero-axis",)))
    # ---- plain spherical coordinates
    for _ in range(5000 if big else 400):
        r = 10 ** rng.uniform(-3, 3)
        cs.append(Case(f"sph {hx(r)} {hx(_theta(rng))} {hx(_phi(rng))}", ("sph",)))
    # ---- spherical coordinates about an axis
    for axis, tag in _axes(rng, nrand):
        for _ in range(reps):
            r = 10 ** rng.uniform(-3, 3)
            cs.append(Case(f"spha {hx(r)} {hx(_theta(rng))} {hx(_phi(rng))} {flist(axis)}", ("spha", tag)))
        r = 10 ** rng.uniform(-3, 3); th = _theta(rng); ph = _phi(rng)
        h = rng.choice([1e-3, 1e-2, 0.1, 0.5, 1.0, rng.uniform(1e-3, 1.5)])
        cs.append(Case(f"sphad {hx(r)} {hx(th)} {hx(ph)} {hx(h)} " + " ".join(hx(x) for x in axis), ("sphad", tag)))
    for ax in ([0.0, 0.0, 0.0], [0.0, 0.0], [], [1.0], [1.0, 0.0], [0.0, 1.0], [0.0, 0.0, 2.0, 0.0], [0.0, 0.0, -2.0, 0.0], [1.0, 2.0, 3.0, 4.0]):
        cs.append(Case(f"spha {hx(2.0)} {hx(0.3)} {hx(0.4)} {flist(ax)}", ("spha-guard",)))
    # ---- Cross
    for _ in range(3000 if big else 200):
        a = [rng.gauss(0, 1) * 10 ** rng.uniform(-3, 3) for _ in range(3)]
        k = rng.random()
        if k < 0.15: b = [x * rng.choice([1.0, 2.0, -1.0, 0.5, -3.0]) for x in a]
        elif k < 0.25: b = _perp(rng, [x / math.sqrt(_dot(a, a)) for x in a])
        else: b = [rng.gauss(0, 1) * 10 ** rng.uniform(-3, 3) for _ in range(3)]
        cs.append(Case(f"cross {flist(a)} {flist(b)}", ("cross",)))
    cs.append(Case(f"cross {flist([1.0, 0.0])} {flist([1.0, 0.0, 0.0])}", ("cross-guard",)))
    return cs


# ---------------------------------------------------------------- helpers (independent of the model)
def _dot(a, b): return math.fsum(x * y for x, y in zip(a, b))
def _cross(a, b): return [a[1] * b[2] - a[2] * b[1], a[2] * b[0] - a[0] * b[2], a[0] * b[1] - a[1] * b[0]]
def _unit(a):
    n = math.sqrt(_dot(a, a)); return [x / n for x in a]
def _polar_distance(axis):
    """distance of the normalised axis from the nearer of +-z"""
    n = _unit(axis); return math.hypot(n[0], n[1])


def _parse(c):
    t = c.line.split(); op = t[0]; v = parse_vals(c.line)[1:]
    return op, v


def nontrivial(c, io):
    op, v = _parse(c)
    def ax_nt(axis):
        if len(axis) != 3 or not any(axis): return False
        L = math.sqrt(_dot(axis, axis))
        return _polar_distance(axis) < 1e-6 or not (0.1 <= L <= 10.0)
    if io.startswith("EXIT"): return "guard" in " ".join(c.tags)
    if op == "rot":
        alpha, dim, n = v[0], v[1], v[2]; axis = v[3:3 + n]
        return dim == 3 and (ax_nt(axis) or abs(alpha) > 2 * PI) or (dim == 2 and abs(alpha) > 2 * PI)
    if op == "rotcomp": return ax_nt(v[2:5]) or abs(v[0]) > 2 * PI or abs(v[1]) > 2 * PI
    if op == "rotapply": return ax_nt(v[1:4]) or abs(v[0]) > 2 * PI
    if op == "spha": return ax_nt(v[4:4 + v[3]])
    if op == "sphad": return ax_nt(v[4:7])
    return False


def _mat(vals):
    r, cdim = vals[0], vals[1]; e = vals[2:2 + r * cdim]
    return [[e[i * cdim + j] for j in range(cdim)] for i in range(r)], vals[2 + r * cdim:]


def _rot_checks(op, R, alpha, n, out, tag=""):
    """orthogonality, determinant, fixed axis for a 3x3 matrix; slack 64 eps: every entry is a sum of <= 3 products of
    numbers of magnitude <= 1, each carrying <= 8 rounding errors, so R^T R, det and R n are off by < 64 eps"""
    sl = 64 * EPS
    for i in range(3):
        for j in range(3):
            g = math.fsum(R[k][i] * R[k][j] for k in range(3))
            if not abs(g - (1.0 if i == j else 0.0)) <= sl:
                out.append((f"{op}:orthogonal", f"(R^T R)[{i}][{j}] = {g!r}{tag}")); return
    det = math.fsum([R[0][0] * R[1][1] * R[2][2], R[0][1] * R[1][2] * R[2][0], R[0][2] * R[1][0] * R[2][1],
                     -R[0][2] * R[1][1] * R[2][0], -R[0][1] * R[1][0] * R[2][2], -R[0][0] * R[1][2] * R[2][1]])
    if not abs(det - 1.0) <= sl: out.append((f"{op}:determinant", f"det R = {det!r}{tag}"))
    if n is not None:
        Rn = [_dot(R[i], n) for i in range(3)]
        if not all(abs(Rn[i] - n[i]) <= sl for i in range(3)): out.append((f"{op}:axis-fixed", f"R n = {Rn!r}, n = {n!r}{tag}"))


def _rodrigues(alpha, n, v):
    c, s = math.cos(alpha), math.sin(alpha); nxv = _cross(n, v); nv = _dot(n, v)
    return [c * v[i] + s * nxv[i] + (1.0 - c) * nv * n[i] for i in range(3)]


def predicates(c, io):
    """S4: the property's own clauses evaluated on the implementation's output."""
    out = []
    op, v = _parse(c)
    if io.startswith(("CRASH", "SANITIZER", "TIMEOUT", "HARNESSERR")): return out
    o = parse_vals(io)
    exited = io.startswith("EXIT")
    if op == "rot":
        alpha, dim, na = v[0], v[1], v[2]; axis = v[3:3 + na]
        valid = dim == 2 or (dim == 3 and na == 3)
        if not valid:
            if not exited: out.append(("rot:guard", f"Rotation_Matrix accepted dim={dim} with a {na}-component axis"))
            return out
        if exited: return [("rot:exit", "Rotation_Matrix terminated the process on a valid request")]
        R, _ = _mat(o)
        if dim == 2:
            if len(R) != 2 or len(R[0]) != 2: return [("rot:shape", "2-D rotation is not 2x2")]
            ca, sa = math.cos(alpha), math.sin(alpha); sl = 8 * EPS
            # proper orthogonal and right-handed: the columns are (cos, sin) and (-sin, cos)
            if not (abs(R[0][0] - ca) <= sl and abs(R[1][1] - ca) <= sl and abs(R[1][0] - sa) <= sl and abs(R[0][1] + sa) <= sl):
                out.append(("rot2:entries", f"R = {R!r} is not [[cos,-sin],[sin,cos]] of alpha = {alpha!r}"))
            g = [[math.fsum(R[k][i] * R[k][j] for k in range(2)) for j in range(2)] for i in range(2)]
            if not all(abs(g[i][j] - (1.0 if i == j else 0.0)) <= 64 * EPS for i in range(2) for j in range(2)):
                out.append(("rot2:orthogonal", f"R^T R = {g!r}"))
            det = R[0][0] * R[1][1] - R[0][1] * R[1][0]
            if not abs(det - 1.0) <= 64 * EPS: out.append(("rot2:determinant", f"det R = {det!r}"))
        else:
            if not any(axis): return out          # zero axis: outside the quantifier
            if len(R) != 3 or len(R[0]) != 3: return [("rot:shape", "3-D rotation is not 3x3")]
            n = _unit(axis)
            _rot_checks("rot3", R, alpha, n, out)
            # the entries are Rodrigues' formula: images of the basis vectors
            for j in range(3):
                e = [1.0 if k == j else 0.0 for k in range(3)]
                ref = _rodrigues(alpha, n, e)
                if not all(abs(R[i][j] - ref[i]) <= 64 * EPS for i in range(3)):
                    out.append(("rot3:rodrigues", f"column {j} of R is {[R[i][j] for i in range(3)]!r}, Rodrigues' formula gives {ref!r}")); break
    elif op == "rotcomp":
        a, b = v[0], v[1]; axis = v[2:5]
        if exited: return [("rotcomp:exit", "Rotation_Matrix terminated the process on a valid request")]
        P, rest = _mat(o); Rab, _ = _mat(rest)
        # slack: 64 eps for the entries of the product and of R(a+b), plus the rounding of a+b (|a+b| eps / 2) seen through sin/cos
        sl = (128 + abs(a + b)) * EPS
        if not all(abs(P[i][j] - Rab[i][j]) <= sl for i in range(3) for j in range(3)):
            out.append(("rot3:composition", f"R(a) R(b) = {P!r} differs from R(a+b) = {Rab!r}"))
        _rot_checks("rot3", P, None, _unit(axis), out, " (for the product R(a) R(b))")
    elif op == "rotapply":
        alpha = v[0]; axis = v[1:4]; vec = v[4:7]
        if exited: return [("rotapply:exit", "terminated the process on a valid request")]
        w = o[1:4]; n = _unit(axis); ref = _rodrigues(alpha, n, vec); sc = math.sqrt(_dot(vec, vec))
        # v perpendicular to the axis is turned by alpha in the right-handed sense: R v = cos(alpha) v + sin(alpha) n x v
        if not all(abs(w[i] - ref[i]) <= 64 * EPS * sc for i in range(3)):
            out.append(("rot3:perpendicular-turned", f"R v = {w!r}, cos(alpha) v + sin(alpha) n x v (+ axial part) = {ref!r}"))
    elif op == "sph":
        r, th, ph = v[0], v[1], v[2]
        if exited: return [("sph:exit", "terminated the process")]
        w = o[1:4]; ref = [r * math.sin(th) * math.cos(ph), r * math.sin(th) * math.sin(ph), r * math.cos(th)]
        if o[0] != 3 or not all(abs(w[i] - ref[i]) <= 8 * EPS * r for i in range(3)):
            out.append(("sph:formula", f"Spherical_Coordinates = {w!r}, formula gives {ref!r}"))
    elif op in ("spha", "sphad"):
        r, th, ph = v[0], v[1], v[2]
        if op == "spha": na = v[3]; axis = v[4:4 + na]
        else: h = v[3]; axis = v[4:7]; na = 3
        if na != 3 or not any(axis):
            return out                                # guards / zero axis: correspondence only
        if exited: return [(f"{op}:exit", "Spherical_Coordinates terminated the process for a non-zero axis")]
        n = _unit(axis)
        w = o[1:4]
        # slack 64 eps r: each component is a sum of <= 3 terms of magnitude <= r with <= 8 roundings each
        nr = math.sqrt(_dot(w, w))
        if not abs(nr - r) <= 64 * EPS * r: out.append(("spha:norm", f"norm {nr!r} instead of r = {r!r} (axis {axis!r})"))
        ct = _dot(w, n) / r
        if not abs(ct - math.cos(th)) <= 64 * EPS: out.append(("spha:polar-angle", f"unit . axis = {ct!r}, cos(theta) = {math.cos(th)!r} (axis {axis!r})"))
        # the component perpendicular to the axis has length r sin(theta) (polar angle theta, seen where the cosine is flat)
        perp = [w[i] - _dot(w, n) * n[i] for i in range(3)]; sp = math.sqrt(_dot(perp, perp)) / r
        if not abs(sp - math.sin(th)) <= 64 * EPS:
            out.append(("spha:polar-sine", f"|u - (u.ev) ev| / r = {sp!r}, sin(theta) = {math.sin(th)!r} (theta {th!r}, axis {axis!r})"))
        if op == "sphad":
            w2 = o[5:8]
            d = [w2[i] - w[i] for i in range(3)]
            val = _dot(_cross(n, w), d); ref = r * r * math.sin(th) ** 2 * math.sin(h)
            # (ev x u(phi)) . (u(phi+h) - u(phi)) = r^2 sin^2(theta) sin(h) > 0: increasing phi moves the vector around the axis
            # in the right-handed sense; slack 2 * 64 eps r^2 (errors of u(phi), u(phi+h)) + rounding of phi+h
            if not abs(val - ref) <= (128 + 8) * EPS * r * r:
                out.append(("spha:right-handed", f"(ev x u(phi)) . (u(phi+h)-u(phi)) = {val!r}, expected r^2 sin^2(theta) sin(h) = {ref!r} (axis {axis!r})"))
    elif op == "cross":
        n1, a = v[0], v[1:1 + v[0]]; n2 = v[1 + n1]; b = v[2 + n1:2 + n1 + n2]
        if n1 != 3 or n2 != 3:
            if not exited: out.append(("cross:guard", "Cross accepted a non-3-vector"))
        elif exited: out.append(("cross:exit", "Cross terminated the process"))
        else:
            ref = _cross(a, b); sc = math.sqrt(_dot(a, a) * _dot(b, b))
            if not all(abs(o[1 + i] - ref[i]) <= 4 * EPS * sc for i in range(3)): out.append(("cross:definition", f"a x b = {o[1:4]!r}, definition gives {ref!r}"))
    return out
