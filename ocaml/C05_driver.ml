(* C05 model driver: `open C05_m`, conv.inc and Common are prepended by bin/build_driver.
   Case grammar: see checks/C05.py.  A non-Ok outcome is the outcome of the whole case. *)
open Common
exception Out of string
let ok = function Ok a -> a | Exit -> raise (Out "EXIT") | OOB -> raise (Out "OOB") | Fuel -> raise (Out "FUEL")
let put_mat (m : float mat) =
  if not (wf_mat m) then put_w "MODEL_NOT_WF"
  else begin put_w "M"; put_i (int_of_nat m.mrows); put_i (int_of_nat m.mcols); List.iter (List.iter put_f) m.mcomps end
let rd_mat r = ok (mat_of_entries (table r))

(* one call of a history.  `renew B` (the object is destroyed and a new one constructed from B in the same storage) leaves an
   object with entries B, as `assignm B` does; `copyinvertible` / `copyinverse` put the query to a copy of the object,
   which has the object's entries *)
let step r =
  let nat r = nat_of_int (integer r) in
  let call o = HCall o in
  match word r with
  (* references into the object held by the caller: taken (hold / holde) and written through later *)
  | "hold" -> let h = nat r in let i = nat r in HHoldRow (h, i)
  | "holde" -> let h = nat r in let i = nat r in let j = nat r in HHoldElt (h, i, j)
  | "hset" -> let h = nat r in let j = nat r in let v = num r in HRowSet (h, j, v)
  | "hswap" -> let h1 = nat r in let h2 = nat r in HRowSwap (h1, h2)
  | "hrow" -> let h = nat r in let l = list r in HRowAssign (h, l)
  | "eset" -> let h = nat r in let v = num r in HEltSet (h, v)
  | w -> call (match w with
  | "det" -> QDet | "invertible" | "copyinvertible" -> QInvertible | "inverse" | "copyinverse" -> QInverse
  | "orthogonal" -> QOrthogonal
  | "copydet" -> QCopyDet | "transdet" -> QTransDet
  | "subdet" -> let i = nat r in let j = nat r in QSubDet (i, j)
  | "add" -> UAdd (rd_mat r) | "sub" -> USub (rd_mat r)
  | "set" -> let i = nat r in let j = nat r in let v = num r in USet (i, j, v)
  | "swap" -> let i = nat r in let j = nat r in USwap (i, j)
  | "assignm" | "renew" -> UCopyAssign (rd_mat r)
  | "assign" -> let i = nat r in let j = nat r in let v = num r in UAssign (i, j, v)
  | "resize" -> let i = nat r in let j = nat r in UResize (i, j)
  | "delrow" -> UDelRow (nat r) | "delcol" -> UDelCol (nat r)
  (* a call of another facility of the library on its own argument: the object (>= 1 row, the generator sees to it) keeps its
     entries - in the model's terms the exchange of row 0 with itself *)
  | "lib" -> let _ = word r in let _ = table r in USwap (nat_of_int 0, nat_of_int 0)
  | o -> raise (Out ("MODELERR unknown_step_" ^ o)))

let handler r =
  try
  match word r with
  | "det" -> let a = rd_mat r in put_f (ok (determinant fops a))
  | "invertible" -> let a = rd_mat r in put_b (ok (invertible fops a));
      if square a then put_f (ok (determinant fops a))
  | "det_swap" -> let t = table r in let i = integer r in let j = integer r in
      let t' = List.mapi (fun k row -> if k = i then List.nth t j else if k = j then List.nth t i else row) t in
      put_f (ok (determinant fops (ok (mat_of_entries t)))); put_f (ok (determinant fops (ok (mat_of_entries t'))))
  (* the statement-by-statement model of Inverse() (C05_Model2.inverse_lbl: work array changed in place, std::swap of rows,
     N calls of Delete_Column(0)) gives the printed answer; it must agree with the table model `inverse` (the term of the
     theorems) in outcome and bit for bit (compare: nan = nan, -0. <> 0. is not distinguished by compare, so the bits are compared) *)
  | "inverse" -> let a = rd_mat r in
      let x1 = inverse_lbl fops a and x0 = inverse fops a in
      let same = match x1, x0 with
        | Ok m1, Ok m0 -> m1.mrows = m0.mrows && m1.mcols = m0.mcols
            && List.length m1.mcomps = List.length m0.mcomps
            && List.for_all2 (fun r1 r0 -> List.length r1 = List.length r0
                 && List.for_all2 (fun u v -> Int64.bits_of_float u = Int64.bits_of_float v) r1 r0) m1.mcomps m0.mcomps
        | Exit, Exit | OOB, OOB | Fuel, Fuel -> true
        | _, _ -> false in
      if not same then raise (Out "MODEL_SPLIT inverse_lbl<>inverse");
      put_mat (ok x1)
  (* det A, det B, det (A*B), det (A^T) *)
  | "det_laws" -> let a = rd_mat r in let b = rd_mat r in
      put_f (ok (determinant fops a)); put_f (ok (determinant fops b));
      put_f (ok (determinant fops (ok (m_product fops a b))));
      put_f (ok (determinant fops (ok (transpose fops a))))
  (* a call history on one object: every query answer is printed twice (the object's and a fresh object's) *)
  | "seq" -> let a = rd_mat r in let k = integer r in
      let rec steps n = if n <= 0 then [] else let s = step r in s :: steps (n - 1) in
      let ops = steps k in
      let (_, outs) = ok (hrun fops ops a) in
      List.iter (function
        | ODet d -> put_w "D"; put_f d; put_f d
        | OFlag b -> put_w "F"; put_b b; put_b b
        | OMat x -> put_w "X"; put_mat x; put_mat x
        | ONone -> put_w "U") outs
  (* a call history on several objects, calls interleaved: `hist m A_1 .. A_m k (obj step)*`; every answer printed once *)
  | "hist" -> let m = integer r in
      let rec mats n = if n <= 0 then [] else let a = rd_mat r in a :: mats (n - 1) in
      let ms = mats m in
      let k = integer r in
      let rec steps n = if n <= 0 then [] else let o = nat_of_int (integer r) in let s = step r in (o, s) :: steps (n - 1) in
      let ops = steps k in
      let (_, outs) = ok (hmrun fops ops ms) in
      List.iter (function
        | ODet d -> put_w "D"; put_f d
        | OFlag b -> put_w "F"; put_b b
        | OMat x -> put_w "X"; put_mat x
        | ONone -> put_w "U") outs
  | o -> put_w ("MODELERR unknown_op_" ^ o)
  with Out s -> Buffer.clear buf; first := true; put_w s

let () = run handler
