(* C18 model driver: `open C18_m`, conv.inc and Common are prepended by bin/setup.
   seq / seqn lines: the uniforms listed in the case are the streams handed to the extracted samplers; the K sampler
   calls thread the state (stream of the current generator, stream of the other generator).  Output: the values, the
   number of uniforms consumed, and 1 (the model is a function of the streams, so a second run from the same
   streams is identical by construction).
   A call is a function  state -> state  that emits its values; `onaux` swaps the two streams around a call;
   `nest` makes the user function of the outer call re-entrant: at every evaluation it runs the inner call on the
   stream of the outer sampler (same) or on the other one (other) and hands the reduced result to the function
   expression as z.  Pure calls go through the samplers of section Model, nested ones through section ModelSt. *)
open Common
exception Outcome of string
let unres = function Ok a -> a | Exit -> raise (Outcome "EXIT") | OOB -> raise (Outcome "OOB") | Fuel -> raise (Outcome "FUEL")
let fun2 (e : fexpr) : float -> float -> float = fun x y -> eval_fexpr e [| x; y; 0.0 |]
let zint r = z_of_int (integer r)

(* values emitted by a call: collected (for the reduction of an inner call) and printed unless inside a user function *)
let data : float list ref = ref []
let quiet = ref 0
let out_f x = data := x :: !data; if !quiet = 0 then put_f x
let out_i k = data := float_of_int k :: !data; if !quiet = 0 then put_i k
let out_count k = if !quiet = 0 then put_i k
(* canonical draws made (both streams together) at the first evaluations of re-entrant user functions *)
let total = ref 0
let nev = ref 0
let first_pos : int list ref = ref []

type state = float list * float list
type nest = { same : bool; red : string; inner : state -> state; mutable calls : int }

let reduce red (d : float list) =     (* d in emission order *)
  if red = "count" then float_of_int (List.length d)
  else if d = [] || red = "none" then 0.0
  else if red = "last" then List.nth d (List.length d - 1)
  else List.fold_left (fun s x -> s +. x) 0.0 d /. float_of_int (List.length d)

(* the re-entrant user function: arguments -> state -> Ok (value, state) *)
let call_nest (n : nest) (eval : float -> float) ((us, aux) : state) =
  incr nev; n.calls <- n.calls + 1;
  if List.length !first_pos < 6 then first_pos := (!total - List.length us - List.length aux) :: !first_pos;
  let saved = !data in
  data := []; incr quiet;
  let st' =
    (try if n.same then n.inner (us, aux) else (let (a', u') = n.inner (aux, us) in (u', a'))
     with e -> decr quiet; data := saved; raise e) in
  let z = reduce n.red (List.rev !data) in
  decr quiet; data := saved;
  Ok (eval z, st')

let rec parse_op ?nest r : state -> state =
  match word r with
  | "onaux" -> let f = parse_op ?nest r in
      fun (us, aux) -> let (aux', us') = f (aux, us) in (us', aux')
  | "nest" ->
      let same = (word r = "same") in let red = word r in
      let inner = parse_op r in
      let n = { same; red; inner; calls = 0 } in
      let outer = parse_op ~nest:n r in
      fun s -> let before = n.calls in let s' = outer s in out_count (n.calls - before); s'
  | "uniform" -> let a = num r in let b = num r in
      fun (us, aux) -> let (v, rest) = unres (sample_uniform fops a b us) in out_f v; (rest, aux)
  | "gauss" -> let a = num r in let b = num r in
      fun (us, aux) -> let (v, rest) = unres (sample_gauss fops a b us) in out_f v; (rest, aux)
  | "poisson" -> let lam = num r in
      fun (us, aux) -> let (k, rest) = unres (sample_poisson fops lam us) in out_i (int_of_z k); (rest, aux)
  | "poissonv" -> let lams = list r in
      fun (us, aux) -> let (ks, rest) = unres (sample_poisson_list fops lams us) in
        out_count (List.length ks); List.iter (fun k -> out_i (int_of_z k)) ks; (rest, aux)
  | "invt" -> let a = num r in let b = num r in let e = parse_fexpr r in
      (match nest with
       | None -> let cdf = fun1 e in
           fun (us, aux) -> let (v, rest) = unres (inverse_transform fops cdf a b us) in out_f v; (rest, aux)
       | Some n ->
           fun s -> let (v, s') = unres (inverse_transform_st fops (fun x st -> call_nest n (fun z -> eval_fexpr e [| x; 0.0; z |]) st) a b s) in
             out_f v; s')
  | "rej" -> let a = num r in let b = num r in let ym = num r in let e = parse_fexpr r in
      (match nest with
       | None -> let pdf = fun1 e in
           fun (us, aux) -> let (v, rest) = unres (rejection_sampling fops pdf a b ym us) in out_f v; (rest, aux)
       | Some n ->
           fun s -> let (v, s') = unres (rejection_sampling_st fops (fun x st -> call_nest n (fun z -> eval_fexpr e [| x; 0.0; z |]) st) a b ym s) in
             out_f v; s')
  | "rej2" -> let a = num r in let b = num r in let c = num r in let d = num r in let zm = num r in
      let e = parse_fexpr r in
      (match nest with
       | None -> let pdf = fun2 e in
           fun (us, aux) -> let ((x, y), rest) = unres (rejection_sampling_2d fops pdf a b c d zm us) in out_f x; out_f y; (rest, aux)
       | Some n ->
           fun s -> let ((x, y), s') = unres (rejection_sampling_2d_st fops (fun x y st -> call_nest n (fun z -> eval_fexpr e [| x; y; z |]) st) a b c d zm s) in
             out_f x; out_f y; s')
  | "metro" -> let sigma = num r in let sample = zint r in let thin = zint r in let burn = zint r in
      let dom = list r in let e = parse_fexpr r in
      (match nest with
       | None -> let pdf = fun1 e in
           fun (us, aux) -> let (l, rest) = unres (sample_metropolis fops pdf sigma sample thin burn dom us) in
             out_count (List.length l); List.iter out_f l; (rest, aux)
       | Some n ->
           fun s -> let (l, s') = unres (sample_metropolis_st fops (fun x st -> call_nest n (fun z -> eval_fexpr e [| x; 0.0; z |]) st) sigma sample thin burn dom s) in
             out_count (List.length l); List.iter out_f l; s')
  | "metro2" -> let s1 = num r in let s2 = num r in let sample = zint r in let thin = zint r in let burn = zint r in
      let dom = list r in let e = parse_fexpr r in
      (match nest with
       | None -> let pdf = fun2 e in
           fun (us, aux) -> let (l, rest) = unres (sample_metropolis_2d fops pdf s1 s2 sample thin burn dom us) in
             out_count (List.length l); List.iter (fun (x, y) -> out_f x; out_f y) l; (rest, aux)
       | Some n ->
           fun s -> let (l, s') = unres (sample_metropolis_2d_st fops (fun x y st -> call_nest n (fun z -> eval_fexpr e [| x; y; z |]) st) s1 s2 sample thin burn dom s) in
             out_count (List.length l); List.iter (fun (x, y) -> out_f x; out_f y) l; s')
  | o -> failwith ("unknown_op_" ^ o)

(* seq lines (one generator, pure user functions): the history is the extracted [run_calls] itself *)
let parse_call r =
  match word r with
  | "uniform" -> let a = num r in let b = num r in CUniform (a, b)
  | "gauss" -> let a = num r in let b = num r in CGauss (a, b)
  | "poisson" -> CPoisson (num r)
  | "poissonv" -> CPoissonV (list r)
  | "invt" -> let a = num r in let b = num r in let e = parse_fexpr r in CInvT (fun1 e, a, b)
  | "rej" -> let a = num r in let b = num r in let ym = num r in let e = parse_fexpr r in CRej (fun1 e, a, b, ym)
  | "rej2" -> let a = num r in let b = num r in let c = num r in let d = num r in let zm = num r in
      let e = parse_fexpr r in CRej2 (fun2 e, a, b, c, d, zm)
  | "metro" -> let sigma = num r in let sample = zint r in let thin = zint r in let burn = zint r in
      let dom = list r in let e = parse_fexpr r in CMetro (fun1 e, sigma, sample, thin, burn, dom)
  | "metro2" -> let s1 = num r in let s2 = num r in let sample = zint r in let thin = zint r in let burn = zint r in
      let dom = list r in let e = parse_fexpr r in CMetro2 (fun2 e, s1, s2, sample, thin, burn, dom)
  | o -> failwith ("unknown_op_" ^ o)
let put_answer = function
  | AReal x -> put_f x
  | ACount k -> put_i (int_of_z k)
  | ACounts ks -> put_i (List.length ks); List.iter (fun k -> put_i (int_of_z k)) ks
  | APoint (x, y) -> put_f x; put_f y
  | AReals l -> put_i (List.length l); List.iter put_f l
  | APoints l -> put_i (List.length l); List.iter (fun (x, y) -> put_f x; put_f y) l

let handler r =
  match word r with
  | "seq" ->
      let _seed = word r in
      let ns = integer r in
      for _ = 1 to ns do ignore (word r) done;
      let us = list r in
      let k = integer r in
      let cs = List.init k (fun _ -> parse_call r) in
      (match run_calls fops cs us with
       | Ok (answers, rest) -> List.iter put_answer answers; put_i (List.length us - List.length rest); put_i 1
       | Exit -> put_w "EXIT" | OOB -> put_w "OOB" | Fuel -> put_w "FUEL")
  | ("seqn" | "seqh") as kind ->      (* seqh: a history compared with pristine processes; for the model (a function of the streams) it is seqn *)
      let two = (kind <> "seq") in
      let _seed = word r in
      let ns = integer r in
      for _ = 1 to ns do ignore (word r) done;
      let us = list r in
      let aux = if two then (ignore (word r); list r) else [] in
      let k = integer r in
      let ops = List.init k (fun _ -> parse_op r) in
      data := []; quiet := 0; nev := 0; first_pos := []; total := List.length us + List.length aux;
      (try
         let (rest, rest2) = List.fold_left (fun s f -> f s) (us, aux) ops in
         put_i (List.length us - List.length rest);
         if two then put_i (List.length aux - List.length rest2);
         put_i 1;
         if two then (put_i !nev; put_il (List.rev !first_pos))
       with Outcome w -> Buffer.clear buf; first := true; put_w w)
  | "seqg" ->
      (* the generator itself is the model's: std::mt19937 (seed, twist, tempering) and generate_canonical extracted from
         C18_Model2.v; the case carries no uniforms.  Output: answers, canonical draws made, 1, next raw output. *)
      let n = integer r in
      let seed = z_of_int (integer r) in
      let ns = integer r in
      let words = List.init ns (fun _ -> z_of_int (integer r)) in
      let _ = list r in
      let k = integer r in
      let cs = List.init k (fun _ -> parse_call r) in
      let g0 = mt_seed seed in
      let g = if ns = 0 then g0 else
          (let (x, _) = g0 in
           (List.mapi (fun i w -> if i < ns then List.nth words i else w) x, z_of_int 0)) in
      (match run_from fops g (nat_of_int n) cs with
       | Ok ((answers, cons), g') -> List.iter put_answer answers; put_i (int_of_z cons); put_i 1;
           put_i (int_of_z (fst (mt_next g')))
       | Exit -> put_w "EXIT" | OOB -> put_w "OOB" | Fuel -> put_w "FUEL")
  | "seqw" ->
      (* Sample_Metropolis(_2D) with the acceptance statistic: samples, warning flag *)
      let _seed = word r in
      let ns = integer r in
      for _ = 1 to ns do ignore (word r) done;
      let us = list r in
      let k = integer r in
      (try
         let rest = ref us in
         for _ = 1 to k do
           (match word r with
            | "metro" -> let sigma = num r in let sample = zint r in let thin = zint r in let burn = zint r in
                let dom = list r in let e = parse_fexpr r in
                let ((l, (_, w)), rs) = unres (sample_metropolis_w fops (fun1 e) sigma sample thin burn dom !rest) in
                put_i (List.length l); List.iter put_f l; put_i (if w then 1 else 0); rest := rs
            | "metro2" -> let s1 = num r in let s2 = num r in let sample = zint r in let thin = zint r in let burn = zint r in
                let dom = list r in let e = parse_fexpr r in
                let ((l, (_, w)), rs) = unres (sample_metropolis_2d_w fops (fun2 e) s1 s2 sample thin burn dom !rest) in
                put_i (List.length l); List.iter (fun (x, y) -> put_f x; put_f y) l; put_i (if w then 1 else 0); rest := rs
            | o -> failwith ("unknown_op_" ^ o))
         done;
         put_i (List.length us - List.length !rest); put_i 1
       with Outcome w -> Buffer.clear buf; first := true; put_w w)
  | "mgrid" ->
      let _seed = word r in
      let sample = zint r in let thin = zint r in let burn = zint r in
      let dim = integer r in let _bounded = integer r in
      (* what the theorems metropolis_count / consumption / metropolis_in_domain predict, computed by the
         bookkeeping functions of the model *)
      put_i (int_of_z (metro_kept burn thin sample));
      put_i (int_of_z (if dim = 1 then metro_consumed burn thin sample else metro2_consumed burn thin sample));
      put_i 1; put_i 1
  | "law" | "lawh" -> put_w "NOMODEL"
  | o -> put_w ("MODELERR unknown_op_" ^ o)

let () = run handler
