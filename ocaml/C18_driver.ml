(* C18 model driver: `open C18_m`, conv.inc and Common are prepended by bin/setup.
   seq lines: the uniforms listed in the case are the stream handed to the extracted samplers; the K sampler
   calls thread the remaining stream.  Output: the values, the number of uniforms consumed, and 1 (the model is a
   function of the stream, so a second run from the same stream is identical by construction). *)
open Common
exception Outcome of string
let unres = function Ok a -> a | Exit -> raise (Outcome "EXIT") | OOB -> raise (Outcome "OOB") | Fuel -> raise (Outcome "FUEL")
let fun2 (e : fexpr) : float -> float -> float = fun x y -> eval_fexpr e [| x; y; 0.0 |]
let zint r = z_of_int (integer r)

(* parses one sampler call; returns a function from the stream to the remaining stream that prints the values *)
let parse_op r : float list -> float list =
  match word r with
  | "uniform" -> let a = num r in let b = num r in
      fun us -> let (v, rest) = unres (sample_uniform fops a b us) in put_f v; rest
  | "gauss" -> let a = num r in let b = num r in
      fun us -> let (v, rest) = unres (sample_gauss fops a b us) in put_f v; rest
  | "poisson" -> let lam = num r in
      fun us -> let (k, rest) = unres (sample_poisson fops lam us) in put_i (int_of_z k); rest
  | "poissonv" -> let lams = list r in
      fun us -> let (ks, rest) = unres (sample_poisson_list fops lams us) in put_il (List.map int_of_z ks); rest
  | "invt" -> let a = num r in let b = num r in let cdf = fun1 (parse_fexpr r) in
      fun us -> let (v, rest) = unres (inverse_transform fops cdf a b us) in put_f v; rest
  | "rej" -> let a = num r in let b = num r in let ym = num r in let pdf = fun1 (parse_fexpr r) in
      fun us -> let (v, rest) = unres (rejection_sampling fops pdf a b ym us) in put_f v; rest
  | "rej2" -> let a = num r in let b = num r in let c = num r in let d = num r in let zm = num r in
      let pdf = fun2 (parse_fexpr r) in
      fun us -> let ((x, y), rest) = unres (rejection_sampling_2d fops pdf a b c d zm us) in put_f x; put_f y; rest
  | "metro" -> let sigma = num r in let sample = zint r in let thin = zint r in let burn = zint r in
      let dom = list r in let pdf = fun1 (parse_fexpr r) in
      fun us -> let (l, rest) = unres (sample_metropolis fops pdf sigma sample thin burn dom us) in put_fl l; rest
  | "metro2" -> let s1 = num r in let s2 = num r in let sample = zint r in let thin = zint r in let burn = zint r in
      let dom = list r in let pdf = fun2 (parse_fexpr r) in
      fun us -> let (l, rest) = unres (sample_metropolis_2d fops pdf s1 s2 sample thin burn dom us) in
        put_i (List.length l); List.iter (fun (x, y) -> put_f x; put_f y) l; rest
  | o -> failwith ("unknown_op_" ^ o)

let handler r =
  match word r with
  | "seq" ->
      let _seed = word r in
      let ns = integer r in
      for _ = 1 to ns do ignore (word r) done;
      let us = list r in
      let k = integer r in
      let ops = List.init k (fun _ -> parse_op r) in
      (try
         let rest = List.fold_left (fun s f -> f s) us ops in
         put_i (List.length us - List.length rest); put_i 1
       with Outcome w -> Buffer.clear buf; first := true; put_w w)
  | "mgrid" ->
      let _seed = word r in
      let sample = zint r in let thin = zint r in let burn = zint r in
      let dim = integer r in let _bounded = integer r in
      (* what the theorems metropolis_count / consumption / metropolis_in_domain predict, computed by the
         bookkeeping functions of the model *)
      put_i (int_of_z (metro_kept burn thin sample));
      put_i (int_of_z (if dim = 1 then metro_consumed burn thin sample else metro2_consumed burn thin sample));
      put_i 1; put_i 1
  | "law" -> put_w "NOMODEL"
  | o -> put_w ("MODELERR unknown_op_" ^ o)

let () = run handler
