(* C14 model driver: `open C14_m`, conv.inc and Common are prepended by bin/build_driver.
   The uniform stream handed to the model is the one the library draws under the verification hook:
   std::mt19937 seeded with the case's seed, Sample_Uniform = uniform_real_distribution<double>(0,1), which in
   libstdc++ is generate_canonical<double,53>: two 32-bit outputs a, b give RN(a + b * 2^32) / 2^64
   (nextafter(1,0) if that is 1).  The op `stream` compares this reimplementation with the library's generator. *)
open Common

let ascii_of_char c =
  let n = Char.code c in
  Ascii (n land 1 <> 0, n land 2 <> 0, n land 4 <> 0, n land 8 <> 0,
         n land 16 <> 0, n land 32 <> 0, n land 64 <> 0, n land 128 <> 0)
let coq_string s =
  let r = ref EmptyString in
  for i = Stdlib.String.length s - 1 downto 0 do r := String (ascii_of_char s.[i], !r) done;
  !r

(* ---- MT19937 (init_genrand / genrand_int32) ---- *)
let mt_uniforms (seed : int) : int -> float =
  let mt = Array.make 624 0 in
  mt.(0) <- seed land 0xFFFFFFFF;
  for i = 1 to 623 do
    mt.(i) <- (1812433253 * (mt.(i - 1) lxor (mt.(i - 1) lsr 30)) + i) land 0xFFFFFFFF
  done;
  let idx = ref 624 in
  let next32 () =
    if !idx >= 624 then begin
      for kk = 0 to 623 do
        let y = (mt.(kk) land 0x80000000) lor (mt.((kk + 1) mod 624) land 0x7FFFFFFF) in
        mt.(kk) <- mt.((kk + 397) mod 624) lxor (y lsr 1) lxor (if y land 1 = 1 then 0x9908b0df else 0)
      done;
      idx := 0
    end;
    let y = mt.(!idx) in
    incr idx;
    let y = y lxor (y lsr 11) in
    let y = y lxor ((y lsl 7) land 0x9d2c5680) in
    let y = y lxor ((y lsl 15) land 0xefc60000) in
    let y = y lxor (y lsr 18) in
    y land 0xFFFFFFFF in
  let vals = ref (Array.make 1024 0.0) and filled = ref 0 in
  fun i ->
    while !filled <= i do
      if !filled >= Array.length !vals then begin
        let nv = Array.make (2 * Array.length !vals) 0.0 in
        Array.blit !vals 0 nv 0 !filled; vals := nv
      end;
      let a = next32 () in
      let b = next32 () in
      let s = float_of_int a +. float_of_int b *. 4294967296.0 in
      let r = s /. 18446744073709551616.0 in
      let r = if r >= 1.0 then Float.pred 1.0 else r in
      !vals.(!filled) <- r; incr filled
    done;
    !vals.(i)

let us_of_seed seed = let g = mt_uniforms seed in fun (z : z) -> g (int_of_z z)

(* recorder of the points at which the integrand is evaluated *)
let n = ref 0 and digest = ref 0.0
let mn = Array.make 10 infinity and mx = Array.make 10 neg_infinity
let reset () = n := 0; digest := 0.0; Array.fill mn 0 10 infinity; Array.fill mx 0 10 neg_infinity
let see k v = (if v < mn.(k) then mn.(k) <- v); (if v > mx.(k) then mx.(k) <- v)
let put_rec dims = put_i !n; put_f !digest; for k = 0 to dims - 1 do put_f mn.(k); put_f mx.(k) done

let integrand e record (pt : float list) : float =
  let v = Array.make 10 0.0 in
  List.iteri (fun k x -> if k < 10 then v.(k) <- x) pt;
  if record then begin
    incr n;
    List.iteri (fun k x -> digest := !digest +. float_of_int (k + 1) *. x; see k x) pt
  end;
  eval_fexpr e v

(* a call  <method>[!<n>] ... : with !<n> the integrand throws from its n-th evaluation (the point of that evaluation is still recorded) *)
type call = { m : C14_m.method0; throw_at : int; seed : int; ncall : int; region : float list; e : fexpr }
let state = ref (vstate0 fops)
exception Gave_up

let read_call r =
  let w = word r in
  (* @<k> names the caller's vector object that carries the region: in the model a region is a value, and no call changes its caller's *)
  let w = match Stdlib.String.index_opt w '@' with Some i -> Stdlib.String.sub w 0 i | None -> w in
  let w, throw_at =
    match Stdlib.String.index_opt w '!' with
    | Some i -> Stdlib.String.sub w 0 i, int_of_string (Stdlib.String.sub w (i + 1) (Stdlib.String.length w - i - 1))
    | None -> w, 0 in
  (* dflt: Integrate_MC(func, region, ncalls) with method = "Vegas" by default; dflt2: Integrate_MC(func, region) with ncalls = 10000 as well *)
  let defaults = (match w with "dflt" -> 1 | "dflt2" -> 2 | _ -> 0) in
  let m = parse_method (coq_string (if defaults > 0 then "Vegas" else w)) in
  let seed = integer r in let ncall = integer r in let dim = integer r in
  let ncall = if defaults = 2 then 10000 else ncall in
  let region = List.init (2 * dim) (fun _ -> num r) in
  let e = parse_fexpr r in
  { m; throw_at; seed; ncall; region; e }

(* The statics after the call and its value (None: brought to an end by its integrand) come from the model function
   integrate_mc_throwing, which is handed the plain integrand.  The points the integrand saw up to the throw are obtained by running
   the model with an integrand that raises at its n-th evaluation (only to stop the recorder there; both must agree on whether the
   call came to an end early). *)
let run_call c record =
  if c.throw_at = 0 then
    match integrate_mc fops (us_of_seed c.seed) !state c.m (integrand c.e record) c.region (z_of_int c.ncall) with
    | Ok (v, s) -> state := s; Ok (Some v)
    | Exit -> Exit | OOB -> OOB | Fuel -> Fuel
  else begin
    let s0 = !state in
    let count = ref 0 in
    let f pt = let v = integrand c.e record pt in incr count; if !count = c.throw_at then raise Gave_up; v in
    let seen =
      if record then
        (try (match integrate_mc fops (us_of_seed c.seed) s0 c.m f c.region (z_of_int c.ncall) with Ok _ -> Some false | _ -> None)
         with Gave_up -> Some true)
      else None in
    match integrate_mc_throwing fops (us_of_seed c.seed) s0 c.m (integrand c.e false) c.region (z_of_int c.ncall) (z_of_int c.throw_at) with
    | Ok (v, s) ->
        state := s;
        (match seen, v with
         | Some true, Some _ | Some false, None -> failwith "model: integrate_mc_throwing and the raising integrand disagree"
         | _ -> Ok v)
    | Exit -> Exit | OOB -> OOB | Fuel -> Fuel
  end

(* a use of the sampling facility by the caller, between integrations: su <seed> <k> a_1 b_1 ... a_k b_k (Sample_Uniform with limits),
   sg <seed> <k> <mean> <sd> (Sample_Gauss), rs <seed> <k> <xmin> <xmax> (Rejection_Sampling).  The model of the first is the event E_draws
   (run_event: the statics are handed back as they are, and the draws); the other two are built on Sample_Uniform draws whose number depends on the
   data, their values are not compared here (the samplers are the subject of C18): no statics of the integrators are involved in the model. *)
type ev = Ev_call of call | Ev_draws of int * (float * float) list | Ev_other
let is_draws w = (w = "su" || w = "sg" || w = "rs")
let read_ranges r k = List.init k (fun _ -> let a = num r in let b = num r in (a, b))
let read_draws ?kind r =
  let kind = match kind with Some k -> k | None -> word r in
  let seed = integer r in let k = integer r in
  if kind = "su" then Ev_draws (seed, read_ranges r k) else (ignore (read_ranges r 1); Ev_other)
let model_draws seed ranges =
  match run_event fops !state (E_draws (us_of_seed seed, ranges)) with
  | Ok (s, vals) -> state := s; vals
  | _ -> failwith "model: run_event of draws"

let put_res = function
  | Ok v -> put_f v; true
  | Exit -> put_w "EXIT"; false
  | OOB -> put_w "OOB"; false
  | Fuel -> put_w "FUEL"; false
let put_res_opt = function
  | Ok (Some v) -> put_f v; true
  | Ok None -> put_w "ABORTED"; true
  | Exit -> put_w "EXIT"; false
  | OOB -> put_w "OOB"; false
  | Fuel -> put_w "FUEL"; false

let handler r =
  state := vstate0 fops;
  reset ();
  match word r with
  | "stream" ->
      let seed = integer r in let k = integer r in
      let g = mt_uniforms seed in
      put_fl (List.init k g)
  | "draws" ->
      (match read_draws ~kind:"su" r with
       | Ev_draws (seed, ranges) -> put_fl (model_draws seed ranges)
       | _ -> put_w "MODELERR draws")
  | ("mc" | "mcd") as op ->
      (* mcd: the integrand makes draws of its own at every evaluation; in the model they leave nothing behind *)
      (if op = "mcd" then ignore (read_ranges r (integer r)));
      let c = read_call r in
      if put_res_opt (run_call c true) then begin put_rec (List.length c.region / 2); put_i 0; put_i 0 end
  | "hist" ->
      let nh = integer r in
      let hs = List.init nh (fun _ -> if more r && is_draws r.toks.(r.pos) then read_draws r else Ev_call (read_call r)) in
      let c = read_call r in
      (* the fresh process is the model started from vstate0 *)
      (match run_call c false with
       | Ok (Some a) ->
           let nab = ref 0 and nout = ref 0 in
           let rec go = function
             | [] -> ""
             | Ev_call h :: t -> (match run_call h false with Ok v -> (if v = None then incr nab); go t | Exit -> "EXIT" | OOB -> "OOB" | Fuel -> "FUEL")
             | Ev_draws (seed, ranges) :: t ->
                 List.iter2 (fun (lo, hi) v -> if not (lo <= v && v <= hi) then incr nout) ranges (model_draws seed ranges); go t
             | Ev_other :: t -> go t in
           (match go hs with
            | "" -> (match run_call c true with
                     | Ok (Some b) -> put_f a; put_f a; put_f b; put_i !nab; put_i 0; put_i !nout; put_rec (List.length c.region / 2)
                     | _ -> put_w "MODELERR observed_call_failed")
            | w -> put_w w)
       | Ok None -> put_w "MODELERR observed_call_throws"
       | Exit -> put_w "EXIT" | OOB -> put_w "OOB" | Fuel -> put_w "FUEL")
  | "nested" ->
      (* the integrand of the outer call multiplies its expression by the value of the inner call, which it runs at every evaluation
         (the extracted integrators call their integrand once per evaluation, in order).  Only Vegas owns statics: when the inner call
         is Vegas it advances them at every evaluation and the outer call (plain Monte Carlo or Miser) hands back the ones it was given,
         which are dropped; when the outer call is Vegas the inner one leaves them alone.  (Vegas inside Vegas is not generated.) *)
      let _shared = integer r in
      let outer = read_call r in
      let inner = read_call r in
      let run_inner () =
        match integrate_mc fops (us_of_seed inner.seed) !state inner.m (integrand inner.e false) inner.region (z_of_int inner.ncall) with
        | Ok (v, s) -> state := s; Some v
        | _ -> None in
      (match run_inner () with
       | None -> put_w "MODELERR inner_call_failed"
       | Some a ->
           state := vstate0 fops;
           let ninner = ref 0 and bad = ref false in
           let f pt =
             let v = integrand outer.e false pt in
             incr ninner;
             match run_inner () with Some w -> v *. w | None -> bad := true; nan in
           let s0 = !state in
           (match integrate_mc fops (us_of_seed outer.seed) s0 outer.m f outer.region (z_of_int outer.ncall) with
            | Ok (v, _) when not !bad -> put_f a; put_f v; put_i !ninner; put_i 0; put_f a; put_i 0
            | Ok _ -> put_w "MODELERR inner_call_failed"
            | Exit -> put_w "EXIT" | OOB -> put_w "OOB" | Fuel -> put_w "FUEL"))
  | "nestx" ->
      (* as nested, with two more degrees of freedom: the inner call is made before (first = 1) or after the integrand of the outer call looks at the
         point it was handed (in the model a point is a value: the order cannot matter), and either call may go through the front ends
         Integrate_2D / Integrate_3D (entry fe; model: integrate_2d / integrate_3d of C13 over this model's integrate_mc), which build the
         region {x1,y1,(z1),x2,y2,(z2)} from the limits.  Statics as in nested. *)
      let first = integer r in
      let oe = word r in let ie = word r in
      let outer = read_call r in
      let inner = read_call r in
      let no_boost _ _ _ _ = failwith "nested methods are modelled in C13" in
      let run_entry fe (c : call) (f : float list -> float) : float option =
        let mc m g region ncalls =
          match integrate_mc fops (us_of_seed c.seed) !state m g region ncalls with
          | Ok (v, s) -> state := s; Ok v
          | Exit -> Exit | OOB -> OOB | Fuel -> Fuel in
        let res =
          if not fe then mc c.m f c.region (z_of_int c.ncall)
          else match c.region with
            | [x1; y1; x2; y2] -> integrate_2d fops no_boost mc c.m (fun x y -> f [x; y]) x1 x2 y1 y2 (z_of_int c.ncall)
            | [x1; y1; z1; x2; y2; z2] -> integrate_3d fops no_boost mc c.m (fun x y z -> f [x; y; z]) x1 x2 y1 y2 z1 z2 (z_of_int c.ncall)
            | _ -> Exit in
        match res with Ok v -> Some v | _ -> None in
      let run_inner () = run_entry (ie = "fe") inner (integrand inner.e false) in
      (match run_inner () with
       | None -> put_w "MODELERR inner_call_failed"
       | Some a ->
           state := vstate0 fops;
           let ninner = ref 0 and bad = ref false in
           let f pt =
             let w0 = if first <> 0 then run_inner () else None in
             let v = integrand outer.e true pt in
             incr ninner;
             let w = if first <> 0 then w0 else run_inner () in
             match w with Some w -> v *. w | None -> bad := true; nan in
           (match run_entry (oe = "fe") outer f with
            | Some v when not !bad ->
                put_f a; put_f v; put_i !ninner; put_i 0; put_f a; put_i 0; put_i 0; put_rec (List.length outer.region / 2)
            | _ -> put_w "MODELERR call_failed"))
  | "front3s" ->
      let m = parse_method (coq_string (word r)) in
      let seed = integer r in let p = z_of_int (integer r) in
      let no_boost _ _ _ _ = failwith "nested methods are modelled in C13" in
      let mc m f region ncalls =
        match integrate_mc fops (us_of_seed seed) !state m f region ncalls with
        | Ok (v, s) -> state := s; Ok v
        | Exit -> Exit | OOB -> OOB | Fuel -> Fuel in
      let r1 = num r in let r2 = num r in let c1 = num r in let c2 = num r in let f1 = num r in let f2 = num r in
      let e = parse_fexpr r in
      let f x y z =
        let v = integrand e true [x; y; z] in
        let nrm = sqrt (x *. x +. y *. y +. z *. z) in
        see 3 nrm; (if nrm > 0.0 then see 4 (z /. nrm));
        v in
      if put_res (integrate_3d_spherical fops no_boost mc m f r1 r2 c1 c2 f1 f2 p) then put_rec 5
  | ("front2d" | "front3d") as op ->
      let m = parse_method (coq_string (word r)) in
      let seed = integer r in let p = z_of_int (integer r) in
      let no_boost _ _ _ _ = failwith "nested methods are modelled in C13" in
      let mc m f region ncalls =
        match integrate_mc fops (us_of_seed seed) !state m f region ncalls with
        | Ok (v, s) -> state := s; Ok v
        | Exit -> Exit | OOB -> OOB | Fuel -> Fuel in
      if op = "front2d" then begin
        let x1 = num r in let x2 = num r in let y1 = num r in let y2 = num r in
        let e = parse_fexpr r in
        let f x y = integrand e true [x; y] in
        if put_res (integrate_2d fops no_boost mc m f x1 x2 y1 y2 p) then put_rec 2
      end else begin
        let x1 = num r in let x2 = num r in let y1 = num r in let y2 = num r in let z1 = num r in let z2 = num r in
        let e = parse_fexpr r in
        let f x y z = integrand e true [x; y; z] in
        if put_res (integrate_3d fops no_boost mc m f x1 x2 y1 y2 z1 z2 p) then put_rec 3
      end
  | o -> put_w ("MODELERR unknown_op_" ^ o)

let () = run handler
