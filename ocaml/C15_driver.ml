(* C15 model driver: `open C15_m`, conv.inc and Common are prepended by bin/build_driver *)
open Common
let put_res f = function Ok v -> f v | Exit -> put_w "EXIT" | OOB -> put_w "OOB" | Fuel -> put_w "FUEL"
let put_mat m = put_i (List.length m); put_i (match m with [] -> 0 | r :: _ -> List.length r); List.iter (List.iter put_f) m

let handler r =
  match word r with
  | "householder" -> let m = table r in put_mat (householder fops m)
  | "qr" -> let m = table r in put_res (fun (q, rr) -> put_mat q; put_mat rr) (qr_decomposition fops m)
  | "eigenvalues" -> let m = table r in put_res put_fl (eigenvalues fops m)
  | "eigensystem" -> let m = table r in
      put_res (fun ps -> put_fl (List.map fst ps); put_i (List.length ps); List.iter (fun (_, v) -> put_fl v) ps) (eigensystem fops m)
  | "eigenvectors" -> let m = table r in
      put_res (fun vs -> put_i (List.length vs); List.iter put_fl vs) (eigenvectors fops m)
  | "scalars" -> let m = table r in
      (match m with
       | [[x; y]] -> put_i (int_of_z (sign_int fops x)); put_i (int_of_z (sign_int fops y)); put_f (sign_xy fops x y); put_f (sign_xy fops y x);
                     put_f (relative_difference fops x y)
       | _ -> put_w "MODELERR scalars_shape")
  | "trace" -> let m = table r in put_res put_f (mtrace fops m)
  | "detg" -> let m = table r in put_res put_f (determinant_g fops m)
  | "invertible" -> let m = table r in put_b (invertible fops m)
  | "invg" -> let m = table r in put_res put_mat (inverse_g fops m)
  | "householder_steps" -> let m = table r in put_mat (householder_steps fops m)
  | "history" -> let m = table r in
      (* the model is a pure function of the matrix: every call of the sequence sees the same argument *)
      (match eigensystem fops m, eigenvalues fops m, qr_decomposition fops m with
       | Ok ps, Ok evs, Ok (q, rr) ->
           let put_sys () = put_fl (List.map fst ps); put_i (List.length ps); List.iter (fun (_, v) -> put_fl v) ps in
           put_sys (); put_i (List.length ps); List.iter (fun (_, v) -> put_fl v) ps; put_fl evs; put_mat q; put_mat rr; put_sys (); put_i 1
       | Fuel, _, _ | _, Fuel, _ | _, _, Fuel -> put_w "FUEL"
       | OOB, _, _ | _, OOB, _ | _, _, OOB -> put_w "OOB"
       | _ -> put_w "EXIT")
  | "session" -> let m = table r in
      let n = integer r in
      let rec steps k = if k = 0 then [] else
        let w = word r in
        let o = (match w with
          | "sys" -> SSys | "vecs" -> SVecs | "vals" -> SVals | "qr" -> SQR
          | "swap" -> let i = integer r in let j = integer r in SSwap (nat_of_int i, nat_of_int j)
          | "dswap" -> let i = integer r in let j = integer r in SDswap (nat_of_int i, nat_of_int j)
          | "neg" -> SNeg | "scale" -> SScale (ldexp 1.0 (integer r)) | "transp" -> STransp | "copy" -> SCopy | "other" -> SOther
          | _ -> failwith "unknown_step") in
        o :: steps (k - 1) in
      let ops = steps n in
      let (outs, _) = session fops m ops in
      let bad = List.fold_left (fun acc o -> match acc, o with
          | Some _, _ -> acc
          | None, (OSys (Ok _) | OVecs (Ok _) | OVals (Ok _) | OQR (Ok _) | ONone) -> None
          | None, (OSys Fuel | OVecs Fuel | OVals Fuel | OQR Fuel) -> Some "FUEL"
          | None, (OSys OOB | OVecs OOB | OVals OOB | OQR OOB) -> Some "OOB"
          | None, _ -> Some "EXIT") None outs in
      (match bad with
       | Some wd -> put_w wd
       | None ->
           List.iter (function
             | OSys (Ok ps) -> put_fl (List.map fst ps); put_i (List.length ps); List.iter (fun (_, v) -> put_fl v) ps
             | OVecs (Ok ps) -> put_i (List.length ps); List.iter (fun (_, v) -> put_fl v) ps
             | OVals (Ok evs) -> put_fl evs
             | OQR (Ok (q, rr)) -> put_mat q; put_mat rr
             | _ -> ()) outs;
           (* the model's calls are functions of the value: the objects hold what the caller wrote *)
           put_i 1)
  | "rayleigh" -> let m = table r in let ev = num r in
      put_res (fun (e, v) -> put_f e; put_fl v) (find_eigenvector_rayleigh fops m ev)
  | "det" -> let m = table r in put_f (determinant fops (nrows m) m)
  | "inverse" -> let m = table r in put_res put_mat (inverse fops m)
  | o -> put_w ("MODELERR unknown_op_" ^ o)

let () = run handler
