(* C15 model driver: `open C15_m`, conv.inc and Common are prepended by bin/build_driver *)
open Common
let put_res f = function Ok v -> f v | Exit -> put_w "EXIT" | OOB -> put_w "OOB" | Fuel -> put_w "FUEL"
let put_mat m = put_i (List.length m); put_i (match m with [] -> 0 | r :: _ -> List.length r); List.iter (List.iter put_f) m

let handler r =
  match word r with
  | "householder" -> let m = table r in put_mat (householder fops m)
  | "qr" -> let m = table r in put_res (fun (q, rr) -> put_mat q; put_mat rr) (qr_decomposition fops m)
  | "eigenvalues" -> let m = table r in put_res put_fl (eigenvalues fops m)
  | "eigensystem" | "eigenvectors" as op -> let m = table r in
      put_res (fun ps ->
          if op = "eigensystem" then put_fl (List.map fst ps);
          put_i (List.length ps); List.iter (fun (_, v) -> put_fl v) ps) (eigensystem fops m)
  | "history" -> let m = table r in
      (* the model is a pure function of the matrix: every call of the sequence sees the same argument *)
      (match eigensystem fops m, eigenvalues fops m, qr_decomposition fops m with
       | Ok ps, Ok evs, Ok (q, rr) ->
           let put_sys () = put_fl (List.map fst ps); put_i (List.length ps); List.iter (fun (_, v) -> put_fl v) ps in
           put_sys (); put_i (List.length ps); List.iter (fun (_, v) -> put_fl v) ps; put_fl evs; put_mat q; put_mat rr; put_sys (); put_i 1
       | Fuel, _, _ | _, Fuel, _ | _, _, Fuel -> put_w "FUEL"
       | OOB, _, _ | _, OOB, _ | _, _, OOB -> put_w "OOB"
       | _ -> put_w "EXIT")
  | "rayleigh" -> let m = table r in let ev = num r in
      put_res (fun (e, v) -> put_f e; put_fl v) (find_eigenvector_rayleigh fops m ev)
  | "det" -> let m = table r in put_f (determinant fops (nrows m) m)
  | "inverse" -> let m = table r in put_res put_mat (inverse fops m)
  | o -> put_w ("MODELERR unknown_op_" ^ o)

let () = run handler
