(* C08 model driver: `open C08_m`, conv.inc and Common are prepended by bin/build_driver.
   Case grammar: see checks/C08.py.  One line = one object (made by one of the constructors) + a list of operations; Set_Prefactor / Multiply change the
   object, every query runs on (a copy of) the current object with a fresh search state. *)
open Common
exception Stop of string
let unres = function Ok v -> v | Exit -> raise (Stop "EXIT") | OOB -> raise (Stop "OOB") | Fuel -> raise (Stop "FUEL")
(* g++ -O1 expands pow(x, 2.0) to x*x; pow(x, 3.0), pow(x, 4.0) call libm (checked on the compiled library) *)
let fops = { fops with npowi = (fun x k -> if int_of_z k = 2 then x *. x else fops.npowi x k) }
let scaled dim l = if dim > 0.0 then List.map (fun v -> v *. dim) l else l
let g3 = [0.5 -. sqrt 0.6 /. 2.0; 0.5; 0.5 +. sqrt 0.6 /. 2.0]

let run1 r o xa =
  let f x = unres (interpolate fops !o x) in
  let nq = integer r in
  for _ = 1 to nq do
    match word r with
    | "P" -> let c = num r in o := set_prefactor !o c
    | "X" -> let c = num r in o := multiply fops !o c
    | "I" -> put_f (f (num r))
    | "D" -> let k = integer r in let x = num r in put_f (unres (derivative fops !o x (z_of_int k)))
    | "N" -> let a = num r in let b = num r in put_f (unres (integrate fops !o a b))
    | "m" -> let a = num r in let b = num r in put_f (unres (local_minimum fops !o a b))
    | "M" -> let a = num r in let b = num r in put_f (unres (local_maximum fops !o a b))
    | "g" -> put_f (unres (global_minimum fops !o))
    | "G" -> put_f (unres (global_maximum fops !o))
    | "E" -> let a = num r in let b = num r in let n = integer r in
        put_f (unres (local_minimum fops !o a b)); put_f (unres (local_maximum fops !o a b));
        for k = 0 to n do put_f (f (if k = n then b else a +. (b -. a) *. float_of_int k /. float_of_int n)) done
    | "Z" -> let n = integer r in
        put_f (unres (global_minimum fops !o)); put_f (unres (global_maximum fops !o));
        let na = Array.length xa in
        let a = xa.(0) and b = xa.(na - 1) in
        for k = 0 to n do put_f (f (if k = n then b else a +. (b -. a) *. float_of_int k /. float_of_int n)) done;
        put_f (f (a -. 0.5 *. (1e-2 *. (xa.(1) -. xa.(0)))));
        put_f (f (b +. 0.5 *. (1e-2 *. (xa.(na - 1) -. xa.(na - 2)))))
    | "Q" -> let a = num r in let b = num r in
        put_f (unres (integrate fops !o a b)); put_f (unres (integrate fops !o b a));
        let lo = Float.min a b and hi = Float.max a b in
        let brk = [lo] @ List.filter (fun x -> x > lo && x < hi) (Array.to_list xa) @ [hi] in
        let rec pieces = function
          | u :: (v :: _ as rest) -> List.iter (fun w -> put_f (f (u +. (v -. u) *. w))) g3; pieces rest
          | _ -> () in
        pieces brk
    | "A" -> let a = num r in let b = num r in let c = num r in
        put_f (unres (integrate fops !o a b)); put_f (unres (integrate fops !o b c)); put_f (unres (integrate fops !o a c))
    | "B" -> let a = num r in let b = num r in
        put_f (unres (integrate fops !o a b)); put_f (unres (local_minimum fops !o a b)); put_f (unres (local_maximum fops !o a b))
    | "U" -> let a = num r in let x = num r in let d = num r in
        put_f (unres (integrate fops !o a (x +. d))); put_f (unres (integrate fops !o a (x -. d)));
        put_f (f x); put_f (unres (derivative fops !o x (z_of_int 2)))
    | q -> failwith ("unknown op " ^ q)
  done

let run2 r o xa ya =
  let nq = integer r in
  for _ = 1 to nq do
    match word r with
    | "P" -> let c = num r in o := set_prefactor2 !o c
    | "X" -> let c = num r in o := multiply2 fops !o c
    | "I" -> let x = num r in let y = num r in put_f (unres (interpolate2 fops !o x y))
    | "g" -> put_f (unres (global_minimum2 fops !o))
    | "G" -> put_f (unres (global_maximum2 fops !o))
    | "Z" -> let n = integer r in
        put_f (unres (global_minimum2 fops !o)); put_f (unres (global_maximum2 fops !o));
        let x0 = xa.(0) and x1 = xa.(Array.length xa - 1) and y0 = ya.(0) and y1 = ya.(Array.length ya - 1) in
        for a = 0 to n do
          let x = if a = n then x1 else x0 +. (x1 -. x0) *. float_of_int a /. float_of_int n in
          for b = 0 to n do
            let y = if b = n then y1 else y0 +. (y1 -. y0) *. float_of_int b /. float_of_int n in
            put_f (unres (interpolate2 fops !o x y))
          done
        done;
        put_f (unres (interpolate2 fops !o (x0 -. 0.5 *. (1e-2 *. (xa.(1) -. xa.(0)))) y0))
    | q -> failwith ("unknown op " ^ q)
  done

(* the abscissae of a data table as the harness computes them for the sampling grids: sorted, duplicates removed *)
let column rows k = List.filter_map (fun row -> List.nth_opt row k) rows
let sort_unique l = List.sort_uniq compare l

let handler r =
  try
    match word r with
    | "t1" | "h1" ->
        let xd = num r in let fd = num r in let xs = list r in let ys = list r in
        let o = ref (unres (construct fops xs ys xd fd)) in
        run1 r o (Array.of_list (scaled xd xs))
    | "d1" | "e1" ->
        let xd = num r in let fd = num r in let rows = table r in
        let o = ref (unres (construct_rows fops rows xd fd)) in
        run1 r o (Array.of_list (scaled xd (column rows 0)))
    | "t0" | "h0" ->
        let o = ref (unres (construct_default fops)) in
        run1 r o [| -1.0; 0.0; 1.0 |]
    | "t2" | "h2" ->
        let xd = num r in let yd = num r in let fd = num r in
        let xs = list r in let ys = list r in let ft = table r in
        let o = ref (unres (construct2 fops xs ys ft xd yd fd)) in
        run2 r o (Array.of_list (scaled xd xs)) (Array.of_list (scaled yd ys))
    | "d2" ->
        let xd = num r in let yd = num r in let fd = num r in let rows = table r in
        let o = ref (unres (construct2_table fops rows xd yd fd)) in
        run2 r o (Array.of_list (scaled xd (sort_unique (column rows 0)))) (Array.of_list (scaled yd (sort_unique (column rows 1))))
    | "z2" ->
        let o = ref (unres (construct2_default fops)) in
        run2 r o [| -1.0; 0.0; 1.0 |] [| -1.0; 0.0; 1.0 |]
    | o -> put_w ("MODELERR unknown_op_" ^ o)
  with Stop s -> Buffer.clear buf; first := true; put_w s

let () = run handler
