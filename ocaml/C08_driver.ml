(* C08 model driver: `open C08_m`, conv.inc and Common are prepended by bin/build_driver.
   Case grammar: see checks/C08.py.  One line = one object (made by one of the constructors) + a list of operations; Set_Prefactor / Multiply change the
   object, every query runs on (a copy of) the current object with a fresh search state.
   Sessions (s1 r1 s2 r2): several objects in the store of C08_Model.v.  Long tables (b1 k1): walked window by window. *)
open Common
exception Stop of string
let unres = function Ok v -> v | Exit -> raise (Stop "EXIT") | OOB -> raise (Stop "OOB") | Fuel -> raise (Stop "FUEL")
(* g++ -O1 expands pow(x, 2.0) to x*x; pow(x, 3.0), pow(x, 4.0) call libm (checked on the compiled library) *)
let fops = { fops with npowi = (fun x k -> if int_of_z k = 2 then x *. x else fops.npowi x k) }
let scaled dim l = if dim > 0.0 then List.map (fun v -> v *. dim) l else l
let g3 = [0.5 -. sqrt 0.6 /. 2.0; 0.5; 0.5 +. sqrt 0.6 /. 2.0]

(* one operation w of a 1-D case on the object !o (xa = its abscissae after the unit scaling) *)
let op1 r o xa w =
  let f x = unres (interpolate fops !o x) in
    match w with
    | "P" -> let c = num r in o := set_prefactor !o c
    | "X" -> let c = num r in o := multiply fops !o c
    | "I" -> put_f (f (num r))
    | "D" -> let k = integer r in let x = num r in put_f (unres (derivative fops !o x (z_of_int k)))
    | "N" -> let a = num r in let b = num r in put_f (unres (integrate fops !o a b))
    | "m" -> let a = num r in let b = num r in put_f (unres (local_minimum fops !o a b))
    | "M" -> let a = num r in let b = num r in put_f (unres (local_maximum fops !o a b))
    | "g" -> put_f (unres (global_minimum fops !o))
    | "G" -> put_f (unres (global_maximum fops !o))
    | "E" -> let a = num r in let b = num r in let n = integer r in
        put_f (unres (local_minimum fops !o a b)); put_f (unres (local_maximum fops !o a b));
        for k = 0 to n do put_f (f (if k = n then b else a +. (b -. a) *. float_of_int k /. float_of_int n)) done
    | "Z" -> let n = integer r in
        put_f (unres (global_minimum fops !o)); put_f (unres (global_maximum fops !o));
        let na = Array.length xa in
        let a = xa.(0) and b = xa.(na - 1) in
        for k = 0 to n do put_f (f (if k = n then b else a +. (b -. a) *. float_of_int k /. float_of_int n)) done;
        put_f (f (a -. 0.5 *. (1e-2 *. (xa.(1) -. xa.(0)))));
        put_f (f (b +. 0.5 *. (1e-2 *. (xa.(na - 1) -. xa.(na - 2)))))
    | "Q" -> let a = num r in let b = num r in
        put_f (unres (integrate fops !o a b)); put_f (unres (integrate fops !o b a));
        let lo = Float.min a b and hi = Float.max a b in
        let brk = [lo] @ List.filter (fun x -> x > lo && x < hi) (Array.to_list xa) @ [hi] in
        let rec pieces = function
          | u :: (v :: _ as rest) -> List.iter (fun w -> put_f (f (u +. (v -. u) *. w))) g3; pieces rest
          | _ -> () in
        pieces brk
    | "A" -> let a = num r in let b = num r in let c = num r in
        put_f (unres (integrate fops !o a b)); put_f (unres (integrate fops !o b c)); put_f (unres (integrate fops !o a c))
    | "B" -> let a = num r in let b = num r in
        put_f (unres (integrate fops !o a b)); put_f (unres (local_minimum fops !o a b)); put_f (unres (local_maximum fops !o a b))
    | "C" -> let x = num r in put_f (unres (call1 fops !o x)); put_f (f x)
    | "O" -> List.iter put_f (domain1 !o)
    | "U" -> let a = num r in let x = num r in let d = num r in
        put_f (unres (integrate fops !o a (x +. d))); put_f (unres (integrate fops !o a (x -. d)));
        put_f (f x); put_f (unres (derivative fops !o x (z_of_int 2)))
    | q -> failwith ("unknown op " ^ q)

let run1 r o xa =
  let nq = integer r in
  for _ = 1 to nq do op1 r o xa (word r) done

let op2 r o xa ya w =
    match w with
    | "P" -> let c = num r in o := set_prefactor2 !o c
    | "X" -> let c = num r in o := multiply2 fops !o c
    | "I" -> let x = num r in let y = num r in put_f (unres (interpolate2 fops !o x y))
    | "C" -> let x = num r in let y = num r in put_f (unres (call2 fops !o x y)); put_f (unres (interpolate2 fops !o x y))
    | "O" -> List.iter (List.iter put_f) (domain2 !o)
    | "g" -> put_f (unres (global_minimum2 fops !o))
    | "G" -> put_f (unres (global_maximum2 fops !o))
    | "Z" -> let n = integer r in
        put_f (unres (global_minimum2 fops !o)); put_f (unres (global_maximum2 fops !o));
        let x0 = xa.(0) and x1 = xa.(Array.length xa - 1) and y0 = ya.(0) and y1 = ya.(Array.length ya - 1) in
        for a = 0 to n do
          let x = if a = n then x1 else x0 +. (x1 -. x0) *. float_of_int a /. float_of_int n in
          for b = 0 to n do
            let y = if b = n then y1 else y0 +. (y1 -. y0) *. float_of_int b /. float_of_int n in
            put_f (unres (interpolate2 fops !o x y))
          done
        done;
        put_f (unres (interpolate2 fops !o (x0 -. 0.5 *. (1e-2 *. (xa.(1) -. xa.(0)))) y0))
    | q -> failwith ("unknown op " ^ q)

let run2 r o xa ya =
  let nq = integer r in
  for _ = 1 to nq do op2 r o xa ya (word r) done

(* ---- several objects in one program: the store of C08_Model.v (lstep); mk mn -> LPut, cp cc vec val -> LCopy, mv -> LMove, rm -> LDrop, sw -> LSwap.
   make.(t) () constructs the object of table t; opq = op1 / op2 on a reference to the current object; aux.(t) = the abscissae of table t *)
let session r (make : (unit -> 'o) array) (aux : 'x array) (opq : reader -> 'o ref -> 'x -> string -> unit) =
  let ns = integer r in
  let st = ref (List.init ns (fun _ -> None)) in
  let tab = Array.make ns (-1) in
  let cur = ref 0 in
  let nq = integer r in
  for _ = 1 to nq do
    let w = word r in
    match w with
    | "at" -> cur := integer r
    | "mk" | "mn" -> let k = integer r in let t = integer r in
        st := lstep !st (LPut (nat_of_int k, make.(t) ())); tab.(k) <- t
    | "cp" | "cc" | "val" -> let k = integer r in let j = integer r in
        st := lstep !st (LCopy (nat_of_int k, nat_of_int j)); tab.(k) <- tab.(j)
    | "vec" -> let k = integer r in let j = integer r in let _ = integer r in
        st := lstep !st (LCopy (nat_of_int k, nat_of_int j)); tab.(k) <- tab.(j)
    | "mv" -> let k = integer r in let j = integer r in
        st := lstep !st (LMove (nat_of_int k, nat_of_int j)); tab.(k) <- tab.(j); tab.(j) <- (-1)
    | "rm" -> let k = integer r in st := lstep !st (LDrop (nat_of_int k)); tab.(k) <- (-1)
    | "sw" -> let k = integer r in let j = integer r in
        st := lstep !st (LSwap (nat_of_int k, nat_of_int j));
        let t = tab.(k) in tab.(k) <- tab.(j); tab.(j) <- t
    | _ ->
        (match st_get !st (nat_of_int !cur) with
         | None -> raise (Stop "MODELERR query_on_an_empty_slot")
         | Some ob ->
             let o = ref ob in
             opq r o aux.(tab.(!cur)) w;
             if w = "P" || w = "X" then st := lstep !st (LPut (nat_of_int !cur, !o)))
  done

(* ---- long tables given by rule (the same integers scaled by powers of two as in harness/C08.cpp and checks/C08.py) *)
let rule_table r =
  let n = integer r in
  let s = ref (integer r) in
  let xk = integer r in let x0 = integer r in let jit = integer r in let yk = integer r in
  let p1 = integer r in let p2 = integer r in let ym = integer r in
  let next () = s := (!s * 1103515245 + 12345) land 0x7fffffff; !s lsr 16 in
  let ux = Float.ldexp 1.0 xk and uy = Float.ldexp 1.0 ym in
  let xs = Array.make n 0.0 and ys = Array.make n 0.0 in
  for i = 0 to n - 1 do
    let j = if jit <> 0 then next () mod 7 else 0 in
    xs.(i) <- float_of_int (x0 + 8 * i + j) *. ux
  done;
  let y = ref p1 in
  for i = 0 to n - 1 do
    if yk = 6 || yk = 7 then begin
      let q = p2 mod n and e = p2 / n in
      let tall = ((i < q) = (yk = 6)) in
      ys.(i) <- Float.ldexp (float_of_int (p1 + next () mod 16)) (if tall then e else 0) *. uy end
    else
    let v =
      if yk = 0 then p1
      else if yk = 1 then p1 + p2 * i
      else if yk = 2 then (let q = next () mod (2 * p2 + 1) in p1 + q - p2)
      else if yk = 3 then ((if i > 0 then (let q = next () mod (2 * p2 + 1) in y := !y + q - p2)); !y)
      else if yk = 4 then p1 + p2 * (if i mod 16 < 8 then i mod 16 else 16 - i mod 16)
      else if yk = 5 then p1 + (if i = p2 then 1000 else 0)
      else if yk = 8 then p1 + (if i mod 2 = 0 then p2 else - p2) * i
      else p1 + (if i mod 2 = 0 then p2 else - p2) * (n - i) in
    ys.(i) <- float_of_int v *. uy
  done;
  (xs, ys)

(* A table of 10^5 points is walked window by window: the Steffen coefficients of a segment depend on the two tabulated points on either
   side of it only, so the object constructed (extracted [construct]) from the points lo .. hi has, on its inner segments, the coefficients
   of the whole table; at the two ends of the table the window ends there as well, so the one-sided formulas see the same points.
   The loops of Integrate and Local_Minimum/Maximum are resumed from window to window with the running value
   (C08_integrate_loop_split, C08_knot_scan_split); every number is computed by the extracted functions. *)
let wsz = 12
type big = { bn : int; bx : float array; by : float array; mutable bpre : float; wins : float itab option array }
let big_make xs ys = let n = Array.length xs in { bn = n; bx = xs; by = ys; bpre = 1.0; wins = Array.make ((n - 2) / wsz + 1) None }
let wlo w = max 0 (w * wsz - 2)
let wobj b w =
  let ob = match b.wins.(w) with
    | Some ob -> ob
    | None ->
        let lo = wlo w and hi = min (b.bn - 1) ((w + 1) * wsz + 2) in
        let sl a = Array.to_list (Array.sub a lo (hi - lo + 1)) in
        let ob = unres (construct fops (sl b.bx) (sl b.by) (-1.0) (-1.0)) in
        b.wins.(w) <- Some ob; ob in
  set_prefactor ob b.bpre
(* the window to ask: the one holding the largest j <= n-2 with x_j <= x (plain search on the array; the extracted locate then runs on the window) *)
let seg_guess b x =
  if not (x >= b.bx.(0)) then 0 else begin
    let lo = ref 0 and hi = ref (b.bn - 1) in
    while !hi - !lo > 1 do let m = (!lo + !hi) / 2 in if b.bx.(m) <= x then lo := m else hi := m done; !lo end
let big_locate b x = let w = seg_guess b x / wsz in wlo w + int_of_nat (unres (locate fops (wobj b w) x))
let big_interpolate b x = unres (interpolate fops (wobj b (seg_guess b x / wsz)) x)
let big_derivative b x k = unres (derivative fops (wobj b (seg_guess b x / wsz)) x (z_of_int k))
let big_integrate b x_1 x_2 =
  let swap = x_1 > x_2 in
  let x1 = if swap then x_2 else x_1 and x2 = if swap then x_1 else x_2 in
  let sign = if swap then -1.0 else 1.0 in
  let i1 = big_locate b x1 in let i2 = big_locate b x2 in
  let acc = ref 0.0 in
  for w = i1 / wsz to i2 / wsz do
    let g0 = max i1 (w * wsz) and g1 = min i2 ((w + 1) * wsz - 1) in
    let cnt = g1 - g0 + 1 and lo = wlo w in
    let xl = if g0 = i1 then x1 else b.bx.(g0) in
    let li2 = if g1 = i2 then i2 - lo else g0 - lo + cnt in
    acc := unres (integrate_loop fops (wobj b w) xl x2 (nat_of_int (g0 - lo)) (nat_of_int li2) (nat_of_int cnt) O !acc)
  done;
  sign *. !acc
let big_local pick b x_1 x_2 =
  if x_2 < x_1 then raise (Stop "EXIT");
  let fl = big_interpolate b x_1 in let fr = big_interpolate b x_2 in
  let i1 = big_locate b x_1 in let i2 = big_locate b x_2 in
  let m = ref (pick fl fr) in
  let q = ref i1 in
  while !q <= i2 + 1 do
    let q1 = min (i2 + 1) (!q + 63) in
    let sl a = Array.to_list (Array.sub a !q (q1 - !q + 1)) in
    m := unres (knot_scan fops pick (skeleton fops (sl b.bx) (sl b.by) b.bpre) x_1 x_2 (nat_of_int (q1 - !q + 1)) O !m);
    q := q1 + 1
  done;
  !m
let opbig r b w =
  let f x = big_interpolate b x in
  let integ = big_integrate b in
  let lmin = big_local (nmin fops) b and lmax = big_local (nmax fops) b in
  let skel () = skeleton fops (Array.to_list b.bx) (Array.to_list b.by) b.bpre in
  let gmin () = unres (global_minimum fops (skel ())) and gmax () = unres (global_maximum fops (skel ())) in
  let xa = b.bx in
  match w with
  | "P" -> b.bpre <- num r
  | "X" -> let c = num r in b.bpre <- b.bpre *. c
  | "I" -> put_f (f (num r))
  | "D" -> let k = integer r in let x = num r in put_f (big_derivative b x k)
  | "N" -> let a = num r in let c = num r in put_f (integ a c)
  | "m" -> let a = num r in let c = num r in put_f (lmin a c)
  | "M" -> let a = num r in let c = num r in put_f (lmax a c)
  | "g" -> put_f (gmin ())
  | "G" -> put_f (gmax ())
  | "E" -> let a = num r in let c = num r in let n = integer r in
      put_f (lmin a c); put_f (lmax a c);
      for k = 0 to n do put_f (f (if k = n then c else a +. (c -. a) *. float_of_int k /. float_of_int n)) done
  | "Z" -> let n = integer r in
      put_f (gmin ()); put_f (gmax ());
      let na = Array.length xa in
      let a = xa.(0) and c = xa.(na - 1) in
      for k = 0 to n do put_f (f (if k = n then c else a +. (c -. a) *. float_of_int k /. float_of_int n)) done;
      put_f (f (a -. 0.5 *. (1e-2 *. (xa.(1) -. xa.(0)))));
      put_f (f (c +. 0.5 *. (1e-2 *. (xa.(na - 1) -. xa.(na - 2)))))
  | "W" -> let a = num r in let c = num r in
      put_f (integ a c); put_f (integ c a);
      let lo = Float.min a c and hi = Float.max a c in
      let sum = ref 0.0 and u = ref lo in
      let piece v =
        let v0 = f (!u +. (v -. !u) *. List.nth g3 0) in let v1 = f (!u +. (v -. !u) *. List.nth g3 1) in let v2 = f (!u +. (v -. !u) *. List.nth g3 2) in
        sum := !sum +. (v -. !u) *. (5.0 *. v0 +. 8.0 *. v1 +. 5.0 *. v2) /. 18.0; u := v in
      Array.iter (fun x -> if x > lo && x < hi then piece x) xa;
      piece hi;
      put_f !sum
  | "A" -> let a = num r in let c = num r in let e = num r in
      put_f (integ a c); put_f (integ c e); put_f (integ a e)
  | "B" -> let a = num r in let c = num r in
      put_f (integ a c); put_f (lmin a c); put_f (lmax a c)
  | "U" -> let a = num r in let x = num r in let d = num r in
      put_f (integ a (x +. d)); put_f (integ a (x -. d)); put_f (f x); put_f (big_derivative b x 2)
  | q -> failwith ("unknown op " ^ q)

(* the abscissae of a data table as the harness computes them for the sampling grids: sorted, duplicates removed *)
let column rows k = List.filter_map (fun row -> List.nth_opt row k) rows
let sort_unique l = List.sort_uniq compare l

let handler r =
  try
    match word r with
    | "t1" | "h1" ->
        let xd = num r in let fd = num r in let xs = list r in let ys = list r in
        let o = ref (unres (construct fops xs ys xd fd)) in
        run1 r o (Array.of_list (scaled xd xs))
    | "d1" | "e1" ->
        let xd = num r in let fd = num r in let rows = table r in
        let o = ref (unres (construct_rows fops rows xd fd)) in
        run1 r o (Array.of_list (scaled xd (column rows 0)))
    | "t0" | "h0" ->
        let o = ref (unres (construct_default fops)) in
        run1 r o [| -1.0; 0.0; 1.0 |]
    | "t2" | "h2" ->
        let xd = num r in let yd = num r in let fd = num r in
        let xs = list r in let ys = list r in let ft = table r in
        let o = ref (unres (construct2 fops xs ys ft xd yd fd)) in
        run2 r o (Array.of_list (scaled xd xs)) (Array.of_list (scaled yd ys))
    | "d2" ->
        let xd = num r in let yd = num r in let fd = num r in let rows = table r in
        let o = ref (unres (construct2_table fops rows xd yd fd)) in
        run2 r o (Array.of_list (scaled xd (sort_unique (column rows 0)))) (Array.of_list (scaled yd (sort_unique (column rows 1))))
    | "z2" ->
        let o = ref (unres (construct2_default fops)) in
        run2 r o [| -1.0; 0.0; 1.0 |] [| -1.0; 0.0; 1.0 |]
    | "s1" | "r1" ->
        let nt = integer r in
        let tabs = Array.init nt (fun _ ->
          let kind = word r in let xd = num r in let fd = num r in
          if kind = "L" then begin
            let xs = list r in let ys = list r in
            ((fun () -> unres (construct fops xs ys xd fd)), Array.of_list (scaled xd xs)) end
          else begin
            let rows = table r in
            ((fun () -> unres (construct_rows fops rows xd fd)), Array.of_list (scaled xd (column rows 0))) end) in
        session r (Array.map fst tabs) (Array.map snd tabs) op1
    | "s2" | "r2" ->
        let nt = integer r in
        let tabs = Array.init nt (fun _ ->
          let xd = num r in let yd = num r in let fd = num r in
          let xs = list r in let ys = list r in let ft = table r in
          ((fun () -> unres (construct2 fops xs ys ft xd yd fd)), (Array.of_list (scaled xd xs), Array.of_list (scaled yd ys)))) in
        session r (Array.map fst tabs) (Array.map snd tabs) (fun r o (xa, ya) w -> op2 r o xa ya w)
    | "b1" | "k1" ->
        let xd = num r in let fd = num r in
        let (xs, ys) = rule_table r in
        let sc dim a = if dim > 0.0 then Array.map (fun v -> v *. dim) a else a in
        let b = big_make (sc xd xs) (sc fd ys) in
        let nq = integer r in
        for _ = 1 to nq do opbig r b (word r) done
    | o -> put_w ("MODELERR unknown_op_" ^ o)
  with Stop s -> Buffer.clear buf; first := true; put_w s

let () = run handler
