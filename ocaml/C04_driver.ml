(* C04 model driver: `open C04_m`, conv.inc and Common are prepended by bin/build_driver.
   Case grammar: see checks/C04.py.  Matrices are tables (rows, then each row as a list) handed to
   Matrix(std::vector<std::vector<double>>) = mat_of_entries; vectors are lists handed to Vector(std::vector). *)
open Common
let n = nat_of_int
(* a non-Ok outcome is the outcome of the whole case (the C++ process is gone at that point) *)
exception Ctor of string
let put_res f = function Ok a -> f a | Exit -> raise (Ctor "EXIT") | OOB -> raise (Ctor "OOB") | Fuel -> raise (Ctor "FUEL")
let put_mat (m : float mat) =
  if not (wf_mat m) then put_w "MODEL_NOT_WF"
  else begin put_w "M"; put_i (int_of_nat m.mrows); put_i (int_of_nat m.mcols); List.iter (List.iter put_f) m.mcomps end
let put_vec (v : float vec) =
  if not (wf_vec v) then put_w "MODEL_NOT_WF"
  else begin put_w "V"; put_i (int_of_nat v.vdim); List.iter put_f v.vcomps end
(* a matrix argument; when its construction already fails the whole case has that outcome *)
let ok_or_raise = function Ok m -> m | Exit -> raise (Ctor "EXIT") | OOB -> raise (Ctor "OOB") | Fuel -> raise (Ctor "FUEL")
let plain_vec r = vec_of (list r)
let plain_mat r = ok_or_raise (mat_of_entries (table r))
(* `hist <op> ...`: every matrix / vector argument is followed by `k step_1 .. step_k`, a call history applied to the
   freshly constructed object before the operation sees it (grammar: checks/C04.py; C++ side: harness/C04.cpp) *)
let hist = ref false
let mat_step r (a : float mat) : float mat =
  match word r with
  | "rs" -> let p = integer r in let q = integer r in m_resize fops a (n p) (n q)
  | "as" -> let p = integer r in let q = integer r in let e = num r in m_assign a (n p) (n q) e
  | "dr" -> let i = integer r in ok_or_raise (delete_row a (n i))
  | "dc" -> let i = integer r in ok_or_raise (delete_column a (n i))
  | "st" -> let i = integer r in let j = integer r in let x = num r in ok_or_raise (m_set a (n i) (n j) x)
  | "cp" -> m_copy a
  | "eq" -> let b = m_assign_from (mat_fill (n 1) (n 1) 7.0) a in
            let c = m_assign_from (mat_fill (n 1) (n 1) 3.0) b in m_assign_from a c
  | "se" -> m_assign_from a a
  | "pa" -> let b = plain_mat r in ok_or_raise (m_add_assign fops a b)
  | "ma" -> let b = plain_mat r in ok_or_raise (m_sub_assign fops a b)
  | "sa" -> ok_or_raise (m_add_assign fops a a)
  | "ss" -> ok_or_raise (m_sub_assign fops a a)
  | "pl" -> let b = plain_mat r in m_assign_from a (ok_or_raise (m_op_plus fops a b))
  | "mi" -> let b = plain_mat r in m_assign_from a (ok_or_raise (m_op_minus fops a b))
  | "tr" -> m_assign_from a (ok_or_raise (transpose fops a))
  | "ms" -> let x = num r in m_assign_from a (ok_or_raise (m_op_mul_s fops a x))
  | "dv" -> let x = num r in m_assign_from a (ok_or_raise (m_op_div fops a x))
  | "z" -> let p = integer r in let q = integer r in m_assign_from a (m_zero fops (n p) (n q))
  | "df" -> m_assign_from a (m_default fops)
  | o -> raise (Ctor ("MODELERR unknown_step_" ^ o))
let vec_step r (v : float vec) : float vec =
  match word r with
  | "rs" -> let p = integer r in v_resize fops v (n p)
  | "as" -> let p = integer r in let e = num r in v_assign v (n p) e
  | "st" -> let i = integer r in let x = num r in ok_or_raise (v_set v (n i) x)
  | "cp" -> v_copy v
  | "eq" -> let b = v_assign_from (vfill (n 1) 7.0) v in
            let c = v_assign_from (vfill (n 5) 3.0) b in v_assign_from v c
  | "se" -> v_assign_from v v
  | "pa" -> let b = plain_vec r in ok_or_raise (vadd_assign fops v b)
  | "ma" -> let b = plain_vec r in ok_or_raise (vsub_assign fops v b)
  | "sa" -> ok_or_raise (vadd_assign fops v v)
  | "ss" -> ok_or_raise (vsub_assign fops v v)
  | "pl" -> let b = plain_vec r in v_assign_from v (ok_or_raise (vadd fops v b))
  | "mi" -> let b = plain_vec r in v_assign_from v (ok_or_raise (vsub fops v b))
  | "ms" -> let x = num r in v_assign_from v (vscale fops v x)
  | "sm" -> let x = num r in v_assign_from v (s_mul_v fops x v)
  | "dv" -> let x = num r in v_assign_from v (vdivs fops v x)
  | "z" -> let p = integer r in v_assign_from v (v_zero fops (n p))
  | "df" -> v_assign_from v (v_default fops)
  | "nz" -> ok_or_raise (v_normalize fops v)
  | "nd" -> v_assign_from v (ok_or_raise (v_normalized fops v))
  | o -> raise (Ctor ("MODELERR unknown_step_" ^ o))
let rec steps f r a k = if k <= 0 then a else steps f r (f r a) (k - 1)
(* `life` cases: the live objects of the session; an argument `@k` is object k itself (no history suffix) *)
let lms : float mat list ref = ref []
let lvs : float vec list ref = ref []
let obj_ref r = if more r && String.length r.toks.(r.pos) > 1 && r.toks.(r.pos).[0] = '@'
  then (let w = word r in Some (int_of_string (String.sub w 1 (String.length w - 1)))) else None
let rd_mat r = match obj_ref r with
  | Some k -> ok_or_raise (get !lms (n k))
  | None -> let a = plain_mat r in if !hist then (let k = integer r in steps mat_step r a k) else a
let rd_vec r = match obj_ref r with
  | Some k -> ok_or_raise (get !lvs (n k))
  | None -> let v = plain_vec r in if !hist then (let k = integer r in steps vec_step r v k) else v
let marg r = match obj_ref r with Some k -> MObj (n k) | None -> MLit (plain_mat r)
let varg r = match obj_ref r with Some k -> VObj (n k) | None -> VLit (plain_vec r)
(* a step that changes object k: parsed into the model's own step type, run by the extracted life_run (fold of life_step = life_m / life_v on the addressed object) *)
let mmut_of r k : float mmut =
  match word r with
  | "rs" -> let p = integer r in let q = integer r in MuResize (n p, n q)
  | "as" -> let p = integer r in let q = integer r in let e = num r in MuAssign (n p, n q, e)
  | "dr" -> MuDelRow (n (integer r))
  | "dc" -> MuDelCol (n (integer r))
  | "st" -> let i = integer r in let j = integer r in let x = num r in MuSet (n i, n j, x)
  | "cp" -> MuCopy | "eq" -> MuEqChain | "se" -> MuSelf
  | "af" -> MuFrom (marg r)
  | "pa" -> MuAddAssign (marg r) | "ma" -> MuSubAssign (marg r)
  | "sa" -> MuAddAssign (MObj (n k)) | "ss" -> MuSubAssign (MObj (n k))
  | "pl" -> MuPlus (marg r) | "mi" -> MuMinus (marg r)
  | "tr" -> MuTranspose
  | "ms" -> MuMulS (num r) | "dv" -> MuDivS (num r)
  | "z" -> let p = integer r in let q = integer r in MuZero (n p, n q)
  | "df" -> MuDefault
  | o -> raise (Ctor ("MODELERR unknown_step_" ^ o))
let vmut_of r k : float vmut =
  match word r with
  | "rs" -> VuResize (n (integer r))
  | "as" -> let p = integer r in let e = num r in VuAssign (n p, e)
  | "st" -> let i = integer r in let x = num r in VuSet (n i, x)
  | "cp" -> VuCopy | "eq" -> VuEqChain | "se" -> VuSelf
  | "af" -> VuFrom (varg r)
  | "pa" -> VuAddAssign (varg r) | "ma" -> VuSubAssign (varg r)
  | "sa" -> VuAddAssign (VObj (n k)) | "ss" -> VuSubAssign (VObj (n k))
  | "pl" -> VuPlus (varg r) | "mi" -> VuMinus (varg r)
  | "ms" -> VuMulS (num r) | "sm" -> VuSMul (num r) | "dv" -> VuDivS (num r)
  | "z" -> VuZero (n (integer r))
  | "df" -> VuDefault
  | "nz" -> VuNormalize | "nd" -> VuNormalized
  | o -> raise (Ctor ("MODELERR unknown_step_" ^ o))
(* block given as  r c e_11 ... e_rc : Matrix(r,c,0.0) then assigned entry by entry *)
let rd_block r =
  let rr = integer r in let cc = integer r in
  let es = Array.init (rr * cc) (fun _ -> num r) in
  mk_mat (n rr) (n cc) (fun i j -> es.(int_of_nat i * cc + int_of_nat j))
let ( >>= ) = rbind

let mm name f r = let a = rd_mat r in let b = rd_mat r in put_res put_mat (f fops a b)
let ms f r = let a = rd_mat r in let s = num r in put_res put_mat (f fops a s)
let vv f r = let u = rd_vec r in let v = rd_vec r in put_res put_vec (f fops u v)

(* printouts (operator<<): one word per inserted string, numbers as numbers, the item count first *)
let put_ptoks l = put_w "P"; put_i (List.length l);
  List.iter (function PNum x -> put_f x | PLP -> put_w "LP" | PCM -> put_w "CM" | PRP -> put_w "RP" | PLC -> put_w "LC"
    | PRC -> put_w "RC" | PLF -> put_w "LF" | PRF -> put_w "RF" | PBAR -> put_w "BAR" | PTAB -> put_w "TAB" | PNL -> put_w "NL") l
let dispatch op r =
  match op with
  | "v_print" -> let v = rd_vec r in put_res put_ptoks (v_print v)
  | "m_print" -> let a = rd_mat r in put_res put_ptoks (m_print a)
  | "m_plus" -> mm "" m_plus r
  | "m_minus" -> mm "" m_minus r
  | "m_op_plus" -> mm "" m_op_plus r
  | "m_op_minus" -> mm "" m_op_minus r
  | "m_add_assign" -> mm "" m_add_assign r
  | "m_sub_assign" -> mm "" m_sub_assign r
  | "m_prod" -> mm "" m_product r
  | "m_op_mul" -> mm "" m_op_mul r
  | "m_prod_s" -> ms m_product_s r
  | "m_op_mul_s" -> ms m_op_mul_s r
  | "s_mul_m" -> let s = num r in let a = rd_mat r in put_res put_mat (s_mul_m fops s a)
  | "m_div" -> ms m_division r
  | "m_op_div" -> ms m_op_div r
  | "m_prod_v" -> let a = rd_mat r in let v = rd_vec r in put_res put_vec (m_product_v fops a v)
  | "m_op_mul_v" -> let a = rd_mat r in let v = rd_vec r in put_res put_vec (m_op_mul_v fops a v)
  | "v_mul_m" -> let v = rd_vec r in let a = rd_mat r in put_res put_vec (v_mul_m fops v a)
  | "outer" -> let u = rd_vec r in let v = rd_vec r in put_mat (outer fops u v)
  | "v_dot" -> let u = rd_vec r in let v = rd_vec r in put_res put_f (vdot fops u v)
  | "v_op_mul" -> let u = rd_vec r in let v = rd_vec r in put_res put_f (v_op_mul fops u v)
  | "v_cross" -> vv vcross r
  | "v_norm" -> let u = rd_vec r in put_res put_f (vnorm fops u)
  | "v_normalized" -> let u = rd_vec r in put_res put_vec (v_normalized fops u)
  | "v_normalize" -> let u = rd_vec r in put_res put_vec (v_normalize fops u)
  | "v_add" -> vv vadd r
  | "v_sub" -> vv vsub r
  | "v_add_assign" -> vv vadd_assign r
  | "v_sub_assign" -> vv vsub_assign r
  | "v_scale" -> let v = rd_vec r in let s = num r in put_vec (vscale fops v s)
  | "v_div" -> let v = rd_vec r in let s = num r in put_vec (vdivs fops v s)
  | "s_mul_v" -> let s = num r in let v = rd_vec r in put_vec (s_mul_v fops s v)
  | "v_eq" -> let u = rd_vec r in let v = rd_vec r in put_b (veq fops u v)
  | "transpose" -> let a = rd_mat r in put_res put_mat (transpose fops a)
  | "trace" -> let a = rd_mat r in put_res put_f (trace fops a)
  | "m_norm" -> let a = rd_mat r in put_f (m_norm fops a)
  | "square" -> let a = rd_mat r in put_b (square a)
  | "symmetric" -> let a = rd_mat r in put_b (symmetric fops a)
  | "antisymmetric" -> let a = rd_mat r in put_b (antisymmetric fops a)
  | "diagonal" -> let a = rd_mat r in put_b (diagonal fops a)
  | "sub_matrix" -> let a = rd_mat r in let i = integer r in let j = integer r in
      put_res put_mat (sub_matrix_int a (z_of_int i) (z_of_int j))
  | "delete_row" -> let a = rd_mat r in let i = integer r in put_res put_mat (delete_row a (n i))
  | "delete_column" -> let a = rd_mat r in let i = integer r in put_res put_mat (delete_column a (n i))
  | "return_row" -> let a = rd_mat r in let i = integer r in put_res put_vec (return_row a (n i))
  | "return_column" -> let a = rd_mat r in let i = integer r in put_res put_vec (return_column fops a (n i))
  | "m_eq" -> let a = rd_mat r in let b = rd_mat r in put_b (m_eq fops a b)
  | "v_at" | "v_atc" -> let v = rd_vec r in let i = integer r in put_res put_f (v_at v (n i))
  | "m_show" -> let a = rd_mat r in put_mat a
  | "v_show" -> let v = rd_vec r in put_vec v
  | "m_at" | "m_atc" -> let a = rd_mat r in let i = integer r in let j = integer r in put_res put_f (m_at a (n i) (n j))
  | "identity" -> let k = integer r in put_mat (identity fops (n k))
  | "mat_diag" -> let d = list r in put_mat (mat_diag fops d)
  | "mat_fill" -> let a = integer r in let b = integer r in let e = num r in put_mat (mat_fill (n a) (n b) e)
  | "mat_ctor" -> put_res put_mat (mat_of_entries (table r))
  | "block" ->
      let gr = integer r in
      let g = List.init gr (fun _ -> let gc = integer r in List.init gc (fun _ -> rd_block r)) in
      put_res put_mat (mat_block fops g)
  | "blockm" ->
      let gr = integer r in
      let g = List.init gr (fun _ -> let gc = integer r in List.init gc (fun _ -> rd_mat r)) in
      put_res put_mat (mat_block fops g)
  (* ---- the laws of the property, both sides computed by the same spellings ---- *)
  | "law_trprod" -> let a = rd_mat r in let b = rd_mat r in
      put_res put_mat (m_product fops a b >>= transpose fops);
      put_res put_mat (transpose fops b >>= fun bt -> transpose fops a >>= fun at -> m_product fops bt at)
  | "law_mulid" -> let a = rd_mat r in
      put_res put_mat (m_product fops a (identity fops a.mcols));
      put_res put_mat (m_product fops (identity fops a.mrows) a)
  | "law_trtr" -> let a = rd_mat r in put_res put_mat (transpose fops a >>= transpose fops)
  | "law_matvec" -> let a = rd_mat r in let v = rd_vec r in
      put_res put_vec (m_product_v fops a v);
      put_res put_mat (mat_of_entries (List.map (fun x -> [x]) v.vcomps) >>= fun c -> m_product fops a c)
  | "law_vecmat" -> let v = rd_vec r in let a = rd_mat r in
      put_res put_vec (v_mul_m fops v a);
      put_res put_mat (mat_of_entries [v.vcomps] >>= fun rw -> m_product fops rw a)
  | "law_dotouter" -> let u = rd_vec r in let v = rd_vec r in
      put_res put_f (vdot fops u v);
      put_res put_mat (mat_of_entries [u.vcomps] >>= fun rw -> mat_of_entries (List.map (fun x -> [x]) v.vcomps) >>= fun c -> m_product fops rw c);
      put_mat (outer fops u v);
      put_res put_mat (mat_of_entries (List.map (fun x -> [x]) u.vcomps) >>= fun c -> mat_of_entries [v.vcomps] >>= fun rw -> m_product fops c rw)
  | "law_vecmat_tr" -> let v = rd_vec r in let a = rd_mat r in let w = rd_vec r in
      put_res put_vec (v_mul_m fops v a);
      put_res put_vec (transpose fops a >>= fun at -> m_product_v fops at v);
      put_res put_vec (m_product_v fops a w);
      put_res put_vec (transpose fops a >>= fun at -> v_mul_m fops w at)
  | "law_trsum" -> let a = rd_mat r in let b = rd_mat r in
      put_res put_mat (m_plus fops a b >>= transpose fops);
      put_res put_mat (transpose fops a >>= fun at -> transpose fops b >>= fun bt -> m_plus fops at bt);
      put_res put_mat (m_minus fops a b >>= transpose fops);
      put_res put_mat (transpose fops a >>= fun at -> transpose fops b >>= fun bt -> m_minus fops at bt)
  | "law_cross" -> let u = rd_vec r in let v = rd_vec r in
      (match vcross fops u v with
       | Ok w -> put_vec w; put_res put_f (vdot fops u w); put_res put_f (vdot fops v w)
       | e -> put_res put_vec e)
  | o -> put_w ("MODELERR unknown_op_" ^ o)

(* `amb K (name L tok_1 .. tok_L)*K <request>`: K calls of other facilities of the library before the request.  The extracted
   amb_answer runs foreign_run on the calls and hands the request the control state they leave and the one the process started
   with; the model's arithmetic (fops) is round-to-nearest with gradual underflow, the state every run of foreign_run ends in
   as long as foreign_step is the identity (a state with flush-to-zero / another rounding direction has no float instance: MODELERR). *)
let foreign_of = function
  | "eigenvalues" -> FEigenvalues | "eigensystem" -> FEigensystem | "eigenvectors" -> FEigenvectors | "qr" -> FQR
  | "determinant" -> FDeterminant | "inverse" -> FInverse | "invertible" -> FInvertible | "rotation" -> FRotation
  | "angle" -> FAngle | "spherical" -> FSpherical | "round" -> FRound | "integrate" -> FIntegrate
  | "gauss_legendre" -> FGaussLegendre | "find_root" -> FFindRoot | "find_minimum" -> FFindMinimum
  | "interpolation" -> FInterpolation | "special" -> FSpecial | "statistics" -> FStatistics | "sample" -> FSample
  | o -> raise (Ctor ("MODELERR unknown_foreign_" ^ o))

(* K step_1 .. step_K on the live objects (the body of a `life` case).  The calls that change an object are collected and run,
   in the order they are made, by the extracted life_run (the fold of life_step) before the next question is asked and at the end *)
let life_body r =
  let k = integer r in
  let pending = ref [] in
  let flush () =
    if !pending <> [] then begin
      let (ms, vs) = ok_or_raise (life_run fops (!lms, !lvs) (List.rev !pending)) in
      lms := ms; lvs := vs; pending := []
    end in
  for _ = 1 to k do
    match word r with
    (* an operand that cannot be constructed ends the session when its call is reached: the calls before it run first *)
    | "m" -> let j = integer r in let mu = (try mmut_of r j with Ctor e -> flush (); raise (Ctor e)) in
             pending := LM (n j, mu) :: !pending
    | "v" -> let j = integer r in let mu = (try vmut_of r j with Ctor e -> flush (); raise (Ctor e)) in
             pending := LV (n j, mu) :: !pending
    | "o" -> flush (); let o = word r in dispatch o r; put_w "|"
    | o -> raise (Ctor ("MODELERR unknown_life_step_" ^ o))
  done;
  flush ()

(* `made` cases: one producer = `kind L tok_1 .. tok_L`; the value the model gives the returned object becomes the next live
   matrix / vector.  Producers outside the model (Inverse, Rotation_Matrix, QR factors, Round, Spherical_Coordinates): UNMODELLED,
   these cases are decided by the predicates of checks/C04.py alone. *)
let producer r =
  let p = word r in ignore (integer r);
  let pm x = lms := !lms @ [x] in
  let pv x = lvs := !lvs @ [x] in
  match p with
  | "tr" -> let a = rd_mat r in pm (ok_or_raise (transpose fops a))
  | "sb" -> let a = rd_mat r in let i = integer r in let j = integer r in pm (ok_or_raise (sub_matrix_int a (z_of_int i) (z_of_int j)))
  | "ou" -> let u = rd_vec r in let v = rd_vec r in pm (outer fops u v)
  | "id" -> let k = integer r in pm (identity fops (n k))
  | "mp" -> let a = rd_mat r in let b = rd_mat r in pm (ok_or_raise (m_op_mul fops a b))
  | "pr" -> let a = rd_mat r in let b = rd_mat r in pm (ok_or_raise (m_product fops a b))
  | "pl" -> let a = rd_mat r in let b = rd_mat r in pm (ok_or_raise (m_op_plus fops a b))
  | "pn" -> let a = rd_mat r in let b = rd_mat r in pm (ok_or_raise (m_plus fops a b))
  | "mi" -> let a = rd_mat r in let b = rd_mat r in pm (ok_or_raise (m_op_minus fops a b))
  | "ms" -> let a = rd_mat r in let x = num r in pm (ok_or_raise (m_op_mul_s fops a x))
  | "sm" -> let x = num r in let a = rd_mat r in pm (ok_or_raise (s_mul_m fops x a))
  | "dv" -> let a = rd_mat r in let x = num r in pm (ok_or_raise (m_op_div fops a x))
  | "fl" -> let a = integer r in let b = integer r in let e = num r in pm (mat_fill (n a) (n b) e)
  | "dg" -> let d = list r in pm (mat_diag fops d)
  | "cp" -> let a = rd_mat r in pm (m_copy a)
  | "hs" -> let a = plain_mat r in let k = integer r in pm (steps mat_step r a k)
  | "bk" ->
      let gr = integer r in
      let g = List.init gr (fun _ -> let gc = integer r in List.init gc (fun _ -> rd_mat r)) in
      pm (ok_or_raise (mat_block fops g))
  | "rr" -> let a = rd_mat r in let i = integer r in pv (ok_or_raise (return_row a (n i)))
  | "rc" -> let a = rd_mat r in let i = integer r in pv (ok_or_raise (return_column fops a (n i)))
  | "mv" -> let a = rd_mat r in let v = rd_vec r in pv (ok_or_raise (m_op_mul_v fops a v))
  | "vm" -> let v = rd_vec r in let a = rd_mat r in pv (ok_or_raise (v_mul_m fops v a))
  | "cr" -> let u = rd_vec r in let v = rd_vec r in pv (ok_or_raise (vcross fops u v))
  | "nd" -> let u = rd_vec r in pv (ok_or_raise (v_normalized fops u))
  | "sc" -> let u = rd_vec r in let x = num r in pv (vscale fops u x)
  | "vc" -> let u = rd_vec r in pv (v_copy u)
  | "iv" | "ro" | "qq" | "qr" | "rn" | "sp" -> raise (Ctor "UNMODELLED")
  | o -> raise (Ctor ("MODELERR unknown_producer_" ^ o))

let made r =
  let np = integer r in
  for _ = 1 to np do producer r done;
  let ms0 = !lms and vs0 = !lvs in
  Buffer.clear buf; first := true;
  let s = (try life_body r; Buffer.contents buf with Ctor e -> e) in
  Buffer.clear buf; first := true;
  put_w s; put_w "&&"; put_w s; put_w "&&";
  List.iter put_mat ms0; List.iter put_vec vs0

let handler_inner r =
  hist := false; lms := []; lvs := [];
  let op = word r in
  let op = if op = "hist" then (hist := true; word r) else op in
  if op = "made" then made r
  else if op <> "life" then dispatch op r
  else begin
    (* life NM T_1 .. T_NM NV L_1 .. L_NV K step_1 .. step_K ;  step = m k <mutator> | v k <mutator> | o <op> <args> *)
    let nm = integer r in lms := List.init nm (fun _ -> plain_mat r);
    let nv = integer r in lvs := List.init nv (fun _ -> plain_vec r);
    life_body r
  end

let handler r =
  try
  if more r && r.toks.(r.pos) = "amb" then begin
    ignore (word r);
    let k = integer r in
    let calls = List.init k (fun _ -> let name = word r in let len = integer r in
                                      for _ = 1 to len do ignore (word r) done; foreign_of name) in
    let start = r.pos in
    let request (e : fenv) : string =
      if fenv_diff e fenv_default <> n 0 then raise (Ctor "MODELERR no_float_instance_for_this_control_state");
      r.pos <- start; Buffer.clear buf; first := true; handler_inner r;
      let s = Buffer.contents buf in Buffer.clear buf; first := true; s in
    let ((after, alone), d) = amb_answer fenv_default calls request in
    put_w after; put_w "||"; put_w alone; put_w "||"; put_w "fp"; put_i 0; put_i 0; put_i (int_of_nat d)
  end else handler_inner r
  with Ctor s -> Buffer.clear buf; first := true; put_w s

let () = run handler
