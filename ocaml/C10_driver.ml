(* C10 guard-model driver: `open C10_m`, conv.inc and Common are prepended by bin/build_driver.
   Prints the predicted outcome kind of every request: OK, EXIT, OOB (undefined behaviour), FUEL. *)
open Common
let z = z_of_int
let zi r = z (integer r)
let zl r = List.map z_of_int (ilist r)
let ascii_of_char c =
  let n = Char.code c in let b i = (n lsr i) land 1 = 1 in
  Ascii (b 0, b 1, b 2, b 3, b 4, b 5, b 6, b 7)
let cstr s = let rec go i = if i >= Stdlib.String.length s then EmptyString else String (ascii_of_char s.[i], go (i + 1)) in go 0
(* a method name: the token itself, or `%` followed by the bytes of the name in hexadecimal *)
let mname t =
  if Stdlib.String.length t = 0 || t.[0] <> '%' then cstr t
  else let n = (Stdlib.String.length t - 1) / 2 in
    cstr (Stdlib.String.init n (fun k -> Char.chr (int_of_string ("0x" ^ Stdlib.String.sub t (1 + 2 * k) 2))))
let out = function Ok _ -> put_w "OK" | Exit -> put_w "EXIT" | OOB -> put_w "OOB" | Fuel -> put_w "FUEL"
(* sequential composition of two requests made by the harness in one case (constructor, then a call) *)
let andthen a b = match a with Ok _ -> b () | Exit -> Exit | OOB -> OOB | Fuel -> Fuel
let unitres = function Ok _ -> Ok () | Exit -> Exit | OOB -> OOB | Fuel -> Fuel
let ctor xs = unitres (guard_interpolation fops xs (z (List.length xs)))
let blocks r = let n = integer r in List.init n (fun _ -> let k = integer r in List.init k (fun _ -> let a = zi r in let b = zi r in (a, b)))

(* ---- several requests on one object *)
let icall r = match word r with
  | "loc" -> ILocate (num r)
  | "ev" -> IEval (num r)
  | "der" -> let x = num r in let n = zi r in IDeriv (x, n)
  | "int" -> let a = num r in let b = num r in IIntegrate (a, b)
  | "min" -> let a = num r in let b = num r in ILocalMin (a, b)
  | "max" -> let a = num r in let b = num r in ILocalMax (a, b)
  | "glob" -> IGlobal
  | "save" -> ISave (zi r)
  | w -> failwith ("unknown_interpolation_request_" ^ w)
let icalls r = let n = integer r in List.init n (fun _ -> icall r)
let points r = let n = integer r in List.init n (fun _ -> let x = num r in let y = num r in (x, y))
(* `domain`, the indices returned by the Locate requests, and the number of answers that differ from those of an object
   that has served no request before (none: the model of a request does not depend on the earlier ones) *)
let out_domain d locs = match d with
  | Ok (a, b) ->
      (match locs () with
       | Ok l -> put_w "OK"; put_f a; put_f b; put_i (List.length l); List.iter (fun j -> put_i (int_of_z j)) l; put_i 0
       | Exit -> put_w "EXIT" | OOB -> put_w "OOB" | Fuel -> put_w "FUEL")
  | Exit -> put_w "EXIT" | OOB -> put_w "OOB" | Fuel -> put_w "FUEL"
let out_domain2 = function
  | Ok ((a, b), (c, d)) -> put_w "OK"; put_f a; put_f b; put_f c; put_f d; put_i 0
  | Exit -> put_w "EXIT" | OOB -> put_w "OOB" | Fuel -> put_w "FUEL"
let fcalls r = let n = integer r in List.init n (fun _ -> match word r with
  | "f" -> FFact (zi r)
  | _ -> let a = zi r in let b = zi r in FBinom (a, b))
let vec_ops r = let n = integer r in List.init n (fun _ -> match word r with
  | "resize" -> VResize (zi r) | "assign" -> VAssign (zi r) | "copy" -> VCopy | "set" -> VSet (zi r) | "addeq" -> VAddEq (zi r)
  | w -> failwith ("unknown_vec_op_" ^ w))
let vec_probe r = match word r with
  | "none" -> VPNone | "at" -> VPAt (zi r) | "dot" | "add" | "sub" | "addeq" -> VPBinary (zi r) | "cross" -> VPCross (zi r)
  | "subeq" | "mul" -> VPBinary (zi r) | "rdot" | "radd" | "rsub" | "raddeq" | "rsubeq" | "rmul" -> VPBinaryR (zi r) | "rcross" -> VPCrossR (zi r)
  | "angle" -> VPAngle (zi r) | "rangle" -> VPAngleR (zi r) | "eq" -> VPEq (zi r) | "req" -> VPEqR (zi r)
  | w -> failwith ("unknown_vec_probe_" ^ w)
let zz r = let a = zi r in let b = zi r in (a, b)
let mat_ops r = let n = integer r in List.init n (fun _ -> match word r with
  | "resize" -> let (a, b) = zz r in MResize (a, b) | "assign" -> let (a, b) = zz r in MAssign (a, b)
  | "delrow" -> MDelRow (zi r) | "delcol" -> MDelCol (zi r) | "copy" -> MCopy
  | "set" -> let (a, b) = zz r in MSet (a, b) | "pluseq" -> let (a, b) = zz r in MPlusEq (a, b)
  | "sum" -> let (a, b) = zz r in MSum (a, b) | "prod" -> let (a, b) = zz r in MProd (a, b) | "transp" -> MTranspose
  | w -> failwith ("unknown_mat_op_" ^ w))
let mat_probe r = match word r with
  | "none" -> PNone | "at" -> PAt (zi r) | "row" -> PRow (zi r) | "col" -> PCol (zi r)
  | "plus" | "minus" -> let (a, b) = zz r in PPlus (a, b) | "pluseq" -> let (a, b) = zz r in PPlusEq (a, b)
  | "mul" -> let (a, b) = zz r in PMul (a, b) | "lmul" -> let (a, b) = zz r in PLMul (a, b)
  | "matvec" -> PMatVec (zi r) | "vecmat" -> PVecMat (zi r) | "trace" -> PTrace | "det" -> PDet | "transpose" -> PTranspose
  | "sub" -> let (a, b) = zz r in PSub (a, b) | "eq" -> PEq
  | w -> failwith ("unknown_mat_probe_" ^ w)

(* ---- requests made from inside a call-back / several requests in one process: the outcome of a sub-case is what the
   handler prints for it *)
let entry r = match word r with
  | "int1" -> let m = mname (word r) in let a = num r in let b = num r in integrate_outcome fops m a b
  | "int2" -> let m = mname (word r) in let x1 = num r in let x2 = num r in let y1 = num r in let y2 = num r in integrate_2d_outcome fops m x1 x2 y1 y2
  | "int3" -> let m = mname (word r) in let x1 = num r in let x2 = num r in let y1 = num r in let y2 = num r in let z1 = num r in let z2 = num r in
      integrate_3d_outcome fops m x1 x2 y1 y2 z1 z2
  | "root" -> let e = parse_fexpr r in let a = num r in let b = num r in find_root_outcome fops (fun1 e) a b
  | w -> failwith ("unknown_entry_" ^ w)

let rec handler r =
  let sub () =
    handler r;
    let s = Buffer.contents buf in
    Buffer.clear buf; first := true;
    let w = match Stdlib.String.index_opt s ' ' with Some i -> Stdlib.String.sub s 0 i | None -> s in
    (match w with
     | "OK" -> CbReturns | "EXIT" -> CbExits | "THROW" -> CbThrows
     | _ -> failwith ("sub_case_" ^ s)) in
  match word r with
  | "throw" -> put_w "THROW"
  | "session" -> let n = integer r in
      let gs = List.init n (fun k ->
        if k > 0 then (match word r with ";;" -> () | w -> failwith ("session_separator_" ^ w));
        process_outcome (sub ())) in
      out (process_session gs)
  | "nested" -> let f = entry r in let _ = integer r in let o = sub () in out (process_outcome (f o))
  | "vec_at" | "vec_at_c" -> let d = zi r in let i = zi r in out (guard_vec_index d i)
  | "dot" | "vec_add" | "vec_sub" | "vec_addeq" | "vec_subeq" -> let a = zi r in let b = zi r in out (guard_vec_binary a b)
  | "cross" -> let a = zi r in let b = zi r in out (guard_cross a b)
  | "vec_mul" -> let a = zi r in let b = zi r in out (guard_vec_mul a b)
  | "angle" -> let a = zi r in let b = zi r in out (guard_angle a b)
  | "vec_eq" -> let a = zi r in let b = zi r in out (guard_vec_eq a b)
  | "outer" -> let a = zi r in let b = zi r in out (guard_outer a b)
  | "mat_at" | "mat_at_c" -> let rr = zi r in let _ = zi r in let i = zi r in out (guard_mat_index rr i)
  | "delete_row" | "return_row" -> let rr = zi r in let _ = zi r in let i = zi r in out (guard_row rr i)
  | "delete_col" -> let rr = zi r in let c = zi r in let i = zi r in out (guard_delete_column rr c i)
  | "return_col" -> let rr = zi r in let c = zi r in let i = zi r in out (guard_return_column rr c i)
  | "sub_matrix" -> let rr = zi r in let c = zi r in let i = zi r in let j = zi r in out (guard_sub_matrix rr c i j)
  | "mat_ctor" -> out (guard_mat_ctor (zl r))
  | "mat_plus" | "mat_minus" -> let a = zi r in let b = zi r in let c = zi r in let d = zi r in out (guard_mat_plus a b c d)
  | "mat_pluseq" | "mat_minuseq" -> let a = zi r in let b = zi r in let c = zi r in let d = zi r in out (guard_mat_pluseq a b c d)
  | "mat_mul" -> let a = zi r in let b = zi r in let c = zi r in let d = zi r in out (guard_mat_product a b c d)
  | "mat_vec" -> let a = zi r in let b = zi r in let d = zi r in out (guard_mat_vec a b d)
  | "vec_mat" -> let d = zi r in let a = zi r in let b = zi r in out (guard_vec_mat d a b)
  | "trace" -> let a = zi r in let b = zi r in out (guard_trace a b)
  | "det" -> let a = zi r in let b = zi r in out (guard_determinant a b)
  | "transpose" -> let a = zi r in let b = zi r in out (guard_transpose a b)
  | "inverse" -> let a = integer r in let b = integer r in
      let m = List.init a (fun _ -> List.init b (fun _ -> num r)) in out (guard_inverse fops (z a) (z b) m)
  | "rotation" -> let a = zi r in let b = zi r in out (guard_rotation a b)
  | "block" -> out (guard_block (blocks r))
  | "transpose_lists" -> out (guard_transpose_lists (zl r))
  | "sub_list" -> let s = zi r in let a = zi r in let b = zi r in out (guard_sub_list s a b)
  | "import_list" -> out (guard_import_list (integer r <> 0))
  | "import_table" -> let e = integer r <> 0 in let pl = zl r in let ig = zi r in let nd = zi r in out (guard_import_table e pl ig nd)
  | "export_table" -> let l = zl r in let nd = zi r in out (guard_export_table l nd)
  | "in_units" -> let l = zl r in let nd = zi r in out (guard_in_units_table l nd)
  | "workload" -> let a = zi r in let b = zi r in out (guard_workload a b)
  | "minimize" -> let a = zi r in let b = zi r in out (guard_minimize_deltas a b)
  | "kde" -> out (guard_kde (zi r))
  | "integrate" | "integrate_eq" -> out (guard_integrate (mname (word r)))
  | "integrate_2d" | "integrate_3d" -> out (guard_integrate_nd (mname (word r)))
  | "integrate_mc" -> out (guard_integrate_mc (mname (word r)))
  | "gauss_legendre" -> let nf = zi r in let l = zl r in out (guard_gauss_legendre nf l)
  | "metropolis" -> out (guard_metropolis (zi r))
  | "metropolis_2d" -> out (guard_metropolis_2d (zi r))
  | "binned" -> let a = zi r in let b = zi r in let c = zi r in out (guard_binned a b c)
  | "factorial" -> out (guard_factorial (z 1) (zi r))
  | "vsh_y" | "vsh_psi" -> out (guard_vsh (zi r))
  | "binomial_coefficient" -> let n = zi r in let k = zi r in out (guard_binomial_coefficient fops (z 1) n k)
  | "gammaln" -> out (guard_gammaln fops (num r))
  | "gammaq" -> let x = num r in let a = num r in out (guard_gammaq fops x a)
  | "inv_gammap" -> let p = num r in let a = num r in out (guard_inv_gammap fops p a)
  | "round" -> let x = num r in let d = zi r in out (guard_round fops x d)
  | "pmf_binomial" -> let t = zi r in let p = num r in let x = zi r in out (guard_pmf_binomial fops (z 1) t p x)
  | "cdf_binomial" -> let t = zi r in let p = num r in let x = zi r in out (guard_cdf_binomial fops (z 1) t p x)
  | "pmf_poisson" -> let mu = num r in let k = zi r in out (guard_pmf_poisson fops mu k)
  | "cdf_poisson" -> let mu = num r in let k = zi r in out (guard_cdf_poisson fops mu k)
  | "inv_cdf_poisson" -> let k = zi r in let c = num r in out (guard_inv_cdf_poisson fops k c)
  | "pdf_exponential" | "cdf_exponential" | "pdf_maxwell" | "cdf_maxwell" -> out (guard_positive_parameter fops (num r))
  | "find_root" -> let e = parse_fexpr r in let a = num r in let b = num r in out (guard_find_root fops (fun1 e) a b)
  | "inv_erf" -> out (guard_inv_erf fops (num r))
  | "interp" -> let xs = list r in let nf = zi r in out (guard_interpolation fops xs nf)
  | "interp_table" -> out (guard_interpolation_table fops (table r))
  | "locate" -> let xs = list r in let x = num r in out (andthen (ctor xs) (fun () -> unitres (locate fops xs x)))
  | "interpolate" -> let xs = list r in let x = num r in out (andthen (ctor xs) (fun () -> guard_interpolate fops xs x))
  | "interp_integrate" -> let xs = list r in let a = num r in let b = num r in
      out (andthen (ctor xs) (fun () -> guard_interp_integrate fops xs a b))
  | "local_min" | "local_max" -> let xs = list r in let a = num r in let b = num r in
      out (andthen (ctor xs) (fun () -> guard_local_extremum fops xs a b))
  | "interp2d" -> let xs = list r in let ys = list r in let l = zl r in out (guard_interpolation_2d fops xs ys l)
  | "interp2d_eval" -> let xs = list r in let ys = list r in let x = num r in let y = num r in
      let shape = List.map (fun _ -> z (List.length ys)) xs in
      out (andthen (guard_interpolation_2d fops xs ys shape) (fun () -> guard_interpolate_2d fops xs ys x y))
  | "interp2d_table" -> out (guard_interpolation_2d_table fops (table r))
  | "closest" -> let l = list r in let t = num r in out (closest_location fops l t)
  | "locate_trace" -> let xs = list r in let n = integer r in let reqs = List.init n (fun _ -> num r) in
      (* Locate with its search state: index, jLast and correlated_calls after every request *)
      (match andthen (ctor xs) (fun () -> locate_trace fops xs reqs) with
       | Ok l -> put_w "OK"; put_i (List.length l);
           List.iter (fun (j, (jl, c)) -> put_i (int_of_z j); put_i (int_of_z jl); put_i (if c then 1 else 0)) l
       | Exit -> put_w "EXIT" | OOB -> put_w "OOB" | Fuel -> put_w "FUEL")
  | "icalls" -> let xs = list r in let nf = zi r in let xd = num r in let fd = num r in let cs = icalls r in
      out_domain (interp_session fops xs nf xd fd cs) (fun () -> session_locs fops xs xd cs)
  | "icalls_t" -> let tb = table r in let xd = num r in let fd = num r in let cs = icalls r in
      out_domain (interp_table_session fops tb xd fd cs) (fun () -> table_session_locs fops tb xd cs)
  | "i2calls" -> let xs = list r in let ys = list r in let l = zl r in let xd = num r in let yd = num r in let _ = num r in
      let pts = points r in out_domain2 (interp2d_session fops xs ys l xd yd pts)
  | "i2calls_t" -> let tb = table r in let xd = num r in let yd = num r in let _ = num r in
      let pts = points r in out_domain2 (interp2d_table_session fops tb xd yd pts)
  | "fact_seq" -> out (factorial_session fops (z 1) (fcalls r))
  | "vec_hist" -> let d = zi r in let ops = vec_ops r in let p = vec_probe r in
      (match vec_session d ops p with
       | Ok v -> put_w "OK"; put_i (int_of_z v.v_dim)
       | Exit -> put_w "EXIT" | OOB -> put_w "OOB" | Fuel -> put_w "FUEL")
  | "mat_hist" -> let a = zi r in let b = zi r in let ops = mat_ops r in let p = mat_probe r in
      (match mat_session a b ops p with
       | Ok m -> put_w "OK"; put_i (int_of_z m.m_rows); put_i (int_of_z m.m_cols); put_i (int_of_z (mat_bad_rows m))
       | Exit -> put_w "EXIT" | OOB -> put_w "OOB" | Fuel -> put_w "FUEL")
  | o -> put_w ("MODELERR unknown_op_" ^ o)

let () = run handler
