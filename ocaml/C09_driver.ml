(* C09 model driver: `open C09_m`, conv.inc and Common are prepended by bin/build_driver.
   Case grammar: see checks/C09.py.  The evaluation parameters of the C09 model are instantiated with the
   spline of C01_Model.v / C08_Model.v (coq/C09_Evals.v), so every token is predicted: the indices returned by
   Locate and the values of all queries, each on the used object, on a fresh object with the same prefactor
   and (Interpolate / Derivative) on a fresh object with prefactor 1; the prefactor after every
   Set_Prefactor / Multiply; EXIT.  `_` (not compared) remains only for the 2-D Global_* calls. *)
open Common
let zi = z_of_int
let iz = int_of_z
let mk_xv (a : float array) = fun z -> let i = iz z in if i >= 0 && i < Array.length a then a.(i) else Float.nan
exception Stop of string
let stop s = raise (Stop s)

let one_d r ~trace =
  let xs = Array.of_list (list r) in
  let ys = list r in
  let n = zi (Array.length xs) in
  let xv = mk_xv xs in
  let stp =
    if trace then (fun st o -> step fops n xv (fun _ _ -> 0.0) (fun _ _ _ -> 0.0) (fun _ _ _ _ _ -> 0.0)
                      (fun _ _ _ _ _ _ _ _ -> 0.0) (fun _ _ -> 0.0) st o)   (* values are not printed in trace mode *)
    else (let obj = build fops (Array.to_list xs) ys in fun st o -> step_steffen fops obj n xv st o) in
  let kind st x = iz (locate_kind fops n xv st x) in
  let nops = integer r in
  let st = ref (init fops) in
  let stack = ref [] in
  let bad = function
    | OExit -> stop "EXIT" | OOOB -> stop "OOB" | OFuel -> stop "FUEL" | _ -> stop "MODELERR unexpected_output" in
  (* the Locate calls a query makes, in order (only used for the trace) *)
  let trace_locates xs_ =
    if trace then begin
      let s = ref !st in
      List.iter (fun x -> put_i (kind !s x);
                  let (s', o) = stp !s (OpLocate x) in (match o with OIndex _ -> s := s' | _ -> ())) xs_
    end in
  let value ?(base = false) o = (* the op on the used object, on a fresh one with the same prefactor, and (base) with prefactor 1 *)
    let (s, out) = stp !st o in
    let (_, outf) = stp (fresh !st.prefactor) o in
    (match out, outf with
     | OValue (_, v), OValue (_, vf) -> if not trace then (put_f v; put_f vf)
     | OValue (_, _), x -> bad x
     | x, _ -> bad x);
    if base && not trace then
      (match snd (stp (fresh 1.0) o) with OValue (_, vb) -> put_f vb | x -> bad x);
    st := s in
  for _ = 1 to nops do
    match word r with
    | "L" -> let x = num r in
        trace_locates [x];
        let (s, out) = stp !st (OpLocate x) in
        let (_, outf) = stp (fresh !st.prefactor) (OpLocate x) in
        (match out, outf with
         | OIndex j, OIndex jf -> if not trace then (put_i (iz j); put_i (iz jf))
         | OIndex _, x -> bad x
         | x, _ -> bad x);
        st := s
    | "I" -> let x = num r in trace_locates [x]; value ~base:true (OpInterpolate x)
    | "D" -> let x = num r in let k = integer r in
        trace_locates (if k = 0 then [x; x] else [x]); value ~base:true (OpDerivative (x, zi k))
    | "G" -> let a = num r in let b = num r in
        trace_locates (if a > b then [b; a] else [a; b]); value (OpIntegrate (a, b))
    | "m" -> let a = num r in let b = num r in
        if not (b < a) then trace_locates [a; b; a; b]; value (OpLocalMin (a, b))
    | "M" -> let a = num r in let b = num r in
        if not (b < a) then trace_locates [a; b; a; b]; value (OpLocalMax (a, b))
    | "gm" -> value OpGlobalMin
    | "gM" -> value OpGlobalMax
    | "P" -> let f = num r in st := fst (stp !st (OpSetPrefactor f)); if not trace then put_f !st.prefactor
    | "U" -> let f = num r in st := fst (stp !st (OpMultiply f)); if not trace then put_f !st.prefactor
    | "C" | "A" -> stack := !st :: !stack; st := fst (stp !st OpCopy)
    | "R" -> (match !stack with s :: rest -> st := s; stack := rest | [] -> ())
    | o -> stop ("MODELERR unknown_op_" ^ o)
  done

let two_d r =
  let xs = Array.of_list (list r) in
  let ys = Array.of_list (list r) in
  let nx = Array.length xs and ny = Array.length ys in
  let f = Array.init nx (fun _ -> Array.init ny (fun _ -> num r)) in
  let fv zi_ zj = let i = iz zi_ and j = iz zj in if i >= 0 && i < nx && j >= 0 && j < ny then f.(i).(j) else Float.nan in
  let stp st o = step2 fops (zi nx) (mk_xv xs) (zi ny) (mk_xv ys) fv st o in
  let nops = integer r in
  let st = ref (init2 fops) in
  let stack = ref [] in
  let bad = function
    | O2Exit -> stop "EXIT" | O2OOB -> stop "OOB" | O2Fuel -> stop "FUEL" | _ -> stop "MODELERR unexpected_output" in
  for _ = 1 to nops do
    match word r with
    | "I" -> let x = num r in let y = num r in
        let (s, out) = stp !st (Op2Interpolate (x, y)) in
        let (_, outf) = stp { sx = init fops; sy = init fops; pf2 = !st.pf2 } (Op2Interpolate (x, y)) in
        (match out, outf with
         | O2Value (_, _, v), O2Value (_, _, vf) -> put_f v; put_f vf
         | O2Value (_, _, _), x -> bad x
         | x, _ -> bad x);
        st := s
    | "gm" | "gM" -> put_w "_"; put_w "_"
    | "P" -> let f = num r in st := fst (stp !st (Op2SetPrefactor f)); put_f !st.pf2
    | "U" -> let f = num r in st := fst (stp !st (Op2Multiply f)); put_f !st.pf2
    | "C" | "A" -> stack := !st :: !stack; st := fst (stp !st Op2Copy)
    | "R" -> (match !stack with s :: rest -> st := s; stack := rest | [] -> ())
    | o -> stop ("MODELERR unknown_op_" ^ o)
  done

let handler r =
  try
    match word r with
    | "h1" -> one_d r ~trace:false
    | "t1" -> one_d r ~trace:true      (* model-side trace: which search every internal Locate call runs *)
    | "h2" -> two_d r
    | o -> put_w ("MODELERR unknown_case_" ^ o)
  with Stop s -> Buffer.clear buf; first := true; put_w s

let () = run handler
