(* C09 model driver: `open C09_m`, conv.inc and Common are prepended by bin/build_driver.
   Case grammar: see checks/C09.py.  The evaluation parameters of the C09 model are instantiated with the
   spline of C01_Model.v / C08_Model.v (coq/C09_Evals.v), so every token is predicted: the indices returned by
   Locate and the values of all queries, each on the used object, on a fresh object with the same prefactor
   and (Interpolate / Derivative) on a fresh object with prefactor 1; the prefactor after every
   Set_Prefactor / Multiply; EXIT.  `_` (not compared) remains only for the 2-D Global_* calls.
   The object is built by the model's constructors (construct1 / construct1_rows / construct2 / construct2_rows of
   C09_Model.v) from the raw tables and the unit arguments given in the case (omitted ones = the default -1.0). *)
open Common
let zi = z_of_int
let iz = int_of_z
let mk_xv (a : float array) = fun z -> let i = iz z in if i >= 0 && i < Array.length a then a.(i) else Float.nan
exception Stop of string
let stop s = raise (Stop s)

(* <kind><argc> [dims]: kind = overload, argc = how many unit arguments the call site passes explicitly *)
let ctor_args r ndims =
  let w = word r in
  if String.length w <> 2 then stop ("MODELERR ctor_" ^ w);
  let argc = Char.code w.[1] - Char.code '0' in
  if argc < 0 || argc > ndims then stop ("MODELERR ctor_" ^ w);
  let dims = Array.init ndims (fun _ -> dflt_dim fops) in
  for k = 0 to argc - 1 do dims.(k) <- num r done;
  (w.[0], dims)
let unres = function Ok v -> v | Exit -> stop "EXIT" | OOB -> stop "OOB" | Fuel -> stop "FUEL"

let one_d r ~trace =
  let (ck, dims) = ctor_args r 2 in
  let xs0 = list r in
  let ys0 = list r in
  let o = unres (match ck with
    | 'v' -> construct1 fops xs0 ys0 dims.(0) dims.(1)
    | 'r' -> construct1_rows fops (List.map2 (fun x y -> [x; y]) xs0 ys0) dims.(0) dims.(1)
    | _ -> stop "MODELERR ctor_kind") in
  let xs = Array.of_list o.o_xs in
  let ys = o.o_fs in
  let n = zi (Array.length xs) in
  let xv = mk_xv xs in
  let stp =
    if trace then (fun st o -> step fops n xv (fun _ _ -> 0.0) (fun _ _ _ -> 0.0) (fun _ _ _ _ _ -> 0.0)
                      (fun _ _ _ _ _ _ _ _ -> 0.0) (fun _ _ -> 0.0) st o)   (* values are not printed in trace mode *)
    else (let obj = build fops (Array.to_list xs) ys in fun st o -> step_steffen fops obj n xv st o) in
  let kind st x = iz (locate_kind fops n xv st x) in
  let nops = integer r in
  let st = ref o.o_state in
  let stack = ref [] in
  let bad = function
    | OExit -> stop "EXIT" | OOOB -> stop "OOB" | OFuel -> stop "FUEL" | _ -> stop "MODELERR unexpected_output" in
  (* the Locate calls a query makes, in order (only used for the trace) *)
  let trace_locates xs_ =
    if trace then begin
      let s = ref !st in
      List.iter (fun x -> put_i (kind !s x);
                  let (s', o) = stp !s (OpLocate x) in (match o with OIndex _ -> s := s' | _ -> ())) xs_
    end in
  let value ?(bases = []) o = (* the op on the used object, on a fresh one with the same prefactor, and the ops [bases] on fresh objects with prefactor 1 *)
    let (s, out) = stp !st o in
    let (_, outf) = stp (fresh !st.prefactor) o in
    (match out, outf with
     | OValue (_, v), OValue (_, vf) -> if not trace then (put_f v; put_f vf)
     | OValue (_, _), x -> bad x
     | x, _ -> bad x);
    if not trace then
      List.iter (fun ob -> match snd (stp (fresh 1.0) ob) with OValue (_, vb) -> put_f vb | x -> bad x) bases;
    st := s in
  for _ = 1 to nops do
    match word r with
    | "L" -> let x = num r in
        trace_locates [x];
        let (s, out) = stp !st (OpLocate x) in
        let (_, outf) = stp (fresh !st.prefactor) (OpLocate x) in
        (match out, outf with
         | OIndex j, OIndex jf -> if not trace then (put_i (iz j); put_i (iz jf))
         | OIndex _, x -> bad x
         | x, _ -> bad x);
        st := s
    | "I" | "O" -> let x = num r in trace_locates [x]; value ~bases:[OpInterpolate x] (OpInterpolate x)   (* operator()(x) { return Interpolate(x); } *)
    | "D" -> let x = num r in let k = integer r in
        trace_locates (if k = 0 then [x; x] else [x]); value ~bases:[OpDerivative (x, zi k)] (OpDerivative (x, zi k))
    | "d" -> let x = num r in      (* Derivative(x): default argument deriv = 1 *)
        trace_locates [x]; value ~bases:[OpDerivative (x, zi 1)] (OpDerivative (x, zi 1))
    | "G" -> let a = num r in let b = num r in
        trace_locates (if a > b then [b; a] else [a; b]); value ~bases:[OpIntegrate (a, b)] (OpIntegrate (a, b))
    | "m" -> let a = num r in let b = num r in
        if not (b < a) then trace_locates [a; b; a; b]; value ~bases:[OpLocalMin (a, b); OpLocalMax (a, b)] (OpLocalMin (a, b))
    | "M" -> let a = num r in let b = num r in
        if not (b < a) then trace_locates [a; b; a; b]; value ~bases:[OpLocalMin (a, b); OpLocalMax (a, b)] (OpLocalMax (a, b))
    | "gm" -> value ~bases:[OpGlobalMin; OpGlobalMax] OpGlobalMin
    | "gM" -> value ~bases:[OpGlobalMin; OpGlobalMax] OpGlobalMax
    | "Q" -> if not trace then (put_f (fst o.o_dom); put_f (snd o.o_dom))     (* the public member domain *)
    | "P" -> let f = num r in st := fst (stp !st (OpSetPrefactor f)); if not trace then put_f !st.prefactor
    | "U" -> let f = num r in st := fst (stp !st (OpMultiply f)); if not trace then put_f !st.prefactor
    | "C" | "A" -> stack := !st :: !stack; st := fst (stp !st OpCopy)
    | "R" -> (match !stack with s :: rest -> st := s; stack := rest | [] -> ())
    | o -> stop ("MODELERR unknown_op_" ^ o)
  done

let two_d r =
  let (ck, dims) = ctor_args r 3 in
  let xs0 = list r in
  let ys0 = list r in
  let f0 = List.map (fun _ -> List.map (fun _ -> num r) ys0) xs0 in
  let o = unres (match ck with
    | 'g' -> construct2 fops xs0 ys0 f0 dims.(0) dims.(1) dims.(2)
    | 't' -> let rows = List.concat (List.map2 (fun x row -> List.map2 (fun y v -> [x; y; v]) ys0 row) xs0 f0) in
             construct2_rows fops rows dims.(0) dims.(1) dims.(2)
    | _ -> stop "MODELERR ctor_kind") in
  let xs = Array.of_list o.o2_xs in
  let ys = Array.of_list o.o2_ys in
  let nx = Array.length xs and ny = Array.length ys in
  let f = Array.of_list (List.map Array.of_list o.o2_f) in
  let fv zi_ zj = let i = iz zi_ and j = iz zj in if i >= 0 && i < nx && j >= 0 && j < ny then f.(i).(j) else Float.nan in
  let stp st o = step2 fops (zi nx) (mk_xv xs) (zi ny) (mk_xv ys) fv st o in
  let nops = integer r in
  let st = ref o.o2_state in
  let stack = ref [] in
  let bad = function
    | O2Exit -> stop "EXIT" | O2OOB -> stop "OOB" | O2Fuel -> stop "FUEL" | _ -> stop "MODELERR unexpected_output" in
  for _ = 1 to nops do
    match word r with
    | "I" | "O" -> let x = num r in let y = num r in
        let (s, out) = stp !st (Op2Interpolate (x, y)) in
        let (_, outf) = stp { sx = init fops; sy = init fops; pf2 = !st.pf2 } (Op2Interpolate (x, y)) in
        let (_, outb) = stp (init2 fops) (Op2Interpolate (x, y)) in
        (match out, outf, outb with
         | O2Value (_, _, v), O2Value (_, _, vf), O2Value (_, _, vb) -> put_f v; put_f vf; put_f vb
         | O2Value (_, _, _), O2Value (_, _, _), x -> bad x
         | O2Value (_, _, _), x, _ -> bad x
         | x, _, _ -> bad x);
        st := s
    | "gm" | "gM" -> put_w "_"; put_w "_"; put_w "_"; put_w "_"
    | "Q" -> let ((a, b), (c, d)) = o.o2_dom in put_f a; put_f b; put_f c; put_f d
    | "P" -> let f = num r in st := fst (stp !st (Op2SetPrefactor f)); put_f !st.pf2
    | "U" -> let f = num r in st := fst (stp !st (Op2Multiply f)); put_f !st.pf2
    | "C" | "A" -> stack := !st :: !stack; st := fst (stp !st Op2Copy)
    | "R" -> (match !stack with s :: rest -> st := s; stack := rest | [] -> ())
    | o -> stop ("MODELERR unknown_op_" ^ o)
  done

let handler r =
  try
    match word r with
    | "h1" -> one_d r ~trace:false
    | "t1" -> one_d r ~trace:true      (* model-side trace: which search every internal Locate call runs *)
    | "h2" -> two_d r
    | o -> put_w ("MODELERR unknown_case_" ^ o)
  with Stop s -> Buffer.clear buf; first := true; put_w s

let () = run handler
