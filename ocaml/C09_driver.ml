(* C09 model driver: `open C09_m`, conv.inc and Common are prepended by bin/build_driver.
   Case grammar: see checks/C09.py.  The evaluation parameters of the C09 model are instantiated with the
   value computations of coq/C09_Model2.v (step_full; the Steffen coefficient vectors come from C01_Model.build), so every token is predicted: the indices returned by
   Locate and the values of all queries, each on the used object, on a fresh object with the same prefactor
   and (Interpolate / Derivative) on a fresh object with prefactor 1; the prefactor after every
   Set_Prefactor / Multiply; EXIT; the 2-D Global_* values too (glob2 of C09_Model.v).
   The object is built by the model's constructors (construct1 / construct1_rows / construct2 / construct2_rows of
   C09_Model.v) from the raw tables and the unit arguments given in the case (omitted ones = the default -1.0). *)
open Common
let zi = z_of_int
let iz = int_of_z
let mk_xv (a : float array) = fun z -> let i = iz z in if i >= 0 && i < Array.length a then a.(i) else Float.nan
exception Stop of string
let stop s = raise (Stop s)

(* <kind><argc> [dims]: kind = overload, argc = how many unit arguments the call site passes explicitly *)
let ctor_args r ndims =
  let w = word r in
  if String.length w <> 2 then stop ("MODELERR ctor_" ^ w);
  let argc = Char.code w.[1] - Char.code '0' in
  if argc < 0 || argc > ndims then stop ("MODELERR ctor_" ^ w);
  let dims = Array.init ndims (fun _ -> dflt_dim fops) in
  for k = 0 to argc - 1 do dims.(k) <- num r done;
  (w.[0], dims)
let unres = function Ok v -> v | Exit -> stop "EXIT" | OOB -> stop "OOB" | Fuel -> stop "FUEL"

(* ---- one table: the object the model's constructor builds from the raw table and the unit arguments, and its step function *)
type tab1 = { t_n : z; t_xv : z -> float; t_obj : float object1; t_stp : float state -> float op -> float state * float out; t_kind : float state -> float -> int }

let read_tab1 r ~trace =
  let (ck, dims) = ctor_args r 2 in
  let xs0 = list r in
  let ys0 = list r in
  let o = unres (match ck with
    | 'v' -> construct1 fops xs0 ys0 dims.(0) dims.(1)
    | 'r' -> construct1_rows fops (List.map2 (fun x y -> [x; y]) xs0 ys0) dims.(0) dims.(1)
    | _ -> stop "MODELERR ctor_kind") in
  let xs = Array.of_list o.o_xs in
  let ys = o.o_fs in
  let n = zi (Array.length xs) in
  let xv = mk_xv xs in
  let stp =
    if trace then (fun st o -> step fops n xv (fun _ _ -> 0.0) (fun _ _ _ -> 0.0) (fun _ _ _ _ _ -> 0.0)
                      (fun _ _ _ _ _ _ _ _ -> 0.0) (fun _ _ -> 0.0) st o)   (* values are not printed in trace mode *)
    else (let obj = build fops (Array.to_list xs) ys in      (* C01_Model.build: only the Steffen coefficient vectors a, b, c, d are taken from it *)
          let arr l = mk_xv (Array.of_list l) in
          let fv = arr ys and av = arr obj.ia and bv = arr obj.ib and cv = arr obj.ic and dv = arr obj.id in
          (* the value computations are those of C09_Model2.v (step_full), line by line after Numerics.cpp *)
          fun st o -> step_full fops n xv fv av bv cv dv st o) in
  { t_n = n; t_xv = xv; t_obj = o; t_stp = stp; t_kind = (fun st x -> iz (locate_kind fops n xv st x)) }

let bad1 = function
  | OExit -> stop "EXIT" | OOOB -> stop "OOB" | OFuel -> stop "FUEL" | _ -> stop "MODELERR unexpected_output"

(* one member call `w` on the current object: [tab ()] its table, [getst ()] its members, [apply o] runs the operation on it
   (and stores the successor).  Returns false when `w` is not a member call. *)
let query1 r ~trace (tab : unit -> tab1) (getst : unit -> float state) (apply : float op -> float out) w =
  let stp st o = (tab ()).t_stp st o in
  (* the Locate calls a query makes, in order (only used for the trace) *)
  let trace_locates xs_ =
    if trace then begin
      let s = ref (getst ()) in
      List.iter (fun x -> put_i ((tab ()).t_kind !s x);
                  let (s', o) = stp !s (OpLocate x) in (match o with OIndex _ -> s := s' | _ -> ())) xs_
    end in
  let value ?(bases = []) o = (* the op on the used object, on a fresh one with the same prefactor, and the ops [bases] on fresh objects with prefactor 1 *)
    let pf = (getst ()).prefactor in
    let out = apply o in
    let (_, outf) = stp (fresh pf) o in
    (match out, outf with
     | OValue (_, v), OValue (_, vf) -> if not trace then (put_f v; put_f vf)
     | OValue (_, _), x -> bad1 x
     | x, _ -> bad1 x);
    if not trace then
      List.iter (fun ob -> match snd (stp (fresh 1.0) ob) with OValue (_, vb) -> put_f vb | x -> bad1 x) bases in
  match w with
  | "L" -> let x = num r in
      trace_locates [x];
      let pf = (getst ()).prefactor in
      let out = apply (OpLocate x) in
      let (_, outf) = stp (fresh pf) (OpLocate x) in
      (match out, outf with
       | OIndex j, OIndex jf -> if not trace then (put_i (iz j); put_i (iz jf))
       | OIndex _, x -> bad1 x
       | x, _ -> bad1 x); true
  | "I" | "O" -> let x = num r in trace_locates [x]; value ~bases:[OpInterpolate x] (OpInterpolate x); true   (* operator()(x) { return Interpolate(x); } *)
  | "D" -> let x = num r in let k = integer r in
      trace_locates (if k = 0 then [x; x] else [x]); value ~bases:[OpDerivative (x, zi k)] (OpDerivative (x, zi k)); true
  | "d" -> let x = num r in      (* Derivative(x): default argument deriv = 1 *)
      trace_locates [x]; value ~bases:[OpDerivative (x, zi 1)] (OpDerivative (x, zi 1)); true
  | "G" -> let a = num r in let b = num r in
      trace_locates (if a > b then [b; a] else [a; b]); value ~bases:[OpIntegrate (a, b)] (OpIntegrate (a, b)); true
  | "m" -> let a = num r in let b = num r in
      if not (b < a) then trace_locates [a; b; a; b]; value ~bases:[OpLocalMin (a, b); OpLocalMax (a, b)] (OpLocalMin (a, b)); true
  | "M" -> let a = num r in let b = num r in
      if not (b < a) then trace_locates [a; b; a; b]; value ~bases:[OpLocalMin (a, b); OpLocalMax (a, b)] (OpLocalMax (a, b)); true
  | "gm" -> value ~bases:[OpGlobalMin; OpGlobalMax] OpGlobalMin; true
  | "gM" -> value ~bases:[OpGlobalMin; OpGlobalMax] OpGlobalMax; true
  | "Q" -> let o = (tab ()).t_obj in if not trace then (put_f (fst o.o_dom); put_f (snd o.o_dom)); true     (* the public member domain *)
  | "P" -> let f = num r in ignore (apply (OpSetPrefactor f)); if not trace then put_f (getst ()).prefactor; true
  | "U" -> let f = num r in ignore (apply (OpMultiply f)); if not trace then put_f (getst ()).prefactor; true
  | "F" ->                         (* Save_Function(file, points): the member calls save_ops of C09_Model.v, in order, on the object itself *)
      let npts = integer r in
      let t = tab () in
      let xs_ = List.map (function OpInterpolate x -> x | _ -> stop "MODELERR save_ops") (save_ops fops t.t_n t.t_xv (zi npts)) in
      trace_locates xs_;
      if not trace then put_i (List.length xs_);
      List.iter (fun x ->
        let pf = (getst ()).prefactor in
        let out = apply (OpInterpolate x) in
        let (_, outf) = stp (fresh pf) (OpInterpolate x) in
        let (_, outb) = stp (fresh 1.0) (OpInterpolate x) in
        match out, outf, outb with
        | OValue (_, _), OValue (_, vf), OValue (_, vb) ->
            (* the two fields of the row (text, not modelled), the argument, a fresh object with the same prefactor, a new object *)
            if not trace then (put_w "_"; put_w "_"; put_f x; put_f vf; put_f vb)
        | OValue (_, _), OValue (_, _), e -> bad1 e
        | OValue (_, _), e, _ -> bad1 e
        | e, _, _ -> bad1 e) xs_; true
  | _ -> false

let one_d r ~trace =
  let t = read_tab1 r ~trace in
  let nops = integer r in
  let st = ref t.t_obj.o_state in
  let stack = ref [] in
  let apply o = let (s, out) = t.t_stp !st o in st := s; out in
  for _ = 1 to nops do
    let w = word r in
    if not (query1 r ~trace (fun () -> t) (fun () -> !st) apply w) then
      match w with
      | "C" | "A" -> stack := !st :: !stack; ignore (apply OpCopy)
      | "R" -> (match !stack with s :: rest -> st := s; stack := rest | [] -> ())
      | o -> stop ("MODELERR unknown_op_" ^ o)
  done

(* ---- sessions: several tables, objects in numbered slots (the model's [sstep]); slot 0 starts as an object of table 0 *)
let ni = nat_of_int
let session (type st) (type op) (type out) r (ntab : int) (tstep : int -> st -> op -> st * out) (tinit : int -> st) (onone : out)
    (query : (unit -> int) -> (unit -> st) -> (op -> out) -> string -> bool) =
  (* tinit t: the members after construction, read off the object the model's constructor returns for table t (the same for every t) *)
  let stepf = sstep (fun t s o -> tstep (int_of_nat t) s o) in
  let store = ref [] in
  let life o = store := fst (stepf (tinit 0) onone !store o) in
  let construct k t = if t < 0 || t >= ntab then stop "MODELERR table"; store := fst (sstep (fun t s o -> tstep (int_of_nat t) s o) (tinit t) onone !store (SConstruct (ni k, ni t))) in
  construct 0 0;
  let cur = ref 0 in
  let slot k = match get_slot (ni k) !store with Some ob -> ob | None -> stop "MODELERR empty_slot" in
  let nops = integer r in
  for _ = 1 to nops do
    let w = word r in
    let apply o = ignore (slot !cur); let (s, out) = stepf (tinit 0) onone !store (SQuery (ni !cur, o)) in store := s; out in
    if not (query (fun () -> int_of_nat (slot !cur).so_tab) (fun () -> (slot !cur).so_st) apply w) then
      match w with
      | "S" -> let k = integer r in ignore (slot k); cur := k
      | "N" | "V" | "W" -> let k = integer r in let t = integer r in construct k t   (* new object / assignment from a temporary / from a third object of table t *)
      | "K" | "E" -> let a = integer r in let b = integer r in ignore (slot a); life (SCopy (ni a, ni b))
      | "Z" -> let a = integer r in let b = integer r in ignore (slot a); ignore (slot b); life (SSwap (ni a, ni b))
      | "X" -> let k = integer r in life (SDestroy (ni k))
      | o -> stop ("MODELERR unknown_op_" ^ o)
  done

let session_1d r =
  let ntab = integer r in
  let tabs = Array.init ntab (fun _ -> read_tab1 r ~trace:false) in
  session r ntab (fun t s o -> tabs.(t).t_stp s o) (fun t -> tabs.(t).t_obj.o_state) ONone
    (fun tab getst apply w -> query1 r ~trace:false (fun () -> tabs.(tab ())) getst apply w)

(* ---- Interpolation_2D *)
type tab2 = { t2_nx : z; t2_xv : z -> float; t2_ny : z; t2_yv : z -> float; t2_obj : float object2; t2_stp : float state2 -> float op2 -> float state2 * float out2 }

let read_tab2 r =
  let (ck, dims) = ctor_args r 3 in
  let xs0 = list r in
  let ys0 = list r in
  let f0 = List.map (fun _ -> List.map (fun _ -> num r) ys0) xs0 in
  let o = unres (match ck with
    | 'g' -> construct2 fops xs0 ys0 f0 dims.(0) dims.(1) dims.(2)
    | 't' -> let rows = List.concat (List.map2 (fun x row -> List.map2 (fun y v -> [x; y; v]) ys0 row) xs0 f0) in
             construct2_rows fops rows dims.(0) dims.(1) dims.(2)
    | _ -> stop "MODELERR ctor_kind") in
  let xs = Array.of_list o.o2_xs in
  let ys = Array.of_list o.o2_ys in
  let nx = Array.length xs and ny = Array.length ys in
  let f = Array.of_list (List.map Array.of_list o.o2_f) in
  let fv zi_ zj = let i = iz zi_ and j = iz zj in if i >= 0 && i < nx && j >= 0 && j < ny then f.(i).(j) else Float.nan in
  { t2_nx = zi nx; t2_xv = mk_xv xs; t2_ny = zi ny; t2_yv = mk_xv ys; t2_obj = o; t2_stp = (fun st o -> step2 fops (zi nx) (mk_xv xs) (zi ny) (mk_xv ys) fv st o) }

let bad2 = function
  | O2Exit -> stop "EXIT" | O2OOB -> stop "OOB" | O2Fuel -> stop "FUEL" | _ -> stop "MODELERR unexpected_output"

let query2 r (tab : unit -> tab2) (getst : unit -> float state2) (apply : float op2 -> float out2) w =
  let stp st o = (tab ()).t2_stp st o in
  match w with
  | "I" | "O" -> let x = num r in let y = num r in
      let pf = (getst ()).pf2 in
      let out = apply (Op2Interpolate (x, y)) in
      let (_, outf) = stp { sx = init fops; sy = init fops; pf2 = pf } (Op2Interpolate (x, y)) in
      let (_, outb) = stp (init2 fops) (Op2Interpolate (x, y)) in
      (match out, outf, outb with
       | O2Value (_, _, v), O2Value (_, _, vf), O2Value (_, _, vb) -> put_f v; put_f vf; put_f vb
       | O2Value (_, _, _), O2Value (_, _, _), x -> bad2 x
       | O2Value (_, _, _), x, _ -> bad2 x
       | x, _, _ -> bad2 x); true
  | "gm" | "gM" ->                                   (* Interpolation_2D::Global_Minimum / Global_Maximum: used, fresh with the same prefactor, both extrema of a new object *)
      let o = if w = "gm" then Op2GlobalMin else Op2GlobalMax in
      let pf = (getst ()).pf2 in
      let out = apply o in
      let glob st o = match snd (stp st o) with O2Glob v -> v | x -> bad2 x in
      (match out with O2Glob v -> put_f v | x -> bad2 x);
      put_f (glob { sx = init fops; sy = init fops; pf2 = pf } o);
      put_f (glob (init2 fops) Op2GlobalMin); put_f (glob (init2 fops) Op2GlobalMax); true
  | "Q" -> let ((a, b), (c, d)) = (tab ()).t2_obj.o2_dom in put_f a; put_f b; put_f c; put_f d; true
  | "P" -> let f = num r in ignore (apply (Op2SetPrefactor f)); put_f (getst ()).pf2; true
  | "U" -> let f = num r in ignore (apply (Op2Multiply f)); put_f (getst ()).pf2; true
  | "F" | "f" ->                   (* Save_Function(file, x_points, y_points) / (file, x_points) with the default y_points = 0: save_ops2 *)
      let nx = integer r in
      let ny = if w = "F" then integer r else 0 in
      let t = tab () in
      let ops = save_ops2 fops t.t2_nx t.t2_xv t.t2_ny t.t2_yv (zi nx) (zi ny) in
      put_i (List.length ops);
      List.iter (function
        | Op2Interpolate (x, y) ->
            let pf = (getst ()).pf2 in
            let out = apply (Op2Interpolate (x, y)) in
            let (_, outf) = stp { sx = init fops; sy = init fops; pf2 = pf } (Op2Interpolate (x, y)) in
            let (_, outb) = stp (init2 fops) (Op2Interpolate (x, y)) in
            (match out, outf, outb with
             | O2Value (_, _, _), O2Value (_, _, vf), O2Value (_, _, vb) -> put_w "_"; put_w "_"; put_w "_"; put_f x; put_f y; put_f vf; put_f vb
             | O2Value (_, _, _), O2Value (_, _, _), e -> bad2 e
             | O2Value (_, _, _), e, _ -> bad2 e
             | e, _, _ -> bad2 e)
        | _ -> stop "MODELERR save_ops2") ops; true
  | _ -> false

let two_d r =
  let t = read_tab2 r in
  let nops = integer r in
  let st = ref t.t2_obj.o2_state in
  let stack = ref [] in
  let apply o = let (s, out) = t.t2_stp !st o in st := s; out in
  for _ = 1 to nops do
    let w = word r in
    if not (query2 r (fun () -> t) (fun () -> !st) apply w) then
      match w with
      | "C" | "A" -> stack := !st :: !stack; ignore (apply Op2Copy)
      | "R" -> (match !stack with s :: rest -> st := s; stack := rest | [] -> ())
      | o -> stop ("MODELERR unknown_op_" ^ o)
  done

let session_2d r =
  let ntab = integer r in
  let tabs = Array.init ntab (fun _ -> read_tab2 r) in
  session r ntab (fun t s o -> tabs.(t).t2_stp s o) (fun t -> tabs.(t).t2_obj.o2_state) O2None
    (fun tab getst apply w -> query2 r (fun () -> tabs.(tab ())) getst apply w)

let handler r =
  try
    match word r with
    | "h1" -> one_d r ~trace:false
    | "t1" -> one_d r ~trace:true      (* model-side trace: which search every internal Locate call runs *)
    | "h2" -> two_d r
    | "s1" -> session_1d r             (* several objects / tables in one process *)
    | "s2" -> session_2d r
    | o -> put_w ("MODELERR unknown_case_" ^ o)
  with Stop s -> Buffer.clear buf; first := true; put_w s

let () = run handler
