(* Shared part of every OCaml model driver: token reader, output, function expressions, main loop.
   The float operations handed to the extracted (NumOps-polymorphic) model are OCaml's IEEE doubles and
   glibc's libm, i.e. the same arithmetic the C++ library runs on. *)

exception Short_line

type reader = { toks : string array; mutable pos : int }

let reader_of_line (l : string) : reader =
  let ws = String.split_on_char ' ' l |> List.concat_map (String.split_on_char '\t')
           |> List.filter (fun s -> s <> "") in
  { toks = Array.of_list ws; pos = 0 }

let more r = r.pos < Array.length r.toks
let word r = if r.pos >= Array.length r.toks then raise Short_line
  else (let w = r.toks.(r.pos) in r.pos <- r.pos + 1; w)
let integer r = int_of_string (word r)
let num r = match word r with
  | "nan" -> Float.nan | "inf" -> Float.infinity | "-inf" -> Float.neg_infinity
  | w -> float_of_string w
let list r = let n = integer r in List.init n (fun _ -> num r)
let ilist r = let n = integer r in List.init n (fun _ -> integer r)
let table r = let n = integer r in List.init n (fun _ -> list r)

(* ---------- output ---------- *)
let buf = Buffer.create 256
let first = ref true
let sep () = if not !first then Buffer.add_char buf ' '; first := false
let put_f (x : float) = sep ();
  if Float.is_nan x then Buffer.add_string buf "nan"
  else if x = Float.infinity then Buffer.add_string buf "inf"
  else if x = Float.neg_infinity then Buffer.add_string buf "-inf"
  else Buffer.add_string buf (Printf.sprintf "%h" x)
let put_i (x : int) = sep (); Buffer.add_string buf (string_of_int x)
let put_w (s : string) = sep (); Buffer.add_string buf s
let put_fl (l : float list) = put_i (List.length l); List.iter put_f l
let put_il (l : int list) = put_i (List.length l); List.iter put_i l
let put_b (b : bool) = put_i (if b then 1 else 0)

(* ---------- function expressions ---------- *)
type fexpr =
  | X | Y | Z | V of int | C of float
  | Add of fexpr * fexpr | Sub of fexpr * fexpr | Mul of fexpr * fexpr | Div of fexpr * fexpr
  | Pow of fexpr * float | Un of string * fexpr
  | Pwl of float array * float array * fexpr

let rec parse_fexpr r : fexpr =
  match word r with
  | "x" -> X | "y" -> Y | "z" -> Z
  | "v" -> V (integer r)
  | "c" -> C (num r)
  | "+" -> let a = parse_fexpr r in let b = parse_fexpr r in Add (a, b)
  | "-" -> let a = parse_fexpr r in let b = parse_fexpr r in Sub (a, b)
  | "*" -> let a = parse_fexpr r in let b = parse_fexpr r in Mul (a, b)
  | "/" -> let a = parse_fexpr r in let b = parse_fexpr r in Div (a, b)
  | "pow" -> let a = parse_fexpr r in let c = num r in Pow (a, c)
  | "pwl" -> let n = integer r in
      let xs = Array.make n 0.0 and ys = Array.make n 0.0 in
      for k = 0 to n - 1 do xs.(k) <- num r; ys.(k) <- num r done;
      let a = parse_fexpr r in Pwl (xs, ys, a)
  | ("neg" | "exp" | "log" | "sin" | "cos" | "atan" | "erf" | "cosh" | "abs" | "sqrt" | "step" | "tanh") as o ->
      Un (o, parse_fexpr r)
  | o -> failwith ("unknown fexpr op " ^ o)

let rec eval_fexpr (e : fexpr) (v : float array) : float =
  match e with
  | X -> v.(0) | Y -> v.(1) | Z -> v.(2) | V k -> v.(k) | C c -> c
  | Add (a, b) -> let x = eval_fexpr a v in let y = eval_fexpr b v in x +. y
  | Sub (a, b) -> let x = eval_fexpr a v in let y = eval_fexpr b v in x -. y
  | Mul (a, b) -> let x = eval_fexpr a v in let y = eval_fexpr b v in x *. y
  | Div (a, b) -> let x = eval_fexpr a v in let y = eval_fexpr b v in x /. y
  | Pow (a, c) -> Float.pow (eval_fexpr a v) c
  | Un (o, a) ->
      let x = eval_fexpr a v in
      (match o with
       | "neg" -> -. x | "exp" -> exp x | "log" -> log x | "sin" -> sin x | "cos" -> cos x
       | "atan" -> atan x | "erf" -> Float.erf x | "cosh" -> cosh x | "tanh" -> tanh x
       | "abs" -> Float.abs x | "sqrt" -> sqrt x
       | "step" -> if x >= 0.0 then 1.0 else 0.0
       | _ -> Float.nan)
  | Pwl (xs, ys, a) ->
      let x = eval_fexpr a v in
      let n = Array.length xs in
      let k = ref 0 in
      while !k + 2 < n && x >= xs.(!k + 1) do incr k done;
      let k = !k in
      ys.(k) +. (x -. xs.(k)) *. ((ys.(k + 1) -. ys.(k)) /. (xs.(k + 1) -. xs.(k)))

let fun1 (e : fexpr) : float -> float = fun x -> eval_fexpr e [| x; 0.0; 0.0 |]

(* ---------- main loop ---------- *)
let run (handler : reader -> unit) : unit =
  let inp = open_in Sys.argv.(1) and out = open_out Sys.argv.(2) in
  (try
     while true do
       let l = input_line inp in
       Buffer.clear buf; first := true;
       let r = reader_of_line l in
       (try if more r then handler r
        with
        | Stack_overflow -> Buffer.clear buf; first := true; put_w "MODELERR stack_overflow"
        | Short_line -> Buffer.clear buf; first := true; put_w "MODELERR short_line"
        | Failure m -> Buffer.clear buf; first := true; put_w ("MODELERR " ^ String.map (fun c -> if c = ' ' then '_' else c) m)
        | Not_found -> Buffer.clear buf; first := true; put_w "MODELERR not_found"
        | Invalid_argument m -> Buffer.clear buf; first := true; put_w ("MODELERR invalid_" ^ String.map (fun c -> if c = ' ' then '_' else c) m));
       output_string out (Buffer.contents buf); output_char out '\n'
     done
   with End_of_file -> ());
  close_in inp; close_out out
