(* C06 model driver: `open C06_m`, conv.inc and Common are prepended by bin/setup *)
open Common
let put_res (r : float res) = match r with
  | Ok v -> put_f v | Exit -> put_w "EXIT" | OOB -> put_w "OOB" | Fuel -> put_w "FUEL"
(* a history prints every outcome; an exiting call ends the C++ process, so the whole line is EXIT *)
let put_history (os : float res list) =
  if List.exists (fun o -> match o with Ok _ -> false | _ -> true) os
  then put_res (List.find (fun o -> match o with Ok _ -> false | _ -> true) os)
  else (put_i (List.length os); List.iter put_res os)

(* one call of the family inside a "seq" case *)
let read_call r : float call =
  match word r with
  | "gammaln" -> CGammaLn (num r)
  | "gamma" -> CGamma (num r)
  | "gammaq" -> let x = num r in let a = num r in CGammaQ (x, a)
  | "gammap" -> let x = num r in let a = num r in CGammaP (x, a)
  | "upper" -> let x = num r in let a = num r in CUpper (x, a)
  | "lower" -> let x = num r in let a = num r in CLower (x, a)
  | "invp" -> let p = num r in let a = num r in CInvP (p, a)
  | "invq" -> let q = num r in let a = num r in CInvQ (q, a)
  | "fact" -> CFact (z_of_int (integer r))
  | "binom" -> let n = integer r in let k = integer r in CBinom (z_of_int n, z_of_int k)
  | o -> failwith ("unknown call " ^ o)

let handler r =
  match word r with
  | "seq" ->   (* seq m call_1 .. call_m : a history in one process from the initial state; prints h_i f_i (history answer, fresh answer) *)
      let m = integer r in
      let rec rd k = if k = 0 then [] else let c = read_call r in c :: rd (k - 1) in
      let cs = rd m in
      let (_, os) = call_run fops (fact_init fops) cs in
      let bad o = (match o with Ok _ -> false | _ -> true) in
      if List.exists (fun (h, _) -> bad h) os then put_res (fst (List.find (fun (h, _) -> bad h) os))
      else (put_i m; List.iter (fun (h, f) -> put_res h; put_res f) os)
  | "fact" ->   (* fact m n1 .. nm : a history of Factorial calls, table threaded through, from {1.0} *)
      let ns = List.map z_of_int (ilist r) in
      let (_, os) = factorial_run fops (fact_init fops) ns in put_history os
  | "binom" -> let n = integer r in let k = integer r in put_res (binomial fops (z_of_int n) (z_of_int k))
  | "binomhist" ->  (* binomhist m n1 k1 .. nm km : Binomial_Coefficient calls sharing the factorial table *)
      let m = integer r in
      let tbl = ref (fact_init fops) in
      let os = List.init m (fun _ -> let n = integer r in let k = integer r in (n, k)) in
      let os = List.map (fun (n, k) -> let (t, o) = binomial_step fops !tbl (z_of_int n) (z_of_int k) in tbl := t; o) os in
      put_history os
  | "gammaln" -> let x = num r in put_res (gammaln fops x)
  | "gamma" -> let x = num r in put_res (gamma fops x)
  | "gamrec" -> let x = num r in
      let l = [gammaln fops x; gammaln fops (x +. 1.0); gamma fops x; gamma fops (x +. 1.0)] in
      if List.exists (fun o -> match o with Ok _ -> false | _ -> true) l then put_history l else List.iter put_res l
  | "gammaq" -> let x = num r in let a = num r in put_res (gammaq fops x a)
  | "gammap" -> let x = num r in let a = num r in put_res (gammap fops x a)
  | "qint" -> let x = num r in let a = num r in put_res (gammaq_int fops x a)
  | "qintw" ->  (* GammaQint with the number of panels whose Integrate call printed "did not converge" / "Result is nan" *)
      let x = num r in let a = num r in
      (match gammaq_int_w fops x a with
       | Ok (q, (nw, nn)) -> put_f q; put_i (int_of_z nw); put_i (int_of_z nn)
       | Exit -> put_w "EXIT" | OOB -> put_w "OOB" | Fuel -> put_w "FUEL")
  | "integw" ->  (* integw <fexpr> a b eps depth : Integrate's value and its two diagnostics *)
      let f = fun1 (parse_fexpr r) in let a = num r in let b = num r in let e = num r in let d = integer r in
      let (v, (w, n)) = integrate_w fops f a b e (nat_of_int d) in
      put_f v; put_i (if w then 1 else 0); put_i (if n then 1 else 0)
  | "pser" -> let x = num r in let a = num r in put_res (gammap_ser fops x a)
  | "qcf" -> let x = num r in let a = num r in put_res (gammaq_cf fops x a)
  | "upper" -> let x = num r in let a = num r in put_res (upper_incomplete_gamma fops x a)
  | "lower" -> let x = num r in let a = num r in put_res (lower_incomplete_gamma fops x a)
  | "pq" ->  (* one line with Q, P, upper, lower, Gamma at the same (x,a): the self-consistency clauses *)
      let x = num r in let a = num r in
      let l = [gammaq fops x a; gammap fops x a; upper_incomplete_gamma fops x a; lower_incomplete_gamma fops x a; gamma fops a] in
      if List.exists (fun o -> match o with Ok _ -> false | _ -> true) l then put_history l else List.iter put_res l
  | "qmono" ->  (* qmono a m x1 .. xm : Q(x_i, a) for an increasing list of x *)
      let a = num r in let xs = list r in
      put_history (List.map (fun x -> gammaq fops x a) xs)
  | "invp" -> let p = num r in let a = num r in
      (match inv_gammap fops p a with
       | Ok x -> put_f x; put_res (gammap fops x a)
       | o -> put_res o)
  | "invq" -> let q = num r in let a = num r in
      (match inv_gammaq fops q a with
       | Ok x -> put_f x; put_res (gammaq fops x a)
       | o -> put_res o)
  | o -> put_w ("MODELERR unknown_op_" ^ o)

let () = run handler
