(* C13 model driver: `open C13_m`, conv.inc and Common are prepended by bin/build_driver.
   The four boost quadratures are external code (the Section variable I of the model); the driver instantiates
   them with a stand-in of its own: a composite 30-point Gauss-Legendre rule on 2 panels built from the model's
   gl_integrate.  Cases with a boost method are therefore compared at the accuracy of the method (checks/C13.py),
   cases with libphysica's own back ends ("Gauss-Legendre_2", "Adaptive-Simpson") to rounding.
   The user's function of a case is an expression, optionally defined through an integral ('@' part of the case line,
   see harness/C13.cpp): then it calls the model's integrate_named itself; for the 1-D entry point this is the model's
   integrate_reentrant, for the front ends (whose integrands are total functions in the model) the driver unwraps the result. *)
open Common

let ascii_of_char c =
  let n = Char.code c in
  Ascii (n land 1 <> 0, n land 2 <> 0, n land 4 <> 0, n land 8 <> 0,
         n land 16 <> 0, n land 32 <> 0, n land 64 <> 0, n land 128 <> 0)
let coq_string s =
  let r = ref EmptyString in
  for i = Stdlib.String.length s - 1 downto 0 do r := String (ascii_of_char s.[i], !r) done;
  !r

let unit_rule = lazy (match gl_rule fops (z_of_int 30) (-1.0) 1.0 with Ok rw -> Array.of_list rw | _ -> failwith "stand-in rule")
let stand_in (_ : backend) (g : float -> float res) (a : float) (b : float) : float res =
  let rule = Lazy.force unit_rule in
  let panels = 2 in
  let h = (b -. a) /. float_of_int panels in
  let exception Stop of float res in
  try
    let acc = ref 0.0 in
    for k = 0 to panels - 1 do
      let mid = a +. (float_of_int k +. 0.5) *. h in
      Array.iter (fun (z, w) ->
        match g (mid +. 0.5 *. h *. z) with
        | Ok v -> acc := !acc +. 0.5 *. h *. w *. v
        | Exit -> raise (Stop Exit) | OOB -> raise (Stop OOB) | Fuel -> raise (Stop Fuel)) rule
    done;
    Ok !acc
  with Stop r -> r

let no_mc _ _ _ _ = failwith "Monte-Carlo methods are modelled in C14"

(* recorder of the arguments with which the user's function is called *)
let n = ref 0 and digest = ref 0.0
let mn = [| infinity; infinity; infinity |] and mx = [| neg_infinity; neg_infinity; neg_infinity |]
let reset () = n := 0; digest := 0.0; Array.fill mn 0 3 infinity; Array.fill mx 0 3 neg_infinity
let see k v = (if v < mn.(k) then mn.(k) <- v); (if v > mx.(k) then mx.(k) <- v)
let put_rec dims = put_i !n; put_f !digest; for k = 0 to dims - 1 do put_f mn.(k); put_f mx.(k) done

(* the user's function of a case *)
exception Inner_stop of float res
type user = { e : fexpr; inner : (method0 * z * fexpr * fexpr * fexpr) option }
let parse_user r =
  let e = parse_fexpr r in
  if more r && r.toks.(r.pos) = "@" then begin
    ignore (word r);
    let im = parse_method (coq_string (word r)) in
    let ip = z_of_int (integer r) in
    let lo = parse_fexpr r in let hi = parse_fexpr r in let inn = parse_fexpr r in
    { e; inner = Some (im, ip, lo, hi, inn) }
  end else { e; inner = None }
let eval_user u x y z : float =
  match u.inner with
  | None -> eval_fexpr u.e [| x; y; z; 0.0 |]
  | Some (im, ip, lo, hi, inn) ->
      let v = [| x; y; z; 0.0 |] in
      (match integrate_named fops stand_in im (fun t -> Ok (eval_fexpr inn [| x; y; z; t |])) (eval_fexpr lo v) (eval_fexpr hi v) ip with
       | Ok i -> eval_fexpr u.e [| x; y; z; i |]
       | other -> raise (Inner_stop other))

let put_res = function
  | Ok v -> put_f v; put_f v; true
  | Exit -> put_w "EXIT"; false
  | OOB -> put_w "OOB"; false
  | Fuel -> put_w "FUEL"; false

let handler r =
  let op = word r in
  let m = parse_method (coq_string (word r)) in
  let p = z_of_int (integer r) in
  reset ();
  try
  match op with
  | "named1d" ->
      let a = num r in let b = num r in
      let u = parse_user r in
      let res = match u.inner with
        | None ->
            let f x = incr n; digest := !digest +. x; see 0 x; Ok (eval_fexpr u.e [| x; 0.0; 0.0; 0.0 |]) in
            integrate_named fops stand_in m f a b p
        | Some (im, ip, lo, hi, inn) ->
            let outer x i = incr n; digest := !digest +. x; see 0 x; eval_fexpr u.e [| x; 0.0; 0.0; i |] in
            let inner x t = eval_fexpr inn [| x; 0.0; 0.0; t |] in
            let flo x = eval_fexpr lo [| x; 0.0; 0.0; 0.0 |] and fhi x = eval_fexpr hi [| x; 0.0; 0.0; 0.0 |] in
            integrate_reentrant fops stand_in m p im ip outer inner flo fhi a b in
      if put_res res then put_rec 1
  | "nested2d" ->
      let x1 = num r in let x2 = num r in let y1 = num r in let y2 = num r in
      let u = parse_user r in
      let f x y = incr n; digest := !digest +. (x +. 2.0 *. y); see 0 x; see 1 y; eval_user u x y 0.0 in
      if put_res (integrate_2d fops stand_in no_mc m f x1 x2 y1 y2 p) then put_rec 2
  | "nested3d" ->
      let x1 = num r in let x2 = num r in let y1 = num r in let y2 = num r in let z1 = num r in let z2 = num r in
      let u = parse_user r in
      let f x y z = incr n; digest := !digest +. (x +. 2.0 *. y +. 3.0 *. z); see 0 x; see 1 y; see 2 z;
        eval_user u x y z in
      if put_res (integrate_3d fops stand_in no_mc m f x1 x2 y1 y2 z1 z2 p) then put_rec 3
  | "spherical" ->
      let r1 = num r in let r2 = num r in let c1 = num r in let c2 = num r in let f1 = num r in let f2 = num r in
      let u = parse_user r in
      let f x y z =
        incr n; digest := !digest +. (x +. 2.0 *. y +. 3.0 *. z);
        let nrm = sqrt (x *. x +. y *. y +. z *. z) in
        let az = Float.atan2 y x in
        let az = if az < 0.0 then az +. 2.0 *. Float.pi else az in
        see 0 nrm; see 1 (z /. nrm); (if x <> 0.0 || y <> 0.0 then see 2 az);
        eval_user u x y z in
      if put_res (integrate_3d_spherical fops stand_in no_mc m f r1 r2 c1 c2 f1 f2 p) then put_rec 3
  | o -> put_w ("MODELERR unknown_op_" ^ o)
  with Inner_stop res -> Buffer.clear buf; first := true; ignore (put_res res)

let () = run handler
