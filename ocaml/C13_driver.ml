(* C13 model driver: `open C13_m`, conv.inc and Common are prepended by bin/build_driver.
   Two of the four boost quadratures (gauss<double,30>, trapezoidal) are model terms (C13_Model2.v) and compared bit for bit; the other two
   (gauss_kronrod<double,31>, tanh_sinh<double>) are external code (the Section variable I of the model); the driver instantiates
   them with a stand-in of its own: a composite 30-point Gauss-Legendre rule on 2 panels built from the model's
   gl_integrate.  Cases with a boost method are therefore compared at the accuracy of the method (checks/C13.py),
   cases with libphysica's own back ends ("Gauss-Legendre_2", "Adaptive-Simpson") to rounding.
   The user's function of a case is an expression, optionally defined through an integral ('@' part of the case line,
   see harness/C13.cpp): then it calls the model's integrate_named itself; for the 1-D entry point this is the model's
   reentrant_integrand, for the front ends (whose integrands are total functions in the model) the driver unwraps the result.
   Every case line is turned into a value of the model's type [call] and answered by the model's run_call; a session line
   (several calls made one after the other by one process) by the model's run_session, a `preinit` line (a call made before main, then
   the same call made from main) by the model's run_process.  The model has no state: the value a
   call has "in a fresh process" is its value. *)
open Common

let ascii_of_char c =
  let n = Char.code c in
  Ascii (n land 1 <> 0, n land 2 <> 0, n land 4 <> 0, n land 8 <> 0,
         n land 16 <> 0, n land 32 <> 0, n land 64 <> 0, n land 128 <> 0)
let coq_string s =
  let r = ref EmptyString in
  for i = Stdlib.String.length s - 1 downto 0 do r := String (ascii_of_char s.[i], !r) done;
  !r

let unit_rule = lazy (match gl_rule fops (z_of_int 30) (-1.0) 1.0 with Ok rw -> Array.of_list rw | _ -> failwith "stand-in rule")
let stand_in (_ : backend) (g : float -> float res) (a : float) (b : float) : float res =
  let rule = Lazy.force unit_rule in
  let panels = 2 in
  let h = (b -. a) /. float_of_int panels in
  let exception Stop of float res in
  try
    let acc = ref 0.0 in
    for k = 0 to panels - 1 do
      let mid = a +. (float_of_int k +. 0.5) *. h in
      Array.iter (fun (z, w) ->
        match g (mid +. 0.5 *. h *. z) with
        | Ok v -> acc := !acc +. 0.5 *. h *. w *. v
        | Exit -> raise (Stop Exit) | OOB -> raise (Stop OOB) | Fuel -> raise (Stop Fuel)) rule
    done;
    Ok !acc
  with Stop r -> r

(* "Gauss-Legendre" (boost gauss<double,30>) and "Trapezoidal" (boost trapezoidal, default tolerance and refinements) are the model's own
   terms boost_gauss30 / boost_trapezoidal (C13_Model2.v); gauss_kronrod<31> and tanh_sinh stay with the stand-in rule *)
let backends : backend -> (float -> float res) -> float -> float -> float res = with_modelled_backends fops stand_in

let no_mc _ _ _ _ = failwith "Monte-Carlo methods are modelled in C14"

(* recorder of the arguments with which the user's function of one call is called *)
type recd = { mutable n : int; mutable digest : float; mn : float array; mx : float array }
let new_rec () = { n = 0; digest = 0.0; mn = [| infinity; infinity; infinity |]; mx = [| neg_infinity; neg_infinity; neg_infinity |] }
let see rc k v = (if v < rc.mn.(k) then rc.mn.(k) <- v); (if v > rc.mx.(k) then rc.mx.(k) <- v)
let put_rec rc dims = put_i rc.n; put_f rc.digest; for k = 0 to dims - 1 do put_f rc.mn.(k); put_f rc.mx.(k) done

(* the user's function of a case *)
exception Inner_stop of float res
type user = { e : fexpr; inner : (method0 * z * fexpr * fexpr * fexpr) option; deep : (int * method0 * z * fexpr list * user) option }
let rec parse_user r =
  let e = parse_fexpr r in
  if more r && r.toks.(r.pos) = "@" then begin
    ignore (word r);
    let im = parse_method (coq_string (word r)) in
    let ip = z_of_int (integer r) in
    let lo = parse_fexpr r in let hi = parse_fexpr r in let inn = parse_fexpr r in
    { e; inner = Some (im, ip, lo, hi, inn); deep = None }
  end else if more r && r.toks.(r.pos) = "@@" then begin
    (* 'v 3' is a call of one of the four entry points on a user function of its own *)
    ignore (word r);
    let dop = (match word r with "named1d" -> 1 | "nested2d" -> 2 | "nested3d" -> 3 | "spherical" -> 4 | o -> failwith ("unknown_inner_op_" ^ o)) in
    let dm = parse_method (coq_string (word r)) in
    let dp = z_of_int (integer r) in
    let nl = (match dop with 1 -> 2 | 2 -> 4 | _ -> 6) in
    let lims = List.init nl (fun _ -> ()) |> List.map (fun () -> parse_fexpr r) in
    let u' = parse_user r in
    { e; inner = None; deep = Some (dop, dm, dp, lims, u') }
  end else { e; inner = None; deep = None }
let rec eval_user u x y z : float =
  match u.deep with
  | Some (dop, dm, dp, lims, u') ->
      let v = [| x; y; z; 0.0 |] in
      let l = Array.of_list (List.map (fun f -> eval_fexpr f v) lims) in
      let c = (match dop with
        | 1 -> Call_1d (dm, dp, (fun t -> Ok (eval_user u' t 0.0 0.0)), l.(0), l.(1))
        | 2 -> Call_2d (dm, dp, (fun a b -> eval_user u' a b 0.0), l.(0), l.(1), l.(2), l.(3))
        | 3 -> Call_3d (dm, dp, (fun a b c -> eval_user u' a b c), l.(0), l.(1), l.(2), l.(3), l.(4), l.(5))
        | _ -> Call_spherical (dm, dp, (fun a b c -> eval_user u' a b c), l.(0), l.(1), l.(2), l.(3), l.(4), l.(5))) in
      (match run_call fops backends no_mc c with
       | Ok i -> eval_fexpr u.e [| x; y; z; i |]
       | other -> raise (Inner_stop other))
  | None ->
  match u.inner with
  | None -> eval_fexpr u.e [| x; y; z; 0.0 |]
  | Some (im, ip, lo, hi, inn) ->
      let v = [| x; y; z; 0.0 |] in
      (match integrate_named fops backends im (fun t -> Ok (eval_fexpr inn [| x; y; z; t |])) (eval_fexpr lo v) (eval_fexpr hi v) ip with
       | Ok i -> eval_fexpr u.e [| x; y; z; i |]
       | other -> raise (Inner_stop other))

(* one call of a case line (the operation name has been read): the model's call, its recorder, its number of axes *)
let build_call op r : float call * recd * int * bool =
  let m = parse_method (coq_string (word r)) in
  let p = z_of_int (integer r) in
  let rc = new_rec () in
  match op with
  | "named1d" ->
      let a = num r in let b = num r in
      let u = parse_user r in
      let f = match u.inner with
        | None when u.deep <> None -> (fun x -> rc.n <- rc.n + 1; rc.digest <- rc.digest +. x; see rc 0 x; Ok (eval_user u x 0.0 0.0))
        | None -> (fun x -> rc.n <- rc.n + 1; rc.digest <- rc.digest +. x; see rc 0 x; Ok (eval_fexpr u.e [| x; 0.0; 0.0; 0.0 |]))
        | Some (im, ip, lo, hi, inn) ->
            let outer x i = rc.n <- rc.n + 1; rc.digest <- rc.digest +. x; see rc 0 x; eval_fexpr u.e [| x; 0.0; 0.0; i |] in
            let inner x t = eval_fexpr inn [| x; 0.0; 0.0; t |] in
            let flo x = eval_fexpr lo [| x; 0.0; 0.0; 0.0 |] and fhi x = eval_fexpr hi [| x; 0.0; 0.0; 0.0 |] in
            reentrant_integrand fops backends im ip outer inner flo fhi in
      (Call_1d (m, p, f, a, b), rc, 1, u.deep <> None)
  | "nested2d" ->
      let x1 = num r in let x2 = num r in let y1 = num r in let y2 = num r in
      let u = parse_user r in
      let f x y = rc.n <- rc.n + 1; rc.digest <- rc.digest +. (x +. 2.0 *. y); see rc 0 x; see rc 1 y; eval_user u x y 0.0 in
      (Call_2d (m, p, f, x1, x2, y1, y2), rc, 2, u.deep <> None)
  | "nested3d" ->
      let x1 = num r in let x2 = num r in let y1 = num r in let y2 = num r in let z1 = num r in let z2 = num r in
      let u = parse_user r in
      let f x y z = rc.n <- rc.n + 1; rc.digest <- rc.digest +. (x +. 2.0 *. y +. 3.0 *. z); see rc 0 x; see rc 1 y; see rc 2 z;
        eval_user u x y z in
      (Call_3d (m, p, f, x1, x2, y1, y2, z1, z2), rc, 3, u.deep <> None)
  | "spherical" ->
      let r1 = num r in let r2 = num r in let c1 = num r in let c2 = num r in let f1 = num r in let f2 = num r in
      let u = parse_user r in
      let azmid = 0.5 *. (f1 +. f2) in
      let f x y z =
        rc.n <- rc.n + 1; rc.digest <- rc.digest +. (x +. 2.0 *. y +. 3.0 *. z);
        let nrm = sqrt (x *. x +. y *. y +. z *. z) in
        let dz = Float.atan2 y x -. azmid in
        let az = azmid +. (dz -. 2.0 *. Float.pi *. Float.round (dz /. (2.0 *. Float.pi))) in
        see rc 0 nrm; see rc 1 (z /. nrm); (if x <> 0.0 || y <> 0.0 then see rc 2 az);
        eval_user u x y z in
      (Call_spherical (m, p, f, r1, r2, c1, c2, f1, f2), rc, 3, u.deep <> None)
  | o -> failwith ("unknown_op_" ^ o)

(* the recorder, and for a user function with inner calls ('@@') the value of the call with the inner calls made beforehand from the top level:
   the model has no state, a call nested inside an integrand is answered by the function of its own arguments, so this is the value again *)
let put_tail rc dims deep res = put_rec rc dims; (if deep then match res with Ok v -> put_f v | _ -> ())
let put_res = function
  | Ok v -> put_f v; put_f v; true
  | Exit -> put_w "EXIT"; false
  | OOB -> put_w "OOB"; false
  | Fuel -> put_w "FUEL"; false

let handler r =
  let op = word r in
  try
    if op = "session" then begin
      let k = integer r in
      let acc = ref [] in
      for j = 0 to k - 1 do
        if j > 0 then (let w = word r in if w <> ";;" then failwith "session_shape");
        let op = word r in
        acc := build_call op r :: !acc
      done;
      let calls = List.rev !acc in
      let results = run_session fops backends no_mc (List.map (fun (c, _, _, _) -> c) calls) in
      List.iteri (fun j res ->
        let (_, rc, dims, deep) = List.nth calls j in
        if put_res res then begin
          put_tail rc dims deep res;
          (match res with Ok v -> put_f v | _ -> ());
          put_w "|"
        end) results
    end else if op = "glvec" then begin
      (* Integrate_Gauss_Legendre(function_values, roots_and_weights) *)
      let fv = list r in let rows = table r in
      (match gl_sum_rows fops fv rows with Ok v -> put_f v | Exit -> put_w "EXIT" | OOB -> put_w "OOB" | Fuel -> put_w "FUEL")
    end else if op = "glfun" then begin
      (* Integrate_Gauss_Legendre(func, roots_and_weights) *)
      let rows = table r in
      let e = parse_fexpr r in
      let n = ref 0 in
      (match gl_fun_rows fops (fun x -> incr n; Ok (eval_fexpr e [| x; 0.0; 0.0; 0.0 |])) rows with
       | Ok v -> put_f v; put_i !n | Exit -> put_w "EXIT" | OOB -> put_w "OOB" | Fuel -> put_w "FUEL")
    end else if op = "preinit" then begin
      (* the call made before main, then the same call made from main: the model's process with one call in each phase *)
      let op = word r in
      let (c, rc, dims, deep) = build_call op r in
      (match run_process fops backends no_mc [c] [] with
       | [res] ->
           if put_res res then begin
             put_tail rc dims deep res;
             (match run_process fops backends no_mc [] [c] with
              | [Ok v] -> put_f v
              | _ -> put_w "MODELERR main_phase")
           end
       | _ -> put_w "MODELERR process_shape")
    end else begin
      let (c, rc, dims, deep) = build_call op r in
      let res = run_call fops backends no_mc c in
      if put_res res then put_tail rc dims deep res
    end
  with
  | Inner_stop res -> Buffer.clear buf; first := true; ignore (put_res res)
  | Failure w -> Buffer.clear buf; first := true; put_w ("MODELERR " ^ w)

let () = run handler
