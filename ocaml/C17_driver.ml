(* C17 model driver: `open C17_m`, conv.inc and Common are prepended by bin/build_driver *)
open Common
let zi = z_of_int
let put_res (f : 'a -> unit) (r : 'a res) = match r with
  | Ok a -> f a | Exit -> put_w "EXIT" | OOB -> put_w "OOB" | Fuel -> put_w "FUEL"
let put_c ((re, im) : float * float) = put_f re; put_f im
(* the entries of a coefficient table that the summation loops read: component 0..2, l_hat = l-1, l+1, m_hat = m-1..m+1 *)
let ctable comp l m =
  for i = 0 to 2 do
    List.iter (fun lh -> List.iter (fun mh -> put_res put_c (comp fops (zi i) (zi l) (zi m) (zi lh) (zi mh))) [m - 1; m; m + 1]) [l - 1; l + 1]
  done

(* gen <case>: the SAME requests answered by the terms regenerated from the C++ source on this run (Gen_C17_More.v: Round, Dawson_Integral with its
   static table as explicit state, Erfi, Inv_Erf) instead of the hand model; the library functions they call are their parameters *)
let g_pi = Float.pi
let g_fr = find_root fops
let g_daw c x = g_Dawson_Integral fops g_pi (g_Sign fops) (g_Sign2 fops) (fun x -> x) g_fr c x
let g_erfi c x = let (c', d) = g_daw c x in (c', g_Erfi fops g_pi (g_Sign fops) (g_Sign2 fops) (fun _ -> d) g_fr x)
let g_round x d = g_Round fops g_pi (g_Sign fops) (g_Sign2 fops) (fun x -> x) g_fr x d
let ghandler r =
  match word r with
  | "round" -> let x = num r in let y = num r in let d = zi (integer r) in
      (match g_round x d with
       | Ok rx -> (match g_round (-. x) d, g_round rx d, g_round y d with
                   | Ok a, Ok b, Ok c -> put_f rx; put_f a; put_f b; put_f c
                   | _ -> put_w "EXIT")
       | _ -> put_w "EXIT")
  | "dawson" -> let x = num r in let (c, a) = g_daw (daw_table0 fops) x in put_f a; put_f (snd (g_daw c (-. x)))
  | "erfi" -> let x = num r in let (c, a) = g_erfi (daw_table0 fops) x in put_f a; put_f (snd (g_erfi c (-. x)))
  | "spechist" -> let n = integer r in
      let c = ref (daw_table0 fops) in
      for _ = 1 to n do
        let kind = integer r in let x = num r in
        let (c', a) = if kind = 1 then g_erfi !c x else g_daw !c x in c := c'; put_f a
      done
  | "inverf" -> let p = num r in put_res put_f (g_Inv_Erf fops g_pi (g_Sign fops) (g_Sign2 fops) (fun x -> x) g_fr p)
  | o -> put_w ("MODELERR unknown_gen_op_" ^ o)

let rec handler r =
  match word r with
  | "gen" -> ghandler r
  (* fe <mode> <case>: the caller's rounding direction; the model's float instance always rounds to nearest (compared for mode 0 only) *)
  | "fe" -> let _ = integer r in handler r
  (* a history of scalar-harmonic requests: boost's Y_lm is a function argument of the model, nothing to compute here *)
  | "yhist" -> put_w "-"
  | "vshhist" -> put_w "-"
  | "roundhist" -> let n = integer r in
      (* a history of Round requests in one process: 0 scalar, 1 Vector, 2 Matrix; each is a table for the model *)
      let rec reqs k = if k = 0 then [] else
        let kind = integer r in let d = integer r in
        let t = (match kind with 0 -> [[num r]] | 1 -> [list r] | _ -> table r) in
        (kind, (zi d, t)) :: reqs (k - 1) in
      let qs = reqs n in
      put_res (fun outs -> List.iter2 (fun (kind, _) m -> match kind with
          | 0 -> List.iter (List.iter put_f) m
          | 1 -> List.iter put_fl m
          | _ -> put_i (List.length m); List.iter put_fl m) qs outs)
        (round_run fops (List.map snd qs))
  | "sign" -> let x = num r in put_i (int_of_z (g_Sign fops x))
  | "sign2" -> let x = num r in let y = num r in put_f (g_Sign2 fops x y)
  | "step" -> let x = num r in put_f (g_StepFunction fops x)
  | "reldiff" -> let a = num r in let b = num r in
      put_f (g_Relative_Difference fops a b); put_f (g_Relative_Difference fops b a); put_f (g_Relative_Difference fops a a)
  | "feq" -> let a = num r in let b = num r in let t = num r in
      put_b (g_Floats_Equal fops a b t); put_b (g_Floats_Equal fops b a t); put_b (g_Floats_Equal fops a a t); put_b (g_Floats_Equal fops b b t)
  | "round" -> let x = num r in let y = num r in let d = zi (integer r) in
      (* Round(x), Round(-x), Round(Round(x)), Round(y); the first call that exits ends the case *)
      (match round fops x d with
       | Ok rx -> (match round fops (-. x) d, round fops rx d, round fops y d with
                   | Ok a, Ok b, Ok c -> put_f rx; put_f a; put_f b; put_f c
                   | _ -> put_w "EXIT")
       | _ -> put_w "EXIT")
  | "roundv" -> let d = integer r in let l = list r in put_res put_fl (round_list fops l (zi d))
  | "roundm" -> let d = integer r in let t = table r in
      put_res (fun m -> put_i (List.length m); List.iter put_fl m) (round_table fops t (zi d))
  | "dawson" -> let x = num r in put_f (dawson fops x); put_f (dawson fops (-. x))
  | "erfi" -> let x = num r in put_f (erfi fops Float.pi x); put_f (erfi fops Float.pi (-. x))
  | "spechist" -> let n = integer r in
      (* a history of Dawson_Integral (0) / Erfi (1) requests in one process: the static table is threaded through as explicit state *)
      let rec reqs k = if k = 0 then [] else let kind = integer r in let x = num r in (kind = 1, x) :: reqs (k - 1) in
      let qs = reqs n in
      let (_, ys) = special_run fops Float.pi (daw_table0 fops) qs in List.iter put_f ys
  | "inverf" -> let p = num r in put_res put_f (inv_erf_lib fops p)
  | "ycomp" -> let c = integer r in let l = integer r in let m = integer r in let lh = integer r in let mh = integer r in
      put_res put_c (g_VSH_Y_Component fops (zi c) (zi l) (zi m) (zi lh) (zi mh))
  | "psicomp" -> let c = integer r in let l = integer r in let m = integer r in let lh = integer r in let mh = integer r in
      put_res put_c (g_VSH_Psi_Component fops (zi c) (zi l) (zi m) (zi lh) (zi mh))
  | "vsh" -> let l = integer r in let m = integer r in
      ctable g_VSH_Y_Component l m; ctable g_VSH_Psi_Component l m
  | "vshsum" -> let l = integer r in let m = integer r in
      (* the six scalar harmonics the loops read, as printed by the harness: (l-1,m-1) (l-1,m) (l-1,m+1) (l+1,m-1) (l+1,m) (l+1,m+1) *)
      let ys = Array.init 6 (fun _ -> let re = num r in let im = num r in (re, im)) in
      let y lh mh = let lh = int_of_z lh and mh = int_of_z mh in
        let a = if lh = l - 1 then 0 else 3 in ys.(a + (mh - (m - 1))) in
      put_res (List.iter put_c) (vector_spherical_harmonics_Y fops y (zi l) (zi m));
      put_res (List.iter put_c) (vector_spherical_harmonics_Psi fops y (zi l) (zi m))
  | "vshrun" -> let k = integer r in
      (* a history of k requests (kind l m, six neighbour harmonics as the back end answered them: two numbers, T = threw, S = skipped by the loops,
         then the harmonic (l, m) itself the same way): the model's back end is a function into option, None = throws *)
      let opt () = (match r.toks.(r.pos) with
        | "T" | "S" -> let _ = word r in None
        | _ -> let re = num r in let im = num r in Some (re, im)) in
      let rec reqs j = if j = 0 then [] else
        let kind = integer r in let l = integer r in let m = integer r in
        let ys = Array.init 6 (fun _ -> opt ()) in
        let own = opt () in
        let y lh mh = let lh = int_of_z lh and mh = int_of_z mh in
          if kind >= 2 then own else
          let a = if lh = l - 1 then 0 else 3 in ys.(a + (mh - (m - 1))) in
        (((zi kind, zi l), zi m), y) :: reqs (j - 1) in
      let qs = reqs k in
      put_res (List.iter (fun a -> (match a with None -> put_w "THROW" | Some v -> List.iter put_c v); put_w ";")) (vsh_run_x fops qs)
  | o -> put_w ("MODELERR unknown_op_" ^ o)

let () = run handler
