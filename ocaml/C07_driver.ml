(* C07 model driver: `open C07_m`, conv.inc and Common are prepended by bin/setup.
   The functions Statistics.cpp delegates to (GammaQ, GammaP, Inv_GammaQ, GammaLn, Inv_Erf,
   Binomial_Coefficient) are parameters of the model; here they are instantiated by a table of the C++
   functions' own results, carried by the case line after "@":   @ n (name k arg_1 .. arg_k value|EXIT)*.
   A call the model makes that is not in the table (same name, bit-identical arguments) is a MODELERR. *)
open Common
exception Model_out of string

let m_pi = 0x1.921fb54442d18p+1
(* the table is keyed by the name and the bit patterns of the arguments (-0.0 = 0.0 and all NaNs alike, as under IEEE equality);
   the first entry for a key wins.  A hash table: chi-bar mixtures with hundreds of weights make tens of thousands of calls per case *)
let oracle : (string * int64 list, float option) Hashtbl.t = Hashtbl.create 1024
let key_of (a : float) : int64 = if a = 0.0 then 0L else if Float.is_nan a then 0x7ff8000000000000L else Int64.bits_of_float a
let lookup (name : string) (args : float list) : float res =
  match Hashtbl.find_opt oracle (name, List.map key_of args) with
  | None -> failwith (Printf.sprintf "oracle_missing_%s(%s)" name (String.concat "," (List.map (Printf.sprintf "%h") args)))
  | Some (Some v) -> Ok v
  | Some None -> Exit
let read_oracle r =
  Hashtbl.reset oracle;
  if more r then begin
    (match word r with "@" -> () | w -> failwith ("expected_@_got_" ^ w));
    let n = integer r in
    for _ = 1 to n do
      let name = word r in
      let k = integer r in
      let args = List.init k (fun _ -> num r) in
      let v = match word r with
        | "nan" -> Some Float.nan | "inf" -> Some Float.infinity | "-inf" -> Some Float.neg_infinity
        | w when String.length w > 2 && (String.sub w 0 2 = "0x" || String.sub w 0 3 = "-0x") -> Some (float_of_string w)
        | _ -> None in
      let key = (name, List.map key_of args) in
      if not (Hashtbl.mem oracle key) then Hashtbl.add oracle key v
    done
  end
let gammaQ x a = lookup "gammaQ" [x; a]
let gammaP x a = lookup "gammaP" [x; a]
let inv_gammaQ x a = lookup "inv_gammaQ" [x; a]
let gammaLn x = lookup "gammaLn" [x]
let inv_erf x = lookup "inv_erf" [x]
let binom n k = lookup "binom" [float_of_int (int_of_z n); float_of_int (int_of_z k)]
(* Find_Root as Inv_Erf calls it: the table is keyed by the bracket, the accuracy and the values of the function handed over at the ends of the
   bracket and at 0 (erf(-10) - p, -p, erf(10) - p), so the arguments the model passes are compared with the ones the harness used *)
let find_root (f : float -> float) xl xr acc = lookup "find_root" [xl; xr; acc; f (-10.0); f 0.0; f 10.0]

let ok = function Ok v -> v | Exit -> raise (Model_out "EXIT") | OOB -> raise (Model_out "OOB") | Fuel -> raise (Model_out "FUEL")
let pairs r = let n = integer r in List.init n (fun _ -> let lo = num r in let hi = num r in let fl = integer r in (lo, hi, fl))
let scan r (pdf : float -> float res) (cdf : float -> float res) =
  let ps = pairs r in
  read_oracle r;
  List.iter (fun (lo, hi, _) ->
    let a = ok (pdf lo) in let b = ok (cdf lo) in let c = ok (pdf hi) in let d = ok (cdf hi) in
    put_f a; put_f b; put_f c; put_f d) ps
let zi = z_of_int

let handler r =
  match word r with
  | "uniform" -> let a = num r in let b = num r in
      scan r (fun x -> Ok (pdf_uniform fops x a b)) (fun x -> Ok (cdf_uniform fops x a b))
  | "gauss" -> let mu = num r in let s = num r in
      scan r (fun x -> Ok (pdf_gauss fops m_pi x mu s)) (fun x -> Ok (cdf_gauss fops x mu s))
  | "expo" -> let m = num r in
      scan r (fun x -> pdf_exponential fops x m) (fun x -> cdf_exponential fops x m)
  | "mb" -> let a = num r in
      scan r (fun x -> pdf_maxwell_boltzmann fops m_pi x a) (fun x -> cdf_maxwell_boltzmann fops m_pi x a)
  | "chi2" -> let dof = num r in
      scan r (fun x -> pdf_chi_square fops gammaLn x dof) (fun x -> cdf_chi_square fops gammaP x dof)
  | "chibar" -> let w = list r in
      scan r (fun x -> pdf_chi_bar_square fops gammaLn x w) (fun x -> cdf_chi_bar_square fops gammaP x w)
  | "gauss2d" -> let x = num r in let y = num r in let mx = num r in let my = num r in let sx = num r in let sy = num r in
      put_f (pdf_gauss_2d fops m_pi x y mx my sx sy)
  | "binomial" -> let n = integer r in let p = num r in let k0 = integer r in let m = integer r in
      read_oracle r;
      for k = k0 to k0 + m - 1 do
        let a = ok (pmf_binomial fops binom (zi n) p (zi k)) in
        let b = ok (cdf_binomial fops binom (zi n) p (zi k)) in
        put_f a; put_f b
      done
  | "poisson" -> let mu = num r in let k0 = integer r in let m = integer r in
      read_oracle r;
      for k = k0 to k0 + m - 1 do
        let a = ok (pmf_poisson fops mu (zi k)) in
        let b = ok (cdf_poisson fops gammaQ mu (zi k)) in
        put_f a; put_f b
      done
  | "invpoisson" -> let n = integer r in let c = num r in
      read_oracle r; put_f (ok (inv_cdf_poisson fops inv_gammaQ (zi n) c))
  | "quantile" -> let p = num r in let mu = num r in let s = num r in
      read_oracle r; put_f (ok (quantile_gauss fops inv_erf p mu s))
  | "inverf" -> let p = num r in
      read_oracle r; put_f (ok (inv_erf_fn fops find_root p))
  | "quantilelib" -> let p = num r in let mu = num r in let s = num r in
      read_oracle r; put_f (ok (quantile_gauss_lib fops find_root p mu s))
  | "lik" -> let s = num r in let n = integer r in let b = num r in
      put_f (log_likelihood_poisson fops s (zi n) b); put_f (likelihood_poisson fops s (zi n) b)
  | "lik0" -> let s = num r in let n = integer r in
      put_f (log_likelihood_poisson fops s (zi n) 0.0); put_f (likelihood_poisson fops s (zi n) 0.0)
  | "likseq" -> let m = integer r in
      let cs = List.init m (fun _ -> let s = num r in let n = integer r in let b = num r in (s, n, b)) in
      List.iter (fun (s, n, b) -> put_f (log_likelihood_poisson fops s (zi n) b); put_f (likelihood_poisson fops s (zi n) b)) cs
  | "liksess" -> let m = integer r in
      (* one process, m requests in order: L s n b | L0 s n (default background) | B S N Bg | B0 S N (default background) *)
      let qs = List.init m (fun _ -> match word r with
        | "L" -> let s = num r in let n = integer r in let b = num r in ReqLik (s, zi n, b)
        | "L0" -> let s = num r in let n = integer r in ReqLik (s, zi n, 0.0)
        | "B" -> let s = list r in let n = List.map zi (ilist r) in let b = list r in ReqBinned (s, n, b)
        | "B0" -> let s = list r in let n = List.map zi (ilist r) in ReqBinned (s, n, [])
        | w -> failwith ("liksess_request_" ^ w)) in
      List.iter (fun (l, k) -> put_f l; put_f k) (ok (lik_session fops qs))
  | ("binned" | "binned0") as op -> let s = list r in let n = List.map zi (ilist r) in let b = if op = "binned" then list r else [] in
      let a = ok (log_likelihood_poisson_binned fops s n b) in
      let l = ok (likelihood_poisson_binned fops s n b) in
      put_f a; put_f l
  | ("kde" | "kde0") as op -> let n = integer r in
      let d = List.init n (fun _ -> let v = num r in let w = num r in (v, w)) in
      let xmin = num r in let xmax = num r in let bw = if op = "kde" then num r else 0.0 in
      let t = ok (perform_kde fops m_pi d xmin xmax bw) in
      put_i (List.length t); List.iter (fun (_, y) -> put_f y) t
  | o -> put_w ("MODELERR unknown_op_" ^ o)

let () = run (fun r -> try handler r with Model_out w -> Buffer.clear buf; first := true; put_w w)
