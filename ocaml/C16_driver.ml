(* C16 model driver: `open C16_m`, conv.inc and Common are prepended by bin/build_driver *)
open Common
let put_res f = function Ok v -> f v | Exit -> put_w "EXIT" | OOB -> put_w "OOB" | Fuel -> put_w "FUEL"
let put_mat m = put_i (List.length m); put_i (match m with [] -> 0 | r :: _ -> List.length r); List.iter (List.iter put_f) m
let vec3 r = let a = num r in let b = num r in let c = num r in [a; b; c]

let handler r =
  match word r with
  | "rot" -> let alpha = num r in let dim = integer r in let axis = list r in
      put_res put_mat (rotation_matrix fops alpha (z_of_int dim) axis)
  | "rotcomp" -> let a = num r in let b = num r in let axis = vec3 r in
      (match rotation_matrix fops a (z_of_int 3) axis, rotation_matrix fops b (z_of_int 3) axis,
             rotation_matrix fops (a +. b) (z_of_int 3) axis with
       | Ok ra, Ok rb, Ok rab -> put_mat (mmul fops ra rb); put_mat rab
       | _ -> put_w "EXIT")
  | "rotapply" -> let alpha = num r in let axis = vec3 r in let v = vec3 r in
      put_res (fun m -> put_fl (mvec fops m v)) (rotation_matrix fops alpha (z_of_int 3) axis)
  | "sph" -> let rr = num r in let th = num r in let ph = num r in put_fl (spherical fops rr th ph)
  | "spha" -> let rr = num r in let th = num r in let ph = num r in let axis = list r in
      put_res put_fl (spherical_axis fops Float.hypot rr th ph axis)
  | "sphad" -> let rr = num r in let th = num r in let ph = num r in let h = num r in let axis = vec3 r in
      (match spherical_axis fops Float.hypot rr th ph axis, spherical_axis fops Float.hypot rr th (ph +. h) axis with
       | Ok v, Ok w -> put_fl v; put_fl w
       | _ -> put_w "EXIT")
  | "cross" -> let a = list r in let b = list r in put_res put_fl (cross fops a b)
  | o -> put_w ("MODELERR unknown_op_" ^ o)

let () = run handler
