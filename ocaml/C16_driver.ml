(* C16 model driver: `open C16_m`, conv.inc and Common are prepended by bin/build_driver *)
open Common
let put_res f = function Ok v -> f v | Exit -> put_w "EXIT" | OOB -> put_w "OOB" | Fuel -> put_w "FUEL"
let put_mat m = put_i (List.length m); put_i (match m with [] -> 0 | r :: _ -> List.length r); List.iter (List.iter put_f) m
let ( let* ) x f = match x with Ok v -> f v | Exit -> Exit | OOB -> OOB | Fuel -> Fuel
let hist = ref false
let three = z_of_int 3

(* one step of the history of a Vector object (grammar: checks/C16.py, harness/C16.cpp) *)
let rd_vstep r : float vstep =
  match word r with
  | "st" -> let i = integer r in let x = num r in VSet (nat_of_int i, x)
  | "pa" -> VAddAssign (list r)
  | "ma" -> VSubAssign (list r)
  | "sa" -> VAddSelf
  | "ss" -> VSubSelf
  | "pl" -> VPlus (list r)
  | "mi" -> VMinus (list r)
  | "ms" | "sm" -> VTimes (num r)
  | "dv" -> VDivide (num r)
  | "rs" -> VResize (nat_of_int (integer r))
  | "as" -> let n = integer r in let x = num r in VAssign (nat_of_int n, x)
  | "nz" -> VNormalize
  | "nd" -> VNormalizedAssign
  | "cx" -> VCrossAssign (list r)
  | "df" -> VDefault
  | "cp" | "eq" | "se" -> VCopy
  | "qn" | "qN" | "qz" | "qp" -> VQNorm
  | "qd" | "qo" | "qO" -> VQDot (list r)
  | "qe" -> ignore (list r); VQNorm   (* operator== compares the sizes first and never exits *)
  | "qr" | "qw" -> VQRead (nat_of_int (integer r))
  | "qc" -> VQCross (list r)
  | "qa" | "qb" -> VQAngle (list r)
  | "cs" -> let rr = num r in let th = num r in let ph = num r in VCallSpherical (rr, th, ph)
  | "cr" -> let al = num r in let dim = integer r in VCallRotation (al, z_of_int dim)
  | s -> failwith ("unknown vector step " ^ s)
let rd_steps r = if not !hist then [] else (let k = integer r in List.init k (fun _ -> rd_vstep r))
let vec_history r v = vhistory fops Float.hypot v (rd_steps r)
let rd_vec r = let v = list r in vec_history r v
let rd_vec3 r = let a = num r in let b = num r in let c = num r in vec_history r [a; b; c]

let rd_mstep r : float mstep =
  match word r with
  | "pa" -> MAddAssign (table r)
  | "ma" -> MSubAssign (table r)
  | "pl" -> MPlus (table r)
  | "mi" -> MMinus (table r)
  | "tr" -> MTransposeAssign
  | "ms" | "sm" -> MTimes (num r)
  | "dv" -> MDivide (num r)
  | "rs" -> let p = integer r in let q = integer r in MResize (nat_of_int p, nat_of_int q)
  | "cp" | "eq" | "se" | "qd" | "qi" | "qo" | "qt" | "qn" | "qs" | "qT" | "qe" | "qp" | "qm" | "qb" -> MKeep
  | "sw" -> ignore (integer r); ignore (integer r); MKeep
  | "qr" | "qc" -> ignore (integer r); MKeep
  | "qv" -> ignore (list r); MKeep
  | s -> failwith ("unknown matrix step " ^ s)
let mat_history r m =
  if not !hist then Ok m
  else begin
    let k = integer r in
    let steps = List.init k (fun _ -> rd_mstep r) in
    mhistory fops m steps
  end

let out_res = function Ok () -> () | Exit -> Buffer.clear buf; first := true; put_w "EXIT"
  | OOB -> Buffer.clear buf; first := true; put_w "OOB" | Fuel -> Buffer.clear buf; first := true; put_w "FUEL"

(* histories of calls in one process: `seq p obj_1 .. obj_p m call_1 .. call_m` (grammar: checks/C16.py).  A Vector argument is
   `o i` (the live object i, which serves several calls: in the model an object is its value) or `l <list>` (a temporary) *)
let rd_axref r pool =
  match word r with
  | "o" -> let i = integer r in List.nth pool i
  | "l" -> list r
  | s -> failwith ("unknown vector reference " ^ s)
let rd_call r pool : float call =
  match word r with
  | "rot" -> let alpha = num r in let dim = integer r in let ax = rd_axref r pool in CRot (alpha, z_of_int dim, ax)
  | "rotdef" -> let alpha = num r in let dim = integer r in CRotDefault (alpha, z_of_int dim)
  | "sph" -> let rr = num r in let th = num r in let ph = num r in CSph (rr, th, ph)
  | "spha" -> let rr = num r in let th = num r in let ph = num r in let ax = rd_axref r pool in CSphAxis (rr, th, ph, ax)
  | "angle" -> let a = rd_axref r pool in let b = rd_axref r pool in CAngle (a, b)
  | s -> failwith ("unknown call " ^ s)
let put_answer = function AMat m -> put_mat m | AVec v -> put_fl v | ANum x -> put_f x

let handler r =
  hist := false;
  let op = match word r with "hist" -> hist := true; word r | o -> o in
  match op with
  | "rot" -> let alpha = num r in let dim = integer r in
      let start = list r in let h = rd_steps r in
      put_res put_mat (rotation_of_object fops Float.hypot alpha (z_of_int dim) start h)
  | "rotdef" -> let alpha = num r in let dim = integer r in
      put_res put_mat (rotation_matrix fops alpha (z_of_int dim) [0.0; 0.0; 1.0])
  | "rotcomp" -> let a = num r in let b = num r in
      out_res (let* axis = rd_vec3 r in
               let* ra = rotation_matrix fops a three axis in
               let* rb = rotation_matrix fops b three axis in
               let* rab = rotation_matrix fops (a +. b) three axis in
               let* ra = mat_history r ra in
               let* rb = mat_history r rb in
               Ok (put_mat (mmul fops ra rb); put_mat rab))
  | "rotapply" -> let alpha = num r in
      out_res (let* axis = rd_vec3 r in let* v = rd_vec3 r in
               let* m = rotation_matrix fops alpha three axis in
               let* m = mat_history r m in Ok (put_fl (mvec fops m v)))
  | "rotaxis" -> let alpha = num r in
      out_res (let* axis = rd_vec3 r in
               let* m = rotation_matrix fops alpha three axis in
               let* m = mat_history r m in Ok (put_fl (mvec fops m axis)))
  | "rotback" -> let alpha = num r in
      out_res (let* axis = rd_vec3 r in let* v = rd_vec3 r in
               let* m = rotation_matrix fops alpha three axis in
               let* m = mat_history r m in
               let w = mvec fops m v in
               let* back = vecm fops w m in Ok (put_fl w; put_fl back))
  | "sph" -> let rr = num r in let th = num r in let ph = num r in put_fl (spherical fops rr th ph)
  | "spha" -> let rr = num r in let th = num r in let ph = num r in
      let start = list r in let h = rd_steps r in
      put_res put_fl (spherical_of_object fops Float.hypot rr th ph start h)
  | "sphad" -> let rr = num r in let th = num r in let ph = num r in let h = num r in
      out_res (let* axis = rd_vec3 r in
               let* v = spherical_axis fops Float.hypot rr th ph axis in
               let* w = spherical_axis fops Float.hypot rr th (ph +. h) axis in Ok (put_fl v; put_fl w))
  | "sphang" -> let rr = num r in let th = num r in let ph = num r in
      out_res (let* axis = rd_vec r in
               let* u = spherical_axis fops Float.hypot rr th ph axis in
               let* a1 = angle fops u axis in
               let* a2 = angle fops axis u in
               Ok (put_fl u; put_f (vnorm fops u); put_f a1; put_f a2))
  | "sphrot" -> let rr = num r in let th = num r in let ph = num r in let alpha = num r in
      out_res (let* axis = rd_vec3 r in
               let* u = spherical_axis fops Float.hypot rr th ph axis in
               let* u = vec_history r u in
               let* m = rotation_matrix fops alpha three u in Ok (put_fl u; put_mat m))
  | "rotsph" -> let alpha = num r in let rr = num r in let th = num r in let ph = num r in
      out_res (let* axis = rd_vec3 r in
               let* m = rotation_matrix fops alpha three axis in
               let* u = spherical_axis fops Float.hypot rr th ph axis in
               let* m = mat_history r m in
               let* w = spherical_axis fops Float.hypot rr th (ph +. alpha) axis in
               Ok (put_fl (mvec fops m u); put_fl w))
  | "seq" -> let p = integer r in let pool = List.init p (fun _ -> list r) in
      let m = integer r in let calls = List.init m (fun _ -> rd_call r pool) in
      (* the answers inside the history, then the answer a process gives that makes only this call *)
      out_res (let* answers = calls_run fops Float.hypot calls in
               put_i m; List.iter put_answer answers;
               List.iter (fun c -> match calls_run fops Float.hypot [c] with
                                   | Ok [a] -> put_answer a | _ -> put_w "FRESH_EXIT") calls;
               Ok ())
  | "rotchain" -> let dim = integer r in let n = integer r in
      (* P = Identity_Matrix(dim); P = P * Rotation_Matrix(alpha_k, dim, axis_k); sum += alpha_k;  then R(sum) about the first axis *)
      if dim <> 2 && dim <> 3 then put_w "MODELERR bad_dim" else begin
        let fs = List.init n (fun _ -> let a = num r in let ax = list r in (a, ax)) in
        out_res (let* p = rot_chain fops (z_of_int dim) fs in
                 let s = angle_sum fops (List.map fst fs) in
                 match fs with
                 | [] -> Ok (put_mat p; put_f s)
                 | (_, ax) :: _ -> let* rs = rotation_matrix fops s (z_of_int dim) ax in Ok (put_mat p; put_f s; put_mat rs))
      end
  | "rotangle" -> let alpha = num r in
      (* the library's own Angle between v and R v *)
      out_res (let* axis = rd_vec3 r in let* v = rd_vec3 r in
               let* m = rotation_matrix fops alpha three axis in
               let w = mvec fops m v in
               let* a1 = angle fops v w in
               let* a2 = angle fops w v in
               Ok (put_fl w; put_f a1; put_f a2))
  | "rotdt" -> let alpha = num r in let dim = integer r in let ax = list r in
      (* the library's own Determinant() and Trace() of one Rotation_Matrix *)
      out_res (let* (d, t) = rotation_det_trace fops alpha (z_of_int dim) ax in Ok (put_f d; put_f t))
  | "chaindt" -> let dim = integer r in let n = integer r in
      (* Determinant() and Trace() of P = Identity_Matrix(dim) * R_1 * ... * R_n *)
      if dim <> 2 && dim <> 3 then put_w "MODELERR bad_dim" else begin
        let fs = List.init n (fun _ -> let a = num r in let ax = list r in (a, ax)) in
        out_res (let* (d, t) = rot_chain_det_trace fops (z_of_int dim) fs in Ok (put_f d; put_f t))
      end
  | "matdt" -> let m = table r in
      (* Determinant() then Trace() of an arbitrary rectangular matrix (ties the recursive Laplace model for every size) *)
      out_res (let* d = mdet fops m in let* t = mtrace fops m in Ok (put_f d; put_f t))
  | "matinv" -> let m = table r in
      (* Inverse() then Norm() of an arbitrary rectangular matrix *)
      out_res (let* mi = minverse fops m in Ok (put_mat mi; put_f (mnorm fops m)))
  | "matorth" -> let m = table r in
      out_res (let* iv = minvertible fops m in let* orth = morthogonal fops m in Ok (put_b iv; put_b orth; put_mat (mtranspose fops m)))
  | "rotinv" -> let alpha = num r in let dim = integer r in let ax = list r in
      out_res (let* ((ri, rt), nr) = rotation_inverse fops alpha (z_of_int dim) ax in Ok (put_mat ri; put_mat rt; put_f nr))
  | "angle" ->
      out_res (let* a = rd_vec r in let* b = rd_vec r in let* x = angle fops a b in Ok (put_f x))
  | "cross" ->
      out_res (let* a = rd_vec r in let* b = rd_vec r in let* c = cross fops a b in Ok (put_fl c))
  | o -> put_w ("MODELERR unknown_op_" ^ o)

let () = run handler
