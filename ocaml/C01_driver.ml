(* C01 model driver: `open C01_m`, conv.inc and Common are prepended by bin/build_driver.
   Case grammar: see checks/C01.py.  One line = one table + a list of queries on (copies of) the fresh object. *)
open Common
exception Stop of string
let unres = function Ok v -> v | Exit -> raise (Stop "EXIT") | OOB -> raise (Stop "OOB") | Fuel -> raise (Stop "FUEL")
(* g++ -O1 expands pow(x, 2.0) to x*x (no libm call; checked on the compiled library), pow(x, 3.0) calls libm:
   the float instance of [npowi _ 2] follows the compiled code so that the comparison stays bit-exact *)
let fops = { fops with npowi = (fun x k -> if int_of_z k = 2 then x *. x else fops.npowi x k) }
let scaled dim l = if dim > 0.0 then List.map (fun v -> v *. dim) l else l

let queries1 r o xs =
  let xa = Array.of_list xs in
  let nq = integer r in
  for _ = 1 to nq do
    match word r with
    | "I" -> let x = num r in put_f (unres (interpolate fops o x))
    | "D" -> let k = integer r in let x = num r in put_f (unres (derivative fops o x (z_of_int k)))
    | "L" -> let x = num r in put_i (int_of_nat (unres (locate fops o x)))
    | "G" -> let j = integer r in let m = integer r in
        let x0 = xa.(j) and x1 = xa.(j + 1) in
        for k = 0 to m do
          let x = if k = m then x1 else x0 +. (x1 -. x0) *. float_of_int k /. float_of_int m in
          put_f (unres (call1 fops o x))      (* the harness uses operator() here *)
        done
    | "K" -> let x = num r in
        let pts = [Float.pred x; x; Float.succ x] in
        List.iter (fun p -> put_f (unres (interpolate fops o p))) pts;
        List.iter (fun p -> put_f (unres (derivative fops o p (z_of_int 1)))) pts
    | "F" -> let x = num r in let d = num r in
        let pts = [x -. d; x; x +. d] in
        for k = 0 to 2 do List.iter (fun p -> put_f (unres (derivative fops o p (z_of_int k)))) pts done;
        put_f (unres (derivative fops o x (z_of_int 3)));
        put_f (unres (derivative fops o x (z_of_int 4)))
    | q -> failwith ("unknown query " ^ q)
  done

let queries2 r o xa ya =
  let nq = integer r in
  for _ = 1 to nq do
    match word r with
    | "I" -> let x = num r in let y = num r in put_f (unres (interpolate2 fops o x y))
    | "C" -> let i = integer r in let j = integer r in let m = integer r in
        let x0 = xa.(i) and x1 = xa.(i + 1) and y0 = ya.(j) and y1 = ya.(j + 1) in
        for a = 0 to m do
          let x = if a = m then x1 else x0 +. (x1 -. x0) *. float_of_int a /. float_of_int m in
          for b = 0 to m do
            let y = if b = m then y1 else y0 +. (y1 -. y0) *. float_of_int b /. float_of_int m in
            put_f (unres (call2 fops o x y))      (* operator() *)
          done
        done
    | q -> failwith ("unknown query " ^ q)
  done

(* sessions (s1, s2): the case is translated into a command list for the extracted [session_run]; the composite requests are
   expanded into primitive ones in the order in which the harness issues them.  The answers are printed twice: the harness repeats
   every primitive call on a fresh object after the session (second half of its output). *)
let prim1 xa r : float query1 list =
  let nq = integer r in
  let acc = ref [] in
  let add q = acc := q :: !acc in
  for _ = 1 to nq do
    match word r with
    | "I" -> add (QI (num r))
    | "D" -> let k = integer r in let x = num r in add (QD (z_of_int k, x))
    | "L" -> add (QL (num r))
    | "G" -> let j = integer r in let m = integer r in
        let x0 = xa.(j) and x1 = xa.(j + 1) in
        for k = 0 to m do
          add (QI (if k = m then x1 else x0 +. (x1 -. x0) *. float_of_int k /. float_of_int m))
        done
    | "K" -> let x = num r in
        let pts = [Float.pred x; x; Float.succ x] in
        List.iter (fun p -> add (QI p)) pts; List.iter (fun p -> add (QD (z_of_int 1, p))) pts
    | "F" -> let x = num r in let d = num r in
        let pts = [x -. d; x; x +. d] in
        for k = 0 to 2 do List.iter (fun p -> add (QD (z_of_int k, p))) pts done;
        add (QD (z_of_int 3, x)); add (QD (z_of_int 4, x))
    | "V" -> let x = num r in let d = num r in
        for k = 1 to 3 do add (QD (z_of_int k, x)) done;
        List.iter (fun p -> add (QI p)) [x -. 2.0 *. d; x -. d; x; x +. d; x +. 2.0 *. d]
    | q -> failwith ("unknown query " ^ q)
  done;
  List.rev !acc

let prim2 xa ya r : (float * float) list =
  let nq = integer r in
  let acc = ref [] in
  for _ = 1 to nq do
    match word r with
    | "I" -> let x = num r in let y = num r in acc := (x, y) :: !acc
    | "C" -> let i = integer r in let j = integer r in let m = integer r in
        let x0 = xa.(i) and x1 = xa.(i + 1) and y0 = ya.(j) and y1 = ya.(j + 1) in
        for a = 0 to m do
          let x = if a = m then x1 else x0 +. (x1 -. x0) *. float_of_int a /. float_of_int m in
          for b = 0 to m do
            let y = if b = m then y1 else y0 +. (y1 -. y0) *. float_of_int b /. float_of_int m in
            acc := (x, y) :: !acc
          done
        done
    | q -> failwith ("unknown query " ^ q)
  done;
  List.rev !acc

(* [read_tab r] reads the constructor arguments of an A segment and returns (constructor result, axes of the stored table) *)
let session r (read_tab : reader -> 'o res * 'ax) (prims : 'ax -> reader -> 'q list) : ('o, 'q) scmd list =
  let nseg = integer r in
  let axes = Array.make 4 None in
  let cmds = ref [] in
  for _ = 1 to nseg do
    let k =
      match word r with
      | "A" -> let _mode = word r in let k = integer r in
          let (o, ax) = read_tab r in
          axes.(k) <- Some ax; cmds := CPut (nat_of_int k, o) :: !cmds; k
      | "C" -> let k = integer r in let src = integer r in
          axes.(k) <- axes.(src); cmds := CCopy (nat_of_int k, nat_of_int src) :: !cmds; k
      | "R" -> integer r
      | w -> failwith ("unknown segment " ^ w) in
    let ax = match axes.(k) with Some a -> a | None -> failwith "empty slot" in
    List.iter (fun q -> cmds := CAsk (nat_of_int k, q) :: !cmds) (prims ax r)
  done;
  List.rev !cmds

let handler r =
  try
    match word r with
    | "t1" | "h1" ->
        let xd = num r in let fd = num r in let xs = list r in let ys = list r in
        let o = unres (construct fops xs ys xd fd) in
        queries1 r o (scaled xd xs)
    | "tr" ->
        let xd = num r in let fd = num r in let rows = table r in
        let o = unres (construct_rows fops rows xd fd) in
        queries1 r o (scaled xd (List.map (fun row -> match row with x :: _ -> x | [] -> 0.0) rows))
    | "t3" ->
        (* the data-table constructor; only I queries (the case generator expands cells itself) *)
        let xd = num r in let yd = num r in let fd = num r in let rows = table r in
        let o = unres (construct2_table fops rows xd yd fd) in
        let nq = integer r in
        for _ = 1 to nq do
          match word r with
          | "I" -> let x = num r in let y = num r in put_f (unres (interpolate2 fops o x y))
          | q -> failwith ("unknown query " ^ q)
        done
    | "t2" | "h2" ->
        (* h2: all queries on one live object; the model is the fresh-object semantics *)
        let xd = num r in let yd = num r in let fd = num r in
        let xs = list r in let ys = list r in let f = table r in
        let o = unres (construct2 fops xs ys f xd yd fd) in
        let xa = Array.of_list (scaled xd xs) and ya = Array.of_list (scaled yd ys) in
        let nq = integer r in
        for _ = 1 to nq do
          match word r with
          | "I" -> let x = num r in let y = num r in put_f (unres (interpolate2 fops o x y))
          | "C" -> let i = integer r in let j = integer r in let m = integer r in
              let x0 = xa.(i) and x1 = xa.(i + 1) and y0 = ya.(j) and y1 = ya.(j + 1) in
              for a = 0 to m do
                let x = if a = m then x1 else x0 +. (x1 -. x0) *. float_of_int a /. float_of_int m in
                for b = 0 to m do
                  let y = if b = m then y1 else y0 +. (y1 -. y0) *. float_of_int b /. float_of_int m in
                  put_f (unres (interpolate2 fops o x y))
                done
              done
          | q -> failwith ("unknown query " ^ q)
        done
    | "d1" -> queries1 r (unres (default1 fops)) [-1.0; 0.0; 1.0]
    | "d2" -> let ax = [| -1.0; 0.0; 1.0 |] in queries2 r (unres (default2 fops)) ax ax
    | "s1" ->
        let cmds = session r
            (fun r -> let xd = num r in let fd = num r in let xs = list r in let ys = list r in
              (construct fops xs ys xd fd, Array.of_list (scaled xd xs)))
            prim1 in
        let outs = unres (session_run (answer_1d fops) [] cmds) in
        for _ = 1 to 2 do
          List.iter (function AV v -> put_f v | AJ j -> put_i (int_of_nat j)) outs
        done
    | "s2" ->
        let cmds = session r
            (fun r -> let xd = num r in let yd = num r in let fd = num r in
              let xs = list r in let ys = list r in let f = table r in
              (construct2 fops xs ys f xd yd fd, (Array.of_list (scaled xd xs), Array.of_list (scaled yd ys))))
            (fun (xa, ya) r -> prim2 xa ya r) in
        let outs = unres (session_run (answer_2d fops) [] cmds) in
        for _ = 1 to 2 do List.iter put_f outs done
    | o -> put_w ("MODELERR unknown_op_" ^ o)
  with Stop s -> Buffer.clear buf; first := true; put_w s

let () = run handler
