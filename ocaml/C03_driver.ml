(* C03 model driver: `open C03_m`, conv.inc and Common are prepended by bin/setup.
   Case grammar (see checks/C03.py):
     int     a b eps depth  fam np p1..pnp  <fexpr>   -> value warn count trace...
     swap    a b eps depth  fam np p1..pnp  <fexpr>   -> value(a,b) warn count  value(b,a) warn count
     epssign a b eps depth  fam np p1..pnp  <fexpr>   -> value(eps) warn count  value(-eps) warn count
     findeps a b prec       fam np p1..pnp  <fexpr>   -> epsilon *)
open Common
let trace_cap = 4500
let skip_family r = let _ = word r in let n = integer r in for _ = 1 to n do ignore (num r) done
let put_res full ((v, w), t) =
  put_f v; put_b w;
  let n = List.length t in put_i n;
  if full then begin
    if n <= trace_cap then List.iter put_f t
    else begin
      put_f (List.fold_left (fun a x -> if x < a then x else a) Float.infinity t);
      put_f (List.fold_left (fun a x -> if x > a then x else a) Float.neg_infinity t)
    end
  end

let handler r =
  match word r with
  | "int" -> let a = num r in let b = num r in let eps = num r in let d = integer r in
      skip_family r; let f = fun1 (parse_fexpr r) in
      put_res true (integrate fops f a b eps (z_of_int d))
  | "swap" -> let a = num r in let b = num r in let eps = num r in let d = integer r in
      skip_family r; let f = fun1 (parse_fexpr r) in
      put_res false (integrate fops f a b eps (z_of_int d));
      put_res false (integrate fops f b a eps (z_of_int d))
  | "epssign" -> let a = num r in let b = num r in let eps = num r in let d = integer r in
      skip_family r; let f = fun1 (parse_fexpr r) in
      put_res false (integrate fops f a b eps (z_of_int d));
      put_res false (integrate fops f a b (-. eps) (z_of_int d))
  | "findeps" -> let a = num r in let b = num r in let p = num r in
      skip_family r; let f = fun1 (parse_fexpr r) in
      put_f (find_epsilon fops f a b p)
  | o -> put_w ("MODELERR unknown_op_" ^ o)

let () = run handler
