(* C03 model driver: `open C03_m`, conv.inc and Common are prepended by bin/setup.
   Case grammar (see checks/C03.py):
     int     a b eps depth  fam np p1..pnp  <fexpr>   -> value warn count trace...
     swap    a b eps depth  fam np p1..pnp  <fexpr>   -> value(a,b) warn count  value(b,a) warn count
     epssign a b eps depth  fam np p1..pnp  <fexpr>   -> value(eps) warn count  value(-eps) warn count
     findeps a b prec       fam np p1..pnp  <fexpr>   -> epsilon
     seq k <call>*k    several calls in one process, each answered with: value warn count min-abscissa max-abscissa
        I a b eps depth fam np p.. <fexpr>   Integrate(f,a,b,eps,depth)
        D a b eps       fam np p.. <fexpr>   Integrate(f,a,b,eps)               (default depth)
        M a b           fam np p.. <fexpr>   Integrate(f,a,b,"Adaptive-Simpson")
        F a b prec      fam np p.. <fexpr>   Find_Epsilon(f,a,b,prec)           (value = epsilon, 3 evaluations)
        X a b eps depth k fam np p.. <fexpr> Integrate(f,a,b,eps,depth) whose integrand abandons the integration (throws) at
                                             its k-th evaluation: answered `nan 0 k inf -inf`; when the call needs fewer
                                             than k evaluations it completes and is answered like I
        XD a b eps k .. / XM a b k .. / XF a b prec k ..   the same for the calls D, M (the three evaluations of its
                                             Find_Epsilon count) and F
        O a b method fam np p.. <fexpr>      Integrate(f,a,b,method) with another method of the string overload ("Trapezoidal",
                                             "Gauss-Legendre", ...; not part of the property): history only, answered `0 0 0 inf -inf`;
                                             XO a b method k ..: abandoned at the k-th evaluation (if it gets that far), same answer
        eps may be the token @ : the value returned by the latest F of the sequence (0 when there is none)
     nest <outer> a b [eps [depth]] <inner> [eps|prec [depth]] fam np p.. <lo> <hi> <g> <E>
        re-entrant integrand: the outer call (I: Integrate(F,a,b,eps,depth), D: default depth, M: string overload) integrates
        F(x) = E(x, J(x)) (fexpr E in x and y := J(x)), where J(x) is the value of a call the integrand itself makes
        (I eps depth / D eps / M / F prec) with integrand t -> g(x,t) (fexpr g in x and y := t) and limits lo(x), hi(x)
        (fexprs in x).  Answer: value warn count  inner-evaluations-total  largest-inner-count  inner-warnings
        inner-evaluations-outside-their-limits (model: 0)  answers-that-differ-from-the-call-made-alone (model: 0)
        first-such-abscissa (model: 0)  trace of the outer call
     diag  a b eps depth fam np p.. <fexpr>   -> value warn count  swap-notice(stderr) nan-notice inf-notice   (integrate_report)
     named <method> a b  fam np p.. <fexpr>   -> Integrate(f,a,b,method): EXIT (unrecognised name) | SKIP (another recognised method,
                                                 distinct limits: not modelled, not called) | value warn count
     i2d x1 x2 y1 y2 fam np p.. <fexpr in x y>        -> Integrate_2D(..,"Adaptive-Simpson"): value warn count xmin xmax ymin ymax
     i3d x1 x2 y1 y2 z1 z2 fam np p.. <fexpr in x y z> -> Integrate_3D(..,"Adaptive-Simpson"): value warn count *)
open Common
let trace_cap = 4500
let skip_family r = let _ = word r in let n = integer r in for _ = 1 to n do ignore (num r) done
let put_res full ((v, w), t) =
  put_f v; put_b w;
  let n = List.length t in put_i n;
  if full then begin
    if n <= trace_cap then List.iter put_f t
    else begin
      put_f (List.fold_left (fun a x -> if x < a then x else a) Float.infinity t);
      put_f (List.fold_left (fun a x -> if x > a then x else a) Float.neg_infinity t)
    end
  end

let handler r =
  match word r with
  | "int" -> let a = num r in let b = num r in let eps = num r in let d = integer r in
      skip_family r; let f = fun1 (parse_fexpr r) in
      put_res true (integrate fops f a b eps (z_of_int d))
  | "swap" -> let a = num r in let b = num r in let eps = num r in let d = integer r in
      skip_family r; let f = fun1 (parse_fexpr r) in
      put_res false (integrate fops f a b eps (z_of_int d));
      put_res false (integrate fops f b a eps (z_of_int d))
  | "epssign" -> let a = num r in let b = num r in let eps = num r in let d = integer r in
      skip_family r; let f = fun1 (parse_fexpr r) in
      put_res false (integrate fops f a b eps (z_of_int d));
      put_res false (integrate fops f a b (-. eps) (z_of_int d))
  | "findeps" -> let a = num r in let b = num r in let p = num r in
      skip_family r; let f = fun1 (parse_fexpr r) in
      put_f (find_epsilon fops f a b p)
  | "seq" ->
      let k = integer r in
      let last = ref 0.0 in
      let nat_tl n = let rec go acc n = if n <= 0 then acc else go (S acc) (n - 1) in go O n in
      let eps_tok () = match word r with "@" -> !last | w -> (match w with "nan" -> Float.nan | "inf" -> Float.infinity | "-inf" -> Float.neg_infinity | _ -> float_of_string w) in
      let silent = ref [] in
      let rec parse i = if i >= k then [] else begin
        let w0 = word r in
        let ab = String.length w0 >= 1 && w0.[0] = 'X' in
        let kind = if ab then (if String.length w0 = 1 then "I" else String.sub w0 1 (String.length w0 - 1)) else w0 in
        let a = num r in let b = num r in
        let eps = if kind = "I" || kind = "D" then eps_tok () else 0.0 in
        let d = if kind = "I" then integer r else 0 in
        let p = if kind = "F" then num r else 0.0 in
        if kind = "O" then ignore (word r);
        let kx = if ab then integer r else 0 in
        skip_family r; let f = fun1 (parse_fexpr r) in
        let c = match kind with
          | "I" -> CInt (f, a, b, eps, z_of_int d)
          | "D" -> CDef (f, a, b, eps)
          | "M" -> CMeth (f, a, b)
          | "F" -> CFind (f, a, b, p)
          | "O" -> silent := i :: !silent; CFind (f, a, a, 0.0)     (* another method of the string overload: history only *)
          | o -> failwith ("unknown_call_" ^ o) in
        (* the request (call, k) of the model: k = 0 when the integrand never throws; "last" follows the model's answer *)
        let kreq = if ab && kind <> "O" then (if kx < 1 then 0 else kx) else 0 in
        if kind = "F" then (match run_call_ab fops c (nat_tl kreq) with
         | Some ((v, _), _) -> last := v
         | None -> ());
        (c, nat_tl kreq) :: parse (i + 1) end in
      let cs = parse 0 in
      List.iteri (fun i (o, (_, kreq)) ->
          match o with
          | None ->      (* abandoned at its k-th evaluation: no answer, and nothing is left behind (the state of the model is empty) *)
              put_f Float.nan; put_i 0; put_i (int_of_nat kreq); put_f Float.infinity; put_f Float.neg_infinity
          | Some ((v, w), t) ->
          if List.mem i !silent then begin put_f 0.0; put_i 0; put_i 0; put_f Float.infinity; put_f Float.neg_infinity end else begin
          put_f v; put_b w; put_i (List.length t);
          put_f (List.fold_left (fun a x -> if x < a then x else a) Float.infinity t);
          put_f (List.fold_left (fun a x -> if x > a then x else a) Float.neg_infinity t) end)
        (List.combine (run_seq_ab fops () cs) cs)
  | "nest" ->
      let ok = word r in
      let a = num r in let b = num r in
      let eps = if ok = "I" || ok = "D" then num r else 0.0 in
      let d = if ok = "I" then integer r else 20 in
      let ik = word r in
      let ieps = if ik = "I" || ik = "D" || ik = "F" then num r else 0.0 in
      let id = if ik = "I" then integer r else 20 in
      skip_family r;
      let lo = fun1 (parse_fexpr r) in let hi = fun1 (parse_fexpr r) in
      let g = parse_fexpr r in let e = parse_fexpr r in
      let mk x =
        let gi = fun t -> eval_fexpr g [| x; t; 0.0 |] in
        match ik with
        | "I" -> CInt (gi, lo x, hi x, ieps, z_of_int id)
        | "D" -> CDef (gi, lo x, hi x, ieps)
        | "M" -> CMeth (gi, lo x, hi x)
        | "F" -> CFind (gi, lo x, hi x, ieps)
        | o -> failwith ("unknown_call_" ^ o) in
      let ff = reentrant fops mk (fun x y -> eval_fexpr e [| x; y; 0.0 |]) in
      let ((v, w), t) = run_call fops (match ok with
        | "I" -> CInt (ff, a, b, eps, z_of_int d)
        | "D" -> CDef (ff, a, b, eps)
        | "M" -> CMeth (ff, a, b)
        | o -> failwith ("unknown_call_" ^ o)) in
      let (tot, mx, nw) = List.fold_left (fun (tot, mx, nw) x ->
          let ((_, wi), ti) = run_call fops (mk x) in
          let n = List.length ti in (tot + n, (if n > mx then n else mx), nw + (if wi then 1 else 0))) (0, 0, 0) t in
      put_f v; put_b w;
      let n = List.length t in put_i n;
      put_i tot; put_i mx; put_i nw; put_i 0; put_i 0; put_f 0.0;
      if n <= trace_cap then List.iter put_f t
      else begin
        put_f (List.fold_left (fun a x -> if x < a then x else a) Float.infinity t);
        put_f (List.fold_left (fun a x -> if x > a then x else a) Float.neg_infinity t)
      end
  | "diag" -> let a = num r in let b = num r in let eps = num r in let d = integer r in
      skip_family r; let f = fun1 (parse_fexpr r) in
      let (((v, w), t), ((notice, wnan), winf)) = integrate_report fops f a b eps (z_of_int d) in
      put_f v; put_b w; put_i (List.length t); put_b notice; put_b wnan; put_b winf
  | "named" -> let name = word r in let a = num r in let b = num r in
      skip_family r; let f = fun1 (parse_fexpr r) in
      let m = match name with
        | "Adaptive-Simpson" -> MAdaptiveSimpson
        | "Trapezoidal" | "Gauss-Legendre" | "Gauss-Kronrod" | "Tanh-Sinh" | "Gauss-Legendre_2" -> MOther
        | _ -> MUnknown in
      (match integrate_named fops m f a b with
       | Exit -> put_w "EXIT"
       | Ok None -> put_w "SKIP"
       | Ok (Some ((v, w), t)) -> put_f v; put_b w; put_i (List.length t)
       | _ -> put_w "MODELERR res")
  | "i2d" -> let x1 = num r in let x2 = num r in let y1 = num r in let y2 = num r in
      skip_family r; let g = parse_fexpr r in
      let ((v, w), t) = integrate_2d fops (fun x y -> eval_fexpr g [| x; y; 0.0 |]) x1 x2 y1 y2 in
      put_f v; put_b w; put_i (List.length t);
      let mn sel = List.fold_left (fun a p -> let x = sel p in if x < a then x else a) Float.infinity t in
      let mx sel = List.fold_left (fun a p -> let x = sel p in if x > a then x else a) Float.neg_infinity t in
      put_f (mn fst); put_f (mx fst); put_f (mn snd); put_f (mx snd)
  | "i3d" -> let x1 = num r in let x2 = num r in let y1 = num r in let y2 = num r in let z1 = num r in let z2 = num r in
      skip_family r; let g = parse_fexpr r in
      let ((v, w), n) = integrate_3d fops (fun x y z -> eval_fexpr g [| x; y; z |]) x1 x2 y1 y2 z1 z2 in
      put_f v; put_b w; put_i (int_of_nat n)
  | o -> put_w ("MODELERR unknown_op_" ^ o)

let () = run handler
