(* C03 model driver: `open C03_m`, conv.inc and Common are prepended by bin/setup.
   Case grammar (see checks/C03.py):
     int     a b eps depth  fam np p1..pnp  <fexpr>   -> value warn count trace...
     swap    a b eps depth  fam np p1..pnp  <fexpr>   -> value(a,b) warn count  value(b,a) warn count
     epssign a b eps depth  fam np p1..pnp  <fexpr>   -> value(eps) warn count  value(-eps) warn count
     findeps a b prec       fam np p1..pnp  <fexpr>   -> epsilon
     seq k <call>*k    several calls in one process, each answered with: value warn count min-abscissa max-abscissa
        I a b eps depth fam np p.. <fexpr>   Integrate(f,a,b,eps,depth)
        D a b eps       fam np p.. <fexpr>   Integrate(f,a,b,eps)               (default depth)
        M a b           fam np p.. <fexpr>   Integrate(f,a,b,"Adaptive-Simpson")
        F a b prec      fam np p.. <fexpr>   Find_Epsilon(f,a,b,prec)           (value = epsilon, 3 evaluations)
        eps may be the token @ : the value returned by the latest F of the sequence (0 when there is none) *)
open Common
let trace_cap = 4500
let skip_family r = let _ = word r in let n = integer r in for _ = 1 to n do ignore (num r) done
let put_res full ((v, w), t) =
  put_f v; put_b w;
  let n = List.length t in put_i n;
  if full then begin
    if n <= trace_cap then List.iter put_f t
    else begin
      put_f (List.fold_left (fun a x -> if x < a then x else a) Float.infinity t);
      put_f (List.fold_left (fun a x -> if x > a then x else a) Float.neg_infinity t)
    end
  end

let handler r =
  match word r with
  | "int" -> let a = num r in let b = num r in let eps = num r in let d = integer r in
      skip_family r; let f = fun1 (parse_fexpr r) in
      put_res true (integrate fops f a b eps (z_of_int d))
  | "swap" -> let a = num r in let b = num r in let eps = num r in let d = integer r in
      skip_family r; let f = fun1 (parse_fexpr r) in
      put_res false (integrate fops f a b eps (z_of_int d));
      put_res false (integrate fops f b a eps (z_of_int d))
  | "epssign" -> let a = num r in let b = num r in let eps = num r in let d = integer r in
      skip_family r; let f = fun1 (parse_fexpr r) in
      put_res false (integrate fops f a b eps (z_of_int d));
      put_res false (integrate fops f a b (-. eps) (z_of_int d))
  | "findeps" -> let a = num r in let b = num r in let p = num r in
      skip_family r; let f = fun1 (parse_fexpr r) in
      put_f (find_epsilon fops f a b p)
  | "seq" ->
      let k = integer r in
      let last = ref 0.0 in
      let eps_tok () = match word r with "@" -> !last | w -> (match w with "nan" -> Float.nan | "inf" -> Float.infinity | "-inf" -> Float.neg_infinity | _ -> float_of_string w) in
      let rec parse i = if i >= k then [] else begin
        let c = match word r with
          | "I" -> let a = num r in let b = num r in let eps = eps_tok () in let d = integer r in
              skip_family r; let f = fun1 (parse_fexpr r) in CInt (f, a, b, eps, z_of_int d)
          | "D" -> let a = num r in let b = num r in let eps = eps_tok () in
              skip_family r; let f = fun1 (parse_fexpr r) in CDef (f, a, b, eps)
          | "M" -> let a = num r in let b = num r in
              skip_family r; let f = fun1 (parse_fexpr r) in CMeth (f, a, b)
          | "F" -> let a = num r in let b = num r in let p = num r in
              skip_family r; let f = fun1 (parse_fexpr r) in
              last := find_epsilon fops f a b p; CFind (f, a, b, p)
          | o -> failwith ("unknown_call_" ^ o) in
        c :: parse (i + 1) end in
      let cs = parse 0 in
      List.iter (fun ((v, w), t) ->
          put_f v; put_b w; put_i (List.length t);
          put_f (List.fold_left (fun a x -> if x < a then x else a) Float.infinity t);
          put_f (List.fold_left (fun a x -> if x > a then x else a) Float.neg_infinity t))
        (run_seq fops () cs)
  | o -> put_w ("MODELERR unknown_op_" ^ o)

let () = run handler
