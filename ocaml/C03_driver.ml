(* C03 model driver: `open C03_m`, conv.inc and Common are prepended by bin/setup.
   Case grammar (see checks/C03.py):
     int     a b eps depth  fam np p1..pnp  <fexpr>   -> value warn count trace...
     swap    a b eps depth  fam np p1..pnp  <fexpr>   -> value(a,b) warn count  value(b,a) warn count
     epssign a b eps depth  fam np p1..pnp  <fexpr>   -> value(eps) warn count  value(-eps) warn count
     findeps a b prec       fam np p1..pnp  <fexpr>   -> epsilon
     seq k <call>*k    several calls in one process, each answered with: value warn count min-abscissa max-abscissa
        I a b eps depth fam np p.. <fexpr>   Integrate(f,a,b,eps,depth)
        D a b eps       fam np p.. <fexpr>   Integrate(f,a,b,eps)               (default depth)
        M a b           fam np p.. <fexpr>   Integrate(f,a,b,"Adaptive-Simpson")
        F a b prec      fam np p.. <fexpr>   Find_Epsilon(f,a,b,prec)           (value = epsilon, 3 evaluations)
        X a b eps depth k fam np p.. <fexpr> Integrate(f,a,b,eps,depth) whose integrand abandons the integration (throws) at
                                             its k-th evaluation: answered `nan 0 k inf -inf`; when the call needs fewer
                                             than k evaluations it completes and is answered like I
        eps may be the token @ : the value returned by the latest F of the sequence (0 when there is none)
     nest <outer> a b [eps [depth]] <inner> [eps|prec [depth]] fam np p.. <lo> <hi> <g> <E>
        re-entrant integrand: the outer call (I: Integrate(F,a,b,eps,depth), D: default depth, M: string overload) integrates
        F(x) = E(x, J(x)) (fexpr E in x and y := J(x)), where J(x) is the value of a call the integrand itself makes
        (I eps depth / D eps / M / F prec) with integrand t -> g(x,t) (fexpr g in x and y := t) and limits lo(x), hi(x)
        (fexprs in x).  Answer: value warn count  inner-evaluations-total  largest-inner-count  inner-warnings
        inner-evaluations-outside-their-limits (model: 0)  answers-that-differ-from-the-call-made-alone (model: 0)
        first-such-abscissa (model: 0)  trace of the outer call *)
open Common
let trace_cap = 4500
let skip_family r = let _ = word r in let n = integer r in for _ = 1 to n do ignore (num r) done
let put_res full ((v, w), t) =
  put_f v; put_b w;
  let n = List.length t in put_i n;
  if full then begin
    if n <= trace_cap then List.iter put_f t
    else begin
      put_f (List.fold_left (fun a x -> if x < a then x else a) Float.infinity t);
      put_f (List.fold_left (fun a x -> if x > a then x else a) Float.neg_infinity t)
    end
  end

let handler r =
  match word r with
  | "int" -> let a = num r in let b = num r in let eps = num r in let d = integer r in
      skip_family r; let f = fun1 (parse_fexpr r) in
      put_res true (integrate fops f a b eps (z_of_int d))
  | "swap" -> let a = num r in let b = num r in let eps = num r in let d = integer r in
      skip_family r; let f = fun1 (parse_fexpr r) in
      put_res false (integrate fops f a b eps (z_of_int d));
      put_res false (integrate fops f b a eps (z_of_int d))
  | "epssign" -> let a = num r in let b = num r in let eps = num r in let d = integer r in
      skip_family r; let f = fun1 (parse_fexpr r) in
      put_res false (integrate fops f a b eps (z_of_int d));
      put_res false (integrate fops f a b (-. eps) (z_of_int d))
  | "findeps" -> let a = num r in let b = num r in let p = num r in
      skip_family r; let f = fun1 (parse_fexpr r) in
      put_f (find_epsilon fops f a b p)
  | "seq" ->
      let k = integer r in
      let last = ref 0.0 in
      let abandoned = ref [] in
      let eps_tok () = match word r with "@" -> !last | w -> (match w with "nan" -> Float.nan | "inf" -> Float.infinity | "-inf" -> Float.neg_infinity | _ -> float_of_string w) in
      let rec parse i = if i >= k then [] else begin
        let c = match word r with
          | "I" -> let a = num r in let b = num r in let eps = eps_tok () in let d = integer r in
              skip_family r; let f = fun1 (parse_fexpr r) in CInt (f, a, b, eps, z_of_int d)
          | "D" -> let a = num r in let b = num r in let eps = eps_tok () in
              skip_family r; let f = fun1 (parse_fexpr r) in CDef (f, a, b, eps)
          | "M" -> let a = num r in let b = num r in
              skip_family r; let f = fun1 (parse_fexpr r) in CMeth (f, a, b)
          | "X" -> let a = num r in let b = num r in let eps = eps_tok () in let d = integer r in
              let k = integer r in
              skip_family r; let f = fun1 (parse_fexpr r) in
              let (_, t) = integrate fops f a b eps (z_of_int d) in
              if List.length t >= k then abandoned := (i, k) :: !abandoned;
              CInt (f, a, b, eps, z_of_int d)
          | "F" -> let a = num r in let b = num r in let p = num r in
              skip_family r; let f = fun1 (parse_fexpr r) in
              last := find_epsilon fops f a b p; CFind (f, a, b, p)
          | o -> failwith ("unknown_call_" ^ o) in
        c :: parse (i + 1) end in
      let cs = parse 0 in
      List.iteri (fun i ((v, w), t) ->
          match List.assoc_opt i !abandoned with
          | Some k ->      (* an abandoned call leaves nothing behind: the state of the model is empty *)
              put_f Float.nan; put_i 0; put_i k; put_f Float.infinity; put_f Float.neg_infinity
          | None ->
          put_f v; put_b w; put_i (List.length t);
          put_f (List.fold_left (fun a x -> if x < a then x else a) Float.infinity t);
          put_f (List.fold_left (fun a x -> if x > a then x else a) Float.neg_infinity t))
        (run_seq fops () cs)
  | "nest" ->
      let ok = word r in
      let a = num r in let b = num r in
      let eps = if ok = "I" || ok = "D" then num r else 0.0 in
      let d = if ok = "I" then integer r else 20 in
      let ik = word r in
      let ieps = if ik = "I" || ik = "D" || ik = "F" then num r else 0.0 in
      let id = if ik = "I" then integer r else 20 in
      skip_family r;
      let lo = fun1 (parse_fexpr r) in let hi = fun1 (parse_fexpr r) in
      let g = parse_fexpr r in let e = parse_fexpr r in
      let mk x =
        let gi = fun t -> eval_fexpr g [| x; t; 0.0 |] in
        match ik with
        | "I" -> CInt (gi, lo x, hi x, ieps, z_of_int id)
        | "D" -> CDef (gi, lo x, hi x, ieps)
        | "M" -> CMeth (gi, lo x, hi x)
        | "F" -> CFind (gi, lo x, hi x, ieps)
        | o -> failwith ("unknown_call_" ^ o) in
      let ff = reentrant fops mk (fun x y -> eval_fexpr e [| x; y; 0.0 |]) in
      let ((v, w), t) = run_call fops (match ok with
        | "I" -> CInt (ff, a, b, eps, z_of_int d)
        | "D" -> CDef (ff, a, b, eps)
        | "M" -> CMeth (ff, a, b)
        | o -> failwith ("unknown_call_" ^ o)) in
      let (tot, mx, nw) = List.fold_left (fun (tot, mx, nw) x ->
          let ((_, wi), ti) = run_call fops (mk x) in
          let n = List.length ti in (tot + n, (if n > mx then n else mx), nw + (if wi then 1 else 0))) (0, 0, 0) t in
      put_f v; put_b w;
      let n = List.length t in put_i n;
      put_i tot; put_i mx; put_i nw; put_i 0; put_i 0; put_f 0.0;
      if n <= trace_cap then List.iter put_f t
      else begin
        put_f (List.fold_left (fun a x -> if x < a then x else a) Float.infinity t);
        put_f (List.fold_left (fun a x -> if x > a then x else a) Float.neg_infinity t)
      end
  | o -> put_w ("MODELERR unknown_op_" ^ o)

let () = run handler
