(* C20 model driver: `open C20_m`, conv.inc and Common are prepended by bin/build_driver.
   fmt6 — the number operator>> reads from the text operator<< wrote with the default stream precision 6 —
   is "%.6g" followed by float_of_string (strtod), which is what libstdc++ does. *)
open Common
let fmt6 (y : float) : float = float_of_string (Printf.sprintf "%.6g" y)

let res_out (put : 'a -> unit) (x : 'a res) = match x with
  | Ok v -> put v | Exit -> put_w "EXIT" | OOB -> put_w "OOB" | Fuel -> put_w "FUEL"
let put_table (t : float list list) = put_i (List.length t); List.iter put_fl t

(* header text: "-" = empty, otherwise hex-encoded bytes; the model takes the list of lines the writer
   produces (none for the empty string), each a list of tokens *)
let unhex (h : Stdlib.String.t) : Stdlib.String.t =
  if h = "-" then "" else String.init (String.length h / 2) (fun k -> Char.chr (int_of_string ("0x" ^ String.sub h (2 * k) 2)))
let is_simple_number (w : Stdlib.String.t) : bool =
  let n = String.length w in
  let digits = ref 0 and dots = ref 0 and ok = ref true in
  String.iter (fun c -> if c >= '0' && c <= '9' then incr digits else if c = '.' then incr dots else ok := false) w;
  n > 0 && !ok && !digits > 0 && !dots <= 1
(* raw-file tokens: plain decimal / scientific notation is a number, anything starting with another character a word *)
let is_number_token (w : Stdlib.String.t) : bool =
  String.length w > 0 && (match w.[0] with '0'..'9' | '-' | '+' | '.' -> true | _ -> false)
  && (match float_of_string_opt w with Some _ -> true | None -> false)
  && not (String.contains w '_') && not (String.contains w 'x') && not (String.contains w 'n') && not (String.contains w 'i')
let tokens_of (isnum : Stdlib.String.t -> bool) (l : Stdlib.String.t) : float tok list =
  String.split_on_char ' ' l |> List.concat_map (String.split_on_char '\t') |> List.filter (fun s -> s <> "")
  |> List.map (fun w -> if isnum w then Num (float_of_string w) else Word)
let header_lines (h : Stdlib.String.t) : float tok list list =
  if h = "" then [] else List.map (tokens_of is_simple_number) (String.split_on_char '\n' h)

(* OCaml string -> the extracted Coq string (list of ascii, least significant bit first) *)
let coq_string (s : Stdlib.String.t) =
  let asc c = let n = Char.code c in
    Ascii (n land 1 <> 0, n land 2 <> 0, n land 4 <> 0, n land 8 <> 0, n land 16 <> 0, n land 32 <> 0, n land 64 <> 0, n land 128 <> 0) in
  let rec go i = if i >= String.length s then EmptyString else String (asc s.[i], go (i + 1)) in
  go 0

let rd_round r = integer r <> 0
(* "amb <spec> <round-trip case>": the same request made in a process whose ambient state (global C++ locale, std::cout
   formatting state, old file at the path, working directory) was changed beforehand.  The functions of Utilities.cpp build
   their own streams, both the writer's and the reader's from the one global locale; the model's answer does not depend on it. *)
let rec handler r =
  match word r with
  | "amb" -> let _spec = word r in handler r
  | "in_units_s" -> let q = num r in let dim = num r in let rd = rd_round r in let dg = integer r in
      res_out put_f (in_units fops q dim rd (z_of_int dg))
  | "in_units_l" -> let q = list r in let dim = num r in let rd = rd_round r in let dg = integer r in
      res_out put_fl (in_units_list fops q dim rd (z_of_int dg))
  | "in_units_v" -> let q = list r in let dim = num r in let rd = rd_round r in let dg = integer r in
      res_out put_fl (in_units_vector fops q dim rd (z_of_int dg))
  | "in_units_t" -> let q = table r in let dim = num r in let rd = rd_round r in let dg = integer r in
      res_out put_table (in_units_table fops q dim rd (z_of_int dg))
  | "in_units_m" -> let q = table r in let dim = num r in let rd = rd_round r in let dg = integer r in
      res_out put_table (in_units_matrix fops q dim rd (z_of_int dg))
  | "in_units_td" -> let q = table r in let dims = list r in let rd = rd_round r in let dg = integer r in
      res_out put_table (in_units_table_dims fops q dims rd (z_of_int dg))
  | "reduced_mass" -> let a = num r in let b = num r in put_f (reduced_mass fops a b)
  | "rt_list" -> let _path = word r in let h = header_lines (unhex (word r)) in
      let data = list r in let dim = num r in
      let f = export_list fops fmt6 h data dim in
      (match roundtrip_list fops fmt6 h data dim with
       | Ok l -> put_i (int_of_z (count_lines (Some f))); put_fl l
       | Exit -> put_w "EXIT" | OOB -> put_w "OOB" | Fuel -> put_w "FUEL")
  | "rt_table" -> let _path = word r in let h = header_lines (unhex (word r)) in
      let data = table r in let dims = list r in let ign = integer r in
      let ign = if ign < 0 then List.length h else ign in
      res_out (fun (c, t) -> put_i (int_of_z c); put_table t) (roundtrip_table fops fmt6 h data dims (nat_of_int ign))
  | "rt_func" -> let _path = word r in let h = header_lines (unhex (word r)) in
      let f = fun1 (parse_fexpr r) in let xs = list r in let dims = list r in
      res_out (fun (c, t) -> put_i (int_of_z c); put_table t) (roundtrip_function_list fops fmt6 h f xs dims)
  | "rt_func2" -> let _path = word r in let h = header_lines (unhex (word r)) in
      let f = fun1 (parse_fexpr r) in let a = num r in let b = num r in let steps = integer r in
      let dims = list r in let lg = integer r <> 0 in
      res_out (fun (c, t) -> put_i (int_of_z c); put_table t)
        (roundtrip_function_range fops fmt6 h f a b (nat_of_int steps) dims lg)
  | ("session" | "lsession") as sop ->
      (* lsession <reps> ...: the block of calls made <reps> times over, in one process *)
      let reps = if sop = "lsession" then integer r else 1 in
      let np = integer r in let _paths = List.init np (fun _ -> word r) in
      let nops = integer r in
      let calls = List.init nops (fun _ ->
        let k = word r in let p = nat_of_int (integer r) in
        match k with
        | "el" -> let h = header_lines (unhex (word r)) in let l = list r in let d = num r in OExportList (p, h, l, d)
        | "et" -> let h = header_lines (unhex (word r)) in let t = table r in let d = list r in OExportTable (p, h, t, d)
        | "ef" -> let h = header_lines (unhex (word r)) in let f = fun1 (parse_fexpr r) in let xs = list r in let d = list r in
            OExportFunction (p, h, f, xs, d)
        | "er" -> let h = header_lines (unhex (word r)) in let f = fun1 (parse_fexpr r) in let a = num r in let b = num r in
            let steps = integer r in let d = list r in let lg = integer r <> 0 in
            OExportFunctionRange (p, h, f, a, b, nat_of_int steps, d, lg)
        | "il" -> let d = num r in let ign = integer r in OImportList (p, d, nat_of_int ign)
        | "it" -> let d = list r in let ign = integer r in OImportTable (p, d, nat_of_int ign)
        | "fe" -> OFileExists p
        | _ -> OCountLines p) in
      let calls = List.concat (List.init reps (fun _ -> calls)) in
      (match io_run fops fmt6 [] calls with
       | Ok (_, outs) ->
           let n = ref 0 in
           List.iter (fun a -> match a with
             | RUnit -> () | RList l -> incr n; put_fl l | RTable t -> incr n; put_table t
             | RCount c -> incr n; put_i (int_of_z c)
             | RBool b -> incr n; put_i (if b then 1 else 0)) outs;
           if !n = 0 then put_w "done"
       | Exit -> put_w "EXIT" | OOB -> put_w "OOB" | Fuel -> put_w "FUEL")
  | "import_missing" -> let _path = word r in let which = integer r in
      if which = 0 then res_out put_fl (import_list fops None 1.0 O)
      else res_out put_table (import_table fops None [] O)
  | "import_raw" -> let _path = word r in let which = integer r in let term = integer r <> 0 in let nl = integer r in
      let lines = List.init nl (fun _ -> let k = integer r in
                    List.init k (fun _ -> let w = word r in if is_number_token w then Num (float_of_string w) else Word)) in
      (* an unterminated empty last line is not a line *)
      let lines = if (not term) && nl > 0 && List.nth lines (nl - 1) = [] then List.filteri (fun i _ -> i < nl - 1) lines else lines in
      let dims = list r in let ign = integer r in
      let f = Some lines in
      if which = 0 then
        (match import_list fops f (match dims with [] -> 1.0 | d :: _ -> d) (nat_of_int ign) with
         | Ok l -> put_i (int_of_z (count_lines f)); put_fl l
         | Exit -> put_w "EXIT" | OOB -> put_w "OOB" | Fuel -> put_w "FUEL")
      else
        (match import_table fops f dims (nat_of_int ign) with
         | Ok t -> put_i (int_of_z (count_lines f)); put_table t
         | Exit -> put_w "EXIT" | OOB -> put_w "OOB" | Fuel -> put_w "FUEL")
  | "unit_fold" -> let name = coq_string (word r) in
      (* the constant's initialiser with the initialisers of the constants it names inlined: what the compiler folds *)
      res_out put_f (fold_const fops Float.pi defs name)
  | "unit_start" -> let name = coq_string (word r) in let k = integer r in
      (* the value after start-up when the k listed constants are initialised dynamically, in textual order *)
      let dyn = List.init k (fun _ -> coq_string (word r)) in
      (match fold_const fops Float.pi defs name with
       | Ok _ -> put_f (startup_const fops Float.pi dyn defs name)
       | Exit -> put_w "EXIT" | OOB -> put_w "OOB" | Fuel -> put_w "FUEL")
  | "units" -> put_w "see-extra-stage"
  | o -> put_w ("MODELERR unknown_op_" ^ o)

let () = run handler
