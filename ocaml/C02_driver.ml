(* C02 model driver: `open C02_m`, conv.inc and Common are prepended by bin/setup.
   Case grammar (see checks/C02.py):   root a b acc  fam np p1..pnp  <fexpr>
   Output: result  warn(1 = maximum-iteration return)  number of evaluations  the abscissae in call order;  or EXIT
   (op both: the same for Find_Root(a,b) and then for Find_Root(b,a))
   seq k  <a b acc fam np p1..pnp fexpr> x k : k requests served one after the other by one process; output: the k answers
   in order, or EXIT when one of the calls ends the process
   sgn x / sgn2 x y : Sign(x) (int) / Sign(x,y) (double), the terms sign1 / sign2 of Num.v the model is written with *)
open Common
let skip_family r = let _ = word r in let n = integer r in for _ = 1 to n do ignore (num r) done
let handler r =
  match word r with
  | "root" -> let a = num r in let b = num r in let acc = num r in
      skip_family r; let f = fun1 (parse_fexpr r) in
      (match find_root_h fops f a b acc with
       | (Ok (x, h), tr) -> put_f x; put_b (h = HMaxIter); put_fl tr
       | (Exit, _) -> put_w "EXIT" | (OOB, _) -> put_w "OOB" | (Fuel, _) -> put_w "FUEL")
  | "both" -> let a = num r in let b = num r in let acc = num r in
      skip_family r; let f = fun1 (parse_fexpr r) in
      (match find_root_h fops f a b acc, find_root_h fops f b a acc with
       | (Ok (x, h), tr), (Ok (y, h2), tr2) ->
           put_f x; put_b (h = HMaxIter); put_fl tr; put_f y; put_b (h2 = HMaxIter); put_fl tr2
       | (Exit, _), _ | _, (Exit, _) -> put_w "EXIT"
       | _ -> put_w "OOB")
  | "seq" -> let k = integer r in
      let rec reqs i = if i = 0 then [] else
        let a = num r in let b = num r in let acc = num r in
        skip_family r; let f = fun1 (parse_fexpr r) in
        let q = (((f, a), b), acc) in q :: reqs (i - 1) in
      let rs = reqs k in
      let outs = find_root_seq fops rs in
      if List.exists (fun (o, _) -> match o with Ok _ -> false | _ -> true) outs then
        put_w (match List.find (fun (o, _) -> match o with Ok _ -> false | _ -> true) outs with
               | (Exit, _) -> "EXIT" | (OOB, _) -> "OOB" | _ -> "FUEL")
      else List.iter (fun (o, tr) -> match o with
                       | Ok (x, h) -> put_f x; put_b (h = HMaxIter); put_fl tr
                       | _ -> ()) outs
  | "sgn" -> let x = num r in put_i (int_of_z (sign1 fops x))
  | "sgn2" -> let x = num r in let y = num r in put_f (sign2 fops x y)
  | o -> put_w ("MODELERR unknown_op_" ^ o)
let () = run handler
