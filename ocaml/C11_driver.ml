(* C11 model driver: `open C11_m`, conv.inc and Common are prepended by bin/build_driver *)
open Common
let put_res pf = function Ok v -> pf v | Exit -> put_w "EXIT" | OOB -> put_w "OOB" | Fuel -> put_w "FUEL"
let put_table (t : float list list) = put_i (List.length t); List.iter put_fl t
let funv (e : fexpr) : float list -> float = fun p -> eval_fexpr e (Array.of_list p)
let put_out (o : float nmout) =
  put_fl o.o_pmin; put_f o.o_fmin; put_fl o.o_y; put_table o.o_simplex; put_i (int_of_z o.o_nfunc); put_table o.o_tr

let handler r =
  match word r with
  | "fmin" -> let xl = num r in let xr = num r in let tol = num r in let e = parse_fexpr r in
      put_res (fun (x, tr) -> put_f x; put_fl tr) (find_minimum fops (fun1 e) xl xr tol)
  | "fmax" -> let xl = num r in let xr = num r in let tol = num r in let e = parse_fexpr r in
      put_res (fun (x, tr) -> put_f x; put_fl tr) (find_maximum fops (fun1 e) xl xr tol)
  | "fmin_default" -> let xl = num r in let xr = num r in let e = parse_fexpr r in
      put_res (fun (x, tr) -> put_f x; put_fl tr) (find_minimum fops (fun1 e) xl xr 3e-8)
  | "fmax_default" -> let xl = num r in let xr = num r in let e = parse_fexpr r in
      put_res (fun (x, tr) -> put_f x; put_fl tr) (find_maximum fops (fun1 e) xl xr 3e-8)
  | "fpair" -> let xl = num r in let xr = num r in let tol = num r in let e = parse_fexpr r in
      let f = fun1 e in
      (match find_maximum fops f xl xr tol, find_minimum fops (fun x -> -1.0 *. f x) xl xr tol with
       | Ok (x1, t1), Ok (x2, t2) -> put_f x1; put_fl t1; put_f x2; put_fl t2
       | Fuel, _ | _, Fuel -> put_w "FUEL"
       | _ -> put_w "EXIT")
  | "nm" -> let ftol = num r in let pp = table r in let e = parse_fexpr r in
      put_res put_out (minimize_general fops (funv e) ftol pp)
  | "nmd" -> let ftol = num r in let st = list r in let ds = list r in let e = parse_fexpr r in
      put_res put_out (minimize_deltas fops (funv e) ftol st ds)
  | "nm1" -> let ftol = num r in let st = list r in let d = num r in let e = parse_fexpr r in
      put_res put_out (minimize_delta fops (funv e) ftol st d)
  | o -> put_w ("MODELERR unknown_op_" ^ o)

let () = run handler
