(* C11 model driver: `open C11_m`, conv.inc and Common are prepended by bin/build_driver *)
open Common
let put_res pf = function Ok v -> pf v | Exit -> put_w "EXIT" | OOB -> put_w "OOB" | Fuel -> put_w "FUEL"
let put_table (t : float list list) = put_i (List.length t); List.iter put_fl t
let funv (e : fexpr) : float list -> float = fun p -> eval_fexpr e (Array.of_list p)
let put_out (o : float nmout) =
  put_fl o.o_pmin; put_f o.o_fmin; put_fl o.o_y; put_table o.o_simplex; put_i (int_of_z o.o_nfunc); put_table o.o_tr

(* the process is gone when an inner minimisation does not return *)
exception Inner_exit of string
let res_word = function Exit -> "EXIT" | OOB -> "OOB" | Fuel -> "FUEL" | Ok _ -> "OK"
let obj0 () : float nmobj = { ob_nfunc = Z0; ob_mpts = O; ob_ndim = O; ob_fmin = 0.0; ob_y = []; ob_simplex = [] }

(* one request to minimize without the tolerance (it belongs to the object); arguments may refer to members of the objects:
   vsrc = g <list> | r <k> <i> <byref> (objs[k].current_simplex[i]) | y <k> <byref> (objs[k].y);  dsrc = vsrc | s (the starting vector itself).
   byref (the member itself or a copy of it) makes no difference to the model: arguments are values *)
let read_vsrc r : float vsrc =
  match word r with
  | "g" -> VGiven (list r)
  | "r" -> let k = integer r in let i = integer r in let _ = integer r in VRow (nat_of_int k, nat_of_int i)
  | "y" -> let k = integer r in let _ = integer r in VY (nat_of_int k)
  | w -> failwith ("vsrc " ^ w)
let read_dsrc r : float dsrc =
  if r.pos < Array.length r.toks && r.toks.(r.pos) = "s" then (ignore (word r); DStart) else DVec (read_vsrc r)
let read_req kind r (mk : reader -> (float list -> float)) : float nmreq =
  match kind with
  | "nm" -> let pp = table r in let f = mk r in ReqG (f, pp)
  | "nmS" -> let k = integer r in let _ = integer r in let f = mk r in ReqGS (f, nat_of_int k)
  | "nmd" -> let st = list r in let ds = list r in let f = mk r in ReqD (f, VGiven st, DVec (VGiven ds))
  | "nmdR" -> let st = read_vsrc r in let ds = read_dsrc r in let f = mk r in ReqD (f, st, ds)
  | "nm1R" -> let st = read_vsrc r in let d = num r in let f = mk r in Req1 (f, st, d)
  | _ -> let st = list r in let d = num r in let f = mk r in Req1 (f, VGiven st, d)

exception Seq_stop
(* seq: calls in one process on one or several objects; `same` = the answer equals the answer of a fresh object *)
let handle_seq r =
  let nobj = integer r in
  let ftols = Array.init nobj (fun _ -> num r) in
  let objs = Array.init nobj (fun _ -> obj0 ()) in
  let ncalls = integer r in
  (try
    for _ = 1 to ncalls do
      let ob = integer r in
      let kind = word r in
      (match kind with
       | "fmin" | "fmax" ->
           let xl = num r in let xr = num r in let tol = num r in let e = parse_fexpr r in
           (match (if kind = "fmin" then find_minimum else find_maximum) fops (fun1 e) xl xr tol with
            | Ok (x, tr) -> put_w "C"; put_f x; put_fl tr; put_i 1   (* find_minimum is a function of its arguments: a repetition gives the same answer *)
            | bad -> Buffer.clear buf; first := true; put_w (res_word bad); raise Seq_stop)
       (* the caller writes the public members *)
       | "putY" -> let y = list r in
           List.iteri (fun i x -> objs.(i) <- x) (objs_put fops (Array.to_list objs) (nat_of_int ob) (PutY y)); put_w "P"
       | "putS" -> let t = table r in
           List.iteri (fun i x -> objs.(i) <- x) (objs_put fops (Array.to_list objs) (nat_of_int ob) (PutS t)); put_w "P"
       | "putN" -> let nf = integer r in let mp = integer r in let nd = integer r in let fm = num r in
           List.iteri (fun i x -> objs.(i) <- x) (objs_put fops (Array.to_list objs) (nat_of_int ob) (PutN (z_of_int nf, nat_of_int mp, nat_of_int nd, fm))); put_w "P"
       | _ ->
           (* `ab <n> <request>`: the objective throws at its n-th evaluation (the call is abandoned unless it returns earlier) *)
           let nab, kind = if kind = "ab" then (let n = integer r in let k2 = word r in (n, k2)) else (0, kind) in
           let q = read_req kind r (fun r -> funv (parse_fexpr r)) in
           let ol = Array.to_list objs and fl = Array.to_list ftols in
           let normal () =
             (match objs_call fops ol fl (nat_of_int ob) q with
              | Ok (ol', o) ->
                  let same = (match fresh_call fops ftols.(ob) (req_call fops ol q) with Ok o2 -> if compare o2 o = 0 then 1 else 0 | _ -> 0) in
                  List.iteri (fun i x -> objs.(i) <- x) ol';
                  put_w "C"; put_out o; put_i same
              | bad -> Buffer.clear buf; first := true; put_w (res_word bad); raise Seq_stop) in
           if nab <= 0 then normal ()
           else
             (match abandoned_call fops ftols.(ob) (req_call fops ol q) (nat_of_int nab) with
              | Ok (Some pts) ->
                  (* the state the abandoned call leaves in the object is not modelled (the theorems hold for every state): the object is
                     kept as it was; the case language does not refer to its members until it has returned from a call *)
                  List.iteri (fun i x -> objs.(i) <- x) (objs_abandon ol (nat_of_int ob) objs.(ob));
                  put_w "A"; put_table pts
              | Ok None -> normal ()
              | Exit ->
                  (* the completed call would end the process (size guard, NMAX); the abandoned one gets there only if it is not abandoned first:
                     run the call with an objective that stops at its n-th evaluation *)
                  let cnt = ref 0 and seen = ref [] in
                  let stop = (fun f -> fun x -> incr cnt; seen := x :: !seen; if !cnt >= nab then raise Seq_stop else f x) in
                  let c = (match req_call fops ol q with
                    | CallG (f, pp) -> CallG (stop f, pp) | CallD (f, st, ds) -> CallD (stop f, st, ds) | Call1 (f, st, d) -> Call1 (stop f, st, d)) in
                  let pp0 = (match req_call fops ol q with
                    | CallG (_, pp) -> pp | CallD (_, st, ds) -> simplex_of fops st ds | Call1 (_, st, d) -> simplex_of fops st (List.map (fun _ -> d) st)) in
                  let abandoned = (try ignore (fresh_call fops ftols.(ob) c); false with Seq_stop -> true) in
                  if abandoned then begin
                    (* the initial vertices are asked for in row order (C11_abandoned_call_evaluations); later points in evaluation order *)
                    let m = List.length pp0 in
                    let rec take k l = if k <= 0 then [] else (match l with [] -> [] | a :: t -> a :: take (k - 1) t) in
                    let rec drop k l = if k <= 0 then l else (match l with [] -> [] | _ :: t -> drop (k - 1) t) in
                    put_w "A"; put_table (take nab pp0 @ drop m (List.rev !seen))
                  end else (Buffer.clear buf; first := true; put_w "EXIT"; raise Seq_stop)
              | bad -> Buffer.clear buf; first := true; put_w (res_word bad); raise Seq_stop))
    done
  with Seq_stop -> ())

(* nest: F(x) = min_z g(x ++ z), the inner minimisation by the model as well *)
let handle_nest r =
  let outer = word r in
  let xl = ref 0.0 and xr = ref 0.0 and tol = ref 0.0 and ftol = ref 0.0 in
  let call = ref None in
  if outer = "fmin" then (xl := num r; xr := num r; tol := num r)
  else (ftol := num r;
        call := Some (match outer with
          | "nm" -> let pp = table r in `G pp
          | "nmd" -> let st = list r in let ds = list r in `D (st, ds)
          | _ -> let st = list r in let d = num r in `One (st, d)));
  let inner = word r in
  let ftol_in = ref 0.0 and din = ref 0.0 and zl = ref 0.0 and zr = ref 0.0 and tol_in = ref 0.0 and shared = ref 0 and z0 = ref [] in
  if inner = "nm1" then (ftol_in := num r; z0 := list r; din := num r; shared := integer r)
  else (zl := num r; zr := num r; tol_in := num r);
  let e = parse_fexpr r in
  let g = funv e in
  let inner_obj = ref (obj0 ()) in
  let bigf (x : float list) : float =
    if inner = "nm1" then
      (match profile_nm1 fops g (if !shared <> 0 then !inner_obj else obj0 ()) !ftol_in !z0 !din x with
       | Ok (ob', v) -> if !shared <> 0 then inner_obj := ob'; v
       | bad -> raise (Inner_exit (res_word bad)))
    else
      (match profile_fmin fops g !zl !zr !tol_in x with
       | Ok v -> v
       | bad -> raise (Inner_exit (res_word bad))) in
  (* the values the objective returned, in call order: recomputed from the trace (F is a function: C11_minimize_history_independent),
     so that nothing depends on the order in which the extracted code happens to evaluate [map f pp] *)
  let fobj x = bigf x in
  try
    if outer = "fmin" then
      (match find_minimum fops (fun x -> fobj [x]) !xl !xr !tol with
       | Ok (x, tr) -> put_f x; put_fl tr; put_fl (List.map (fun t -> bigf [t]) tr); put_f (bigf [x])
       | bad -> put_w (res_word bad))
    else
      (let res = match !call with
         | Some (`G pp) -> minimize_general fops fobj !ftol pp
         | Some (`D (st, ds)) -> minimize_deltas fops fobj !ftol st ds
         | Some (`One (st, d)) -> minimize_delta fops fobj !ftol st d
         | None -> Exit in
       match res with
       | Ok o -> put_out o; put_fl (List.map bigf o.o_tr); put_fl (List.map bigf o.o_simplex)
       | bad -> put_w (res_word bad))
  with Inner_exit w -> Buffer.clear buf; first := true; put_w w

let handler r =
  match word r with
  | "seq" -> handle_seq r
  | "nest" -> handle_nest r
  | "fmin" -> let xl = num r in let xr = num r in let tol = num r in let e = parse_fexpr r in
      put_res (fun (x, tr) -> put_f x; put_fl tr) (find_minimum fops (fun1 e) xl xr tol)
  | "fmax" -> let xl = num r in let xr = num r in let tol = num r in let e = parse_fexpr r in
      put_res (fun (x, tr) -> put_f x; put_fl tr) (find_maximum fops (fun1 e) xl xr tol)
  | "fmin_default" -> let xl = num r in let xr = num r in let e = parse_fexpr r in
      put_res (fun (x, tr) -> put_f x; put_fl tr) (find_minimum_default fops (fun1 e) xl xr)
  | "fmax_default" -> let xl = num r in let xr = num r in let e = parse_fexpr r in
      put_res (fun (x, tr) -> put_f x; put_fl tr) (find_maximum_default fops (fun1 e) xl xr)
  | "fpair" -> let xl = num r in let xr = num r in let tol = num r in let e = parse_fexpr r in
      let f = fun1 e in
      (match find_maximum fops f xl xr tol, find_minimum fops (fun x -> -1.0 *. f x) xl xr tol with
       | Ok (x1, t1), Ok (x2, t2) -> put_f x1; put_fl t1; put_f x2; put_fl t2
       | Fuel, _ | _, Fuel -> put_w "FUEL"
       | _ -> put_w "EXIT")
  | "nm" -> let ftol = num r in let pp = table r in let e = parse_fexpr r in
      put_res put_out (minimize_general fops (funv e) ftol pp)
  | "nmd" -> let ftol = num r in let st = list r in let ds = list r in let e = parse_fexpr r in
      put_res put_out (minimize_deltas fops (funv e) ftol st ds)
  | "nm1" -> let ftol = num r in let st = list r in let d = num r in let e = parse_fexpr r in
      put_res put_out (minimize_delta fops (funv e) ftol st d)
  | o -> put_w ("MODELERR unknown_op_" ^ o)

let () = run handler
