(* C12 model driver: `open C12_m`, conv.inc and Common are prepended by bin/build_driver *)
open Common
let put_rule (rw : float list list) =
  put_i (List.length rw); List.iter (fun r -> put_f (List.nth r 0)) rw; List.iter (fun r -> put_f (List.nth r 1)) rw
let put_res pf = function Ok v -> pf v | Exit -> put_w "EXIT" | OOB -> put_w "OOB" | Fuel -> put_w "FUEL"
let bind x f = match x with Ok v -> f v | Exit -> Exit | OOB -> OOB | Fuel -> Fuel

(* ---- nested integrations and sessions (grammar: checks/C12.py).  The library keeps no state between calls, so a session
   is answered request by request by the pure model; a request abandoned by its integrand (exception) answers with the
   number of evaluations of the innermost integrand reached. *)
exception Abandon
exception Stop of string
let kind_of = function "I" -> KInt | "F" -> KFun | "U" -> KVal | "D" -> KDef | k -> failwith ("unknown kind " ^ k)
(* levels with an optional handler: a kind followed by 'c' carries the substitute value *)
let read_levelsX r d =
  List.init d (fun _ -> let w = word r in let k = kind_of (String.sub w 0 1) in let n = integer r in let a = num r in let b = num r in
    let h = if String.length w > 1 && w.[1] = 'c' then Some (num r) else None in (((k, nat_of_int n), (a, b)), h))
let read_levels r d = List.map (fun (l, h) -> if h <> None then failwith "handler in a plain nest"; l) (read_levelsX r d)
let count = ref 0
let abandon_at = ref 0
let read_core r : float list -> float res =
  let arr xs = let v = Array.make 16 0.0 in List.iteri (fun k x -> if k < 16 then v.(k) <- x) xs; v in
  let tick () = incr count; if !abandon_at > 0 && !count >= !abandon_at then raise Abandon in
  match word r with
  | "P" -> let e = parse_fexpr r in (fun xs -> tick (); Ok (eval_fexpr e (arr xs)))
  | "G" -> let k = integer r in let n = integer r in let a = num r in let b = num r in let e = parse_fexpr r in
      (fun xs -> tick (); let ev = eval_fexpr e (arr xs) in
        bind (gl_rule fops (nat_of_int n) a b) (fun rw ->
        bind (gl_integrate_values fops (List.init k (fun _ -> 1.0)) rw) (fun s -> Ok (ev *. s))))
  | c -> failwith ("unknown core " ^ c)
(* the same cores for integrands that may throw: Ok None = an exception propagates (T: where cond < 0; X requests: from the
   at-th evaluation on) *)
let read_coreX r : float list -> float option res =
  let arr xs = let v = Array.make 16 0.0 in List.iteri (fun k x -> if k < 16 then v.(k) <- x) xs; v in
  let tick () = incr count; !abandon_at > 0 && !count >= !abandon_at in
  match word r with
  | "P" -> let e = parse_fexpr r in (fun xs -> if tick () then Ok None else Ok (Some (eval_fexpr e (arr xs))))
  | "T" -> let c = parse_fexpr r in let e = parse_fexpr r in
      (fun xs -> if tick () then Ok None else if eval_fexpr c (arr xs) < 0.0 then Ok None else Ok (Some (eval_fexpr e (arr xs))))
  | "G" -> let k = integer r in let n = integer r in let a = num r in let b = num r in let e = parse_fexpr r in
      (fun xs -> if tick () then Ok None else let ev = eval_fexpr e (arr xs) in
        bind (gl_rule fops (nat_of_int n) a b) (fun rw ->
        bind (gl_integrate_values fops (List.init k (fun _ -> 1.0)) rw) (fun s -> Ok (Some (ev *. s)))))
  | c -> failwith ("unknown core " ^ c)
let put_x = function Some v -> put_f v | None -> put_w "A"; put_i !count
let force = function Ok v -> v | Exit -> raise (Stop "EXIT") | OOB -> raise (Stop "OOB") | Fuel -> raise (Stop "FUEL")
let stop_with w = Buffer.clear buf; first := true; put_w w

let handler r =
  match word r with
  | "rule" -> let n = integer r in let a = num r in let b = num r in
      put_res put_rule (gl_rule fops (nat_of_int n) a b)
  | "pair" -> let n = integer r in let a = num r in let b = num r in
      (match gl_rule fops (nat_of_int n) a b, gl_rule fops (nat_of_int n) b a with
       | Ok r1, Ok r2 -> put_rule r1; put_rule r2
       | Fuel, _ | _, Fuel -> put_w "FUEL"
       | _ -> put_w "EXIT")
  | "rule_default" -> let n = integer r in put_res put_rule (gl_rule_default fops (nat_of_int n))
  | "int" -> (* the three overloads on the same request *)
      let n = integer r in let a = num r in let b = num r in let e = parse_fexpr r in
      let f = fun1 e in
      let n' = nat_of_int n in
      let r1 = gl_integrate fops f a b n' in
      let r2 = bind (gl_rule fops n' a b) (fun rw -> gl_integrate_fun fops f rw) in
      let r3 = bind (gl_rule fops n' a b) (fun rw -> gl_integrate_values fops (List.map (fun row -> f (List.nth row 0)) rw) rw) in
      (match r1, r2, r3 with
       | Ok v1, Ok v2, Ok v3 -> put_f v1; put_f v2; put_f v3
       | Fuel, _, _ | _, Fuel, _ | _, _, Fuel -> put_w "FUEL"
       | OOB, _, _ | _, OOB, _ | _, _, OOB -> put_w "OOB"
       | _ -> put_w "EXIT")
  | "int_default" -> let a = num r in let b = num r in let e = parse_fexpr r in
      put_res put_f (gl_integrate_default fops (fun1 e) a b)
  | "values" -> (* value overload with caller-supplied values on a computed rule: n a b, then the values *)
      let n = integer r in let a = num r in let b = num r in let vals = list r in
      put_res put_f (bind (gl_rule fops (nat_of_int n) a b) (fun rw -> gl_integrate_values fops vals rw))
  | "values_rows" -> (* value overload on a caller-supplied table (rows may be ragged): values, then the table *)
      let vals = list r in let rows = table r in
      put_res put_f (gl_integrate_values fops vals rows)
  | "fun_rows" -> (* function overload on a caller-supplied table of non-empty rows: table, then the integrand *)
      let rows = table r in let e = parse_fexpr r in
      put_res put_f (gl_integrate_fun fops (fun1 e) rows)
  | "nest" -> (* the outermost level through each of the three overloads *)
      let d = integer r in let levs = read_levels r d in let core = read_core r in
      count := 0; abandon_at := 0;
      (try
        List.iter (fun k ->
          let levs' = match levs with ((_, n), ab) :: rest -> ((k, n), ab) :: rest | [] -> [] in
          put_f (force (gl_nest fops levs' core []))) [KInt; KFun; KVal]
       with Stop w -> stop_with w)
  | "nestx" -> (* integrands that throw and handle: the outermost level through each overload, then every level through (values, rule) *)
      let d = integer r in let levs = read_levelsX r d in let core = read_coreX r in
      (try
        List.iter (fun variant ->
          let levs' = match variant, levs with
            | Some k, (((_, n), ab), h) :: rest -> (((k, n), ab), h) :: rest
            | None, _ -> List.map (fun (((k, n), ab), h) -> (((KVal, (if k = KDef then nat_of_int 30 else n)), ab), h)) levs
            | _, [] -> [] in
          count := 0; abandon_at := 0;
          put_x (force (gl_nestX fops levs' core []))) [Some KInt; Some KFun; Some KVal; None]
       with Stop w -> stop_with w)
  | "sess" ->
      let k = integer r in
      (try
        for _ = 1 to k do
          match word r with
          | "R" -> let n = integer r in let a = num r in let b = num r in
              put_rule (force (gl_rule fops (nat_of_int n) a b))
          | "V" -> let n = integer r in let a = num r in let b = num r in let vals = list r in
              put_f (force (bind (gl_rule fops (nat_of_int n) a b) (fun rw -> gl_integrate_values fops vals rw)))
          | ("N" | "X") as c ->
              let at = if c = "X" then integer r else 0 in
              let d = integer r in let levs = read_levelsX r d in let core = read_coreX r in
              count := 0; abandon_at := at;
              let v = gl_nestX fops levs core [] in
              abandon_at := 0; put_x (force v)
          | c -> failwith ("unknown request " ^ c)
        done
       with Stop w -> stop_with w)
  | o -> put_w ("MODELERR unknown_op_" ^ o)

let () = run handler
