(* C12 model driver: `open C12_m`, conv.inc and Common are prepended by bin/build_driver *)
open Common
let put_rule (rw : float list list) =
  put_i (List.length rw); List.iter (fun r -> put_f (List.nth r 0)) rw; List.iter (fun r -> put_f (List.nth r 1)) rw
let put_res pf = function Ok v -> pf v | Exit -> put_w "EXIT" | OOB -> put_w "OOB" | Fuel -> put_w "FUEL"
let bind x f = match x with Ok v -> f v | Exit -> Exit | OOB -> OOB | Fuel -> Fuel

let handler r =
  match word r with
  | "rule" -> let n = integer r in let a = num r in let b = num r in
      put_res put_rule (gl_rule fops (nat_of_int n) a b)
  | "pair" -> let n = integer r in let a = num r in let b = num r in
      (match gl_rule fops (nat_of_int n) a b, gl_rule fops (nat_of_int n) b a with
       | Ok r1, Ok r2 -> put_rule r1; put_rule r2
       | Fuel, _ | _, Fuel -> put_w "FUEL"
       | _ -> put_w "EXIT")
  | "rule_default" -> let n = integer r in put_res put_rule (gl_rule_default fops (nat_of_int n))
  | "int" -> (* the three overloads on the same request *)
      let n = integer r in let a = num r in let b = num r in let e = parse_fexpr r in
      let f = fun1 e in
      let n' = nat_of_int n in
      let r1 = gl_integrate fops f a b n' in
      let r2 = bind (gl_rule fops n' a b) (fun rw -> gl_integrate_fun fops f rw) in
      let r3 = bind (gl_rule fops n' a b) (fun rw -> gl_integrate_values fops (List.map (fun row -> f (List.nth row 0)) rw) rw) in
      (match r1, r2, r3 with
       | Ok v1, Ok v2, Ok v3 -> put_f v1; put_f v2; put_f v3
       | Fuel, _, _ | _, Fuel, _ | _, _, Fuel -> put_w "FUEL"
       | OOB, _, _ | _, OOB, _ | _, _, OOB -> put_w "OOB"
       | _ -> put_w "EXIT")
  | "int_default" -> let a = num r in let b = num r in let e = parse_fexpr r in
      put_res put_f (gl_integrate_default fops (fun1 e) a b)
  | "values" -> (* value overload with caller-supplied values on a computed rule: n a b, then the values *)
      let n = integer r in let a = num r in let b = num r in let vals = list r in
      put_res put_f (bind (gl_rule fops (nat_of_int n) a b) (fun rw -> gl_integrate_values fops vals rw))
  | "values_rows" -> (* value overload on a caller-supplied table (rows may be ragged): values, then the table *)
      let vals = list r in let rows = table r in
      put_res put_f (gl_integrate_values fops vals rows)
  | "fun_rows" -> (* function overload on a caller-supplied table of non-empty rows: table, then the integrand *)
      let rows = table r in let e = parse_fexpr r in
      put_res put_f (gl_integrate_fun fops (fun1 e) rows)
  | o -> put_w ("MODELERR unknown_op_" ^ o)

let () = run handler
