(* C19 model driver: `open C19_m`, conv.inc and Common are prepended by bin/setup *)
open Common
let zl r = List.map z_of_int (ilist r)
let put_zl l = put_il (List.map int_of_z l)
let zeqb a b = int_of_z a = int_of_z b
let ztable r = let n = integer r in List.init n (fun _ -> zl r)

let handler r =
  match word r with
  | "workload" -> let w = integer r in let t = integer r in
      (match workload (nat_of_int w) (nat_of_int t) with Ok l -> put_zl l | Exit -> put_w "EXIT" | OOB -> put_w "OOB" | Fuel -> put_w "FUEL")
  | "range" -> let a = integer r in let b = integer r in let s = integer r in
      (match range (z_of_int a) (z_of_int b) (z_of_int s) with Some l -> put_zl l | None -> put_w "DIVERGE")
  | "linspace" -> let a = num r in let b = num r in let n = integer r in put_fl (linear_space fops a b (nat_of_int n))
  | "logspace" -> let a = num r in let b = num r in let n = integer r in put_fl (log_space fops a b (nat_of_int n))
  | "closest" -> let l = list r in let t = num r in
      (match closest_location fops l t with Ok i -> put_i (int_of_z i) | Exit -> put_w "EXIT" | OOB -> put_w "OOB" | Fuel -> put_w "FUEL")
  | "lists_equal" -> let a = zl r in let b = zl r in put_b (lists_equal zeqb a b)
  | "combine" -> let a = zl r in let b = zl r in put_zl (combine_lists a b)
  | "flatten" -> put_zl (flatten_list (ztable r))
  | "contains" -> let a = zl r in let x = integer r in put_b (list_contains zeqb a (z_of_int x))
  | "find_indices" -> let a = zl r in let x = integer r in put_zl (find_indices zeqb a (z_of_int x))
  | "sub_list" -> let a = zl r in let i1 = integer r in let i2 = integer r in put_zl (sub_list a (z_of_int i1) (z_of_int i2))
  | "transpose" ->
      (match transpose_lists Z0 (ztable r) with
       | Ok t -> put_i (List.length t); List.iter put_zl t
       | Exit -> put_w "EXIT" | OOB -> put_w "OOB" | Fuel -> put_w "FUEL")
  | "mean" -> put_f (arithmetic_mean fops (list r))
  | "variance" -> put_f (variance fops (list r))
  | "stddev" -> put_f (standard_deviation fops (list r))
  | "median" -> put_f (median fops (list r))
  | "wavg" -> let n = integer r in
      let d = List.init n (fun _ -> let v = num r in let w = num r in (v, w)) in
      let (a, se) = weighted_average fops d in put_f a; put_f se
  | o -> put_w ("MODELERR unknown_op_" ^ o)

let () = run handler
