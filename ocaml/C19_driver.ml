(* C19 model driver: `open C19_m`, conv.inc and Common are prepended by bin/setup *)
open Common
let zl r = List.map z_of_int (ilist r)
let put_zl l = put_il (List.map int_of_z l)
let zeqb a b = int_of_z a = int_of_z b
let ztable r = let n = integer r in List.init n (fun _ -> zl r)

let feqb = fops.neqb
let put_res_table put_row t =
  match t with
  | Ok t -> put_i (List.length t); List.iter put_row t
  | Exit -> put_w "EXIT" | OOB -> put_w "OOB" | Fuel -> put_w "FUEL"
let four_stats v =
  put_f (arithmetic_mean fops v); put_f (variance fops v); put_f (standard_deviation fops v); put_f (median fops v)
(* the model is a pure function: two results, and the caller's data unchanged *)
let put_wavg (a, se) = put_i 2; put_f a; put_f se; put_i 1

(* one sub-case of a session, answered into a string (the output buffer of Common is saved and restored) *)
let capture (f : unit -> unit) : string =
  let saved = Buffer.contents buf and sf = !first in
  Buffer.clear buf; first := true;
  f ();
  let s = Buffer.contents buf in
  Buffer.clear buf; Buffer.add_string buf saved; first := sf; s

let rec handler r =
  match word r with
  (* a session: the extracted [session] answers the requests one after the other; the ambient state is not an input of any answer
     (here: unit), events of the caller's side (the amb_ sub-cases) answer with a dot *)
  | "seq" -> let n = integer r in
      let subs = List.init n (fun _ -> let len = integer r in let toks = Array.init len (fun _ -> word r) in { toks = toks; pos = 0 }) in
      let outs = session (fun sr -> capture (fun () -> handler sr)) (fun _ a -> a) () subs in
      List.iteri (fun k s -> if k > 0 then put_w "|"; put_w s) outs
  | "amb_errno" | "amb_fe" | "amb_stream" | "amb_call" | "amb_libm" -> put_w "."
  | "workload" -> let w = integer r in let t = integer r in
      (match workload (nat_of_int w) (nat_of_int t) with Ok l -> put_zl l | Exit -> put_w "EXIT" | OOB -> put_w "OOB" | Fuel -> put_w "FUEL")
  | "range" -> let a = integer r in let b = integer r in let s = integer r in
      (match range (z_of_int a) (z_of_int b) (z_of_int s) with Some l -> put_zl l | None -> put_w "DIVERGE")
  | "linspace" -> let a = num r in let b = num r in let n = integer r in put_fl (linear_space fops a b (nat_of_int n))
  | "logspace" -> let a = num r in let b = num r in let n = integer r in put_fl (log_space fops a b (nat_of_int n))
  | "closest" -> let l = list r in let t = num r in
      (match closest_location fops l t with Ok i -> put_i (int_of_z i) | Exit -> put_w "EXIT" | OOB -> put_w "OOB" | Fuel -> put_w "FUEL")
  | "lists_equal" -> let a = zl r in let b = zl r in put_b (lists_equal zeqb a b)
  | "combine" -> let a = zl r in let b = zl r in put_zl (combine_lists a b)
  | "flatten" -> put_zl (flatten_list (ztable r))
  | "contains" -> let a = zl r in let x = integer r in put_b (list_contains zeqb a (z_of_int x))
  | "find_indices" -> let a = zl r in let x = integer r in put_zl (find_indices zeqb a (z_of_int x))
  | "sub_list" -> let a = zl r in let i1 = integer r in let i2 = integer r in put_zl (sub_list a (z_of_int i1) (z_of_int i2))
  | "transpose" ->
      (match transpose_lists Z0 (ztable r) with
       | Ok t -> put_i (List.length t); List.iter put_zl t
       | Exit -> put_w "EXIT" | OOB -> put_w "OOB" | Fuel -> put_w "FUEL")
  | "mean" -> put_f (arithmetic_mean fops (list r))
  | "variance" -> put_f (variance fops (list r))
  | "stddev" -> put_f (standard_deviation fops (list r))
  | "median" -> put_f (median fops (list r))
  | "wavg" -> let n = integer r in
      let d = List.init n (fun _ -> let v = num r in let w = num r in (v, w)) in
      let (a, se) = weighted_average fops d in put_f a; put_f se
  | "range1" -> let b = integer r in
      (match range1 (z_of_int b) with Some l -> put_zl l | None -> put_w "DIVERGE")
  | "range2" -> let a = integer r in let b = integer r in
      (match range2 (z_of_int a) (z_of_int b) with Some l -> put_zl l | None -> put_w "DIVERGE")
  | "lists_equal2" -> let a = ztable r in let b = ztable r in put_b (lists_equal2 zeqb a b)
  | "transpose2" -> let a = zl r in let b = zl r in put_res_table put_zl (transpose_lists2 Z0 a b)
  | "lists_equal_d" -> let a = list r in let b = list r in put_b (lists_equal feqb a b)
  | "lists_equal2_d" -> let a = table r in let b = table r in put_b (lists_equal2 feqb a b)
  | "combine_d" -> let a = list r in let b = list r in put_fl (combine_lists a b)
  | "flatten_d" -> put_fl (flatten_list (table r))
  | "contains_d" -> let a = list r in let x = num r in put_b (list_contains feqb a x)
  | "find_indices_d" -> let a = list r in let x = num r in put_zl (find_indices feqb a x)
  | "sub_list_d" -> let a = list r in let i1 = integer r in let i2 = integer r in put_fl (sub_list a (z_of_int i1) (z_of_int i2))
  | "transpose_d" -> put_res_table put_fl (transpose_lists 0.0 (table r))
  | "transpose2_d" -> let a = list r in let b = list r in put_res_table put_fl (transpose_lists2 0.0 a b)
  | "median2" -> let l = list r in
      let ((m1, m2), l2) = median_twice fops l in put_f m1; put_f m2; put_fl l2
  | "wavg1" -> put_wavg (weighted_average_default fops (list r))
  | "laws" -> let x = list r in let p = num r in let t = num r in let k = integer r in
      four_stats x; four_stats (scale_data fops p x); four_stats (shift_data fops t x); four_stats (rotate_data (nat_of_int k) x)
  | "wlaws" -> let n = integer r in
      let d = List.init n (fun _ -> let v = num r in let w = num r in (v, w)) in
      let p = num r in let q = num r in let k = integer r in
      put_wavg (weighted_average fops d); put_wavg (weighted_average fops (scale_values fops p d));
      put_wavg (weighted_average fops (scale_weights fops q d)); put_wavg (weighted_average fops (rotate_data (nat_of_int k) d))
  | "wshift" -> let n = integer r in
      let d = List.init n (fun _ -> let v = num r in let w = num r in (v, w)) in
      let t = num r in
      put_wavg (weighted_average fops d); put_wavg (weighted_average fops (shift_values fops t d))
  | "history" -> let l = list r in
      let ops = List.map (fun c -> match c with 0 -> OpMean | 1 -> OpVariance | 2 -> OpStddev | _ -> OpMedian) (ilist r) in
      let (l', outs) = stat_history fops l ops in
      List.iter put_f outs; put_fl l'
  | "gridstat" -> let a = num r in let b = num r in let n = integer r in let k = integer r in
      let g = linear_space fops a b (nat_of_int n) in
      (match closest_location fops g (List.nth g k) with
       | Ok i -> let i = int_of_z i in
           put_f (arithmetic_mean fops g); put_f (median fops g); put_i i; put_f (List.nth g k); put_f (List.nth g i)
       | Exit -> put_w "EXIT" | OOB -> put_w "OOB" | Fuel -> put_w "FUEL")
  | "dpcmp" -> let mode = integer r in
      let v1 = num r in let w1 = num r in let v2 = num r in let w2 = num r in
      let a = if mode = 0 then datapoint v1 w1 else if mode = 1 then datapoint1 fops v1 else datapoint0 fops in
      let b = if mode = 1 then datapoint1 fops v2 else datapoint v2 w2 in
      put_f (fst a); put_f (snd a); put_f (fst b); put_f (snd b);
      put_b (dp_lt fops a b); put_b (dp_gt fops a b); put_b (dp_eq fops a b)
  | o -> put_w ("MODELERR unknown_op_" ^ o)

let () = run handler
