// C11 harness: Find_Minimum / Find_Maximum and Minimization::minimize with recorded evaluation traces (case grammar: checks/C11.py);
// seq = several calls in one process on shared objects (arguments may be the objects' own public members; the caller may write the public members between calls: putY/putS/putN;
// a call may be abandoned by an objective that throws at its n-th evaluation: ab), nest = the objective of a minimisation runs a minimisation itself
#include "common.hpp"
#include "libphysica/Numerics.hpp"
using namespace libphysica;
static void put_table(vh::Out& o, const std::vector<std::vector<double>>& t)
{
	o.i((long) t.size());
	for(auto& r : t)
		o.fl(r);
}
static void put_min(vh::Out& o, Minimization& m, const std::vector<double>& pmin, const std::vector<std::vector<double>>& trace)
{
	o.fl(pmin);
	o.f(m.fmin);
	o.fl(m.y);
	put_table(o, m.current_simplex);
	o.i(m.nfunc);
	put_table(o, trace);
}
static bool same_d(double a, double b) { return a == b || (a != a && b != b); }
static bool same_v(const std::vector<double>& a, const std::vector<double>& b)
{
	if(a.size() != b.size())
		return false;
	for(size_t i = 0; i < a.size(); i++)
		if(!same_d(a[i], b[i]))
			return false;
	return true;
}
static bool same_t(const std::vector<std::vector<double>>& a, const std::vector<std::vector<double>>& b)
{
	if(a.size() != b.size())
		return false;
	for(size_t i = 0; i < a.size(); i++)
		if(!same_v(a[i], b[i]))
			return false;
	return true;
}
// one request to Minimization::minimize (the three overloads) without the tolerance, which belongs to the object
struct NmCall
{
	std::string kind;
	std::vector<std::vector<double>> pp;
	std::vector<double> start, deltas;
	double delta = 0;
	void read(const std::string& k, vh::Reader& r)
	{
		kind = k;
		if(kind == "nm")
			pp = r.table();
		else
		{
			start = r.list();
			if(kind == "nmd")
				deltas = r.list();
			else
				delta = r.num();
		}
	}
	std::vector<double> run(Minimization& m, std::function<double(std::vector<double>)> g)
	{
		std::vector<std::vector<double>> pc = pp;	// the library takes non-const references: every run gets its own copies
		std::vector<double> sc = start, dc = deltas;
		if(kind == "nm")
			return m.minimize(pc, g);
		if(kind == "nmd")
			return m.minimize(sc, dc, g);
		return m.minimize(sc, delta, g);
	}
};
// a vector argument of minimize that may BE a public member of one of the objects (all overloads take non-const references):
//   g <list>            a vector of the caller
//   r <k> <i> <byref>   objs[k].current_simplex[i]  (byref = 1: the member itself is passed, 0: a copy of it)
//   y <k> <byref>       objs[k].y
struct VSrc
{
	char kind = 'g';
	std::vector<double> given;
	long k = 0, i = 0, byref = 0;
	void read(vh::Reader& r)
	{
		std::string w = r.word();
		kind		  = w.empty() ? '?' : w[0];
		if(kind == 'g')
			given = r.list();
		else if(kind == 'r')
		{
			k	  = r.integer();
			i	  = r.integer();
			byref = r.integer();
		}
		else if(kind == 'y')
		{
			k	  = r.integer();
			byref = r.integer();
		}
		else
		{
			fprintf(stderr, "harness: bad vector source\n");
			_exit(77);
		}
	}
	std::vector<double>& member(std::vector<std::unique_ptr<Minimization>>& objs)
	{
		Minimization& m = *objs.at(k);
		return kind == 'r' ? m.current_simplex.at(i) : m.y;
	}
	std::vector<double> value(std::vector<std::unique_ptr<Minimization>>& objs) { return kind == 'g' ? given : member(objs); }
	// the object to pass: the member itself, or the local holder filled with the value
	std::vector<double>& ref(std::vector<std::unique_ptr<Minimization>>& objs, std::vector<double>& holder)
	{
		if(kind != 'g' && byref)
			return member(objs);
		holder = value(objs);
		return holder;
	}
};
// one request of a seq run; kinds nm | nmd | nm1 (arguments of the caller) and
//   nmS <k> <byref>        minimize(objs[k].current_simplex, f)   (k = the called object: the restart from the reported simplex)
//   nm1R <vsrc> <delta>    minimize(<vsrc>, delta, f)
//   nmdR <vsrc> <dsrc>     minimize(<vsrc>, <dsrc>, f),  dsrc = <vsrc> | s (the very vector passed as the starting point)
struct SeqReq
{
	std::string kind;
	NmCall plain;
	long k = 0, byref = 0;
	VSrc st, ds;
	bool ds_is_start = false;
	double delta	 = 0;
	// the values of the arguments when the call starts
	std::vector<std::vector<double>> pp_val;
	std::vector<double> st_val, ds_val;
	void read(const std::string& kd, vh::Reader& r)
	{
		kind = kd;
		if(kind == "nmS")
		{
			k	  = r.integer();
			byref = r.integer();
		}
		else if(kind == "nm1R")
		{
			st.read(r);
			delta = r.num();
		}
		else if(kind == "nmdR")
		{
			st.read(r);
			if(r.more() && r.t[r.i] == "s")
			{
				r.word();
				ds_is_start = true;
			}
			else
				ds.read(r);
		}
		else
			plain.read(kind, r);
	}
	void capture(std::vector<std::unique_ptr<Minimization>>& objs)
	{
		if(kind == "nmS")
			pp_val = objs.at(k)->current_simplex;
		else if(kind == "nm1R" || kind == "nmdR")
		{
			st_val = st.value(objs);
			if(kind == "nmdR")
				ds_val = ds_is_start ? st_val : ds.value(objs);
		}
	}
	// the call as requested (members passed by reference where the case says so)
	std::vector<double> run(Minimization& m, std::vector<std::unique_ptr<Minimization>>& objs, std::function<double(std::vector<double>)> g)
	{
		if(kind == "nmS")
		{
			if(byref)
				return m.minimize(objs.at(k)->current_simplex, g);
			std::vector<std::vector<double>> pc = objs.at(k)->current_simplex;
			return m.minimize(pc, g);
		}
		if(kind == "nm1R" || kind == "nmdR")
		{
			std::vector<double> hs, hd;
			std::vector<double>& sref = st.ref(objs, hs);
			if(kind == "nm1R")
				return m.minimize(sref, delta, g);
			std::vector<double>& dref = ds_is_start ? sref : ds.ref(objs, hd);
			return m.minimize(sref, dref, g);
		}
		return plain.run(m, g);
	}
	// the same request on the captured values (for the fresh object)
	std::vector<double> run_values(Minimization& m, std::function<double(std::vector<double>)> g)
	{
		if(kind == "nmS")
		{
			std::vector<std::vector<double>> pc = pp_val;
			return m.minimize(pc, g);
		}
		if(kind == "nm1R")
		{
			std::vector<double> sc = st_val;
			return m.minimize(sc, delta, g);
		}
		if(kind == "nmdR")
		{
			std::vector<double> sc = st_val, dc = ds_val;
			return m.minimize(sc, dc, g);
		}
		return plain.run(m, g);
	}
};
struct Abandon
{
};
// seq: several calls in one process, on one or several Minimization objects (and 1-D calls in between); every Nelder-Mead call is
// repeated on a fresh object (on the values its arguments had when the call started) and compared bit for bit (token `same`)
static void handle_seq(vh::Reader& r, vh::Out& o)
{
	long nobj = r.integer();
	std::vector<std::unique_ptr<Minimization>> objs;
	std::vector<double> ftols;
	for(long k = 0; k < nobj; k++)
	{
		ftols.push_back(r.num());
		objs.emplace_back(new Minimization(ftols.back()));
	}
	long ncalls = r.integer();
	for(long c = 0; c < ncalls; c++)
	{
		long ob			 = r.integer();
		std::string kind = r.word();
		if(kind == "fmin" || kind == "fmax")
		{
			o.w("C");
			double xl = r.num(), xr = r.num(), tol = r.num();
			auto f = vh::fun1(vh::parse_fexpr(r));
			std::vector<double> trace;
			std::function<double(double)> g = [&](double x) {
				trace.push_back(x);
				return f(x);
			};
			double res = kind == "fmin" ? Find_Minimum(g, xl, xr, tol) : Find_Maximum(g, xl, xr, tol);
			o.f(res);
			o.fl(trace);
			// the identical request once more: same answer through the same evaluation points (token `same`)
			std::vector<double> first = trace;
			trace.clear();
			double res2 = kind == "fmin" ? Find_Minimum(g, xl, xr, tol) : Find_Maximum(g, xl, xr, tol);
			o.i(same_d(res, res2) && same_v(first, trace) ? 1 : 0);
			continue;
		}
		// the caller writes the public members of object ob (they are plain public data): putY <list> | putS <table> | putN <nfunc> <mpts> <ndim> <fmin>
		if(kind == "putY" || kind == "putS" || kind == "putN")
		{
			Minimization& m = *objs.at(ob);
			if(kind == "putY")
				m.y = r.list();
			else if(kind == "putS")
				m.current_simplex = r.table();
			else
			{
				m.nfunc = (int) r.integer();
				m.mpts	= (int) r.integer();
				m.ndim	= (int) r.integer();
				m.fmin	= r.num();
			}
			o.w("P");
			continue;
		}
		// ab <n> <request>: the objective throws at its n-th evaluation; the exception passes through minimize, the caller (here) catches it
		// and goes on using the object.  Answer: A <the points asked for>; a call that returns before its n-th evaluation answers as usual.
		long nab = 0;
		if(kind == "ab")
		{
			nab	 = r.integer();
			kind = r.word();
		}
		SeqReq call;
		call.read(kind, r);
		auto e = vh::parse_fexpr(r);
		std::vector<std::vector<double>> trace, trace2;
		std::function<double(std::vector<double>)> g = [&](std::vector<double> x) {
			trace.push_back(x);
			if(nab > 0 && (long) trace.size() >= nab)
				throw Abandon();
			return vh::eval_fexpr(*e, x.data());
		};
		std::function<double(std::vector<double>)> g2 = [&](std::vector<double> x) {
			trace2.push_back(x);
			return vh::eval_fexpr(*e, x.data());
		};
		Minimization& m = *objs.at(ob);
		call.capture(objs);
		std::vector<double> pmin;
		try
		{
			pmin = call.run(m, objs, g);
		}
		catch(const Abandon&)
		{
			o.w("A");
			put_table(o, trace);
			continue;
		}
		o.w("C");
		put_min(o, m, pmin, trace);
		Minimization fresh(ftols.at(ob));
		std::vector<double> pmin2 = call.run_values(fresh, g2);
		bool same = same_v(pmin, pmin2) && same_d(m.fmin, fresh.fmin) && same_v(m.y, fresh.y) && same_t(m.current_simplex, fresh.current_simplex) && m.nfunc == fresh.nfunc && same_t(trace, trace2);
		o.i(same ? 1 : 0);
	}
}
// nest: the objective of the outer minimisation is itself computed by a minimisation, F(x) = min_z g(x, z)
static void handle_nest(vh::Reader& r, vh::Out& o)
{
	std::string outer = r.word();
	double ftol = 0, xl = 0, xr = 0, tol = 0;
	NmCall call;
	if(outer == "fmin")
	{
		xl	= r.num();
		xr	= r.num();
		tol = r.num();
	}
	else
	{
		ftol = r.num();
		call.read(outer, r);
	}
	std::string inner = r.word();
	double ftol_in = 0, din = 0, zl = 0, zr = 0, tol_in = 0;
	long shared = 0;
	std::vector<double> z0;
	if(inner == "nm1")
	{
		ftol_in = r.num();
		z0		= r.list();
		din		= r.num();
		shared	= r.integer();
	}
	else
	{
		zl	   = r.num();
		zr	   = r.num();
		tol_in = r.num();
	}
	auto e = vh::parse_fexpr(r);
	Minimization inner_shared(ftol_in);
	// F(x), by the library
	auto F = [&](const std::vector<double>& x) -> double {
		if(inner == "nm1")
		{
			std::function<double(std::vector<double>)> gz = [&](std::vector<double> z) {
				std::vector<double> v = x;
				v.insert(v.end(), z.begin(), z.end());
				return vh::eval_fexpr(*e, v.data());
			};
			std::vector<double> zc = z0;
			if(shared)
			{
				inner_shared.minimize(zc, din, gz);
				return inner_shared.fmin;
			}
			Minimization mi(ftol_in);
			mi.minimize(zc, din, gz);
			return mi.fmin;
		}
		std::function<double(double)> gz = [&](double z) {
			std::vector<double> v = x;
			v.push_back(z);
			return vh::eval_fexpr(*e, v.data());
		};
		double zm = Find_Minimum(gz, zl, zr, tol_in);
		return gz(zm);
	};
	std::vector<double> vals;
	if(outer == "fmin")
	{
		std::vector<double> trace;
		std::function<double(double)> g = [&](double x) {
			trace.push_back(x);
			double v = F(std::vector<double>(1, x));
			vals.push_back(v);
			return v;
		};
		double res = Find_Minimum(g, xl, xr, tol);
		o.f(res);
		o.fl(trace);
		o.fl(vals);
		o.f(F(std::vector<double>(1, res)));
		return;
	}
	std::vector<std::vector<double>> trace;
	std::function<double(std::vector<double>)> g = [&](std::vector<double> x) {
		trace.push_back(x);
		double v = F(x);
		vals.push_back(v);
		return v;
	};
	Minimization m(ftol);
	std::vector<double> pmin = call.run(m, g);
	put_min(o, m, pmin, trace);
	o.fl(vals);
	std::vector<double> fy;	  // the objective, evaluated again at the vertices of the reported simplex
	for(auto& row : m.current_simplex)
		fy.push_back(F(row));
	o.fl(fy);
}
static void handler(vh::Reader& r, vh::Out& o)
{
	std::string op = r.word();
	if(op == "seq")
		return handle_seq(r, o);
	if(op == "nest")
		return handle_nest(r, o);
	if(op == "fmin" || op == "fmax" || op == "fmin_default" || op == "fmax_default")
	{
		double xl = r.num(), xr = r.num();
		bool dflt  = (op == "fmin_default" || op == "fmax_default");
		double tol = dflt ? 0.0 : r.num();
		auto f	   = vh::fun1(vh::parse_fexpr(r));
		std::vector<double> trace;
		std::function<double(double)> g = [&](double x) {
			trace.push_back(x);
			return f(x);
		};
		double res;
		if(op == "fmin")
			res = Find_Minimum(g, xl, xr, tol);
		else if(op == "fmax")
			res = Find_Maximum(g, xl, xr, tol);
		else if(op == "fmin_default")
			res = Find_Minimum(g, xl, xr);
		else
			res = Find_Maximum(g, xl, xr);
		o.f(res);
		o.fl(trace);
	}
	else if(op == "fpair")
	{
		// Find_Maximum(f) and Find_Minimum(-1.0 * f) on the same request
		double xl = r.num(), xr = r.num(), tol = r.num();
		auto f = vh::fun1(vh::parse_fexpr(r));
		std::vector<double> t1, t2;
		std::function<double(double)> g1 = [&](double x) {
			t1.push_back(x);
			return f(x);
		};
		std::function<double(double)> g2 = [&](double x) {
			t2.push_back(x);
			return -1.0 * f(x);
		};
		double r1 = Find_Maximum(g1, xl, xr, tol);
		double r2 = Find_Minimum(g2, xl, xr, tol);
		o.f(r1);
		o.fl(t1);
		o.f(r2);
		o.fl(t2);
	}
	else if(op == "nm" || op == "nmd" || op == "nm1")
	{
		double ftol = r.num();
		std::vector<std::vector<double>> pp, trace;
		std::vector<double> start, deltas;
		double delta = 0;
		if(op == "nm")
			pp = r.table();
		else
		{
			start = r.list();
			if(op == "nmd")
				deltas = r.list();
			else
				delta = r.num();
		}
		auto e = vh::parse_fexpr(r);
		std::function<double(std::vector<double>)> g = [&](std::vector<double> x) {
			trace.push_back(x);
			return vh::eval_fexpr(*e, x.data());
		};
		Minimization m(ftol);
		std::vector<double> pmin;
		if(op == "nm")
			pmin = m.minimize(pp, g);
		else if(op == "nmd")
			pmin = m.minimize(start, deltas, g);
		else
			pmin = m.minimize(start, delta, g);
		put_min(o, m, pmin, trace);
	}
	else
		o.w("HARNESSERR unknown_op");
}
int main(int argc, char** argv) { return vh::run(argc, argv, handler); }
