// C11 harness: Find_Minimum / Find_Maximum and Minimization::minimize with recorded evaluation traces (case grammar: checks/C11.py)
#include "common.hpp"
#include "libphysica/Numerics.hpp"
using namespace libphysica;
static void put_table(vh::Out& o, const std::vector<std::vector<double>>& t)
{
	o.i((long) t.size());
	for(auto& r : t)
		o.fl(r);
}
static void put_min(vh::Out& o, Minimization& m, const std::vector<double>& pmin, const std::vector<std::vector<double>>& trace)
{
	o.fl(pmin);
	o.f(m.fmin);
	o.fl(m.y);
	put_table(o, m.current_simplex);
	o.i(m.nfunc);
	put_table(o, trace);
}
static void handler(vh::Reader& r, vh::Out& o)
{
	std::string op = r.word();
	if(op == "fmin" || op == "fmax" || op == "fmin_default" || op == "fmax_default")
	{
		double xl = r.num(), xr = r.num();
		bool dflt  = (op == "fmin_default" || op == "fmax_default");
		double tol = dflt ? 0.0 : r.num();
		auto f	   = vh::fun1(vh::parse_fexpr(r));
		std::vector<double> trace;
		std::function<double(double)> g = [&](double x) {
			trace.push_back(x);
			return f(x);
		};
		double res;
		if(op == "fmin")
			res = Find_Minimum(g, xl, xr, tol);
		else if(op == "fmax")
			res = Find_Maximum(g, xl, xr, tol);
		else if(op == "fmin_default")
			res = Find_Minimum(g, xl, xr);
		else
			res = Find_Maximum(g, xl, xr);
		o.f(res);
		o.fl(trace);
	}
	else if(op == "fpair")
	{
		// Find_Maximum(f) and Find_Minimum(-1.0 * f) on the same request
		double xl = r.num(), xr = r.num(), tol = r.num();
		auto f = vh::fun1(vh::parse_fexpr(r));
		std::vector<double> t1, t2;
		std::function<double(double)> g1 = [&](double x) {
			t1.push_back(x);
			return f(x);
		};
		std::function<double(double)> g2 = [&](double x) {
			t2.push_back(x);
			return -1.0 * f(x);
		};
		double r1 = Find_Maximum(g1, xl, xr, tol);
		double r2 = Find_Minimum(g2, xl, xr, tol);
		o.f(r1);
		o.fl(t1);
		o.f(r2);
		o.fl(t2);
	}
	else if(op == "nm" || op == "nmd" || op == "nm1")
	{
		double ftol = r.num();
		std::vector<std::vector<double>> pp, trace;
		std::vector<double> start, deltas;
		double delta = 0;
		if(op == "nm")
			pp = r.table();
		else
		{
			start = r.list();
			if(op == "nmd")
				deltas = r.list();
			else
				delta = r.num();
		}
		auto e = vh::parse_fexpr(r);
		std::function<double(std::vector<double>)> g = [&](std::vector<double> x) {
			trace.push_back(x);
			return vh::eval_fexpr(*e, x.data());
		};
		Minimization m(ftol);
		std::vector<double> pmin;
		if(op == "nm")
			pmin = m.minimize(pp, g);
		else if(op == "nmd")
			pmin = m.minimize(start, deltas, g);
		else
			pmin = m.minimize(start, delta, g);
		put_min(o, m, pmin, trace);
	}
	else
		o.w("HARNESSERR unknown_op");
}
int main(int argc, char** argv) { return vh::run(argc, argv, handler); }
