// C15 harness: Householder_Matrix, QR_Decomposition, Eigenvalues, Eigensystem, Eigenvectors, and Determinant / Inverse
// as used by the inverse iteration (see checks/C15.py for the case grammar)
#include "common.hpp"
#include <cmath>
#include "libphysica/Linear_Algebra.hpp"
#include "libphysica/Special_Functions.hpp"
namespace libphysica
{
extern Matrix Householder_Matrix(const Matrix& M);
extern Vector Find_Eigenvector_Rayleigh(Matrix& M, double& eigenvalue);
}	// namespace libphysica
using namespace libphysica;
static void put_mat(vh::Out& o, const Matrix& M)
{
	o.i(M.Rows());
	o.i(M.Columns());
	for(unsigned int i = 0; i < M.Rows(); i++)
		for(unsigned int j = 0; j < M.Columns(); j++)
			o.f(M[i][j]);
}
static void put_vec(vh::Out& o, const Vector& v)
{
	o.i(v.Size());
	for(unsigned int i = 0; i < v.Size(); i++)
		o.f(v[i]);
}
static void handler(vh::Reader& r, vh::Out& o)
{
	std::string op = r.word();
	Matrix M(r.table());
	if(op == "householder")
		put_mat(o, Householder_Matrix(M));
	else if(op == "qr")
	{
		std::pair<Matrix, Matrix> qr = QR_Decomposition(M);
		put_mat(o, qr.first);
		put_mat(o, qr.second);
	}
	else if(op == "eigenvalues")
		o.fl(Eigenvalues(M));
	else if(op == "eigensystem")
	{
		auto es = Eigensystem(M);
		o.fl(es.first);
		o.i(es.second.size());
		for(auto& v : es.second)
			put_vec(o, v);
	}
	else if(op == "eigenvectors")
	{
		auto vs = Eigenvectors(M);
		o.i(vs.size());
		for(auto& v : vs)
			put_vec(o, v);
	}
	else if(op == "history")
	{
		// several calls on ONE Matrix object (Eigensystem / Eigenvectors take it by non-const reference):
		// Eigensystem, Eigenvectors, Eigenvalues, QR_Decomposition, Eigensystem again; then whether the object still equals its copy
		Matrix M0(M);
		auto es = Eigensystem(M);
		o.fl(es.first);
		o.i(es.second.size());
		for(auto& v : es.second)
			put_vec(o, v);
		auto vs = Eigenvectors(M);
		o.i(vs.size());
		for(auto& v : vs)
			put_vec(o, v);
		o.fl(Eigenvalues(M));
		std::pair<Matrix, Matrix> qr = QR_Decomposition(M);
		put_mat(o, qr.first);
		put_mat(o, qr.second);
		auto es2 = Eigensystem(M);
		o.fl(es2.first);
		o.i(es2.second.size());
		for(auto& v : es2.second)
			put_vec(o, v);
		o.i((M == M0) ? 1 : 0);
	}
	else if(op == "session")
	{
		// several calls on one or two Matrix objects with in-place modifications between them (grammar: checks/C15.py, _gen_session).
		// A plain mirror of the values the caller wrote is kept beside the objects; the last token says whether both objects still hold them.
		Matrix A(M), B(M);
		Matrix *cur = &A, *oth = &B;
		std::vector<std::vector<double>> ma(M.Rows(), std::vector<double>(M.Columns())), mb;
		for(unsigned int i = 0; i < M.Rows(); i++)
			for(unsigned int j = 0; j < M.Columns(); j++)
				ma[i][j] = M[i][j];
		mb = ma;
		std::vector<std::vector<double>>*mc = &ma, *mo = &mb;
		unsigned int n = M.Rows();
		long steps	   = r.integer();
		for(long s = 0; s < steps; s++)
		{
			std::string w = r.word();
			if(w == "sys")
			{
				auto es = Eigensystem(*cur);
				o.fl(es.first);
				o.i(es.second.size());
				for(auto& v : es.second)
					put_vec(o, v);
			}
			else if(w == "vecs")
			{
				auto vs = Eigenvectors(*cur);
				o.i(vs.size());
				for(auto& v : vs)
					put_vec(o, v);
			}
			else if(w == "vals")
				o.fl(Eigenvalues(*cur));
			else if(w == "qr")
			{
				std::pair<Matrix, Matrix> qr = QR_Decomposition(*cur);
				put_mat(o, qr.first);
				put_mat(o, qr.second);
			}
			else if(w == "swap")
			{
				long i = r.integer(), j = r.integer();
				for(unsigned int c = 0; c < n; c++)
				{
					std::swap((*cur)[i][c], (*cur)[j][c]);
					std::swap((*mc)[i][c], (*mc)[j][c]);
				}
				for(unsigned int c = 0; c < n; c++)
				{
					std::swap((*cur)[c][i], (*cur)[c][j]);
					std::swap((*mc)[c][i], (*mc)[c][j]);
				}
			}
			else if(w == "dswap")
			{
				long i = r.integer(), j = r.integer();
				std::swap((*cur)[i][i], (*cur)[j][j]);
				std::swap((*mc)[i][i], (*mc)[j][j]);
			}
			else if(w == "neg")
			{
				for(unsigned int i = 0; i < n; i++)
					for(unsigned int j = 0; j < n; j++)
					{
						(*cur)[i][j] = -(*cur)[i][j];
						(*mc)[i][j]	 = -(*mc)[i][j];
					}
			}
			else if(w == "scale")
			{
				double f = std::ldexp(1.0, (int) r.integer());
				for(unsigned int i = 0; i < n; i++)
					for(unsigned int j = 0; j < n; j++)
					{
						(*cur)[i][j] = (*cur)[i][j] * f;
						(*mc)[i][j]	 = (*mc)[i][j] * f;
					}
			}
			else if(w == "transp")
			{
				*cur = cur->Transpose();
				std::vector<std::vector<double>> t(*mc);
				for(unsigned int i = 0; i < n; i++)
					for(unsigned int j = 0; j < n; j++)
						(*mc)[i][j] = t[j][i];
			}
			else if(w == "copy")
			{
				*oth = *cur;
				*mo	 = *mc;
			}
			else if(w == "other")
			{
				std::swap(cur, oth);
				std::swap(mc, mo);
			}
			else
			{
				o.w("HARNESSERR unknown_step");
				return;
			}
		}
		bool same = true;
		for(unsigned int i = 0; i < n; i++)
			for(unsigned int j = 0; j < n; j++)
				same = same && (*cur)[i][j] == (*mc)[i][j] && (*oth)[i][j] == (*mo)[i][j];
		o.i(same ? 1 : 0);
	}
	else if(op == "rayleigh")
	{
		double ev = r.num();
		Vector v  = Find_Eigenvector_Rayleigh(M, ev);
		o.f(ev);
		put_vec(o, v);
	}
	else if(op == "scalars")
	{
		// the scalar helpers of Special_Functions.cpp: Sign(double), Sign(double, double), Relative_Difference
		double x = M[0][0], y = M[0][1];
		o.i(Sign(x));
		o.i(Sign(y));
		o.f(Sign(x, y));
		o.f(Sign(y, x));
		o.f(Relative_Difference(x, y));
	}
	else if(op == "trace")
		o.f(M.Trace());
	else if(op == "detg")
		o.f(M.Determinant());
	else if(op == "invertible")
		o.i(M.Invertible() ? 1 : 0);
	else if(op == "invg")
		put_mat(o, M.Inverse());
	else if(op == "householder_steps")
		put_mat(o, Householder_Matrix(M));
	else if(op == "det")
		o.f(M.Determinant());
	else if(op == "inverse")
		put_mat(o, M.Inverse());
	else
		o.w("HARNESSERR unknown_op");
}
int main(int argc, char** argv) { return vh::run(argc, argv, handler, 2); }
