// C16 harness: Rotation_Matrix, Spherical_Coordinates (both overloads), Cross (see checks/C16.py for the case grammar)
#include "common.hpp"
#include "libphysica/Linear_Algebra.hpp"
using namespace libphysica;
static void put_mat(vh::Out& o, const Matrix& M)
{
	o.i(M.Rows());
	o.i(M.Columns());
	for(unsigned int i = 0; i < M.Rows(); i++)
		for(unsigned int j = 0; j < M.Columns(); j++)
			o.f(M[i][j]);
}
static void put_vec(vh::Out& o, const Vector& v)
{
	o.i(v.Size());
	for(unsigned int i = 0; i < v.Size(); i++)
		o.f(v[i]);
}
static Vector vec3(vh::Reader& r)
{
	double a = r.num(), b = r.num(), c = r.num();
	return Vector({a, b, c});
}
static void handler(vh::Reader& r, vh::Out& o)
{
	std::string op = r.word();
	if(op == "rot")
	{
		double alpha = r.num();
		long dim	 = r.integer();
		Vector axis(r.list());
		put_mat(o, Rotation_Matrix(alpha, dim, axis));
	}
	else if(op == "rotcomp")
	{
		double a = r.num(), b = r.num();
		Vector axis = vec3(r);
		Matrix Ra = Rotation_Matrix(a, 3, axis), Rb = Rotation_Matrix(b, 3, axis), Rab = Rotation_Matrix(a + b, 3, axis);
		put_mat(o, Ra * Rb);
		put_mat(o, Rab);
	}
	else if(op == "rotapply")
	{
		double alpha = r.num();
		Vector axis = vec3(r), v = vec3(r);
		Matrix R = Rotation_Matrix(alpha, 3, axis);
		put_vec(o, R * v);
	}
	else if(op == "sph")
	{
		double rr = r.num(), th = r.num(), ph = r.num();
		put_vec(o, Spherical_Coordinates(rr, th, ph));
	}
	else if(op == "spha")
	{
		double rr = r.num(), th = r.num(), ph = r.num();
		Vector axis(r.list());
		put_vec(o, Spherical_Coordinates(rr, th, ph, axis));
	}
	else if(op == "sphad")
	{
		double rr = r.num(), th = r.num(), ph = r.num(), h = r.num();
		Vector axis = vec3(r);
		put_vec(o, Spherical_Coordinates(rr, th, ph, axis));
		put_vec(o, Spherical_Coordinates(rr, th, ph + h, axis));
	}
	else if(op == "cross")
	{
		Vector a(r.list()), b(r.list());
		put_vec(o, a.Cross(b));
	}
	else
		o.w("HARNESSERR unknown_op");
}
int main(int argc, char** argv) { return vh::run(argc, argv, handler); }
