// C16 harness: Rotation_Matrix (with and without the default axis), Spherical_Coordinates (both overloads), Angle, Cross
// (see checks/C16.py for the case grammar).
// `hist <op> ...`: every Vector argument is followed by `k step_1 .. step_k`, a call history that is applied to ONE live
// object (constructed from the list, then copied / assigned / changed in place / asked questions / used in earlier
// Rotation_Matrix and Spherical_Coordinates calls) before the operation receives that very object; the matrices that
// are multiplied (rotcomp, rotapply, rotback, rotsph) get a history of their own at the end of the line.
#include "common.hpp"
#include <memory>
#include <sstream>
#include "libphysica/Linear_Algebra.hpp"
using namespace libphysica;
static volatile double g_sink = 0.0;	// results of the history's questions end here (so that the calls are not removed)
static bool g_hist = false;
static void put_mat(vh::Out& o, const Matrix& M)
{
	o.i(M.Rows());
	o.i(M.Columns());
	for(unsigned int i = 0; i < M.Rows(); i++)
		for(unsigned int j = 0; j < M.Columns(); j++)
			o.f(M[i][j]);
}
static void put_vec(vh::Out& o, const Vector& v)
{
	o.i(v.Size());
	for(unsigned int i = 0; i < v.Size(); i++)
		o.f(v[i]);
}
static void sink(const Vector& v)
{
	for(unsigned int i = 0; i < v.Size(); i++)
		g_sink = g_sink + v[i];
}
static void sink(const Matrix& M)
{
	for(unsigned int i = 0; i < M.Rows(); i++)
		for(unsigned int j = 0; j < M.Columns(); j++)
			g_sink = g_sink + M[i][j];
}
typedef std::unique_ptr<Vector> VecP;
typedef std::unique_ptr<Matrix> MatP;
static void bad_step(const std::string& st)
{
	std::fprintf(stderr, "harness C16: unknown step %s\n", st.c_str());
	std::abort();
}
// the history of a Vector object
static void vec_history(vh::Reader& r, VecP& v)
{
	long k = r.integer();
	for(long s = 0; s < k; s++)
	{
		std::string st = r.word();
		const Vector& cv = *v;
		if(st == "st") { long i = r.integer(); double x = r.num(); (*v)[(unsigned int) i] = x; }
		else if(st == "pa") { Vector w(r.list()); *v += w; }
		else if(st == "ma") { Vector w(r.list()); *v -= w; }
		else if(st == "sa") { *v += *v; }
		else if(st == "ss") { *v -= *v; }
		else if(st == "pl") { Vector w(r.list()); *v = *v + w; }
		else if(st == "mi") { Vector w(r.list()); *v = *v - w; }
		else if(st == "ms") { double x = r.num(); *v = *v * x; }
		else if(st == "sm") { double x = r.num(); *v = x * *v; }
		else if(st == "dv") { double x = r.num(); *v = *v / x; }
		else if(st == "rs") { long n = r.integer(); v->Resize((unsigned int) n); }
		else if(st == "as") { long n = r.integer(); double x = r.num(); v->Assign((unsigned int) n, x); }
		else if(st == "nz") { v->Normalize(); }
		else if(st == "nd") { *v = v->Normalized(); }
		else if(st == "cx") { Vector w(r.list()); *v = v->Cross(w); }
		else if(st == "df") { *v = Vector(); }
		else if(st == "cp") { v.reset(new Vector(*v)); }
		else if(st == "eq")
		{
			// assignment through objects that had another size (and a norm of their own) before
			Vector b(v->Size() + 3, 7.0);
			g_sink = g_sink + b.Norm();
			b = *v;
			Vector c(1, 3.0);
			g_sink = g_sink + c.Norm();
			c  = b;
			*v = c;
		}
		else if(st == "se") { *v = *v; }
		else if(st == "qn") { g_sink = g_sink + cv.Norm(); }
		else if(st == "qN") { sink(cv.Normalized()); }
		else if(st == "qz") { g_sink = g_sink + cv.Size(); }
		else if(st == "qp") { std::ostringstream os; os << cv; g_sink = g_sink + os.str().size(); }
		else if(st == "qd") { Vector w(r.list()); g_sink = g_sink + cv.Dot(w); }
		else if(st == "qo") { Vector w(r.list()); g_sink = g_sink + cv * w; }
		else if(st == "qO") { Vector w(r.list()); g_sink = g_sink + w * cv; }
		else if(st == "qe") { Vector w(r.list()); g_sink = g_sink + ((cv == w) ? 1.0 : 0.0); }
		else if(st == "qr") { long i = r.integer(); g_sink = g_sink + cv[(unsigned int) i]; }
		else if(st == "qw") { long i = r.integer(); g_sink = g_sink + (*v)[(unsigned int) i]; }
		else if(st == "qc") { Vector w(r.list()); sink(cv.Cross(w)); }
		else if(st == "qa") { Vector w(r.list()); g_sink = g_sink + Angle(cv, w); }
		else if(st == "qb") { Vector w(r.list()); g_sink = g_sink + Angle(w, cv); }
		else if(st == "cs") { double rr = r.num(), th = r.num(), ph = r.num(); sink(Spherical_Coordinates(rr, th, ph, cv)); }
		else if(st == "cr") { double al = r.num(); long dim = r.integer(); sink(Rotation_Matrix(al, (int) dim, cv)); }
		else bad_step(st);
	}
}
static VecP rd_vec(vh::Reader& r)
{
	VecP v(new Vector(r.list()));
	if(g_hist)
		vec_history(r, v);
	return v;
}
static VecP rd_vec3(vh::Reader& r)
{
	double a = r.num(), b = r.num(), c = r.num();
	VecP v(new Vector({a, b, c}));
	if(g_hist)
		vec_history(r, v);
	return v;
}
// the history of a Matrix object (a rotation matrix returned by the library)
static void mat_history(vh::Reader& r, MatP& A)
{
	if(!g_hist)
		return;
	long k = r.integer();
	for(long s = 0; s < k; s++)
	{
		std::string st = r.word();
		const Matrix& cA = *A;
		if(st == "pa") { Matrix Z(r.table()); *A += Z; }
		else if(st == "ma") { Matrix Z(r.table()); *A -= Z; }
		else if(st == "pl") { Matrix Z(r.table()); *A = *A + Z; }
		else if(st == "mi") { Matrix Z(r.table()); *A = *A - Z; }
		else if(st == "tr") { *A = A->Transpose(); }
		else if(st == "ms") { double x = r.num(); *A = *A * x; }
		else if(st == "sm") { double x = r.num(); *A = x * *A; }
		else if(st == "dv") { double x = r.num(); *A = *A / x; }
		else if(st == "rs") { long p = r.integer(), q = r.integer(); A->Resize((int) p, (int) q); }
		else if(st == "cp") { A.reset(new Matrix(*A)); }
		else if(st == "eq")
		{
			Matrix B(A->Rows() + 1, A->Columns() + 2, 7.0);
			g_sink = g_sink + B.Norm();
			B = *A;
			Matrix C(1, 1, 3.0);
			g_sink = g_sink + C.Determinant();
			C  = B;
			*A = C;
		}
		else if(st == "se") { *A = *A; }
		else if(st == "sw") { long i = r.integer(), j = r.integer(); double t = cA[(unsigned int) i][j]; (*A)[(unsigned int) i][j] = t; }
		else if(st == "qd") { g_sink = g_sink + cA.Determinant(); }
		else if(st == "qi") { sink(cA.Inverse()); }
		else if(st == "qo") { g_sink = g_sink + (cA.Orthogonal() ? 1.0 : 0.0); }
		else if(st == "qt") { g_sink = g_sink + cA.Trace(); }
		else if(st == "qn") { g_sink = g_sink + cA.Norm(); }
		else if(st == "qs") { g_sink = g_sink + (cA.Symmetric() ? 1.0 : 0.0) + (cA.Antisymmetric() ? 1.0 : 0.0) + (cA.Diagonal() ? 1.0 : 0.0) + (cA.Square() ? 1.0 : 0.0) + (cA.Invertible() ? 1.0 : 0.0); }
		else if(st == "qT") { sink(cA.Transpose()); }
		else if(st == "qr") { long i = r.integer(); sink(cA.Return_Row((unsigned int) i)); }
		else if(st == "qc") { long j = r.integer(); sink(cA.Return_Column((unsigned int) j)); }
		else if(st == "qe") { g_sink = g_sink + ((cA == cA) ? 1.0 : 0.0); }
		else if(st == "qp") { std::ostringstream os; os << cA; g_sink = g_sink + os.str().size(); }
		else if(st == "qm") { sink(A->Product(cA)); }
		else if(st == "qv") { Vector w(r.list()); sink(cA.Product(w)); }
		else if(st == "qb") { sink(cA.Sub_Matrix(0, 0)); }
		else bad_step(st);
	}
}
static void handler(vh::Reader& r, vh::Out& o)
{
	std::string op = r.word();
	g_hist		   = false;
	if(op == "hist")
	{
		g_hist = true;
		op	   = r.word();
	}
	if(op == "rot")
	{
		double alpha = r.num();
		long dim	 = r.integer();
		VecP axis	 = rd_vec(r);
		put_mat(o, Rotation_Matrix(alpha, dim, *axis));
	}
	else if(op == "rotdef")
	{
		// the default argument: Rotation_Matrix(alpha, dim) turns about Vector({0, 0, 1})
		double alpha = r.num();
		long dim	 = r.integer();
		put_mat(o, Rotation_Matrix(alpha, dim));
	}
	else if(op == "rotcomp")
	{
		double a = r.num(), b = r.num();
		VecP axis = rd_vec3(r);
		MatP Ra(new Matrix(Rotation_Matrix(a, 3, *axis))), Rb(new Matrix(Rotation_Matrix(b, 3, *axis)));
		Matrix Rab = Rotation_Matrix(a + b, 3, *axis);
		mat_history(r, Ra);
		mat_history(r, Rb);
		put_mat(o, *Ra * *Rb);
		put_mat(o, Rab);
	}
	else if(op == "rotapply")
	{
		double alpha = r.num();
		VecP axis = rd_vec3(r), v = rd_vec3(r);
		MatP R(new Matrix(Rotation_Matrix(alpha, 3, *axis)));
		mat_history(r, R);
		put_vec(o, *R * *v);
	}
	else if(op == "rotaxis")
	{
		// the axis object itself is the vector that is turned: R axis = axis
		double alpha = r.num();
		VecP axis = rd_vec3(r);
		MatP R(new Matrix(Rotation_Matrix(alpha, 3, *axis)));
		mat_history(r, R);
		put_vec(o, *R * *axis);
	}
	else if(op == "rotback")
	{
		// transpose equals inverse, with the library's own products: (R v) R = R^T (R v) = v
		double alpha = r.num();
		VecP axis = rd_vec3(r), v = rd_vec3(r);
		MatP R(new Matrix(Rotation_Matrix(alpha, 3, *axis)));
		mat_history(r, R);
		Vector w = *R * *v;
		put_vec(o, w);
		put_vec(o, w * *R);
	}
	else if(op == "sph")
	{
		double rr = r.num(), th = r.num(), ph = r.num();
		put_vec(o, Spherical_Coordinates(rr, th, ph));
	}
	else if(op == "spha")
	{
		double rr = r.num(), th = r.num(), ph = r.num();
		VecP axis = rd_vec(r);
		put_vec(o, Spherical_Coordinates(rr, th, ph, *axis));
	}
	else if(op == "sphad")
	{
		double rr = r.num(), th = r.num(), ph = r.num(), h = r.num();
		VecP axis = rd_vec3(r);
		put_vec(o, Spherical_Coordinates(rr, th, ph, *axis));
		put_vec(o, Spherical_Coordinates(rr, th, ph + h, *axis));
	}
	else if(op == "sphang")
	{
		// the library's own Norm() and Angle() of the result
		double rr = r.num(), th = r.num(), ph = r.num();
		VecP axis = rd_vec(r);
		Vector u  = Spherical_Coordinates(rr, th, ph, *axis);
		put_vec(o, u);
		o.f(u.Norm());
		o.f(Angle(u, *axis));
		o.f(Angle(*axis, u));
	}
	else if(op == "sphrot")
	{
		// the returned vector is the axis of a rotation
		double rr = r.num(), th = r.num(), ph = r.num(), alpha = r.num();
		VecP axis = rd_vec3(r);
		VecP u(new Vector(Spherical_Coordinates(rr, th, ph, *axis)));
		if(g_hist)
			vec_history(r, u);
		put_vec(o, *u);
		put_mat(o, Rotation_Matrix(alpha, 3, *u));
	}
	else if(op == "rotsph")
	{
		// turning the vector about the axis by alpha is increasing phi by alpha
		double alpha = r.num(), rr = r.num(), th = r.num(), ph = r.num();
		VecP axis = rd_vec3(r);
		MatP R(new Matrix(Rotation_Matrix(alpha, 3, *axis)));
		Vector u = Spherical_Coordinates(rr, th, ph, *axis);
		mat_history(r, R);
		put_vec(o, *R * u);
		put_vec(o, Spherical_Coordinates(rr, th, ph + alpha, *axis));
	}
	else if(op == "angle")
	{
		VecP a = rd_vec(r), b = rd_vec(r);
		o.f(Angle(*a, *b));
	}
	else if(op == "cross")
	{
		VecP a = rd_vec(r), b = rd_vec(r);
		put_vec(o, a->Cross(*b));
	}
	else
		o.w("HARNESSERR unknown_op");
}
int main(int argc, char** argv) { return vh::run(argc, argv, handler); }
