// C16 harness: Rotation_Matrix (with and without the default axis), Spherical_Coordinates (both overloads), Angle, Cross
// (see checks/C16.py for the case grammar).
// `hist <op> ...`: every Vector argument is followed by `k step_1 .. step_k`, a call history that is applied to ONE live
// object (constructed from the list, then copied / assigned / changed in place / asked questions / used in earlier
// Rotation_Matrix and Spherical_Coordinates calls) before the operation receives that very object; the matrices that
// are multiplied (rotcomp, rotapply, rotback, rotsph) get a history of their own at the end of the line.
// `seq p obj_1 .. obj_p m call_1 .. call_m`: a history of CALLS (Rotation_Matrix with / without axis, both Spherical_Coordinates,
// Angle) made one after the other in ONE process that has run nothing else before, on temporaries (`l <list>`) or on the
// live Vector objects obj_i (`o i`) that serve several calls; next to it the answer of a pristine process to each call alone.
#include "common.hpp"
#include <memory>
#include <sstream>
#include <cerrno>
#include <sys/socket.h>
#include "libphysica/Linear_Algebra.hpp"
using namespace libphysica;
static volatile double g_sink = 0.0;	// results of the history's questions end here (so that the calls are not removed)
static bool g_hist = false;
static void put_mat(vh::Out& o, const Matrix& M)
{
	o.i(M.Rows());
	o.i(M.Columns());
	for(unsigned int i = 0; i < M.Rows(); i++)
		for(unsigned int j = 0; j < M.Columns(); j++)
			o.f(M[i][j]);
}
static void put_vec(vh::Out& o, const Vector& v)
{
	o.i(v.Size());
	for(unsigned int i = 0; i < v.Size(); i++)
		o.f(v[i]);
}
static void sink(const Vector& v)
{
	for(unsigned int i = 0; i < v.Size(); i++)
		g_sink = g_sink + v[i];
}
static void sink(const Matrix& M)
{
	for(unsigned int i = 0; i < M.Rows(); i++)
		for(unsigned int j = 0; j < M.Columns(); j++)
			g_sink = g_sink + M[i][j];
}
typedef std::unique_ptr<Vector> VecP;
typedef std::unique_ptr<Matrix> MatP;
static void bad_step(const std::string& st)
{
	std::fprintf(stderr, "harness C16: unknown step %s\n", st.c_str());
	std::abort();
}
// the history of a Vector object
static void vec_history(vh::Reader& r, VecP& v)
{
	long k = r.integer();
	for(long s = 0; s < k; s++)
	{
		std::string st = r.word();
		const Vector& cv = *v;
		if(st == "st") { long i = r.integer(); double x = r.num(); (*v)[(unsigned int) i] = x; }
		else if(st == "pa") { Vector w(r.list()); *v += w; }
		else if(st == "ma") { Vector w(r.list()); *v -= w; }
		else if(st == "sa") { *v += *v; }
		else if(st == "ss") { *v -= *v; }
		else if(st == "pl") { Vector w(r.list()); *v = *v + w; }
		else if(st == "mi") { Vector w(r.list()); *v = *v - w; }
		else if(st == "ms") { double x = r.num(); *v = *v * x; }
		else if(st == "sm") { double x = r.num(); *v = x * *v; }
		else if(st == "dv") { double x = r.num(); *v = *v / x; }
		else if(st == "rs") { long n = r.integer(); v->Resize((unsigned int) n); }
		else if(st == "as") { long n = r.integer(); double x = r.num(); v->Assign((unsigned int) n, x); }
		else if(st == "nz") { v->Normalize(); }
		else if(st == "nd") { *v = v->Normalized(); }
		else if(st == "cx") { Vector w(r.list()); *v = v->Cross(w); }
		else if(st == "df") { *v = Vector(); }
		else if(st == "cp") { v.reset(new Vector(*v)); }
		else if(st == "eq")
		{
			// assignment through objects that had another size (and a norm of their own) before
			Vector b(v->Size() + 3, 7.0);
			g_sink = g_sink + b.Norm();
			b = *v;
			Vector c(1, 3.0);
			g_sink = g_sink + c.Norm();
			c  = b;
			*v = c;
		}
		else if(st == "se") { *v = *v; }
		else if(st == "qn") { g_sink = g_sink + cv.Norm(); }
		else if(st == "qN") { sink(cv.Normalized()); }
		else if(st == "qz") { g_sink = g_sink + cv.Size(); }
		else if(st == "qp") { std::ostringstream os; os << cv; g_sink = g_sink + os.str().size(); }
		else if(st == "qd") { Vector w(r.list()); g_sink = g_sink + cv.Dot(w); }
		else if(st == "qo") { Vector w(r.list()); g_sink = g_sink + cv * w; }
		else if(st == "qO") { Vector w(r.list()); g_sink = g_sink + w * cv; }
		else if(st == "qe") { Vector w(r.list()); g_sink = g_sink + ((cv == w) ? 1.0 : 0.0); }
		else if(st == "qr") { long i = r.integer(); g_sink = g_sink + cv[(unsigned int) i]; }
		else if(st == "qw") { long i = r.integer(); g_sink = g_sink + (*v)[(unsigned int) i]; }
		else if(st == "qc") { Vector w(r.list()); sink(cv.Cross(w)); }
		else if(st == "qa") { Vector w(r.list()); g_sink = g_sink + Angle(cv, w); }
		else if(st == "qb") { Vector w(r.list()); g_sink = g_sink + Angle(w, cv); }
		else if(st == "cs") { double rr = r.num(), th = r.num(), ph = r.num(); sink(Spherical_Coordinates(rr, th, ph, cv)); }
		else if(st == "cr") { double al = r.num(); long dim = r.integer(); sink(Rotation_Matrix(al, (int) dim, cv)); }
		else bad_step(st);
	}
}
static VecP rd_vec(vh::Reader& r)
{
	VecP v(new Vector(r.list()));
	if(g_hist)
		vec_history(r, v);
	return v;
}
static VecP rd_vec3(vh::Reader& r)
{
	double a = r.num(), b = r.num(), c = r.num();
	VecP v(new Vector({a, b, c}));
	if(g_hist)
		vec_history(r, v);
	return v;
}
// the history of a Matrix object (a rotation matrix returned by the library)
static void mat_history(vh::Reader& r, MatP& A)
{
	if(!g_hist)
		return;
	long k = r.integer();
	for(long s = 0; s < k; s++)
	{
		std::string st = r.word();
		const Matrix& cA = *A;
		if(st == "pa") { Matrix Z(r.table()); *A += Z; }
		else if(st == "ma") { Matrix Z(r.table()); *A -= Z; }
		else if(st == "pl") { Matrix Z(r.table()); *A = *A + Z; }
		else if(st == "mi") { Matrix Z(r.table()); *A = *A - Z; }
		else if(st == "tr") { *A = A->Transpose(); }
		else if(st == "ms") { double x = r.num(); *A = *A * x; }
		else if(st == "sm") { double x = r.num(); *A = x * *A; }
		else if(st == "dv") { double x = r.num(); *A = *A / x; }
		else if(st == "rs") { long p = r.integer(), q = r.integer(); A->Resize((int) p, (int) q); }
		else if(st == "cp") { A.reset(new Matrix(*A)); }
		else if(st == "eq")
		{
			Matrix B(A->Rows() + 1, A->Columns() + 2, 7.0);
			g_sink = g_sink + B.Norm();
			B = *A;
			Matrix C(1, 1, 3.0);
			g_sink = g_sink + C.Determinant();
			C  = B;
			*A = C;
		}
		else if(st == "se") { *A = *A; }
		else if(st == "sw") { long i = r.integer(), j = r.integer(); double t = cA[(unsigned int) i][j]; (*A)[(unsigned int) i][j] = t; }
		else if(st == "qd") { g_sink = g_sink + cA.Determinant(); }
		else if(st == "qi") { sink(cA.Inverse()); }
		else if(st == "qo") { g_sink = g_sink + (cA.Orthogonal() ? 1.0 : 0.0); }
		else if(st == "qt") { g_sink = g_sink + cA.Trace(); }
		else if(st == "qn") { g_sink = g_sink + cA.Norm(); }
		else if(st == "qs") { g_sink = g_sink + (cA.Symmetric() ? 1.0 : 0.0) + (cA.Antisymmetric() ? 1.0 : 0.0) + (cA.Diagonal() ? 1.0 : 0.0) + (cA.Square() ? 1.0 : 0.0) + (cA.Invertible() ? 1.0 : 0.0); }
		else if(st == "qT") { sink(cA.Transpose()); }
		else if(st == "qr") { long i = r.integer(); sink(cA.Return_Row((unsigned int) i)); }
		else if(st == "qc") { long j = r.integer(); sink(cA.Return_Column((unsigned int) j)); }
		else if(st == "qe") { g_sink = g_sink + ((cA == cA) ? 1.0 : 0.0); }
		else if(st == "qp") { std::ostringstream os; os << cA; g_sink = g_sink + os.str().size(); }
		else if(st == "qm") { sink(A->Product(cA)); }
		else if(st == "qv") { Vector w(r.list()); sink(cA.Product(w)); }
		else if(st == "qb") { sink(cA.Sub_Matrix(0, 0)); }
		else bad_step(st);
	}
}

// ---------- histories of calls in one process ----------
static const Vector& vec_ref(vh::Reader& r, std::vector<VecP>& pool, std::vector<VecP>& tmps)
{
	std::string k = r.word();
	if(k == "o")
	{
		long i = r.integer();
		if(i < 0 || (size_t) i >= pool.size())
			bad_step("o " + std::to_string(i));
		return *pool[(size_t) i];
	}
	if(k != "l")
		bad_step(k);
	tmps.emplace_back(new Vector(r.list()));
	return *tmps.back();
}
//   rot alpha dim <vec> | rotdef alpha dim | sph r theta phi | spha r theta phi <vec> | angle <vec> <vec>      <vec> = o i | l <list>
static void one_call(vh::Reader& r, vh::Out& o, std::vector<VecP>& pool)
{
	std::vector<VecP> tmps;
	std::string c = r.word();
	if(c == "rot")
	{
		double alpha	   = r.num();
		long dim		   = r.integer();
		const Vector& axis = vec_ref(r, pool, tmps);
		put_mat(o, Rotation_Matrix(alpha, (int) dim, axis));
	}
	else if(c == "rotdef")
	{
		double alpha = r.num();
		long dim	 = r.integer();
		put_mat(o, Rotation_Matrix(alpha, (int) dim));
	}
	else if(c == "sph")
	{
		double rr = r.num(), th = r.num(), ph = r.num();
		put_vec(o, Spherical_Coordinates(rr, th, ph));
	}
	else if(c == "spha")
	{
		double rr = r.num(), th = r.num(), ph = r.num();
		const Vector& axis = vec_ref(r, pool, tmps);
		put_vec(o, Spherical_Coordinates(rr, th, ph, axis));
	}
	else if(c == "angle")
	{
		const Vector& a = vec_ref(r, pool, tmps);
		const Vector& b = vec_ref(r, pool, tmps);
		o.f(Angle(a, b));
	}
	else
		bad_step(c);
}
// p obj_1 .. obj_p m call_1 .. call_m  ->  [m] answer_1 .. answer_m
static void run_calls(vh::Reader& r, vh::Out& o, bool with_count)
{
	long p = r.integer();
	std::vector<VecP> pool;
	for(long i = 0; i < p; i++)
		pool.emplace_back(new Vector(r.list()));
	long m = r.integer();
	if(with_count)
		o.i(m);
	for(long j = 0; j < m; j++)
		one_call(r, o, pool);
}
// the text of one call with every `o i` replaced by `l <the list obj_i was constructed from>` (what a process sees that makes this call only)
static std::string list_text(vh::Reader& r)
{
	std::string n = r.word(), t = n;
	for(long k = 0, e = std::strtol(n.c_str(), nullptr, 10); k < e; k++)
		t += " " + r.word();
	return t;
}
static std::string vec_text(vh::Reader& r, const std::vector<std::string>& pool)
{
	std::string k = r.word();
	if(k == "o")
	{
		long i = r.integer();
		if(i < 0 || (size_t) i >= pool.size())
			bad_step("o " + std::to_string(i));
		return "l " + pool[(size_t) i];
	}
	if(k != "l")
		bad_step(k);
	return "l " + list_text(r);
}
static std::string call_text(vh::Reader& r, const std::vector<std::string>& pool)
{
	std::string c = r.word(), t = c;
	size_t scalars = (c == "rot" || c == "rotdef") ? 2 : (c == "sph" || c == "spha") ? 3 : 0, vecs = (c == "rot" || c == "spha") ? 1 : (c == "angle") ? 2 : 0;
	if(scalars == 0 && vecs == 0)
		bad_step(c);
	for(size_t k = 0; k < scalars; k++)
		t += " " + r.word();
	for(size_t k = 0; k < vecs; k++)
		t += " " + vec_text(r, pool);
	return t;
}

// ---------- pristine-process server (as in harness/C06.cpp) ----------
// Started by main() before any library function has run.  A request "<id> H|F <p objs m calls>" is answered by a process
// forked from the server (a process in which no library function has been called yet) that makes the calls one after the
// other and replies "<id> [m] answers" (H: with the count); when the library ends that process the reply is "<id> EXIT"
// (TIMEOUT, CRASH sig=n, SANITIZER n).  The result of a `seq` case does not depend on what the worker has run before.
static int g_srv = -1;
static bool read_line(int fd, std::string& l)
{
	l.clear();
	char c;
	for(;;)
	{
		ssize_t n = read(fd, &c, 1);
		if(n == 0)
			return false;
		if(n < 0)
		{
			if(errno == EINTR)
				continue;
			return false;
		}
		if(c == '\n')
			return true;
		l.push_back(c);
	}
}
static void write_all(int fd, const std::string& s)
{
	size_t k = 0;
	while(k < s.size())
	{
		ssize_t n = write(fd, s.data() + k, s.size() - k);
		if(n <= 0)
		{
			if(n < 0 && errno == EINTR)
				continue;
			return;
		}
		k += (size_t) n;
	}
}
static void start_server()
{
	int sv[2];
	if(socketpair(AF_UNIX, SOCK_STREAM, 0, sv) != 0)
		return;
	fflush(stdout);
	fflush(stderr);
	pid_t pid = fork();
	if(pid != 0)
	{
		close(sv[1]);
		g_srv = sv[0];
		return;
	}
	close(sv[0]);
	signal(SIGPIPE, SIG_IGN);
	int fd = sv[1];
	std::string l;
	while(read_line(fd, l))
	{
		vh::Reader r(l);
		std::string id = r.word();
		pid_t g		   = fork();
		if(g == 0)
		{
			int nul = open("/dev/null", O_WRONLY);
			dup2(nul, 1);
			dup2(nul, 2);
			alarm(20);
			std::string mode = r.word();
			vh::Out o;
			run_calls(r, o, mode == "H");
			write_all(fd, id + " " + o.s.str() + "\n");
			_exit(0);
		}
		int st = 0;
		waitpid(g, &st, 0);
		if(WIFEXITED(st) && WEXITSTATUS(st) == 0)
			continue;
		std::string why;
		if(WIFEXITED(st) && (WEXITSTATUS(st) == 99 || WEXITSTATUS(st) == 98))
			why = "SANITIZER " + std::to_string(WEXITSTATUS(st));
		else if(WIFEXITED(st) && WEXITSTATUS(st) == 77)
			why = "HARNESSERR";
		else if(WIFEXITED(st))
			why = "EXIT";
		else if(WIFSIGNALED(st) && WTERMSIG(st) == SIGALRM)
			why = "TIMEOUT";
		else
			why = "CRASH sig=" + std::to_string(WIFSIGNALED(st) ? WTERMSIG(st) : 0);
		write_all(fd, id + " " + why + "\n");
	}
	_exit(0);
}
static std::string ask_server(const std::string& request)
{
	static long counter = 0;
	std::string id		= std::to_string((long) getpid()) + "." + std::to_string(++counter);
	write_all(g_srv, id + " " + request + "\n");
	std::string l;
	while(read_line(g_srv, l))
	{
		// replies to requests of a worker that died meanwhile are skipped
		if(l.compare(0, id.size() + 1, id + " ") == 0)
			return l.substr(id.size() + 1);
	}
	return "HARNESSERR server_gone";
}
static void seq_case(vh::Reader& r, vh::Out& o)
{
	// the text of the request, and of every call as a request of its own
	std::string body;
	for(size_t k = r.i; k < r.t.size(); k++)
		body += (k > r.i ? " " : "") + r.t[k];
	long p = r.integer();
	std::vector<std::string> pool;
	for(long i = 0; i < p; i++)
		pool.push_back(list_text(r));
	long m = r.integer();
	std::vector<std::string> calls;
	for(long j = 0; j < m; j++)
		calls.push_back(call_text(r, pool));
	std::string hist = ask_server("H " + body);
	if(hist.empty() || !(hist[0] >= '0' && hist[0] <= '9'))
	{
		o.w(hist);	 // EXIT, TIMEOUT, CRASH sig=n, SANITIZER n
		return;
	}
	o.w(hist);
	for(long j = 0; j < m; j++)
	{
		std::string fr = ask_server("F 0 1 " + calls[(size_t) j]);
		bool value	   = !fr.empty() && ((fr[0] >= '0' && fr[0] <= '9') || fr[0] == '-' || fr[0] == 'n' || fr[0] == 'i');
		o.w(value ? fr : "FRESH_" + vh::Reader(fr).word());
	}
}
static void handler(vh::Reader& r, vh::Out& o)
{
	std::string op = r.word();
	g_hist		   = false;
	if(op == "hist")
	{
		g_hist = true;
		op	   = r.word();
	}
	if(op == "seq")
		seq_case(r, o);
	else if(op == "rot")
	{
		double alpha = r.num();
		long dim	 = r.integer();
		VecP axis	 = rd_vec(r);
		put_mat(o, Rotation_Matrix(alpha, dim, *axis));
	}
	else if(op == "rotdef")
	{
		// the default argument: Rotation_Matrix(alpha, dim) turns about Vector({0, 0, 1})
		double alpha = r.num();
		long dim	 = r.integer();
		put_mat(o, Rotation_Matrix(alpha, dim));
	}
	else if(op == "rotcomp")
	{
		double a = r.num(), b = r.num();
		VecP axis = rd_vec3(r);
		MatP Ra(new Matrix(Rotation_Matrix(a, 3, *axis))), Rb(new Matrix(Rotation_Matrix(b, 3, *axis)));
		Matrix Rab = Rotation_Matrix(a + b, 3, *axis);
		mat_history(r, Ra);
		mat_history(r, Rb);
		put_mat(o, *Ra * *Rb);
		put_mat(o, Rab);
	}
	else if(op == "rotapply")
	{
		double alpha = r.num();
		VecP axis = rd_vec3(r), v = rd_vec3(r);
		MatP R(new Matrix(Rotation_Matrix(alpha, 3, *axis)));
		mat_history(r, R);
		put_vec(o, *R * *v);
	}
	else if(op == "rotaxis")
	{
		// the axis object itself is the vector that is turned: R axis = axis
		double alpha = r.num();
		VecP axis = rd_vec3(r);
		MatP R(new Matrix(Rotation_Matrix(alpha, 3, *axis)));
		mat_history(r, R);
		put_vec(o, *R * *axis);
	}
	else if(op == "rotback")
	{
		// transpose equals inverse, with the library's own products: (R v) R = R^T (R v) = v
		double alpha = r.num();
		VecP axis = rd_vec3(r), v = rd_vec3(r);
		MatP R(new Matrix(Rotation_Matrix(alpha, 3, *axis)));
		mat_history(r, R);
		Vector w = *R * *v;
		put_vec(o, w);
		put_vec(o, w * *R);
	}
	else if(op == "sph")
	{
		double rr = r.num(), th = r.num(), ph = r.num();
		put_vec(o, Spherical_Coordinates(rr, th, ph));
	}
	else if(op == "spha")
	{
		double rr = r.num(), th = r.num(), ph = r.num();
		VecP axis = rd_vec(r);
		put_vec(o, Spherical_Coordinates(rr, th, ph, *axis));
	}
	else if(op == "sphad")
	{
		double rr = r.num(), th = r.num(), ph = r.num(), h = r.num();
		VecP axis = rd_vec3(r);
		put_vec(o, Spherical_Coordinates(rr, th, ph, *axis));
		put_vec(o, Spherical_Coordinates(rr, th, ph + h, *axis));
	}
	else if(op == "sphang")
	{
		// the library's own Norm() and Angle() of the result
		double rr = r.num(), th = r.num(), ph = r.num();
		VecP axis = rd_vec(r);
		Vector u  = Spherical_Coordinates(rr, th, ph, *axis);
		put_vec(o, u);
		o.f(u.Norm());
		o.f(Angle(u, *axis));
		o.f(Angle(*axis, u));
	}
	else if(op == "sphrot")
	{
		// the returned vector is the axis of a rotation
		double rr = r.num(), th = r.num(), ph = r.num(), alpha = r.num();
		VecP axis = rd_vec3(r);
		VecP u(new Vector(Spherical_Coordinates(rr, th, ph, *axis)));
		if(g_hist)
			vec_history(r, u);
		put_vec(o, *u);
		put_mat(o, Rotation_Matrix(alpha, 3, *u));
	}
	else if(op == "rotsph")
	{
		// turning the vector about the axis by alpha is increasing phi by alpha
		double alpha = r.num(), rr = r.num(), th = r.num(), ph = r.num();
		VecP axis = rd_vec3(r);
		MatP R(new Matrix(Rotation_Matrix(alpha, 3, *axis)));
		Vector u = Spherical_Coordinates(rr, th, ph, *axis);
		mat_history(r, R);
		put_vec(o, *R * u);
		put_vec(o, Spherical_Coordinates(rr, th, ph + alpha, *axis));
	}
	else if(op == "rotchain")
	{
		// the product of any number of rotations, built with the library's own Identity_Matrix and Matrix product,
		// the sum of the angles, and the rotation by that sum about the first axis
		long dim = r.integer(), n = r.integer();
		if(dim != 2 && dim != 3)
		{
			o.w("HARNESSERR bad_dim");
			return;
		}
		Matrix P   = Identity_Matrix((unsigned int) dim);
		double sum = 0.0;
		VecP first;
		for(long k = 0; k < n; k++)
		{
			double a = r.num();
			Vector ax(r.list());
			if(!first)
				first.reset(new Vector(ax));
			P = P * Rotation_Matrix(a, (int) dim, ax);
			sum += a;
		}
		put_mat(o, P);
		o.f(sum);
		if(first)
			put_mat(o, Rotation_Matrix(sum, (int) dim, *first));
	}
	else if(op == "rotangle")
	{
		// "turns vectors perpendicular to it by alpha", measured with the library's own Angle
		double alpha = r.num();
		VecP axis = rd_vec3(r), v = rd_vec3(r);
		Matrix R = Rotation_Matrix(alpha, 3, *axis);
		Vector w = R * *v;
		put_vec(o, w);
		o.f(Angle(*v, w));
		o.f(Angle(w, *v));
	}
	else if(op == "rotdt")
	{
		// "determinant one" with the library's own Determinant(); the angle read off with the library's own Trace()
		double alpha = r.num();
		long dim	 = r.integer();
		Vector ax(r.list());
		Matrix R = Rotation_Matrix(alpha, (int) dim, ax);
		o.f(R.Determinant());
		o.f(R.Trace());
	}
	else if(op == "chaindt")
	{
		long dim = r.integer(), n = r.integer();
		if(dim != 2 && dim != 3)
		{
			o.w("HARNESSERR bad_dim");
			return;
		}
		Matrix P = Identity_Matrix((unsigned int) dim);
		for(long k = 0; k < n; k++)
		{
			double a = r.num();
			Vector ax(r.list());
			P = P * Rotation_Matrix(a, (int) dim, ax);
		}
		o.f(P.Determinant());
		o.f(P.Trace());
	}
	else if(op == "matdt")
	{
		Matrix M(r.table());
		o.f(M.Determinant());
		o.f(M.Trace());
	}
	else if(op == "matinv")
	{
		// the library's own Inverse() (Gauss-Jordan with partial pivoting) and Norm() of an arbitrary rectangular matrix
		Matrix M(r.table());
		put_mat(o, M.Inverse());
		o.f(M.Norm());
	}
	else if(op == "matorth")
	{
		// Invertible() and Orthogonal() (Transpose() == Inverse(), an exact comparison of doubles), Transpose() itself
		Matrix M(r.table());
		o.i(M.Invertible() ? 1 : 0);
		o.i(M.Orthogonal() ? 1 : 0);
		put_mat(o, M.Transpose());
	}
	else if(op == "rotinv")
	{
		// "transpose equals inverse" asked of the returned object itself
		double alpha = r.num();
		long dim	 = r.integer();
		Vector ax(r.list());
		Matrix R = Rotation_Matrix(alpha, (int) dim, ax);
		put_mat(o, R.Inverse());
		put_mat(o, R.Transpose());
		o.f(R.Norm());
	}
	else if(op == "angle")
	{
		VecP a = rd_vec(r), b = rd_vec(r);
		o.f(Angle(*a, *b));
	}
	else if(op == "cross")
	{
		VecP a = rd_vec(r), b = rd_vec(r);
		put_vec(o, a->Cross(*b));
	}
	else
		o.w("HARNESSERR unknown_op");
}
int main(int argc, char** argv)
{
	start_server();
	return vh::run(argc, argv, handler);
}
