// C19 harness: runs libphysica's helpers on the case file (see checks/C19.py for the case grammar)
#include "common.hpp"
#include "libphysica/List_Manipulations.hpp"
#include "libphysica/Statistics.hpp"
#include "libphysica/Utilities.hpp"
using namespace libphysica;
static std::vector<int> toi(const std::vector<long>& v) { return std::vector<int>(v.begin(), v.end()); }
static std::vector<std::vector<int>> itable(vh::Reader& r)
{
	long n = r.integer();
	std::vector<std::vector<int>> t;
	for(long k = 0; k < n; k++)
		t.push_back(toi(r.ilist()));
	return t;
}
static void handler(vh::Reader& r, vh::Out& o)
{
	std::string op = r.word();
	if(op == "workload")
	{
		long w = r.integer(), t = r.integer();
		o.il(Workload_Distribution(w, t));
	}
	else if(op == "range")
	{
		long a = r.integer(), b = r.integer(), s = r.integer();
		o.il(Range(a, b, s));
	}
	else if(op == "linspace")
	{
		double a = r.num(), b = r.num();
		long n = r.integer();
		o.fl(Linear_Space(a, b, n));
	}
	else if(op == "logspace")
	{
		double a = r.num(), b = r.num();
		long n = r.integer();
		o.fl(Log_Space(a, b, n));
	}
	else if(op == "closest")
	{
		std::vector<double> l = r.list();
		double t			  = r.num();
		o.i(Locate_Closest_Location(l, t));
	}
	else if(op == "lists_equal")
	{
		auto a = toi(r.ilist()), b = toi(r.ilist());
		o.i(Lists_Equal(a, b) ? 1 : 0);
	}
	else if(op == "combine")
	{
		auto a = toi(r.ilist()), b = toi(r.ilist());
		o.il(Combine_Lists(a, b));
	}
	else if(op == "flatten")
		o.il(Flatten_List(itable(r)));
	else if(op == "contains")
	{
		auto a = toi(r.ilist());
		int x  = r.integer();
		o.i(List_Contains(a, x) ? 1 : 0);
	}
	else if(op == "find_indices")
	{
		auto a = toi(r.ilist());
		int x  = r.integer();
		o.il(Find_Indices(a, x));
	}
	else if(op == "sub_list")
	{
		auto a	= toi(r.ilist());
		long i1 = r.integer(), i2 = r.integer();
		o.il(Sub_List(a, (int) i1, (unsigned int) i2));
	}
	else if(op == "transpose")
	{
		auto t = Transpose_Lists(itable(r));
		o.i(t.size());
		for(auto& row : t)
			o.il(row);
	}
	else if(op == "mean")
		o.f(Arithmetic_Mean(r.list()));
	else if(op == "variance")
		o.f(Variance(r.list()));
	else if(op == "stddev")
		o.f(Standard_Deviation(r.list()));
	else if(op == "median")
	{
		auto l = r.list();
		o.f(Median(l));
	}
	else if(op == "wavg")
	{
		long n = r.integer();
		std::vector<DataPoint> d;
		for(long k = 0; k < n; k++)
		{
			double v = r.num(), w = r.num();
			d.push_back(DataPoint(v, w));
		}
		auto res = Weighted_Average(d);
		o.f(res[0]);
		o.f(res[1]);
	}
	else
		o.w("HARNESSERR unknown_op");
}
int main(int argc, char** argv) { return vh::run(argc, argv, handler); }
