// C19 harness: runs libphysica's helpers on the case file (see checks/C19.py for the case grammar)
#include "common.hpp"
#include <algorithm>
#include <cerrno>
#include <cfenv>
#include <cstring>
#include <iomanip>
#include "libphysica/List_Manipulations.hpp"
#include "libphysica/Statistics.hpp"
#include "libphysica/Utilities.hpp"
using namespace libphysica;
static std::vector<int> toi(const std::vector<long>& v) { return std::vector<int>(v.begin(), v.end()); }
static std::vector<std::vector<int>> itable(vh::Reader& r)
{
	long n = r.integer();
	std::vector<std::vector<int>> t;
	for(long k = 0; k < n; k++)
		t.push_back(toi(r.ilist()));
	return t;
}
static std::vector<std::vector<double>> dtable(vh::Reader& r) { return r.table(); }
static void put_table(vh::Out& o, const std::vector<std::vector<int>>& t)
{
	o.i(t.size());
	for(auto& row : t)
		o.il(row);
}
static void put_table(vh::Out& o, const std::vector<std::vector<double>>& t)
{
	o.i(t.size());
	for(auto& row : t)
		o.fl(row);
}
// mean, variance, standard deviation, median of one data set (each call on its own copy of the data)
static void four_stats(vh::Out& o, const std::vector<double>& v)
{
	o.f(Arithmetic_Mean(v));
	o.f(Variance(v));
	o.f(Standard_Deviation(v));
	std::vector<double> w = v;
	o.f(Median(w));
}
static bool same_points(const std::vector<DataPoint>& a, const std::vector<DataPoint>& b)
{
	if(a.size() != b.size())
		return false;
	for(size_t k = 0; k < a.size(); k++)
		if(std::memcmp(&a[k].value, &b[k].value, sizeof(double)) != 0 || std::memcmp(&a[k].weight, &b[k].weight, sizeof(double)) != 0)
			return false;
	return true;
}
static void put_wavg(vh::Out& o, std::vector<DataPoint> d)
{
	std::vector<DataPoint> before = d;
	auto res					  = Weighted_Average(d);
	o.i((long) res.size());
	o.f(res[0]);
	o.f(res[1]);
	o.i(same_points(d, before) ? 1 : 0);   // the data are handed over by non-const reference: they must come back unchanged
}
// ---- ambient process state: errno, the floating-point exception flags, the state of the standard streams.
// Every case starts from the pristine state (so that a case line means the same alone and inside a long run); the amb_* events
// of a session put the process into the state that earlier, unrelated calls of the library, of libm or of the caller's own
// code leave behind.
static std::ios* pristine_fmt[4] = {nullptr, nullptr, nullptr, nullptr};
static std::ios* the_stream(int k) { return k == 0 ? (std::ios*) &std::cout : k == 1 ? (std::ios*) &std::cerr : k == 2 ? (std::ios*) &std::clog : (std::ios*) &std::cin; }
static void ambient_reset()
{
	for(int k = 0; k < 4; k++)
	{
		if(pristine_fmt[k] == nullptr)
		{
			pristine_fmt[k] = new std::ios(nullptr);
			pristine_fmt[k]->copyfmt(*the_stream(k));
		}
		the_stream(k)->clear();
		the_stream(k)->copyfmt(*pristine_fmt[k]);
	}
	std::feclearexcept(FE_ALL_EXCEPT);
	errno = 0;
}
static volatile double sink;
static bool ambient_event(const std::string& op, vh::Reader& r)
{
	if(op == "amb_errno")
		errno = (int) r.integer();
	else if(op == "amb_fe")	  // bit 1 invalid, 2 division by zero, 4 overflow, 8 underflow, 16 inexact
	{
		long m = r.integer();
		int f  = ((m & 1) ? FE_INVALID : 0) | ((m & 2) ? FE_DIVBYZERO : 0) | ((m & 4) ? FE_OVERFLOW : 0) | ((m & 8) ? FE_UNDERFLOW : 0) | ((m & 16) ? FE_INEXACT : 0);
		std::feraiseexcept(f);
	}
	else if(op == "amb_stream")
	{
		std::string which = r.word(), what = r.word();
		std::ios* s = the_stream(which == "cout" ? 0 : which == "cerr" ? 1 : which == "clog" ? 2 : 3);
		std::ostream* os = which == "cin" ? nullptr : (std::ostream*) (which == "cout" ? &std::cout : which == "cerr" ? &std::cerr : &std::clog);
		if(what == "failbit")
			s->setstate(std::ios::failbit);
		else if(what == "badbit")
			s->setstate(std::ios::badbit);
		else if(what == "eofbit")
			s->setstate(std::ios::eofbit);
		else if(what == "fixed")
			s->setf(std::ios::fixed, std::ios::floatfield);
		else if(what == "scientific")
			s->setf(std::ios::scientific, std::ios::floatfield);
		else if(what == "hexfloat")
			s->setf(std::ios::fixed | std::ios::scientific, std::ios::floatfield);
		else if(what == "showpos")
			s->setf(std::ios::showpos);
		else if(what == "showpoint")
			s->setf(std::ios::showpoint);
		else if(what == "uppercase")
			s->setf(std::ios::uppercase);
		else if(what == "boolalpha")
			s->setf(std::ios::boolalpha);
		else if(what == "hex")
			s->setf(std::ios::hex, std::ios::basefield);
		else if(what == "noskipws")
			s->unsetf(std::ios::skipws);
		else if(what == "width")
			s->width(12);
		else if(what == "fill" && os)
			os->fill('*');
		else if(what.compare(0, 4, "prec") == 0)
			s->precision(std::atoi(what.c_str() + 4));
	}
	else if(op == "amb_call")	// other facilities of the library, evaluated where they raise flags / set errno or not
	{
		std::string f = r.word();
		if(f == "pdf_gauss")
		{
			double x = r.num(), mu = r.num(), sg = r.num();
			sink = PDF_Gauss(x, mu, sg);
		}
		else if(f == "cdf_gauss")
		{
			double x = r.num(), mu = r.num(), sg = r.num();
			sink = CDF_Gauss(x, mu, sg);
		}
		else if(f == "pmf_poisson")
		{
			double mu = r.num();
			long k	  = r.integer();
			sink	  = PMF_Poisson(mu, (unsigned int) k);
		}
		else if(f == "lik_poisson" || f == "loglik_poisson")
		{
			double mu = r.num();
			long k	  = r.integer();
			double b  = r.num();
			sink	  = f == "lik_poisson" ? Likelihood_Poisson(mu, (unsigned long) k, b) : Log_Likelihood_Poisson(mu, (unsigned long) k, b);
		}
		else if(f == "pdf_maxwell")
		{
			double x = r.num(), a = r.num();
			sink = PDF_Maxwell_Boltzmann(x, a);
		}
		else if(f == "pdf_chi2")
		{
			double x = r.num(), d = r.num();
			sink = PDF_Chi_Square(x, d);
		}
		else
			return false;
	}
	else if(op == "amb_libm")	// the caller's own arithmetic
	{
		std::string f	  = r.word();
		volatile double x = r.num(), y = r.num();
		if(f == "log")
			sink = std::log(x);
		else if(f == "log10")
			sink = std::log10(x);
		else if(f == "sqrt")
			sink = std::sqrt(x);
		else if(f == "exp")
			sink = std::exp(x);
		else if(f == "acos")
			sink = std::acos(x);
		else if(f == "pow")
			sink = std::pow(x, y);
		else if(f == "lgamma")
			sink = std::lgamma(x);
		else if(f == "tgamma")
			sink = std::tgamma(x);
		else if(f == "fmod")
			sink = std::fmod(x, y);
		else if(f == "div")
			sink = x / y;
		else if(f == "mul")
			sink = x * y;
		else if(f == "strtod")
			sink = std::strtod(x < 0 ? "1e-400" : "1e400", nullptr);
		else
			return false;
	}
	else
		return false;
	return true;
}
static void dispatch(const std::string& op, vh::Reader& r, vh::Out& o);
static void handler(vh::Reader& r, vh::Out& o)
{
	ambient_reset();
	std::string op = r.word();
	if(op == "seq")	  // a session: n sub-cases (each preceded by its number of tokens) in this one process, answers separated by |
	{
		long n = r.integer();
		for(long k = 0; k < n; k++)
		{
			long len = r.integer();
			std::string line;
			for(long j = 0; j < len; j++)
				line += (j ? " " : "") + r.word();
			vh::Reader sub(line);
			vh::Out so;
			std::string sop = sub.word();
			if(sop.compare(0, 4, "amb_") == 0)
				so.w(ambient_event(sop, sub) ? "." : "HARNESSERR unknown_event");
			else
				dispatch(sop, sub, so);
			if(k)
				o.w("|");
			o.w(so.s.str());
		}
		return;
	}
	dispatch(op, r, o);
}
static void dispatch(const std::string& op, vh::Reader& r, vh::Out& o)
{
	if(op == "workload")
	{
		long w = r.integer(), t = r.integer();
		o.il(Workload_Distribution(w, t));
	}
	else if(op == "range")
	{
		long a = r.integer(), b = r.integer(), s = r.integer();
		o.il(Range(a, b, s));
	}
	else if(op == "range1")	  // the one-argument overload
	{
		long b = r.integer();
		o.il(Range(b));
	}
	else if(op == "range2")	  // default step
	{
		long a = r.integer(), b = r.integer();
		o.il(Range(a, b));
	}
	else if(op == "linspace")
	{
		double a = r.num(), b = r.num();
		long n = r.integer();
		o.fl(Linear_Space(a, b, n));
	}
	else if(op == "logspace")
	{
		double a = r.num(), b = r.num();
		long n = r.integer();
		o.fl(Log_Space(a, b, n));
	}
	else if(op == "closest")
	{
		std::vector<double> l = r.list();
		double t			  = r.num();
		o.i(Locate_Closest_Location(l, t));
	}
	else if(op == "lists_equal")
	{
		auto a = toi(r.ilist()), b = toi(r.ilist());
		o.i(Lists_Equal(a, b) ? 1 : 0);
	}
	else if(op == "combine")
	{
		auto a = toi(r.ilist()), b = toi(r.ilist());
		o.il(Combine_Lists(a, b));
	}
	else if(op == "flatten")
		o.il(Flatten_List(itable(r)));
	else if(op == "contains")
	{
		auto a = toi(r.ilist());
		int x  = r.integer();
		o.i(List_Contains(a, x) ? 1 : 0);
	}
	else if(op == "find_indices")
	{
		auto a = toi(r.ilist());
		int x  = r.integer();
		o.il(Find_Indices(a, x));
	}
	else if(op == "sub_list")
	{
		auto a	= toi(r.ilist());
		long i1 = r.integer(), i2 = r.integer();
		o.il(Sub_List(a, (int) i1, (unsigned int) i2));
	}
	else if(op == "transpose")
	{
		auto t = Transpose_Lists(itable(r));
		o.i(t.size());
		for(auto& row : t)
			o.il(row);
	}
	else if(op == "mean")
		o.f(Arithmetic_Mean(r.list()));
	else if(op == "variance")
		o.f(Variance(r.list()));
	else if(op == "stddev")
		o.f(Standard_Deviation(r.list()));
	else if(op == "median")
	{
		auto l = r.list();
		o.f(Median(l));
	}
	else if(op == "wavg")
	{
		long n = r.integer();
		std::vector<DataPoint> d;
		for(long k = 0; k < n; k++)
		{
			double v = r.num(), w = r.num();
			d.push_back(DataPoint(v, w));
		}
		auto res = Weighted_Average(d);
		o.f(res[0]);
		o.f(res[1]);
	}
	// ---- overloads
	else if(op == "lists_equal2")	// Lists_Equal on lists of lists
	{
		auto a = itable(r), b = itable(r);
		o.i(Lists_Equal(a, b) ? 1 : 0);
	}
	else if(op == "transpose2")	  // Transpose_Lists(v1, v2)
	{
		auto a = toi(r.ilist()), b = toi(r.ilist());
		put_table(o, Transpose_Lists(a, b));
	}
	// ---- the list templates instantiated at double (signed zeros, NaN, infinities, subnormals as elements)
	else if(op == "lists_equal_d")
	{
		auto a = r.list(), b = r.list();
		o.i(Lists_Equal(a, b) ? 1 : 0);
	}
	else if(op == "lists_equal2_d")
	{
		auto a = dtable(r), b = dtable(r);
		o.i(Lists_Equal(a, b) ? 1 : 0);
	}
	else if(op == "combine_d")
	{
		auto a = r.list(), b = r.list();
		o.fl(Combine_Lists(a, b));
	}
	else if(op == "flatten_d")
		o.fl(Flatten_List(dtable(r)));
	else if(op == "contains_d")
	{
		auto a	 = r.list();
		double x = r.num();
		o.i(List_Contains(a, x) ? 1 : 0);
	}
	else if(op == "find_indices_d")
	{
		auto a	 = r.list();
		double x = r.num();
		o.il(Find_Indices(a, x));
	}
	else if(op == "sub_list_d")
	{
		auto a	= r.list();
		long i1 = r.integer(), i2 = r.integer();
		o.fl(Sub_List(a, (int) i1, (unsigned int) i2));
	}
	else if(op == "transpose_d")
		put_table(o, Transpose_Lists(dtable(r)));
	else if(op == "transpose2_d")
	{
		auto a = r.list(), b = r.list();
		put_table(o, Transpose_Lists(a, b));
	}
	// ---- one vector object through two calls of Median (it reorders its argument), then the vector itself
	else if(op == "median2")
	{
		auto l	  = r.list();
		double m1 = Median(l);
		double m2 = Median(l);
		o.f(m1);
		o.f(m2);
		std::sort(l.begin(), l.end());
		o.fl(l);
	}
	// ---- data points built from the value only (default weight)
	else if(op == "wavg1")
	{
		auto l = r.list();
		std::vector<DataPoint> d;
		for(double v : l)
			d.push_back(DataPoint(v));
		put_wavg(o, d);
	}
	// ---- laws: the statistics of the data, of p * data, of data + t and of the data rotated by k, in one process
	else if(op == "laws")
	{
		auto x	 = r.list();
		double p = r.num(), t = r.num();
		long k = r.integer();
		std::vector<double> y, z, w = x;
		for(double v : x)
		{
			y.push_back(p * v);
			z.push_back(v + t);
		}
		std::rotate(w.begin(), w.begin() + k, w.end());
		four_stats(o, x);
		four_stats(o, y);
		four_stats(o, z);
		four_stats(o, w);
	}
	else if(op == "wlaws")
	{
		long n = r.integer();
		std::vector<DataPoint> d, dv, dw;
		for(long j = 0; j < n; j++)
		{
			double v = r.num(), w = r.num();
			d.push_back(DataPoint(v, w));
		}
		double p = r.num(), q = r.num();
		long k = r.integer();
		for(auto& e : d)
		{
			dv.push_back(DataPoint(p * e.value, e.weight));
			dw.push_back(DataPoint(e.value, q * e.weight));
		}
		std::vector<DataPoint> dr = d;
		std::rotate(dr.begin(), dr.begin() + k, dr.end());
		put_wavg(o, d);
		put_wavg(o, dv);
		put_wavg(o, dw);
		put_wavg(o, dr);
	}
	// ---- translation law of Weighted_Average: the data, and the data with every value shifted by t
	else if(op == "wshift")
	{
		long n = r.integer();
		std::vector<DataPoint> d, ds;
		for(long j = 0; j < n; j++)
		{
			double v = r.num(), w = r.num();
			d.push_back(DataPoint(v, w));
		}
		double t = r.num();
		for(auto& e : d)
			ds.push_back(DataPoint(e.value + t, e.weight));
		put_wavg(o, d);
		put_wavg(o, ds);
	}
	// ---- an object history: one vector handed to a sequence of statistics calls (0 mean, 1 variance, 2 standard deviation, 3 median);
	// the answers in the order of the calls, then the vector as the calls left it (sorted when a Median call was among them:
	// which permutation std::nth_element leaves is unspecified)
	else if(op == "history")
	{
		auto l	 = r.list();
		auto ops = r.ilist();
		bool med = false;
		for(long c : ops)
		{
			if(c == 0)
				o.f(Arithmetic_Mean(l));
			else if(c == 1)
				o.f(Variance(l));
			else if(c == 2)
				o.f(Standard_Deviation(l));
			else
			{
				o.f(Median(l));
				med = true;
			}
		}
		if(med)
			std::sort(l.begin(), l.end());
		o.fl(l);
	}
	// ---- the helpers composed: statistics of a Linear_Space grid, and a grid point looked up in its own grid
	// (theorems C19_stats_of_grids_and_combined_lists, C19_closest_location_lookup): mean, median, index found for grid[k], grid[k], grid[index]
	else if(op == "gridstat")
	{
		double a = r.num(), b = r.num();
		long n = r.integer(), k = r.integer();
		std::vector<double> g = Linear_Space(a, b, n);
		double mean			  = Arithmetic_Mean(g);
		std::vector<double> g2 = g;
		double med			  = Median(g2);
		unsigned int idx	  = Locate_Closest_Location(g, g[k]);
		o.f(mean);
		o.f(med);
		o.i(idx);
		o.f(g[k]);
		o.f(idx < g.size() ? g[idx] : std::nan(""));
	}
	// ---- DataPoint (Statistics.cpp section 4): the three ways of constructing one, and operator< operator> operator==
	// dpcmp mode v1 w1 v2 w2: mode 0 DataPoint(v,w); 1 DataPoint(v) (default weight); 2 DataPoint() against DataPoint(v2,w2)
	else if(op == "dpcmp")
	{
		long mode = r.integer();
		double v1 = r.num(), w1 = r.num(), v2 = r.num(), w2 = r.num();
		DataPoint a = (mode == 0) ? DataPoint(v1, w1) : ((mode == 1) ? DataPoint(v1) : DataPoint());
		DataPoint b = (mode == 1) ? DataPoint(v2) : DataPoint(v2, w2);
		o.f(a.value);
		o.f(a.weight);
		o.f(b.value);
		o.f(b.weight);
		o.i((a < b) ? 1 : 0);
		o.i((a > b) ? 1 : 0);
		o.i((a == b) ? 1 : 0);
	}
	else
		o.w("HARNESSERR unknown_op");
}
int main(int argc, char** argv) { return vh::run(argc, argv, handler); }
