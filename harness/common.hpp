// Shared part of every C++ correspondence harness.
// Protocol: argv[1] = case file (one case per line, whitespace separated tokens, first token = operation name),
//           argv[2] = output file (one line per case, same order).
// Every case runs in a forked worker; when libphysica terminates the process (std::exit), crashes, trips a
// sanitizer or hangs, the parent records that outcome for the case and restarts a worker at the next case.
#ifndef VERIF_COMMON_HPP
#define VERIF_COMMON_HPP
#include <cmath>
#include <csignal>
#include <cstdio>
#include <cstdlib>
#include <cstring>
#include <fcntl.h>
#include <fstream>
#include <functional>
#include <iostream>
#include <memory>
#include <sstream>
#include <string>
#include <sys/stat.h>
#include <sys/wait.h>
#include <unistd.h>
#include <vector>

namespace vh
{
// ---------- token reader ----------
struct Reader
{
	std::vector<std::string> t;
	size_t i = 0;
	explicit Reader(const std::string& line)
	{
		std::istringstream is(line);
		std::string w;
		while(is >> w)
			t.push_back(w);
	}
	bool more() const { return i < t.size(); }
	std::string word()
	{
		if(i >= t.size())
		{
			fprintf(stderr, "harness: case line too short\n");
			_exit(77);
		}
		return t[i++];
	}
	long integer() { return std::strtol(word().c_str(), nullptr, 10); }
	double num()
	{
		std::string w = word();
		if(w == "nan")
			return std::nan("");
		if(w == "inf")
			return INFINITY;
		if(w == "-inf")
			return -INFINITY;
		return std::strtod(w.c_str(), nullptr);
	}
	std::vector<double> list()
	{
		long n = integer();
		std::vector<double> v;
		for(long k = 0; k < n; k++)
			v.push_back(num());
		return v;
	}
	std::vector<long> ilist()
	{
		long n = integer();
		std::vector<long> v;
		for(long k = 0; k < n; k++)
			v.push_back(integer());
		return v;
	}
	// rows then each row as a list (rows may be ragged)
	std::vector<std::vector<double>> table()
	{
		long n = integer();
		std::vector<std::vector<double>> v;
		for(long k = 0; k < n; k++)
			v.push_back(list());
		return v;
	}
};

// ---------- output ----------
struct Out
{
	std::ostringstream s;
	bool first = true;
	void sep()
	{
		if(!first)
			s << ' ';
		first = false;
	}
	void f(double x)
	{
		sep();
		if(std::isnan(x))
			s << "nan";
		else if(std::isinf(x))
			s << (x > 0 ? "inf" : "-inf");
		else
		{
			char b[64];
			snprintf(b, sizeof b, "%a", x);
			s << b;
		}
	}
	void i(long x)
	{
		sep();
		s << x;
	}
	void w(const std::string& x)
	{
		sep();
		s << x;
	}
	void fl(const std::vector<double>& v)
	{
		i((long) v.size());
		for(double x : v)
			f(x);
	}
	void il(const std::vector<int>& v)
	{
		i((long) v.size());
		for(int x : v)
			i(x);
	}
};

// ---------- function expressions (prefix notation), evaluated identically by the OCaml driver ----------
struct FExpr
{
	std::string op;
	double c = 0;
	long k	 = 0;
	std::vector<double> px, py;
	std::vector<std::shared_ptr<FExpr>> a;
};
inline std::shared_ptr<FExpr> parse_fexpr(Reader& r)
{
	auto e = std::make_shared<FExpr>();
	e->op  = r.word();
	const std::string& o = e->op;
	if(o == "x" || o == "y" || o == "z")
		;
	else if(o == "v")
		e->k = r.integer();
	else if(o == "c")
		e->c = r.num();
	else if(o == "+" || o == "-" || o == "*" || o == "/")
	{
		e->a.push_back(parse_fexpr(r));
		e->a.push_back(parse_fexpr(r));
	}
	else if(o == "pow")
	{
		e->a.push_back(parse_fexpr(r));
		e->c = r.num();
	}
	else if(o == "pwl")
	{
		long n = r.integer();
		for(long k = 0; k < n; k++)
		{
			e->px.push_back(r.num());
			e->py.push_back(r.num());
		}
		e->a.push_back(parse_fexpr(r));
	}
	else if(o == "neg" || o == "exp" || o == "log" || o == "sin" || o == "cos" || o == "atan" || o == "erf" || o == "cosh" || o == "abs" || o == "sqrt" || o == "step" || o == "tanh")
		e->a.push_back(parse_fexpr(r));
	else
	{
		fprintf(stderr, "harness: unknown fexpr op %s\n", o.c_str());
		_exit(77);
	}
	return e;
}
inline double eval_fexpr(const FExpr& e, const double* v)
{
	const std::string& o = e.op;
	if(o == "x")
		return v[0];
	if(o == "y")
		return v[1];
	if(o == "z")
		return v[2];
	if(o == "v")
		return v[e.k];
	if(o == "c")
		return e.c;
	if(o == "+")
		return eval_fexpr(*e.a[0], v) + eval_fexpr(*e.a[1], v);
	if(o == "-")
		return eval_fexpr(*e.a[0], v) - eval_fexpr(*e.a[1], v);
	if(o == "*")
		return eval_fexpr(*e.a[0], v) * eval_fexpr(*e.a[1], v);
	if(o == "/")
		return eval_fexpr(*e.a[0], v) / eval_fexpr(*e.a[1], v);
	double a = eval_fexpr(*e.a[0], v);
	if(o == "pow")
		return std::pow(a, e.c);
	if(o == "neg")
		return -a;
	if(o == "exp")
		return std::exp(a);
	if(o == "log")
		return std::log(a);
	if(o == "sin")
		return std::sin(a);
	if(o == "cos")
		return std::cos(a);
	if(o == "atan")
		return std::atan(a);
	if(o == "erf")
		return std::erf(a);
	if(o == "cosh")
		return std::cosh(a);
	if(o == "tanh")
		return std::tanh(a);
	if(o == "abs")
		return std::fabs(a);
	if(o == "sqrt")
		return std::sqrt(a);
	if(o == "step")
		return a >= 0.0 ? 1.0 : 0.0;
	if(o == "pwl")
	{
		size_t n = e.px.size(), k = 0;
		while(k + 2 < n && a >= e.px[k + 1])
			k++;
		return e.py[k] + (a - e.px[k]) * ((e.py[k + 1] - e.py[k]) / (e.px[k + 1] - e.px[k]));
	}
	return std::nan("");
}
inline std::function<double(double)> fun1(std::shared_ptr<FExpr> e)
{
	return [e](double x) {
		double v[3] = {x, 0, 0};
		return eval_fexpr(*e, v);
	};
}

// ---------- runner ----------
typedef std::function<void(Reader&, Out&)> Handler;

inline int run(int argc, char** argv, Handler handler, unsigned per_case_timeout_s = 20)
{
	if(argc < 3)
	{
		fprintf(stderr, "usage: %s cases out\n", argv[0]);
		return 2;
	}
	std::vector<std::string> lines;
	{
		std::ifstream in(argv[1]);
		std::string l;
		while(std::getline(in, l))
			lines.push_back(l);
	}
	std::ofstream out(argv[2]);
	std::string diagfile = std::string(argv[2]) + ".diag";
	size_t next			 = 0;
	while(next < lines.size())
	{
		int pfd[2];
		if(pipe(pfd) != 0)
			return 2;
		pid_t pid = fork();
		if(pid == 0)
		{
			close(pfd[0]);
			int dfd = open(diagfile.c_str(), O_RDWR | O_CREAT | O_TRUNC, 0644);
			dup2(dfd, 1);
			dup2(dfd, 2);
			FILE* res = fdopen(pfd[1], "w");
			for(size_t k = next; k < lines.size(); k++)
			{
				fflush(stdout);
				std::cout.flush();
				std::cerr.flush();
				if(ftruncate(dfd, 0) != 0) {}
				lseek(dfd, 0, SEEK_SET);
				fprintf(res, "B %zu\n", k);
				fflush(res);
				alarm(per_case_timeout_s);
				Reader r(lines[k]);
				Out o;
				if(r.more())
					handler(r, o);
				alarm(0);
				fprintf(res, "R %zu %s\n", k, o.s.str().c_str());
				fflush(res);
			}
			fclose(res);
			_exit(0);
		}
		close(pfd[1]);
		FILE* rd = fdopen(pfd[0], "r");
		char* buf = nullptr;
		size_t cap = 0;
		long started = -1;
		while(getline(&buf, &cap, rd) > 0)
		{
			if(buf[0] == 'B')
				started = atol(buf + 2);
			else if(buf[0] == 'R')
			{
				char* p	 = buf + 2;
				long k	 = strtol(p, &p, 10);
				if(*p == ' ')
					p++;
				size_t n = strlen(p);
				while(n > 0 && (p[n - 1] == '\n'))
					p[--n] = 0;
				out << p << "\n";
				next	= k + 1;
				started = -1;
			}
		}
		free(buf);
		fclose(rd);
		int st = 0;
		waitpid(pid, &st, 0);
		if(next >= lines.size())
			break;
		// the worker died while running case `next`
		struct stat sb;
		long diag = 0;
		if(stat(diagfile.c_str(), &sb) == 0)
			diag = sb.st_size;
		if(WIFEXITED(st))
		{
			int code = WEXITSTATUS(st);
			if(code == 99 || code == 98)
				out << "SANITIZER " << code << "\n";
			else if(code == 77)
				out << "HARNESSERR\n";
			else if(code == 0)
				out << "EXIT0 diag=" << (diag > 0 ? 1 : 0) << "\n";
			else
				out << "EXIT diag=" << (diag > 0 ? 1 : 0) << "\n";
		}
		else if(WIFSIGNALED(st))
		{
			int sig = WTERMSIG(st);
			if(sig == SIGALRM)
				out << "TIMEOUT\n";
			else
				out << "CRASH sig=" << sig << "\n";
		}
		else
			out << "CRASH sig=0\n";
		(void) started;
		next++;
	}
	out.close();
	unlink(diagfile.c_str());
	return 0;
}
}	// namespace vh
#endif
