// C10 harness: performs one request per case on the real library (see checks/C10.py for the case grammar).
// A request that returns normally prints OK; std::exit / crash / sanitizer outcomes are recorded by the runner.
#include "common.hpp"
#include "libphysica/Integration.hpp"
#include "libphysica/Linear_Algebra.hpp"
#include "libphysica/List_Manipulations.hpp"
#include "libphysica/Natural_Units.hpp"
#include "libphysica/Numerics.hpp"
#include "libphysica/Special_Functions.hpp"
#include "libphysica/Statistics.hpp"
#include "libphysica/Utilities.hpp"
#include <complex>
#include <random>
using namespace libphysica;
using namespace libphysica::natural_units;

// Read access to the private search state of Interpolation (jLast, correlated_calls) without changing the library:
// access checking is not applied to the arguments of an explicit template instantiation (C++ [temp.spec]/6).
template <typename Tag, typename Tag::type M>
struct Rob
{
	friend typename Tag::type peek(Tag) { return M; }
};
struct JLastTag
{
	typedef unsigned int Interpolation::*type;
	friend type peek(JLastTag);
};
struct CorrTag
{
	typedef bool Interpolation::*type;
	friend type peek(CorrTag);
};
template struct Rob<JLastTag, &Interpolation::jLast>;
template struct Rob<CorrTag, &Interpolation::correlated_calls>;

static volatile double sink = 0.0;
static std::string workfile;   // scratch file name (set in main)

static std::vector<double> ramp(long n)
{
	std::vector<double> v;
	for(long k = 0; k < n; k++)
		v.push_back(0.5 * k - 1.0);
	return v;
}
static std::vector<std::vector<double>> shaped(const std::vector<long>& lens)
{
	std::vector<std::vector<double>> t;
	for(long l : lens)
		t.push_back(std::vector<double>(l, 1.5));
	return t;
}
static Matrix filled(long r, long c)
{
	Matrix M((unsigned int) r, (unsigned int) c, 0.0);
	for(long i = 0; i < r; i++)
		for(long j = 0; j < c; j++)
			M[i][j] = 1.0 + i + 0.25 * j;
	return M;
}
// a method name: the token itself, or `%` followed by the bytes of the name in hexadecimal (names that are empty or hold blanks,
// control characters, NUL or bytes above 0x7e cannot be tokens of the case language)
static std::string mname(const std::string& t)
{
	if(t.empty() || t[0] != '%')
		return t;
	auto hv = [](char c) { return (c >= '0' && c <= '9') ? c - '0' : ((c >= 'a' && c <= 'f') ? c - 'a' + 10 : ((c >= 'A' && c <= 'F') ? c - 'A' + 10 : 0)); };
	std::string s;
	for(size_t k = 1; k + 1 < t.size(); k += 2)
		s.push_back((char) (hv(t[k]) * 16 + hv(t[k + 1])));
	return s;
}
static void use(const Matrix& M) { sink = M.Rows() + M.Columns() + (M.Rows() > 0 && M.Columns() > 0 ? M[0][0] : 0.0); }
static void use(const Vector& v) { sink = v.Size() + (v.Size() > 0 ? v[0] : 0.0); }

// one request on an Interpolation object: loc x | ev x | der x n | int a b | min a b | max a b | glob | save n
struct ICall
{
	std::string w;
	double x = 0.0, y = 0.0;
	long n = 0;
};
static ICall read_icall(vh::Reader& r)
{
	ICall c;
	c.w = r.word();
	if(c.w == "loc" || c.w == "ev")
		c.x = r.num();
	else if(c.w == "der")
	{
		c.x = r.num();
		c.n = r.integer();
	}
	else if(c.w == "int" || c.w == "min" || c.w == "max")
	{
		c.x = r.num();
		c.y = r.num();
	}
	else if(c.w == "save")
		c.n = r.integer();
	else if(c.w != "glob")
	{
		fprintf(stderr, "harness: unknown interpolation request\n");
		_exit(77);
	}
	return c;
}
static double interp_call(Interpolation& I, const ICall& c)
{
	if(c.w == "loc")
		return I.Locate(c.x);
	else if(c.w == "ev")
		return I(c.x);
	else if(c.w == "der")
		return I.Derivative(c.x, (unsigned int) c.n);
	else if(c.w == "int")
		return I.Integrate(c.x, c.y);
	else if(c.w == "min")
		return I.Local_Minimum(c.x, c.y);
	else if(c.w == "max")
		return I.Local_Maximum(c.x, c.y);
	else if(c.w == "save")
	{
		I.Save_Function(workfile, (unsigned int) c.n);
		return 0.0;
	}
	return I.Global_Minimum() + I.Global_Maximum();
}
// same answer: bit-identical, or both NaN
static bool same_answer(double a, double b) { return (std::isnan(a) && std::isnan(b)) || (a == b && std::signbit(a) == std::signbit(b)); }

// ---- requests made from inside a call-back, abandoned calls, several requests in one process
struct Abandon
{
};
// what the process has printed so far does not count as the diagnostic of the request that follows
static void reset_diag()
{
	fflush(stdout);
	fflush(stderr);
	std::cout.flush();
	std::cerr.flush();
	if(ftruncate(2, 0) != 0) {}
	lseek(2, 0, SEEK_SET);
}
static void handler(vh::Reader& r, vh::Out& o);
// one sub-case, starting at the reader's position (its own output is dropped; it returns, exits the process, or throws Abandon)
static void run_sub(vh::Reader& r)
{
	vh::Out dummy;
	reset_diag();
	handler(r, dummy);
	if(dummy.s.str().find("HARNESSERR") != std::string::npos)
	{
		fprintf(stderr, "harness: %s\n", dummy.s.str().c_str());
		_exit(77);
	}
}
static void skip_sub(vh::Reader& r)
{
	while(r.more() && r.t[r.i] != ";;")
		r.i++;
}

static int depth = 0;
static void handler(vh::Reader& r, vh::Out& o)
{
	std::string op = r.word();
	if((op == "session" || op == "nested") && depth == 0)
	{
		// a case that may leave the process in another state than it found it (abandoned calls, stream state, statics) runs in a process of
		// its own, forked from this worker: what it does cannot reach the cases that follow, and its outcome becomes the outcome of this worker
		reset_diag();
		pid_t pid = fork();
		if(pid == 0)
		{
			depth = 1;
			alarm(20);
			r.i = 0;
			vh::Out inner;
			handler(r, inner);
			_exit(inner.s.str() == "OK" ? 42 : 77);
		}
		int st = 0;
		waitpid(pid, &st, 0);
		if(WIFEXITED(st) && WEXITSTATUS(st) == 42)
		{
			r.i = r.t.size();
			o.w("OK");
			return;
		}
		if(WIFEXITED(st))
			_exit(WEXITSTATUS(st));
		signal(WTERMSIG(st), SIG_DFL);
		raise(WTERMSIG(st));
		_exit(70);
	}
	if(op == "throw")
		throw Abandon();
	else if(op == "session")
	{
		// several requests, one after the other, in this process
		long n = r.integer();
		for(long k = 0; k < n; k++)
		{
			if(k > 0 && r.word() != ";;")
			{
				o.w("HARNESSERR session_separator");
				return;
			}
			try
			{
				run_sub(r);
			}
			catch(const Abandon&)
			{
				skip_sub(r);
			}
		}
		o.w("OK");
		return;
	}
	else if(op == "nested")
	{
		// a library entry point whose call-back, on its k-th evaluation, makes the request of the sub-case (or throws)
		std::string e = r.word(), m;
		double l[6]	  = {0, 0, 0, 0, 0, 0};
		std::shared_ptr<vh::FExpr> fe;
		if(e == "root")
		{
			fe	 = vh::parse_fexpr(r);
			l[0] = r.num();
			l[1] = r.num();
		}
		else
		{
			m	  = mname(r.word());
			int d = (e == "int1") ? 2 : (e == "int2" ? 4 : (e == "int3" ? 6 : -1));
			if(d < 0)
			{
				o.w("HARNESSERR unknown_entry");
				return;
			}
			for(int k = 0; k < d; k++)
				l[k] = r.num();
		}
		long k		  = r.integer();
		size_t sub_at = r.i;
		long calls	  = 0;
		auto cb		  = [&]() {
			  if(++calls == k)
			  {
				  vh::Reader rr = r;
				  rr.i			= sub_at;
				  run_sub(rr);
			  }
		};
		bool mc = (m == "Monte-Carlo" || m == "Vegas" || m == "Miser");
		try
		{
			if(e == "int1")
				sink = Integrate([&](double x) { cb(); return 1.0 + x * x; }, l[0], l[1], m);
			else if(e == "int2")
				sink = Integrate_2D([&](double x, double y) { cb(); return 1.0 + x + 2.0 * y; }, l[0], l[1], l[2], l[3], m, mc ? 400 : 0);
			else if(e == "int3")
				sink = Integrate_3D([&](double x, double y, double z) { cb(); return 1.0 + x + 2.0 * y - z; }, l[0], l[1], l[2], l[3], l[4], l[5], m, mc ? 400 : (m == "Gauss-Legendre_2" ? 4 : (m == "Gauss-Kronrod" ? 1 : 0)));
			else
			{
				auto f = vh::fun1(fe);
				sink   = Find_Root([&](double x) { cb(); return f(x); }, l[0], l[1], 1e-6);
			}
		}
		catch(const Abandon&)
		{
		}
		skip_sub(r);
		o.w("OK");
		return;
	}
	else if(op == "vec_at")
	{
		long d = r.integer(), i = r.integer();
		Vector v((unsigned int) d, 1.0);
		v[(unsigned int) i] = 2.0;
		sink				= v[(unsigned int) i];
	}
	else if(op == "vec_at_c")
	{
		long d = r.integer(), i = r.integer();
		const Vector v((unsigned int) d, 1.0);
		sink = v[(unsigned int) i];
	}
	else if(op == "dot" || op == "vec_add" || op == "vec_sub" || op == "vec_addeq" || op == "vec_subeq" || op == "cross" || op == "vec_mul" || op == "angle" || op == "vec_eq" || op == "outer")
	{
		long a = r.integer(), b = r.integer();
		Vector v(ramp(a)), w(ramp(b));
		if(op == "dot")
			sink = v.Dot(w);
		else if(op == "vec_mul")
			sink = v * w;
		else if(op == "angle")
			sink = Angle(v, w);
		else if(op == "vec_eq")
			sink = (v == w) ? 1.0 : 0.0;
		else if(op == "outer")
			use(Outer_Vector_Product(v, w));
		else if(op == "vec_add")
			use(v + w);
		else if(op == "vec_sub")
			use(v - w);
		else if(op == "vec_addeq")
		{
			v += w;
			use(v);
		}
		else if(op == "vec_subeq")
		{
			v -= w;
			use(v);
		}
		else
			use(v.Cross(w));
	}
	else if(op == "mat_at" || op == "mat_at_c" || op == "delete_row" || op == "return_row" || op == "delete_col" || op == "return_col")
	{
		long rr = r.integer(), c = r.integer(), i = r.integer();
		Matrix M = filled(rr, c);
		if(op == "mat_at")
		{
			std::vector<double>& row = M[(unsigned int) i];
			sink					 = row.size();
		}
		else if(op == "mat_at_c")
		{
			const Matrix& C				   = M;
			const std::vector<double>& row = C[(unsigned int) i];
			sink						   = row.size();
		}
		else if(op == "delete_row")
		{
			M.Delete_Row((unsigned int) i);
			use(M);
		}
		else if(op == "return_row")
			use(M.Return_Row((unsigned int) i));
		else if(op == "delete_col")
		{
			M.Delete_Column((unsigned int) i);
			use(M);
		}
		else
			use(M.Return_Column((unsigned int) i));
	}
	else if(op == "sub_matrix")
	{
		long rr = r.integer(), c = r.integer(), i = r.integer(), j = r.integer();
		Matrix M = filled(rr, c);
		use(M.Sub_Matrix((int) i, (int) j));
	}
	else if(op == "mat_ctor")
	{
		Matrix M(shaped(r.ilist()));
		use(M);
	}
	else if(op == "mat_plus" || op == "mat_minus" || op == "mat_pluseq" || op == "mat_minuseq" || op == "mat_mul")
	{
		long a = r.integer(), b = r.integer(), c = r.integer(), d = r.integer();
		Matrix A = filled(a, b), B = filled(c, d);
		if(op == "mat_plus")
			use(A + B);
		else if(op == "mat_minus")
			use(A - B);
		else if(op == "mat_pluseq")
		{
			A += B;
			use(A);
		}
		else if(op == "mat_minuseq")
		{
			A -= B;
			use(A);
		}
		else
			use(A * B);
	}
	else if(op == "mat_vec")
	{
		long a = r.integer(), b = r.integer(), d = r.integer();
		Matrix A = filled(a, b);
		Vector v(ramp(d));
		use(A * v);
	}
	else if(op == "vec_mat")
	{
		long d = r.integer(), a = r.integer(), b = r.integer();
		Matrix A = filled(a, b);
		Vector v(ramp(d));
		use(v * A);
	}
	else if(op == "trace" || op == "det" || op == "transpose")
	{
		long a = r.integer(), b = r.integer();
		Matrix A = filled(a, b);
		if(op == "trace")
			sink = A.Trace();
		else if(op == "det")
			sink = A.Determinant();
		else
			use(A.Transpose());
	}
	else if(op == "inverse")
	{
		long a = r.integer(), b = r.integer();
		Matrix A((unsigned int) a, (unsigned int) b, 0.0);
		for(long i = 0; i < a; i++)
			for(long j = 0; j < b; j++)
				A[i][j] = r.num();
		use(A.Inverse());
	}
	else if(op == "rotation")
	{
		long dim = r.integer(), n = r.integer();
		Vector axis((unsigned int) n, 1.0);
		use(Rotation_Matrix(0.3, (int) dim, axis));
	}
	else if(op == "block")
	{
		long n = r.integer();
		std::vector<std::vector<Matrix>> blocks;
		for(long k = 0; k < n; k++)
		{
			long m = r.integer();
			std::vector<Matrix> row;
			for(long l = 0; l < m; l++)
			{
				long a = r.integer(), b = r.integer();
				row.push_back(filled(a, b));
			}
			blocks.push_back(row);
		}
		Matrix M(blocks);
		use(M);
	}
	else if(op == "transpose_lists")
	{
		auto t = Transpose_Lists(shaped(r.ilist()));
		sink   = t.size();
	}
	else if(op == "sub_list")
	{
		long s = r.integer(), a = r.integer(), b = r.integer();
		auto t = Sub_List(ramp(s), (int) a, (unsigned int) b);
		sink   = t.size();
	}
	else if(op == "import_list")
	{
		long e = r.integer();
		if(e)
		{
			std::ofstream f(workfile);
			f << "1.5\n2.5\n";
		}
		else
			unlink(workfile.c_str());
		sink = Import_List(workfile).size();
	}
	else if(op == "import_table")
	{
		long e					  = r.integer();
		std::vector<long> perline = r.ilist();
		long ignored = r.integer(), ndims = r.integer();
		if(e)
		{
			std::ofstream f(workfile);
			double x = 1.0;
			for(long n : perline)
			{
				for(long k = 0; k < n; k++, x += 0.5)
					f << (k ? "\t" : "") << x;
				f << "\n";
			}
		}
		else
			unlink(workfile.c_str());
		sink = Import_Table(workfile, std::vector<double>(ndims, 2.0), (unsigned int) ignored).size();
	}
	else if(op == "export_table")
	{
		std::vector<long> lens = r.ilist();
		long ndims			   = r.integer();
		Export_Table(workfile, shaped(lens), std::vector<double>(ndims, 2.0));
	}
	else if(op == "in_units")
	{
		std::vector<long> lens = r.ilist();
		long ndims			   = r.integer();
		sink				   = In_Units(shaped(lens), std::vector<double>(ndims, 2.0)).size();
	}
	else if(op == "workload")
	{
		long w = r.integer(), t = r.integer();
		sink = Workload_Distribution((unsigned int) w, (unsigned int) t).size();
	}
	else if(op == "minimize")
	{
		long ns = r.integer(), nd = r.integer();
		std::vector<double> start(ns, 1.0), deltas(nd, 0.5);
		Minimization m(1e-6);
		auto res = m.minimize(start, deltas, [](std::vector<double> x) {
			double s = 0.0;
			for(double y : x)
				s += (y - 0.25) * (y - 0.25);
			return s;
		});
		sink	 = res.size();
	}
	else if(op == "kde")
	{
		long n = r.integer();
		std::vector<DataPoint> d;
		for(long k = 0; k < n; k++)
			d.push_back(DataPoint(0.3 + 0.37 * ((k * 7) % 11), 1.0 + 0.1 * (k % 3)));
		Interpolation kde = Perform_KDE(d, 0.0, 5.0, 0.4);
		sink			  = kde(1.0);
	}
	else if(op == "integrate" || op == "integrate_eq")
	{
		std::string m = mname(r.word());
		double b	  = (op == "integrate") ? 1.0 : 0.25;
		sink		  = Integrate([](double x) { return 1.0 + x * x; }, 0.25, b, m);
	}
	else if(op == "integrate_2d")
	{
		std::string m = mname(r.word());
		sink		  = Integrate_2D([](double x, double y) { return 1.0 + x + 2.0 * y; }, 0.0, 1.0, 0.0, 1.0, m, (m == "Monte-Carlo" || m == "Vegas" || m == "Miser") ? 400 : 0);
	}
	else if(op == "integrate_3d")
	{
		std::string m = mname(r.word());
		bool mc		  = (m == "Monte-Carlo" || m == "Vegas" || m == "Miser");
		sink		  = Integrate_3D([](double x, double y, double z) { return 1.0 + x + 2.0 * y - z; }, 0.0, 1.0, 0.0, 1.0, 0.0, 1.0, m, mc ? 400 : (m == "Gauss-Legendre_2" ? 4 : (m == "Gauss-Kronrod" ? 1 : 0)));
	}
	else if(op == "integrate_mc")
	{
		std::string m											   = mname(r.word());
		std::function<double(std::vector<double>&, const double)> f = [](std::vector<double>& x, const double w) { return 1.0 + x[0] * x[1]; };
		std::vector<double> region									   = {0.0, 0.0, 1.0, 1.0};
		sink														   = Integrate_MC(f, region, 400, m);
	}
	else if(op == "gauss_legendre")
	{
		long nf = r.integer();
		sink	= Integrate_Gauss_Legendre(std::vector<double>(nf, 1.0), shaped(r.ilist()));
	}
	else if(op == "metropolis" || op == "metropolis_2d")
	{
		long n = r.integer();
		std::mt19937 PRNG(7);
		std::vector<double> domain;
		for(long k = 0; k < n; k++)
			domain.push_back(-1.0 + k);
		if(op == "metropolis")
			sink = Sample_Metropolis(PRNG, [](double x) { return std::exp(-x * x); }, 0.5, 5, 2, 3, domain).size();
		else
		{
			std::function<double(double, double)> pdf = [](double x, double y) { return std::exp(-x * x - y * y); };
			sink									  = Sample_Metropolis_2D(PRNG, pdf, {0.5, 0.5}, 5, 2, 3, domain).size();
		}
	}
	else if(op == "binned")
	{
		long np = r.integer(), no = r.integer(), nb = r.integer();
		sink = Log_Likelihood_Poisson_Binned(std::vector<double>(np, 2.5), std::vector<unsigned long int>(no, 3), std::vector<double>(nb, 0.5));
	}
	else if(op == "factorial")
		sink = Factorial((unsigned int) r.integer());
	else if(op == "vsh_y")
		sink = std::abs(VSH_Y_Component((int) r.integer(), 2, 1, 3, 2));
	else if(op == "vsh_psi")
		sink = std::abs(VSH_Psi_Component((int) r.integer(), 2, 1, 3, 2));
	else if(op == "binomial_coefficient")
	{
		long n = r.integer(), k = r.integer();
		sink = Binomial_Coefficient((int) n, (int) k);
	}
	else if(op == "gammaln")
		sink = GammaLn(r.num());
	else if(op == "gammaq")
	{
		double x = r.num(), a = r.num();
		sink = GammaQ(x, a);
	}
	else if(op == "inv_gammap")
	{
		double p = r.num(), a = r.num();
		sink = Inv_GammaP(p, a);
	}
	else if(op == "round")
	{
		double x = r.num();
		long d	 = r.integer();
		sink	 = Round(x, (unsigned int) d);
	}
	else if(op == "pmf_binomial" || op == "cdf_binomial")
	{
		long t	 = r.integer();
		double p = r.num();
		long x	 = r.integer();
		sink	 = (op == "pmf_binomial") ? PMF_Binomial((unsigned int) t, p, (unsigned int) x) : CDF_Binomial((unsigned int) t, p, (unsigned int) x);
	}
	else if(op == "pmf_poisson" || op == "cdf_poisson")
	{
		double mu = r.num();
		long k	  = r.integer();
		sink	  = (op == "pmf_poisson") ? PMF_Poisson(mu, (unsigned int) k) : CDF_Poisson(mu, (unsigned int) k);
	}
	else if(op == "inv_cdf_poisson")
	{
		long k	 = r.integer();
		double c = r.num();
		sink	 = Inv_CDF_Poisson((unsigned int) k, c);
	}
	else if(op == "pdf_exponential")
		sink = PDF_Exponential(0.7, r.num());
	else if(op == "cdf_exponential")
		sink = CDF_Exponential(0.7, r.num());
	else if(op == "pdf_maxwell")
		sink = PDF_Maxwell_Boltzmann(0.7, r.num());
	else if(op == "cdf_maxwell")
		sink = CDF_Maxwell_Boltzmann(0.7, r.num());
	else if(op == "find_root")
	{
		auto e	 = vh::parse_fexpr(r);
		double a = r.num(), b = r.num();
		sink = Find_Root(vh::fun1(e), a, b, 1e-6);
	}
	else if(op == "inv_erf")
		sink = Inv_Erf(r.num());
	else if(op == "interp")
	{
		std::vector<double> xs = r.list();
		long nf				   = r.integer();
		Interpolation I(xs, ramp(nf));
		sink = I.domain[0];
	}
	else if(op == "interp_table")
	{
		Interpolation I(r.table());
		sink = I.domain[0];
	}
	else if(op == "locate" || op == "interpolate")
	{
		std::vector<double> xs = r.list();
		double x			   = r.num();
		Interpolation I(xs, ramp(xs.size()));
		sink = (op == "locate") ? I.Locate(x) : I.Interpolate(x);
	}
	else if(op == "interp_integrate" || op == "local_min" || op == "local_max")
	{
		std::vector<double> xs = r.list();
		double a = r.num(), b = r.num();
		Interpolation I(xs, ramp(xs.size()));
		sink = (op == "interp_integrate") ? I.Integrate(a, b) : (op == "local_min" ? I.Local_Minimum(a, b) : I.Local_Maximum(a, b));
	}
	else if(op == "interp2d")
	{
		std::vector<double> xs = r.list(), ys = r.list();
		Interpolation_2D I(xs, ys, shaped(r.ilist()));
		sink = I.domain.size();
	}
	else if(op == "interp2d_eval")
	{
		std::vector<double> xs = r.list(), ys = r.list();
		double x = r.num(), y = r.num();
		Interpolation_2D I(xs, ys, std::vector<std::vector<double>>(xs.size(), std::vector<double>(ys.size(), 1.0)));
		sink = I.Interpolate(x, y);
	}
	else if(op == "interp2d_table")
	{
		Interpolation_2D I(r.table());
		sink = I.domain.size();
	}
	else if(op == "closest")
	{
		std::vector<double> l = r.list();
		double t			  = r.num();
		sink				  = Locate_Closest_Location(l, t);
	}
	else if(op == "locate_trace")
	{
		// Locate requests on one object; after each one the index returned and the private search state
		std::vector<double> xs = r.list();
		long n				   = r.integer();
		Interpolation I(xs, ramp(xs.size()));
		std::vector<long> tr;
		for(long k = 0; k < n; k++)
		{
			double x	   = r.num();
			unsigned int j = I.Locate(x);
			tr.push_back((long) j);
			tr.push_back((long) (I.*peek(JLastTag())));
			tr.push_back((I.*peek(CorrTag())) ? 1 : 0);
		}
		o.w("OK");
		o.i(n);
		for(long v : tr)
			o.i(v);
		return;
	}
	else if(op == "icalls" || op == "icalls_t")
	{
		// one Interpolation object built with unit arguments, then several requests on it, in order
		std::unique_ptr<Interpolation> I;
		if(op == "icalls")
		{
			std::vector<double> xs = r.list();
			long nf				   = r.integer();
			double xd = r.num(), fd = r.num();
			I.reset(new Interpolation(xs, ramp(nf), xd, fd));
		}
		else
		{
			std::vector<std::vector<double>> tb = r.table();
			double xd = r.num(), fd = r.num();
			I.reset(new Interpolation(tb, xd, fd));
		}
		std::vector<double> dom = I->domain;
		// an untouched copy: every request is answered a second time by an object that has served no request before
		const Interpolation pristine(*I);
		long n = r.integer();
		std::vector<long> locs;
		long differ = 0;
		for(long k = 0; k < n; k++)
		{
			ICall c	   = read_icall(r);
			double got = interp_call(*I, c);
			sink	   = got;
			if(c.w == "loc")
				locs.push_back((long) (unsigned int) got);
			Interpolation fresh(pristine);
			double ref = interp_call(fresh, c);
			if(!same_answer(got, ref))
				differ++;
		}
		o.w("OK");
		o.f(dom.size() > 0 ? dom[0] : std::nan(""));
		o.f(dom.size() > 1 ? dom[1] : std::nan(""));
		o.i((long) locs.size());
		for(long j : locs)
			o.i(j);
		o.i(differ);
		return;
	}
	else if(op == "i2calls" || op == "i2calls_t")
	{
		std::unique_ptr<Interpolation_2D> I;
		if(op == "i2calls")
		{
			std::vector<double> xs = r.list(), ys = r.list();
			std::vector<long> lens = r.ilist();
			double xd = r.num(), yd = r.num(), fd = r.num();
			I.reset(new Interpolation_2D(xs, ys, shaped(lens), xd, yd, fd));
		}
		else
		{
			std::vector<std::vector<double>> tb = r.table();
			double xd = r.num(), yd = r.num(), fd = r.num();
			I.reset(new Interpolation_2D(tb, xd, yd, fd));
		}
		std::vector<std::vector<double>> dom = I->domain;
		long n								 = r.integer();
		const Interpolation_2D pristine(*I);
		long differ = 0;
		for(long k = 0; k < n; k++)
		{
			double x = r.num(), y = r.num();
			double got = I->Interpolate(x, y);
			sink	   = got;
			Interpolation_2D fresh(pristine);
			if(!same_answer(got, fresh.Interpolate(x, y)))
				differ++;
		}
		o.w("OK");
		for(int a = 0; a < 2; a++)
			for(int b = 0; b < 2; b++)
				o.f((int) dom.size() > a && (int) dom[a].size() > b ? dom[a][b] : std::nan(""));
		o.i(differ);
		return;
	}
	else if(op == "fact_seq")
	{
		long n = r.integer();
		for(long k = 0; k < n; k++)
		{
			std::string w = r.word();
			if(w == "f")
				sink = Factorial((unsigned int) r.integer());
			else
			{
				long a = r.integer(), b = r.integer();
				sink = Binomial_Coefficient((int) a, (int) b);
			}
		}
	}
	else if(op == "vec_hist")
	{
		long d = r.integer(), n = r.integer();
		Vector v((unsigned int) d, 1.0);
		for(long k = 0; k < n; k++)
		{
			std::string w = r.word();
			if(w == "resize")
				v.Resize((unsigned int) r.integer());
			else if(w == "assign")
				v.Assign((unsigned int) r.integer(), 2.0);
			else if(w == "copy")
			{
				Vector c(v);
				v = c;
			}
			else if(w == "set")
				v = Vector(ramp(r.integer()));
			else if(w == "addeq")
				v += Vector(ramp(r.integer()));
			else
			{
				o.w("HARNESSERR unknown_vec_op");
				return;
			}
		}
		long size	  = v.Size();
		std::string w = r.word();
		if(w == "at")
		{
			unsigned int i = (unsigned int) r.integer();
			v[i]		   = 2.0;
			sink		   = v[i];
		}
		else if(w == "dot")
			sink = v.Dot(Vector(ramp(r.integer())));
		else if(w == "add")
			use(v + Vector(ramp(r.integer())));
		else if(w == "sub")
			use(v - Vector(ramp(r.integer())));
		else if(w == "addeq")
		{
			v += Vector(ramp(r.integer()));
			use(v);
		}
		else if(w == "cross")
			use(v.Cross(Vector(ramp(r.integer()))));
		else if(w == "subeq")
		{
			v -= Vector(ramp(r.integer()));
			use(v);
		}
		else if(w == "mul")
			sink = v * Vector(ramp(r.integer()));
		else if(w == "angle")
			sink = Angle(v, Vector(ramp(r.integer())));
		else if(w == "eq")
			sink = (v == Vector(ramp(r.integer()))) ? 1.0 : 0.0;
		// the object as the RIGHT operand
		else if(w == "rdot")
			sink = Vector(ramp(r.integer())).Dot(v);
		else if(w == "radd")
			use(Vector(ramp(r.integer())) + v);
		else if(w == "rsub")
			use(Vector(ramp(r.integer())) - v);
		else if(w == "raddeq")
		{
			Vector u(ramp(r.integer()));
			u += v;
			use(u);
		}
		else if(w == "rsubeq")
		{
			Vector u(ramp(r.integer()));
			u -= v;
			use(u);
		}
		else if(w == "rmul")
			sink = Vector(ramp(r.integer())) * v;
		else if(w == "rangle")
			sink = Angle(Vector(ramp(r.integer())), v);
		else if(w == "rcross")
			use(Vector(ramp(r.integer())).Cross(v));
		else if(w == "req")
			sink = (Vector(ramp(r.integer())) == v) ? 1.0 : 0.0;
		else if(w != "none")
		{
			o.w("HARNESSERR unknown_vec_probe");
			return;
		}
		// every component the object advertises is there
		for(long i = 0; i < size && w == "none"; i++)
			sink = v[(unsigned int) i];
		o.w("OK");
		o.i(size);
		return;
	}
	else if(op == "mat_hist")
	{
		long rr = r.integer(), cc = r.integer(), n = r.integer();
		Matrix M = filled(rr, cc);
		for(long k = 0; k < n; k++)
		{
			std::string w = r.word();
			if(w == "resize")
			{
				long a = r.integer(), b = r.integer();
				M.Resize((int) a, (int) b);
			}
			else if(w == "assign")
			{
				long a = r.integer(), b = r.integer();
				M.Assign((int) a, (int) b, 2.0);
			}
			else if(w == "delrow")
				M.Delete_Row((unsigned int) r.integer());
			else if(w == "delcol")
				M.Delete_Column((unsigned int) r.integer());
			else if(w == "copy")
			{
				Matrix C(M);
				M = C;
			}
			else if(w == "set")
			{
				long a = r.integer(), b = r.integer();
				M = filled(a, b);
			}
			else if(w == "pluseq")
			{
				long a = r.integer(), b = r.integer();
				M += filled(a, b);
			}
			else if(w == "sum")
			{
				long a = r.integer(), b = r.integer();
				M = M + filled(a, b);
			}
			else if(w == "prod")
			{
				long a = r.integer(), b = r.integer();
				M = M * filled(a, b);
			}
			else if(w == "transp")
				M = M.Transpose();
			else
			{
				o.w("HARNESSERR unknown_mat_op");
				return;
			}
		}
		// what the object advertises after the history, and whether its rows really have Columns() entries
		long R = M.Rows(), C = M.Columns(), bad = 0;
		for(long i = 0; i < R; i++)
			if((long) M[(unsigned int) i].size() != C)
				bad++;
		std::string w = r.word();
		if(w == "at")
		{
			std::vector<double>& row = M[(unsigned int) r.integer()];
			sink					 = row.size();
		}
		else if(w == "row")
			use(Vector((unsigned int) C, 1.0) + M.Return_Row((unsigned int) r.integer()));
		else if(w == "col")
			use(Vector((unsigned int) R, 1.0) + M.Return_Column((unsigned int) r.integer()));
		else if(w == "plus" || w == "minus" || w == "pluseq" || w == "mul" || w == "lmul")
		{
			long a = r.integer(), b = r.integer();
			Matrix B = filled(a, b);
			if(w == "plus")
				use(M.Plus(B));
			else if(w == "minus")
				use(M.Minus(B));
			else if(w == "pluseq")
			{
				M += B;
				use(M);
			}
			else if(w == "mul")
				use(M * B);
			else
				use(B * M);
		}
		else if(w == "matvec")
			use(M * Vector(ramp(r.integer())));
		else if(w == "vecmat")
			use(Vector(ramp(r.integer())) * M);
		else if(w == "trace")
			sink = M.Trace();
		else if(w == "det")
			sink = M.Determinant();
		else if(w == "transpose")
			use(M.Transpose());
		else if(w == "sub")
		{
			long i = r.integer(), j = r.integer();
			use(M.Sub_Matrix((int) i, (int) j));
		}
		else if(w == "eq")
			sink = (M == filled(R, C)) ? 1.0 : 0.0;
		else if(w != "none")
		{
			o.w("HARNESSERR unknown_mat_probe");
			return;
		}
		o.w("OK");
		o.i(R);
		o.i(C);
		o.i(bad);
		return;
	}
	else
	{
		o.w("HARNESSERR unknown_op");
		return;
	}
	o.w("OK");
}
int main(int argc, char** argv)
{
	if(argc >= 3)
		workfile = std::string(argv[2]) + ".scratch";
	int rc = vh::run(argc, argv, handler);
	unlink(workfile.c_str());
	return rc;
}
