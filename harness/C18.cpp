// C18 harness: runs libphysica's samplers on an std::mt19937 in a state fixed by the case line
// (see checks/C18.py for the case grammar).
//   seq   <seed> <nstate> w_1..w_nstate <N> u_1..u_N <K> op_1 .. op_K
//         the K sampler calls share one generator; the sequence is run twice from equal generator states.
//         Output: the values returned by the calls, then  <uniforms consumed> <det> <next raw output>
//         where det = 1 iff both runs printed identical values and left equal generator states behind.
//   seqn  <seed> <nstate> w.. <N> u.. <seed2> <N2> v.. <K> op_1 .. op_K
//         two generators (the calls are made on the first one; `onaux` makes a call on the second); user functions
//         may be re-entrant (`nest`, see parse_op).  Output: the values (after a nest call: the number of evaluations
//         of its user function), then <uniforms consumed from generator 1> <from generator 2> <det>
//         <evaluations of re-entrant user functions> <n <= 6> <canonical draws made by both generators at the
//         first n evaluations> <next raw output of generator 1> <of generator 2>
//   mgrid <seed> <sample> <thinning> <burn_in> <dim> <bounded>
//         Output: <number of samples> <uniforms consumed> <all samples inside the domain> <det>
//   law   <kind> <target> <seed> <n> ...   (many samples in one line, for the distributional tests)
//   lawh  <seed> <nstate> w.. <K> op_1 .. op_K law <kind> ...   the same after a history of K other calls in the process
//   seqh  (syntax of seqn)  HISTORY AGAINST PRISTINE PROCESSES: the K calls are made one after the other in a process that has
//         not called the library before (forked from the pristine server started by main()); then EVERY call is made once
//         more, alone, in another pristine process, from the states the two generators had in front of it in the history.
//         Output: the seqn output of the history, then  FRESH <K> f_1 .. f_K  with f_j = 1 iff the pristine process
//         returned the same values and left both generators in the same states as the call in the history (0: differs,
//         2: the pristine process was terminated), then for every f_j != 1:  DIFF <j> <g equal> <h equal> <n> <the n value
//         tokens of the pristine process>   or   DIFF <j> STATUS <word>.
#include "common.hpp"
#include <sys/socket.h>
#include <cerrno>
#include "libphysica/Statistics.hpp"
#include <random>
#include <sstream>
#include <sys/time.h>
using namespace libphysica;
static std::function<double(double, double)> fun2(std::shared_ptr<vh::FExpr> e)
{
	return [e](double x, double y) {
		double v[3] = {x, y, 0};
		return vh::eval_fexpr(*e, v);
	};
}

// generator in the state described by the case: std::mt19937(seed); with nstate > 0 the first nstate state
// words are replaced and the read position is set to 0, so that the next outputs are the tempered words.
static std::mt19937 make_gen(vh::Reader& r)
{
	unsigned long seed = std::strtoul(r.word().c_str(), nullptr, 10);
	long ns			   = r.integer();
	std::mt19937 g((std::mt19937::result_type) seed);
	if(ns > 0)
	{
		std::ostringstream os;
		os << g;
		std::istringstream is(os.str());
		std::vector<std::string> w;
		std::string t;
		while(is >> t)
			w.push_back(t);	  // 624 state words, then the position
		for(long k = 0; k < ns; k++)
			w[k] = r.word();
		w[624] = "0";
		std::string s;
		for(auto& x : w)
			s += x + " ";
		std::istringstream is2(s);
		is2 >> g;
	}
	return g;
}

// number of raw 32-bit outputs that take generator `from` to the state of `to` (-1: not within the cap)
static long raw_distance(std::mt19937 from, const std::mt19937& to, long cap = 40000000)
{
	for(long c = 0; c <= cap; c++)
	{
		if(from == to)
			return c;
		from();
	}
	return -1;
}

// ---- sampler calls of the seq / seqn case language --------------------------------------------------------------
// A call works on the CURRENT generator of its context (g); the context also knows a second generator (h).
//   onaux <op>                         the call is made on the other generator (g and h swapped)
//   nest <same|other> <red> <inner-op> <outer-op>
//        outer-op is a sampler that takes a user function (invt rej rej2 metro metro2).  Its function is RE-ENTRANT:
//        at every evaluation it first makes the call inner-op on the generator the outer sampler is working on
//        (same) or on the other one (other), reduces the numbers it returned to z (last | mean | count | none -> 0)
//        and then evaluates the function expression with that z.  After the outer values the number of
//        evaluations of the user function is printed.
struct Rec;
struct Ctx
{
	std::mt19937* g;
	std::mt19937* h;
	Rec* rec;
};
struct Sink
{
	vh::Out* o;	  // nullptr: values are only collected (inner calls)
	std::vector<double> data;
	void f(double x)
	{
		data.push_back(x);
		if(o)
			o->f(x);
	}
	void i(long x)
	{
		data.push_back((double) x);
		if(o)
			o->i(x);
	}
	void count(long x)	 // a length: printed, not a sample
	{
		if(o)
			o->i(x);
	}
};
typedef std::function<void(Ctx&, Sink&)> Op;
struct Nest
{
	bool same;
	std::string red;
	Op inner;
	long calls = 0;
};

// Where the two generators of the case are (raw outputs consumed since the start), followed incrementally.
struct Tracker
{
	std::mt19937 shadow;
	long pos	= 0;
	bool broken = false;
	long where(const std::mt19937& g)
	{
		if(broken)
			return -1;
		for(long c = 0; c <= 400000; c++)
		{
			if(shadow == g)
				return pos;
			shadow();
			pos++;
		}
		broken = true;
		return -1;
	}
};
struct Rec
{
	const std::mt19937 *G = nullptr, *H = nullptr;
	Tracker tg, th;
	long nev = 0;
	std::vector<long> first;   // canonical draws (both generators together) made when the user function was entered
	void note()
	{
		nev++;
		if(first.size() < 6 && G)
		{
			long a = tg.where(*G), b = th.where(*H);
			first.push_back((a >= 0 && b >= 0 && (a + b) % 2 == 0) ? (a + b) / 2 : -1);
		}
	}
};

static double reduce(const std::string& red, const std::vector<double>& d)
{
	if(red == "count")
		return (double) d.size();
	if(d.empty() || red == "none")
		return 0.0;
	if(red == "last")
		return d.back();
	double s = 0.0;	  // mean: left-to-right sum divided by the number of values
	for(double x : d)
		s += x;
	return s / (double) d.size();
}

// the user function of a call: pure (nest == nullptr) or re-entrant
static std::function<double(double, double)> mkfun(std::shared_ptr<vh::FExpr> e, std::shared_ptr<Nest> nest, Ctx& c)
{
	if(!nest)
		return [e](double x, double y) {
			double v[3] = {x, y, 0};
			return vh::eval_fexpr(*e, v);
		};
	Ctx cc = c;
	return [e, nest, cc](double x, double y) {
		if(cc.rec)
			cc.rec->note();
		nest->calls++;
		Ctx ci = cc;
		if(!nest->same)
			std::swap(ci.g, ci.h);
		Sink s {nullptr, {}};
		nest->inner(ci, s);
		double v[3] = {x, y, reduce(nest->red, s.data)};
		return vh::eval_fexpr(*e, v);
	};
}
static std::function<double(double)> mkfun1(std::shared_ptr<vh::FExpr> e, std::shared_ptr<Nest> nest, Ctx& c)
{
	std::function<double(double, double)> f = mkfun(e, nest, c);
	return [f](double x) { return f(x, 0.0); };
}

static Op parse_op(vh::Reader& r, std::shared_ptr<Nest> nest = nullptr)
{
	std::string op = r.word();
	if(op == "onaux")
	{
		Op in = parse_op(r, nest);
		return [=](Ctx& c, Sink& o) {
			Ctx d = c;
			std::swap(d.g, d.h);
			in(d, o);
		};
	}
	if(op == "nest")
	{
		auto n	 = std::make_shared<Nest>();
		n->same	 = (r.word() == "same");
		n->red	 = r.word();
		n->inner = parse_op(r);
		Op outer = parse_op(r, n);
		return [=](Ctx& c, Sink& o) {
			long before = n->calls;
			outer(c, o);
			o.count(n->calls - before);
		};
	}
	if(op == "uniform")
	{
		double a = r.num(), b = r.num();
		return [=](Ctx& c, Sink& o) { o.f(Sample_Uniform(*c.g, a, b)); };
	}
	if(op == "gauss")
	{
		double a = r.num(), b = r.num();
		return [=](Ctx& c, Sink& o) { o.f(Sample_Gauss(*c.g, a, b)); };
	}
	if(op == "poisson")
	{
		double lam = r.num();
		return [=](Ctx& c, Sink& o) { o.i((long) Sample_Poisson(*c.g, lam)); };
	}
	if(op == "poissonv")
	{
		std::vector<double> lams = r.list();
		return [=](Ctx& c, Sink& o) {
			std::vector<unsigned int> v = Sample_Poisson(*c.g, lams);
			o.count((long) v.size());
			for(auto x : v)
				o.i((long) x);
		};
	}
	if(op == "invt")
	{
		double a = r.num(), b = r.num();
		auto e = vh::parse_fexpr(r);
		return [=](Ctx& c, Sink& o) {
			std::function<double(double)> cdf = mkfun1(e, nest, c);
			o.f(Inverse_Transform_Sampling(cdf, a, b, *c.g));
		};
	}
	if(op == "rej")
	{
		double a = r.num(), b = r.num(), ym = r.num();
		auto e = vh::parse_fexpr(r);
		return [=](Ctx& c, Sink& o) {
			std::function<double(double)> pdf = mkfun1(e, nest, c);
			o.f(Rejection_Sampling(pdf, a, b, ym, *c.g));
		};
	}
	if(op == "rej2")
	{
		double a = r.num(), b = r.num(), c0 = r.num(), d = r.num(), zm = r.num();
		auto e = vh::parse_fexpr(r);
		return [=](Ctx& c, Sink& o) {
			std::function<double(double, double)> f = mkfun(e, nest, c);
			auto p									= Rejection_Sampling_2D(*c.g, f, a, b, c0, d, zm);
			o.f(p.first);
			o.f(p.second);
		};
	}
	if(op == "metro")
	{
		double sigma = r.num();
		long sample = r.integer(), thin = r.integer(), burn = r.integer();
		std::vector<double> dom = r.list();
		auto e					= vh::parse_fexpr(r);
		return [=](Ctx& c, Sink& o) {
			std::function<double(double)> pdf = mkfun1(e, nest, c);
			std::vector<double> v			  = Sample_Metropolis(*c.g, pdf, sigma, (unsigned) sample, (unsigned) thin, (unsigned) burn, dom);
			o.count((long) v.size());
			for(double x : v)
				o.f(x);
		};
	}
	if(op == "metro2")
	{
		double s1 = r.num(), s2 = r.num();
		long sample = r.integer(), thin = r.integer(), burn = r.integer();
		std::vector<double> dom = r.list();
		auto e					= vh::parse_fexpr(r);
		return [=](Ctx& c, Sink& o) {
			std::function<double(double, double)> pdf = mkfun(e, nest, c);
			auto v									  = Sample_Metropolis_2D(*c.g, pdf, std::make_pair(s1, s2), (unsigned) sample, (unsigned) thin, (unsigned) burn, dom);
			o.count((long) v.size());
			for(auto& p : v)
			{
				o.f(p.first);
				o.f(p.second);
			}
		};
	}
	fprintf(stderr, "harness: unknown sampler op %s\n", op.c_str());
	_exit(77);
}

struct OpRec
{
	std::string text, gb, hb, vals, ga, ha;	  // the call, generator states before, values printed, states after
};
static std::string ser(const std::mt19937& g)
{
	std::ostringstream os;
	os << g;
	return os.str();
}
// seq / seqn: the K calls, twice from equal generator states (recs: what run 1 saw around every call)
static void run_seq(vh::Reader& r, vh::Out& o, bool two, std::vector<OpRec>* recs)
{
		std::mt19937 g0 = make_gen(r);
		long N			= r.integer();
		for(long k = 0; k < N; k++)
			r.word();	// the uniforms are for the model
		std::mt19937 h0(12345u);
		if(two)
		{
			h0		= std::mt19937((std::mt19937::result_type) std::strtoul(r.word().c_str(), nullptr, 10));
			long N2 = r.integer();
			for(long k = 0; k < N2; k++)
				r.word();
		}
		long K = r.integer();
		std::vector<Op> ops;
		if(recs)
			recs->resize((size_t) K);
		for(long k = 0; k < K; k++)
		{
			size_t i0 = r.i;
			ops.push_back(parse_op(r));
			if(recs)
				for(size_t q = i0; q < r.i; q++)
					(*recs)[(size_t) k].text += (q > i0 ? " " : "") + r.t[q];
		}
		std::mt19937 g1 = g0, g2 = g0, h1 = h0, h2 = h0;
		vh::Out o2;
		Rec rec;
		rec.G		  = &g1;
		rec.H		  = &h1;
		rec.tg.shadow = g0;
		rec.th.shadow = h0;
		Ctx c1 {&g1, &h1, &rec}, c2 {&g2, &h2, nullptr};
		Sink s1 {&o, {}}, s2 {&o2, {}};
		for(auto& f : ops)
		{
			size_t k = (size_t)(&f - &ops[0]);
			size_t p0 = 0;
			if(recs)
			{
				(*recs)[k].gb = ser(g1);
				(*recs)[k].hb = ser(h1);
				p0			  = o.s.str().size();
			}
			f(c1, s1);
			if(recs)
			{
				std::string v = o.s.str().substr(p0);
				if(!v.empty() && v[0] == ' ')
					v.erase(0, 1);
				(*recs)[k].vals = v;
				(*recs)[k].ga	= ser(g1);
				(*recs)[k].ha	= ser(h1);
			}
		}
		for(auto& f : ops)
			f(c2, s2);
		bool same = (o.s.str() == o2.s.str()) && (g1 == g2) && (h1 == h2);
		long d	  = raw_distance(g0, g1);
		o.i(d >= 0 && d % 2 == 0 ? d / 2 : -1);
		if(two)
		{
			long d2 = raw_distance(h0, h1);
			o.i(d2 >= 0 && d2 % 2 == 0 ? d2 / 2 : -1);
		}
		o.i(same ? 1 : 0);
		if(two)
		{
			o.i(rec.nev);
			o.i((long) rec.first.size());
			for(long p : rec.first)
				o.i(p);
		}
		o.i((long) g1());
		if(two)
			o.i((long) h1());
	}

// ---------- pristine-process server (as in harness/C06.cpp) ----------
// Started by main() before any library function has run.  A request "<id> H <seqn case>" is answered by a process forked
// from the server (no library function has been called in it) that runs the case like seqn and replies
// "<id> OK <seqn output> | call_1 | g before | h before | values | g after | h after | call_2 ...";  a request
// "<id> F <g state> | <h state> | <call>" by a pristine process that makes the one call from these generator states and
// replies "<id> OK <values> | <g after> | <h after>".  When the library ends the process the reply is "<id> EXIT"
// (TIMEOUT, CRASH sig=n, SANITIZER n).
static int g_srv = -1;
struct LineReader
{
	std::string buf;
	size_t pos = 0;
	bool line(int fd, std::string& l)
	{
		l.clear();
		for(;;)
		{
			size_t nl = buf.find('\n', pos);
			if(nl != std::string::npos)
			{
				l	= buf.substr(pos, nl - pos);
				pos = nl + 1;
				if(pos > (1u << 20))
				{
					buf.erase(0, pos);
					pos = 0;
				}
				return true;
			}
			char tmp[65536];
			ssize_t n = read(fd, tmp, sizeof tmp);
			if(n == 0)
				return false;
			if(n < 0)
			{
				if(errno == EINTR)
					continue;
				return false;
			}
			buf.append(tmp, (size_t) n);
		}
	}
};
static LineReader g_lr;
static void write_all(int fd, const std::string& s)
{
	size_t k = 0;
	while(k < s.size())
	{
		ssize_t n = write(fd, s.data() + k, s.size() - k);
		if(n <= 0)
		{
			if(n < 0 && errno == EINTR)
				continue;
			return;
		}
		k += (size_t) n;
	}
}
static std::vector<std::string> split_bar(const std::string& s)
{
	std::vector<std::string> v;
	size_t p = 0;
	for(;;)
	{
		size_t q = s.find(" | ", p);
		if(q == std::string::npos)
		{
			v.push_back(s.substr(p));
			return v;
		}
		v.push_back(s.substr(p, q - p));
		p = q + 3;
	}
}
static std::mt19937 deser(const std::string& s)
{
	std::mt19937 g;
	std::istringstream is(s);
	is >> g;
	return g;
}
static void start_server()
{
	int sv[2];
	if(socketpair(AF_UNIX, SOCK_STREAM, 0, sv) != 0)
		return;
	fflush(stdout);
	fflush(stderr);
	pid_t pid = fork();
	if(pid != 0)
	{
		close(sv[1]);
		g_srv = sv[0];
		return;
	}
	close(sv[0]);
	signal(SIGPIPE, SIG_IGN);
	int fd = sv[1];
	std::string l;
	LineReader lr;
	while(lr.line(fd, l))
	{
		size_t sp1 = l.find(' ');
		if(sp1 == std::string::npos || sp1 + 3 > l.size())
			continue;
		std::string id = l.substr(0, sp1);
		char mode	   = l[sp1 + 1];
		std::string payload = l.substr(sp1 + 3);
		pid_t g = fork();
		if(g == 0)
		{
			int nul = open("/dev/null", O_WRONLY);
			dup2(nul, 1);
			dup2(nul, 2);
			alarm(20);
			std::string reply;
			if(mode == 'H')
			{
				vh::Reader r(payload);
				vh::Out o;
				std::vector<OpRec> recs;
				run_seq(r, o, true, &recs);
				reply = o.s.str();
				for(auto& c : recs)
					reply += " | " + c.text + " | " + c.gb + " | " + c.hb + " | " + c.vals + " | " + c.ga + " | " + c.ha;
			}
			else
			{
				std::vector<std::string> p = split_bar(payload);
				if(p.size() != 3)
					_exit(77);
				std::mt19937 gg = deser(p[0]), hh = deser(p[1]);
				vh::Reader r(p[2]);
				Op f = parse_op(r);
				vh::Out o;
				Ctx c {&gg, &hh, nullptr};
				Sink s {&o, {}};
				f(c, s);
				reply = o.s.str() + " | " + ser(gg) + " | " + ser(hh);
			}
			write_all(fd, id + " OK " + reply + "\n");
			_exit(0);
		}
		int st = 0;
		waitpid(g, &st, 0);
		if(WIFEXITED(st) && WEXITSTATUS(st) == 0)
			continue;
		std::string why;
		if(WIFEXITED(st) && (WEXITSTATUS(st) == 99 || WEXITSTATUS(st) == 98))
			why = "SANITIZER " + std::to_string(WEXITSTATUS(st));
		else if(WIFEXITED(st) && WEXITSTATUS(st) == 77)
			why = "HARNESSERR";
		else if(WIFEXITED(st))
			why = "EXIT";
		else if(WIFSIGNALED(st) && WTERMSIG(st) == SIGALRM)
			why = "TIMEOUT";
		else
			why = "CRASH sig=" + std::to_string(WIFSIGNALED(st) ? WTERMSIG(st) : 0);
		write_all(fd, id + " " + why + "\n");
	}
	_exit(0);
}
static std::string ask_server(char mode, const std::string& payload)
{
	static long counter = 0;
	if(g_srv < 0)
		return "HARNESSERR no_server";
	std::string id = std::to_string((long) getpid()) + "." + std::to_string(++counter);
	write_all(g_srv, id + " " + std::string(1, mode) + " " + payload + "\n");
	std::string l;
	while(g_lr.line(g_srv, l))
	{
		// replies to requests of a worker that died meanwhile are skipped
		if(l.compare(0, id.size() + 1, id + " ") == 0)
			return l.substr(id.size() + 1);
	}
	return "HARNESSERR server_gone";
}
static void run_seqh(vh::Reader& r, vh::Out& o)
{
	std::string rest;
	for(size_t q = r.i; q < r.t.size(); q++)
		rest += (q > r.i ? " " : "") + r.t[q];
	std::string hist = ask_server('H', rest);
	if(hist.compare(0, 3, "OK ") != 0)
	{
		o.w(hist);	 // EXIT, TIMEOUT, CRASH sig=n, SANITIZER n
		return;
	}
	std::vector<std::string> p = split_bar(hist.substr(3));
	o.w(p[0]);
	size_t K = (p.size() - 1) / 6;
	o.w("FRESH");
	o.i((long) K);
	std::vector<std::string> diffs;
	for(size_t j = 0; j < K; j++)
	{
		const std::string *text = &p[1 + 6 * j], *gb = text + 1, *hb = text + 2, *vals = text + 3, *ga = text + 4, *ha = text + 5;
		std::string fr = ask_server('F', *gb + " | " + *hb + " | " + *text);
		if(fr.compare(0, 3, "OK ") != 0)
		{
			o.i(2);
			vh::Reader w(fr);
			diffs.push_back("DIFF " + std::to_string(j) + " STATUS " + (w.t.empty() ? std::string("?") : w.t[0]));
			continue;
		}
		std::vector<std::string> q = split_bar(fr.substr(3));
		if(q.size() != 3)
		{
			o.i(2);
			diffs.push_back("DIFF " + std::to_string(j) + " STATUS HARNESSERR");
			continue;
		}
		bool same = (q[0] == *vals && q[1] == *ga && q[2] == *ha);
		o.i(same ? 1 : 0);
		if(!same)
		{
			vh::Reader w(q[0]);
			diffs.push_back("DIFF " + std::to_string(j) + " " + (q[1] == *ga ? "1" : "0") + " " + (q[2] == *ha ? "1" : "0") + " " + std::to_string(w.t.size()) + (w.t.empty() ? "" : " ") + q[0]);
		}
	}
	for(auto& d : diffs)
		o.w(d);
}

// seqw: Sample_Metropolis / Sample_Metropolis_2D with the efficiency warning observed.  The runner has redirected fd 2 to the
// diagnostics file of the case: what the call wrote to std::cerr is read back from it.  Output per call: the values, then 1 if the
// text "Average acceptance probability" was printed, else 0; after the calls: canonical draws, 1, next raw output, "A" and the
// averages printed (decimal text of the library, for the predicates).
static void run_seqw(vh::Reader& r, vh::Out& o)
{
	std::mt19937 g0 = make_gen(r);
	long N			= r.integer();
	for(long k = 0; k < N; k++)
		r.word();
	long K = r.integer();
	std::vector<Op> ops;
	for(long k = 0; k < K; k++)
		ops.push_back(parse_op(r));
	std::mt19937 g1 = g0, h1(12345u);
	Ctx c1 {&g1, &h1, nullptr};
	Sink s1 {&o, {}};
	std::vector<std::string> printed;
	for(auto& f : ops)
	{
		std::cerr.flush();
		fflush(stderr);
		off_t p0 = lseek(2, 0, SEEK_CUR);
		f(c1, s1);
		std::cerr.flush();
		fflush(stderr);
		off_t p1 = lseek(2, 0, SEEK_CUR);
		std::string text;
		if(p0 >= 0 && p1 > p0)
		{
			text.resize((size_t)(p1 - p0));
			ssize_t got = pread(2, &text[0], (size_t)(p1 - p0), p0);
			text.resize(got > 0 ? (size_t) got : 0);
		}
		size_t at = text.find("Average acceptance probability = ");
		o.i(at != std::string::npos ? 1 : 0);
		if(at != std::string::npos)
		{
			std::istringstream is(text.substr(at + 33));
			std::string num;
			is >> num;
			printed.push_back(num);
		}
		else
			printed.push_back("-");
	}
	long d = raw_distance(g0, g1);
	o.i(d >= 0 && d % 2 == 0 ? d / 2 : -1);
	o.i(1);
	o.i((long) g1());
	o.w("A");
	for(auto& t : printed)
		o.w("p" + t);
}

// A mutated sampler that never terminates would cost the full per-case limit on every case: timeouts are counted in
// a side file (the worker is killed, so it records the event in its SIGALRM handler and re-raises), and after the
// third one the limits shrink (ordinary cases take milliseconds).
static std::string g_tofile;
static void on_alarm(int)
{
	int fd = open(g_tofile.c_str(), O_WRONLY | O_CREAT | O_APPEND, 0644);
	if(fd >= 0)
	{
		if(write(fd, "x", 1) != 1) {}
		close(fd);
	}
	signal(SIGALRM, SIG_DFL);
	raise(SIGALRM);
}
static void set_limit(double normal_s, double after_timeouts_s)
{
	struct stat sb;
	long n = (stat(g_tofile.c_str(), &sb) == 0) ? (long) sb.st_size : 0;
	signal(SIGALRM, on_alarm);
	double t = n >= 3 ? after_timeouts_s : normal_s;
	struct itimerval it;
	it.it_interval.tv_sec = 0;
	it.it_interval.tv_usec = 0;
	it.it_value.tv_sec	   = (long) t;
	it.it_value.tv_usec	   = (long) ((t - (long) t) * 1e6);
	setitimer(ITIMER_REAL, &it, nullptr);	// replaces the alarm() set by the runner; alarm(0) after the case cancels it
}

static void handler(vh::Reader& r, vh::Out& o)
{
	std::string kind = r.word();
	if(kind == "law" || kind == "lawh")
		set_limit(30.0, 3.0);
	else if(kind == "seqh")
		set_limit(60.0, 30.0);
	else
		set_limit(4.0, 0.5);
	if(kind == "seq" || kind == "seqn")
		run_seq(r, o, kind == "seqn", nullptr);
	else if(kind == "seqh")
		run_seqh(r, o);
	else if(kind == "seqw")
		run_seqw(r, o);
	else if(kind == "seqg")
	{
		r.integer();   // number of canonical draws the model may make (its fuel)
		run_seq(r, o, false, nullptr);
	}
	else if(kind == "mgrid")
	{
		unsigned long seed = std::strtoul(r.word().c_str(), nullptr, 10);
		long sample = r.integer(), thin = r.integer(), burn = r.integer(), dim = r.integer(), bounded = r.integer();
		std::mt19937 g0((std::mt19937::result_type) seed), g1 = g0, g2 = g0;
		long count = 0, inside = 1, same = 1;
		if(dim == 1)
		{
			std::function<double(double)> pdf = [](double x) { return std::exp(-0.5 * x * x); };
			std::vector<double> dom;
			if(bounded)
				dom = {-1.0, 2.0};
			auto a = Sample_Metropolis(g1, pdf, 1.0, (unsigned) sample, (unsigned) thin, (unsigned) burn, dom);
			auto b = Sample_Metropolis(g2, pdf, 1.0, (unsigned) sample, (unsigned) thin, (unsigned) burn, dom);
			count  = a.size();
			for(double x : a)
				if(bounded && !(x >= -1.0 && x <= 2.0))
					inside = 0;
			same = (a == b);
		}
		else
		{
			std::function<double(double, double)> pdf = [](double x, double y) { return std::exp(-0.5 * (x * x + y * y)); };
			std::vector<double> dom;
			if(bounded)
				dom = {-1.0, 2.0, -2.0, 1.0};
			auto a = Sample_Metropolis_2D(g1, pdf, std::make_pair(1.0, 0.5), (unsigned) sample, (unsigned) thin, (unsigned) burn, dom);
			auto b = Sample_Metropolis_2D(g2, pdf, std::make_pair(1.0, 0.5), (unsigned) sample, (unsigned) thin, (unsigned) burn, dom);
			count  = a.size();
			for(auto& p : a)
				if(bounded && !(p.first >= -1.0 && p.first <= 2.0 && p.second >= -2.0 && p.second <= 1.0))
					inside = 0;
			same = (a == b);
		}
		long d = raw_distance(g0, g1);
		o.i(count);
		o.i(d >= 0 && d % 2 == 0 ? d / 2 : -1);
		o.i(inside);
		o.i((same && g1 == g2) ? 1 : 0);
	}
	else if(kind == "law" || kind == "lawh")
	{
		if(kind == "lawh")
		{
			// a history of other calls in the same process (own generator, prescribed state) before the sampled series
			std::mt19937 hg = make_gen(r), hh(12345u);
			long K			= r.integer();
			std::vector<Op> ops;
			for(long k = 0; k < K; k++)
				ops.push_back(parse_op(r));
			Ctx hc {&hg, &hh, nullptr};
			Sink hs {nullptr, {}};
			for(auto& f : ops)
				f(hc, hs);
			r.word();	// "law"
		}
		std::string s = r.word();
		r.word();	// target name: for the predicates
		unsigned long seed = std::strtoul(r.word().c_str(), nullptr, 10);
		long n			   = r.integer();
		std::mt19937 g((std::mt19937::result_type) seed);
		if(s == "uniform")
		{
			double a = r.num(), b = r.num();
			o.i(n);
			for(long k = 0; k < n; k++)
				o.f(Sample_Uniform(g, a, b));
		}
		else if(s == "gauss")
		{
			double a = r.num(), b = r.num();
			o.i(n);
			for(long k = 0; k < n; k++)
				o.f(Sample_Gauss(g, a, b));
		}
		else if(s == "poisson")
		{
			double lam = r.num();
			o.i(n);
			for(long k = 0; k < n; k++)
				o.i((long) Sample_Poisson(g, lam));
		}
		else if(s == "poissonv")
		{
			double lam = r.num();
			std::vector<double> lams(n, lam);
			auto v = Sample_Poisson(g, lams);
			o.i((long) v.size());
			for(auto x : v)
				o.i((long) x);
		}
		else if(s == "invt")
		{
			double a = r.num(), b = r.num();
			std::function<double(double)> cdf = vh::fun1(vh::parse_fexpr(r));
			o.i(n);
			for(long k = 0; k < n; k++)
				o.f(Inverse_Transform_Sampling(cdf, a, b, g));
		}
		else if(s == "rej")
		{
			double a = r.num(), b = r.num(), ym = r.num();
			std::function<double(double)> pdf = vh::fun1(vh::parse_fexpr(r));
			o.i(n);
			for(long k = 0; k < n; k++)
				o.f(Rejection_Sampling(pdf, a, b, ym, g));
		}
		else if(s == "rej2")
		{
			double a = r.num(), b = r.num(), c = r.num(), d = r.num(), zm = r.num();
			std::function<double(double, double)> pdf = fun2(vh::parse_fexpr(r));
			o.i(n);
			for(long k = 0; k < n; k++)
			{
				auto p = Rejection_Sampling_2D(g, pdf, a, b, c, d, zm);
				o.f(p.first);
				o.f(p.second);
			}
		}
		else if(s == "metro")
		{
			double sigma = r.num();
			long thin = r.integer(), burn = r.integer();
			std::vector<double> dom			  = r.list();
			std::function<double(double)> pdf = vh::fun1(vh::parse_fexpr(r));
			o.fl(Sample_Metropolis(g, pdf, sigma, (unsigned) n, (unsigned) thin, (unsigned) burn, dom));
		}
		else if(s == "metro2")
		{
			double s1 = r.num(), s2 = r.num();
			long thin = r.integer(), burn = r.integer();
			std::vector<double> dom					  = r.list();
			std::function<double(double, double)> pdf = fun2(vh::parse_fexpr(r));
			auto v									  = Sample_Metropolis_2D(g, pdf, std::make_pair(s1, s2), (unsigned) n, (unsigned) thin, (unsigned) burn, dom);
			o.i((long) v.size());
			for(auto& p : v)
			{
				o.f(p.first);
				o.f(p.second);
			}
		}
		else
			o.w("HARNESSERR unknown_law");
	}
	else
		o.w("HARNESSERR unknown_op");
}
int main(int argc, char** argv)
{
	if(argc >= 3)
	{
		g_tofile = std::string(argv[2]) + ".to";
		unlink(g_tofile.c_str());
	}
	start_server();	  // before any library function runs
	int rc = vh::run(argc, argv, handler, 120);
	if(g_srv >= 0)
		close(g_srv);
	unlink(g_tofile.c_str());
	return rc;
}
