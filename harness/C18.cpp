// C18 harness: runs libphysica's samplers on an std::mt19937 in a state fixed by the case line
// (see checks/C18.py for the case grammar).
//   seq   <seed> <nstate> w_1..w_nstate <N> u_1..u_N <K> op_1 .. op_K
//         the K sampler calls share one generator; the sequence is run twice from equal generator states.
//         Output: the values returned by the calls, then  <uniforms consumed> <det> <next raw output>
//         where det = 1 iff both runs printed identical values and left equal generator states behind.
//   mgrid <seed> <sample> <thinning> <burn_in> <dim> <bounded>
//         Output: <number of samples> <uniforms consumed> <all samples inside the domain> <det>
//   law   <kind> <target> <seed> <n> ...   (many samples in one line, for the distributional tests)
#include "common.hpp"
#include "libphysica/Statistics.hpp"
#include <random>
#include <sstream>
#include <sys/time.h>
using namespace libphysica;
typedef std::function<void(std::mt19937&, vh::Out&)> Op;

static std::function<double(double, double)> fun2(std::shared_ptr<vh::FExpr> e)
{
	return [e](double x, double y) {
		double v[3] = {x, y, 0};
		return vh::eval_fexpr(*e, v);
	};
}

// generator in the state described by the case: std::mt19937(seed); with nstate > 0 the first nstate state
// words are replaced and the read position is set to 0, so that the next outputs are the tempered words.
static std::mt19937 make_gen(vh::Reader& r)
{
	unsigned long seed = std::strtoul(r.word().c_str(), nullptr, 10);
	long ns			   = r.integer();
	std::mt19937 g((std::mt19937::result_type) seed);
	if(ns > 0)
	{
		std::ostringstream os;
		os << g;
		std::istringstream is(os.str());
		std::vector<std::string> w;
		std::string t;
		while(is >> t)
			w.push_back(t);	  // 624 state words, then the position
		for(long k = 0; k < ns; k++)
			w[k] = r.word();
		w[624] = "0";
		std::string s;
		for(auto& x : w)
			s += x + " ";
		std::istringstream is2(s);
		is2 >> g;
	}
	return g;
}

// number of raw 32-bit outputs that take generator `from` to the state of `to` (-1: not within the cap)
static long raw_distance(std::mt19937 from, const std::mt19937& to, long cap = 40000000)
{
	for(long c = 0; c <= cap; c++)
	{
		if(from == to)
			return c;
		from();
	}
	return -1;
}

static Op parse_op(vh::Reader& r)
{
	std::string op = r.word();
	if(op == "uniform")
	{
		double a = r.num(), b = r.num();
		return [=](std::mt19937& g, vh::Out& o) { o.f(Sample_Uniform(g, a, b)); };
	}
	if(op == "gauss")
	{
		double a = r.num(), b = r.num();
		return [=](std::mt19937& g, vh::Out& o) { o.f(Sample_Gauss(g, a, b)); };
	}
	if(op == "poisson")
	{
		double lam = r.num();
		return [=](std::mt19937& g, vh::Out& o) { o.i((long) Sample_Poisson(g, lam)); };
	}
	if(op == "poissonv")
	{
		std::vector<double> lams = r.list();
		return [=](std::mt19937& g, vh::Out& o) {
			std::vector<unsigned int> v = Sample_Poisson(g, lams);
			o.i((long) v.size());
			for(auto x : v)
				o.i((long) x);
		};
	}
	if(op == "invt")
	{
		double a = r.num(), b = r.num();
		std::function<double(double)> cdf = vh::fun1(vh::parse_fexpr(r));
		return [=](std::mt19937& g, vh::Out& o) { o.f(Inverse_Transform_Sampling(cdf, a, b, g)); };
	}
	if(op == "rej")
	{
		double a = r.num(), b = r.num(), ym = r.num();
		std::function<double(double)> pdf = vh::fun1(vh::parse_fexpr(r));
		return [=](std::mt19937& g, vh::Out& o) { o.f(Rejection_Sampling(pdf, a, b, ym, g)); };
	}
	if(op == "rej2")
	{
		double a = r.num(), b = r.num(), c = r.num(), d = r.num(), zm = r.num();
		std::function<double(double, double)> pdf = fun2(vh::parse_fexpr(r));
		return [=](std::mt19937& g, vh::Out& o) {
			std::function<double(double, double)> f = pdf;
			auto p									= Rejection_Sampling_2D(g, f, a, b, c, d, zm);
			o.f(p.first);
			o.f(p.second);
		};
	}
	if(op == "metro")
	{
		double sigma = r.num();
		long sample = r.integer(), thin = r.integer(), burn = r.integer();
		std::vector<double> dom			  = r.list();
		std::function<double(double)> pdf = vh::fun1(vh::parse_fexpr(r));
		return [=](std::mt19937& g, vh::Out& o) { o.fl(Sample_Metropolis(g, pdf, sigma, (unsigned) sample, (unsigned) thin, (unsigned) burn, dom)); };
	}
	if(op == "metro2")
	{
		double s1 = r.num(), s2 = r.num();
		long sample = r.integer(), thin = r.integer(), burn = r.integer();
		std::vector<double> dom					  = r.list();
		std::function<double(double, double)> pdf = fun2(vh::parse_fexpr(r));
		return [=](std::mt19937& g, vh::Out& o) {
			auto v = Sample_Metropolis_2D(g, pdf, std::make_pair(s1, s2), (unsigned) sample, (unsigned) thin, (unsigned) burn, dom);
			o.i((long) v.size());
			for(auto& p : v)
			{
				o.f(p.first);
				o.f(p.second);
			}
		};
	}
	fprintf(stderr, "harness: unknown sampler op %s\n", op.c_str());
	_exit(77);
}

// A mutated sampler that never terminates would cost the full per-case limit on every case: timeouts are counted in
// a side file (the worker is killed, so it records the event in its SIGALRM handler and re-raises), and after the
// third one the limits shrink (ordinary cases take milliseconds).
static std::string g_tofile;
static void on_alarm(int)
{
	int fd = open(g_tofile.c_str(), O_WRONLY | O_CREAT | O_APPEND, 0644);
	if(fd >= 0)
	{
		if(write(fd, "x", 1) != 1) {}
		close(fd);
	}
	signal(SIGALRM, SIG_DFL);
	raise(SIGALRM);
}
static void set_limit(double normal_s, double after_timeouts_s)
{
	struct stat sb;
	long n = (stat(g_tofile.c_str(), &sb) == 0) ? (long) sb.st_size : 0;
	signal(SIGALRM, on_alarm);
	double t = n >= 3 ? after_timeouts_s : normal_s;
	struct itimerval it;
	it.it_interval.tv_sec = 0;
	it.it_interval.tv_usec = 0;
	it.it_value.tv_sec	   = (long) t;
	it.it_value.tv_usec	   = (long) ((t - (long) t) * 1e6);
	setitimer(ITIMER_REAL, &it, nullptr);	// replaces the alarm() set by the runner; alarm(0) after the case cancels it
}

static void handler(vh::Reader& r, vh::Out& o)
{
	std::string kind = r.word();
	if(kind == "law")
		set_limit(30.0, 3.0);
	else
		set_limit(4.0, 0.5);
	if(kind == "seq")
	{
		std::mt19937 g0 = make_gen(r);
		long N			= r.integer();
		for(long k = 0; k < N; k++)
			r.word();	// the uniforms are for the model
		long K = r.integer();
		std::vector<Op> ops;
		for(long k = 0; k < K; k++)
			ops.push_back(parse_op(r));
		std::mt19937 g1 = g0, g2 = g0;
		vh::Out o2;
		for(auto& f : ops)
			f(g1, o);
		for(auto& f : ops)
			f(g2, o2);
		bool same = (o.s.str() == o2.s.str()) && (g1 == g2);
		long d	  = raw_distance(g0, g1);
		o.i(d >= 0 && d % 2 == 0 ? d / 2 : -1);
		o.i(same ? 1 : 0);
		o.i((long) g1());
	}
	else if(kind == "mgrid")
	{
		unsigned long seed = std::strtoul(r.word().c_str(), nullptr, 10);
		long sample = r.integer(), thin = r.integer(), burn = r.integer(), dim = r.integer(), bounded = r.integer();
		std::mt19937 g0((std::mt19937::result_type) seed), g1 = g0, g2 = g0;
		long count = 0, inside = 1, same = 1;
		if(dim == 1)
		{
			std::function<double(double)> pdf = [](double x) { return std::exp(-0.5 * x * x); };
			std::vector<double> dom;
			if(bounded)
				dom = {-1.0, 2.0};
			auto a = Sample_Metropolis(g1, pdf, 1.0, (unsigned) sample, (unsigned) thin, (unsigned) burn, dom);
			auto b = Sample_Metropolis(g2, pdf, 1.0, (unsigned) sample, (unsigned) thin, (unsigned) burn, dom);
			count  = a.size();
			for(double x : a)
				if(bounded && !(x >= -1.0 && x <= 2.0))
					inside = 0;
			same = (a == b);
		}
		else
		{
			std::function<double(double, double)> pdf = [](double x, double y) { return std::exp(-0.5 * (x * x + y * y)); };
			std::vector<double> dom;
			if(bounded)
				dom = {-1.0, 2.0, -2.0, 1.0};
			auto a = Sample_Metropolis_2D(g1, pdf, std::make_pair(1.0, 0.5), (unsigned) sample, (unsigned) thin, (unsigned) burn, dom);
			auto b = Sample_Metropolis_2D(g2, pdf, std::make_pair(1.0, 0.5), (unsigned) sample, (unsigned) thin, (unsigned) burn, dom);
			count  = a.size();
			for(auto& p : a)
				if(bounded && !(p.first >= -1.0 && p.first <= 2.0 && p.second >= -2.0 && p.second <= 1.0))
					inside = 0;
			same = (a == b);
		}
		long d = raw_distance(g0, g1);
		o.i(count);
		o.i(d >= 0 && d % 2 == 0 ? d / 2 : -1);
		o.i(inside);
		o.i((same && g1 == g2) ? 1 : 0);
	}
	else if(kind == "law")
	{
		std::string s = r.word();
		r.word();	// target name: for the predicates
		unsigned long seed = std::strtoul(r.word().c_str(), nullptr, 10);
		long n			   = r.integer();
		std::mt19937 g((std::mt19937::result_type) seed);
		if(s == "uniform")
		{
			double a = r.num(), b = r.num();
			o.i(n);
			for(long k = 0; k < n; k++)
				o.f(Sample_Uniform(g, a, b));
		}
		else if(s == "gauss")
		{
			double a = r.num(), b = r.num();
			o.i(n);
			for(long k = 0; k < n; k++)
				o.f(Sample_Gauss(g, a, b));
		}
		else if(s == "poisson")
		{
			double lam = r.num();
			o.i(n);
			for(long k = 0; k < n; k++)
				o.i((long) Sample_Poisson(g, lam));
		}
		else if(s == "poissonv")
		{
			double lam = r.num();
			std::vector<double> lams(n, lam);
			auto v = Sample_Poisson(g, lams);
			o.i((long) v.size());
			for(auto x : v)
				o.i((long) x);
		}
		else if(s == "invt")
		{
			double a = r.num(), b = r.num();
			std::function<double(double)> cdf = vh::fun1(vh::parse_fexpr(r));
			o.i(n);
			for(long k = 0; k < n; k++)
				o.f(Inverse_Transform_Sampling(cdf, a, b, g));
		}
		else if(s == "rej")
		{
			double a = r.num(), b = r.num(), ym = r.num();
			std::function<double(double)> pdf = vh::fun1(vh::parse_fexpr(r));
			o.i(n);
			for(long k = 0; k < n; k++)
				o.f(Rejection_Sampling(pdf, a, b, ym, g));
		}
		else if(s == "rej2")
		{
			double a = r.num(), b = r.num(), c = r.num(), d = r.num(), zm = r.num();
			std::function<double(double, double)> pdf = fun2(vh::parse_fexpr(r));
			o.i(n);
			for(long k = 0; k < n; k++)
			{
				auto p = Rejection_Sampling_2D(g, pdf, a, b, c, d, zm);
				o.f(p.first);
				o.f(p.second);
			}
		}
		else if(s == "metro")
		{
			double sigma = r.num();
			long thin = r.integer(), burn = r.integer();
			std::vector<double> dom			  = r.list();
			std::function<double(double)> pdf = vh::fun1(vh::parse_fexpr(r));
			o.fl(Sample_Metropolis(g, pdf, sigma, (unsigned) n, (unsigned) thin, (unsigned) burn, dom));
		}
		else if(s == "metro2")
		{
			double s1 = r.num(), s2 = r.num();
			long thin = r.integer(), burn = r.integer();
			std::vector<double> dom					  = r.list();
			std::function<double(double, double)> pdf = fun2(vh::parse_fexpr(r));
			auto v									  = Sample_Metropolis_2D(g, pdf, std::make_pair(s1, s2), (unsigned) n, (unsigned) thin, (unsigned) burn, dom);
			o.i((long) v.size());
			for(auto& p : v)
			{
				o.f(p.first);
				o.f(p.second);
			}
		}
		else
			o.w("HARNESSERR unknown_law");
	}
	else
		o.w("HARNESSERR unknown_op");
}
int main(int argc, char** argv)
{
	if(argc >= 3)
	{
		g_tofile = std::string(argv[2]) + ".to";
		unlink(g_tofile.c_str());
	}
	int rc = vh::run(argc, argv, handler, 120);
	unlink(g_tofile.c_str());
	return rc;
}
