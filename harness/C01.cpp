// C01 harness: libphysica's Interpolation / Interpolation_2D on the case file (grammar: checks/C01.py).
// One line = one table + a list of queries; every query runs on a copy of the freshly constructed object
// (the model's locate is the search of a fresh object; history independence is property C09), except in the
// history modes h1 / h2 where all queries go to one live object; t3 drives the data-table constructor of Interpolation_2D.
#include "common.hpp"
#include "libphysica/Numerics.hpp"
using namespace libphysica;
static std::vector<double> scaled(double dim, std::vector<double> v)
{
	if(dim > 0.0)
		for(auto& x : v)
			x *= dim;
	return v;
}
// fresh = true : every call on a copy of the untouched object (case types t1, tr)
// fresh = false: every call on ONE live object, so the cached index / search-method switch of Locate sees the whole
//                sequence of queries (case type h1); the model is always the fresh-object semantics.
static void queries1(vh::Reader& r, vh::Out& o, const Interpolation& base_in, const std::vector<double>& xs, bool fresh = true)
{
	Interpolation live = base_in;
	struct Pick
	{
		const Interpolation& b;
		Interpolation& l;
		bool fresh;
		operator Interpolation&()
		{
			if(fresh)
				l = b;
			return l;
		}
	};
	Pick base{base_in, live, fresh};
	long nq = r.integer();
	for(long q = 0; q < nq; q++)
	{
		std::string op = r.word();
		if(op == "I")
		{
			double x		= r.num();
			Interpolation& f = base;
			o.f(f.Interpolate(x));
		}
		else if(op == "D")
		{
			long k			= r.integer();
			double x		= r.num();
			Interpolation& f = base;
			o.f(f.Derivative(x, (unsigned int) k));
		}
		else if(op == "L")
		{
			double x		= r.num();
			Interpolation& f = base;
			o.i(f.Locate(x));
		}
		else if(op == "G")
		{
			long j = r.integer(), m = r.integer();
			double x0 = xs[j], x1 = xs[j + 1];
			for(long k = 0; k <= m; k++)
			{
				double x		= (k == m) ? x1 : x0 + (x1 - x0) * double(k) / double(m);
				Interpolation& f = base;
				o.f(f(x));
			}
		}
		else if(op == "K")
		{
			double x	  = r.num();
			double pts[3] = {std::nextafter(x, -INFINITY), x, std::nextafter(x, INFINITY)};
			for(double p : pts)
			{
				Interpolation& f = base;
				o.f(f.Interpolate(p));
			}
			for(double p : pts)
			{
				Interpolation& f = base;
				o.f(f.Derivative(p, 1));
			}
		}
		else if(op == "F")
		{
			double x = r.num(), d = r.num();
			double pts[3] = {x - d, x, x + d};
			for(unsigned int k = 0; k <= 2; k++)
				for(double p : pts)
				{
					Interpolation& f = base;
					o.f(f.Derivative(p, k));
				}
			Interpolation& f3 = base;
			o.f(f3.Derivative(x, 3));
			Interpolation& f4 = base;
			o.f(f4.Derivative(x, 4));
		}
		else
		{
			o.w("HARNESSERR unknown_query");
			return;
		}
	}
}
static void handler(vh::Reader& r, vh::Out& o)
{
	std::string op = r.word();
	if(op == "t1" || op == "h1")
	{
		double xd = r.num(), fd = r.num();
		std::vector<double> xs = r.list(), ys = r.list();
		Interpolation base(xs, ys, xd, fd);
		queries1(r, o, base, scaled(xd, xs), op == "t1");
	}
	else if(op == "tr")
	{
		double xd = r.num(), fd = r.num();
		std::vector<std::vector<double>> rows = r.table();
		Interpolation base(rows, xd, fd);
		std::vector<double> xs;
		for(auto& row : rows)
			xs.push_back(row.empty() ? 0.0 : row[0]);
		queries1(r, o, base, scaled(xd, xs));
	}
	else if(op == "t3")
	{
		double xd = r.num(), yd = r.num(), fd = r.num();
		std::vector<std::vector<double>> rows = r.table();
		Interpolation_2D base(rows, xd, yd, fd);
		long nq = r.integer();
		for(long q = 0; q < nq; q++)
		{
			std::string qo = r.word();
			if(qo != "I")
			{
				o.w("HARNESSERR unknown_query");
				return;
			}
			double x = r.num(), y = r.num();
			Interpolation_2D g = base;
			o.f(g.Interpolate(x, y));
		}
	}
	else if(op == "t2" || op == "h2")
	{
		const bool fresh = (op == "t2");
		double xd = r.num(), yd = r.num(), fd = r.num();
		std::vector<double> xs = r.list(), ys = r.list();
		std::vector<std::vector<double>> f = r.table();
		Interpolation_2D base(xs, ys, f, xd, yd, fd);
		std::vector<double> xa = scaled(xd, xs), ya = scaled(yd, ys);
		long nq = r.integer();
		for(long q = 0; q < nq; q++)
		{
			std::string qo = r.word();
			if(qo == "I")
			{
				double x = r.num(), y = r.num();
				if(fresh)
				{
					Interpolation_2D g = base;
					o.f(g.Interpolate(x, y));
				}
				else
					o.f(base.Interpolate(x, y));
			}
			else if(qo == "C")
			{
				long i = r.integer(), j = r.integer(), m = r.integer();
				double x0 = xa[i], x1 = xa[i + 1], y0 = ya[j], y1 = ya[j + 1];
				for(long a = 0; a <= m; a++)
				{
					double x = (a == m) ? x1 : x0 + (x1 - x0) * double(a) / double(m);
					for(long b = 0; b <= m; b++)
					{
						double y		   = (b == m) ? y1 : y0 + (y1 - y0) * double(b) / double(m);
						if(fresh)
						{
							Interpolation_2D g = base;
							o.f(g(x, y));
						}
						else
							o.f(base(x, y));
					}
				}
			}
			else
			{
				o.w("HARNESSERR unknown_query");
				return;
			}
		}
	}
	else
		o.w("HARNESSERR unknown_op");
}
int main(int argc, char** argv) { return vh::run(argc, argv, handler); }
