// C01 harness: libphysica's Interpolation / Interpolation_2D on the case file (grammar: checks/C01.py).
// One line = one table + a list of queries; every query runs on a copy of the freshly constructed object
// (the model's locate is the search of a fresh object; history independence is property C09), except in the
// history modes h1 / h2 where all queries go to one live object; t3 drives the data-table constructor of Interpolation_2D;
// d1 / d2 drive the default constructors.
#include "common.hpp"
#include "libphysica/Numerics.hpp"
using namespace libphysica;
static std::vector<double> scaled(double dim, std::vector<double> v)
{
	if(dim > 0.0)
		for(auto& x : v)
			x *= dim;
	return v;
}
// One request target.  src != nullptr: every call is made on a copy of the untouched object *src (case types t1, tr);
// src == nullptr: every call goes to the live object, so the cached index / search-method switch of Locate and anything else
// that outlives a call sees the whole sequence of requests (case types h1, s1).  log: the primitive calls are recorded so that
// a session can replay them on fresh objects afterwards.
struct Call
{
	int tab;
	char kind;
	unsigned int k;
	double x, y;
};
struct Target
{
	Interpolation* live;
	const Interpolation* src;
	std::vector<Call>* log;
	int tab;
	Interpolation& obj()
	{
		if(src)
			*live = *src;
		return *live;
	}
	void rec(char kind, unsigned int k, double x)
	{
		if(log)
			log->push_back({tab, kind, k, x, 0.0});
	}
	double I(double x)
	{
		rec('I', 0, x);
		return obj().Interpolate(x);
	}
	double P(double x)	 // operator()
	{
		rec('P', 0, x);
		Interpolation& f = obj();
		return f(x);
	}
	double D(double x, unsigned int k)
	{
		rec('D', k, x);
		return obj().Derivative(x, k);
	}
	long L(double x)
	{
		rec('L', 0, x);
		return obj().Locate(x);
	}
};
static bool queries1(vh::Reader& r, vh::Out& o, Target base, const std::vector<double>& xs)
{
	long nq = r.integer();
	for(long q = 0; q < nq; q++)
	{
		std::string op = r.word();
		if(op == "I")
			o.f(base.I(r.num()));
		else if(op == "D")
		{
			long k	 = r.integer();
			double x = r.num();
			o.f(base.D(x, (unsigned int) k));
		}
		else if(op == "L")
			o.i(base.L(r.num()));
		else if(op == "G")
		{
			long j = r.integer(), m = r.integer();
			double x0 = xs[j], x1 = xs[j + 1];
			for(long k = 0; k <= m; k++)
			{
				double x = (k == m) ? x1 : x0 + (x1 - x0) * double(k) / double(m);
				o.f(base.P(x));
			}
		}
		else if(op == "K")
		{
			double x	  = r.num();
			double pts[3] = {std::nextafter(x, -INFINITY), x, std::nextafter(x, INFINITY)};
			for(double p : pts)
				o.f(base.I(p));
			for(double p : pts)
				o.f(base.D(p, 1));
		}
		else if(op == "F")
		{
			double x = r.num(), d = r.num();
			double pts[3] = {x - d, x, x + d};
			for(unsigned int k = 0; k <= 2; k++)
				for(double p : pts)
					o.f(base.D(p, k));
			o.f(base.D(x, 3));
			o.f(base.D(x, 4));
		}
		else if(op == "V")	 // the derivatives first, then the returned curve on a 5-point stencil
		{
			double x = r.num(), d = r.num();
			for(unsigned int k = 1; k <= 3; k++)
				o.f(base.D(x, k));
			double pts[5] = {x - 2.0 * d, x - d, x, x + d, x + 2.0 * d};
			for(double p : pts)
				o.f(base.I(p));
		}
		else
		{
			o.w("HARNESSERR unknown_query");
			return false;
		}
	}
	return true;
}
static void queries1(vh::Reader& r, vh::Out& o, const Interpolation& base_in, const std::vector<double>& xs, bool fresh = true)
{
	Interpolation live = base_in;
	queries1(r, o, Target{&live, fresh ? &base_in : nullptr, nullptr, 0}, xs);
}
struct Target2
{
	Interpolation_2D* live;
	const Interpolation_2D* src;
	std::vector<Call>* log;
	int tab;
	Interpolation_2D& obj()
	{
		if(src)
			*live = *src;
		return *live;
	}
	double I(double x, double y)
	{
		if(log)
			log->push_back({tab, 'I', 0, x, y});
		return obj().Interpolate(x, y);
	}
	double P(double x, double y)
	{
		if(log)
			log->push_back({tab, 'P', 0, x, y});
		Interpolation_2D& g = obj();
		return g(x, y);
	}
};
static bool queries2(vh::Reader& r, vh::Out& o, Target2 base, const std::vector<double>& xa, const std::vector<double>& ya)
{
	long nq = r.integer();
	for(long q = 0; q < nq; q++)
	{
		std::string qo = r.word();
		if(qo == "I")
		{
			double x = r.num(), y = r.num();
			o.f(base.I(x, y));
		}
		else if(qo == "C")
		{
			long i = r.integer(), j = r.integer(), m = r.integer();
			double x0 = xa[i], x1 = xa[i + 1], y0 = ya[j], y1 = ya[j + 1];
			for(long a = 0; a <= m; a++)
			{
				double x = (a == m) ? x1 : x0 + (x1 - x0) * double(a) / double(m);
				for(long b = 0; b <= m; b++)
				{
					double y = (b == m) ? y1 : y0 + (y1 - y0) * double(b) / double(m);
					o.f(base.P(x, y));
				}
			}
		}
		else
		{
			o.w("HARNESSERR unknown_query");
			return false;
		}
	}
	return true;
}
// ---- sessions (case types s1, s2): NS slots; a slot is raw storage in which objects are constructed, assigned to, destroyed and
// constructed again (same address), or a heap object that is deleted and allocated again.  A segment of the case either puts a new
// table into a slot (A, by one of the modes below), copy-assigns another slot's object (C) or resumes a slot (R), and then sends a
// list of requests to the live object of that slot.  Modes of A:
//   a  slot = Class(args)            (assignment from a temporary to the live object; construction if the slot is empty)
//   p  destroy the slot's object, construct the new one in the same storage (placement new)
//   h  delete the slot's heap object, allocate the new one (the allocator hands the block out again)
//   s  a local variable of a function called once per segment (same stack address every time) answers the segment's requests;
//      the slot receives a copy afterwards
// After the last segment every recorded primitive call is repeated on a copy of a freshly constructed object of its table
// (second half of the output): the answers must not depend on what the storage or other objects were used for before.
template <class C>
struct Slots
{
	static const int NS = 4;
	alignas(C) unsigned char buf[NS][sizeof(C)];
	C* ptr[NS]	  = {nullptr, nullptr, nullptr, nullptr};
	bool heap[NS] = {false, false, false, false};
	int tab[NS]	  = {-1, -1, -1, -1};
	void release(int k)
	{
		if(!ptr[k])
			return;
		if(heap[k])
			delete ptr[k];
		else
			ptr[k]->~C();
		ptr[k] = nullptr;
	}
	template <class Make>
	void put(int k, char mode, Make make)
	{
		if(mode == 'a' && ptr[k])
			*ptr[k] = make();
		else if(mode == 'h')
		{
			release(k);
			ptr[k]	= new C(make());
			heap[k] = true;
		}
		else
		{
			release(k);
			ptr[k]	= new(buf[k]) C(make());
			heap[k] = false;
		}
	}
	void copy(int dst, int src)
	{
		if(ptr[dst])
			*ptr[dst] = *ptr[src];
		else
		{
			ptr[dst]  = new(buf[dst]) C(*ptr[src]);
			heap[dst] = false;
		}
		tab[dst] = tab[src];
	}
	~Slots()
	{
		for(int k = 0; k < NS; k++)
			release(k);
	}
};
struct Tab1
{
	double xd, fd;
	std::vector<double> xs, ys, sx;
	Interpolation make() const { return Interpolation(xs, ys, xd, fd); }
};
static bool __attribute__((noinline)) scope_segment1(vh::Reader& r, vh::Out& o, const Tab1& t, std::vector<Call>* log, int tab, Interpolation* keep)
{
	Interpolation F(t.xs, t.ys, t.xd, t.fd);
	bool ok = queries1(r, o, Target{&F, nullptr, log, tab}, t.sx);
	*keep	= F;
	return ok;
}
static void session1(vh::Reader& r, vh::Out& o)
{
	Slots<Interpolation> S;
	std::vector<Tab1> tabs;
	std::vector<Call> log;
	long nseg = r.integer();
	for(long g = 0; g < nseg; g++)
	{
		std::string kind = r.word();
		int k;
		if(kind == "A")
		{
			char mode = r.word()[0];
			k		  = (int) r.integer();
			Tab1 t;
			t.xd = r.num(), t.fd = r.num();
			t.xs = r.list(), t.ys = r.list();
			t.sx = scaled(t.xd, t.xs);
			tabs.push_back(t);
			S.tab[k] = (int) tabs.size() - 1;
			if(mode == 's')
			{
				if(!S.ptr[k])
					S.put(k, 'p', [&] { return t.make(); });
				if(!scope_segment1(r, o, tabs.back(), &log, S.tab[k], S.ptr[k]))
					return;
				continue;
			}
			S.put(k, mode, [&] { return t.make(); });
		}
		else if(kind == "C")
		{
			k		= (int) r.integer();
			int src = (int) r.integer();
			S.copy(k, src);
		}
		else
			k = (int) r.integer();
		if(!queries1(r, o, Target{S.ptr[k], nullptr, &log, S.tab[k]}, tabs[S.tab[k]].sx))
			return;
	}
	// replay on fresh objects
	std::vector<std::unique_ptr<Interpolation>> base(tabs.size());
	for(const Call& c : log)
	{
		if(!base[c.tab])
			base[c.tab].reset(new Interpolation(tabs[c.tab].make()));
		Interpolation f = *base[c.tab];
		if(c.kind == 'I')
			o.f(f.Interpolate(c.x));
		else if(c.kind == 'P')
			o.f(f(c.x));
		else if(c.kind == 'D')
			o.f(f.Derivative(c.x, c.k));
		else
			o.i(f.Locate(c.x));
	}
}
struct Tab2
{
	double xd, yd, fd;
	std::vector<double> xs, ys, sx, sy;
	std::vector<std::vector<double>> f;
	Interpolation_2D make() const { return Interpolation_2D(xs, ys, f, xd, yd, fd); }
};
static bool __attribute__((noinline)) scope_segment2(vh::Reader& r, vh::Out& o, const Tab2& t, std::vector<Call>* log, int tab, Interpolation_2D* keep)
{
	Interpolation_2D F(t.xs, t.ys, t.f, t.xd, t.yd, t.fd);
	bool ok = queries2(r, o, Target2{&F, nullptr, log, tab}, t.sx, t.sy);
	*keep	= F;
	return ok;
}
static void session2(vh::Reader& r, vh::Out& o)
{
	Slots<Interpolation_2D> S;
	std::vector<Tab2> tabs;
	std::vector<Call> log;
	long nseg = r.integer();
	for(long g = 0; g < nseg; g++)
	{
		std::string kind = r.word();
		int k;
		if(kind == "A")
		{
			char mode = r.word()[0];
			k		  = (int) r.integer();
			Tab2 t;
			t.xd = r.num(), t.yd = r.num(), t.fd = r.num();
			t.xs = r.list(), t.ys = r.list();
			t.f	 = r.table();
			t.sx = scaled(t.xd, t.xs), t.sy = scaled(t.yd, t.ys);
			tabs.push_back(t);
			S.tab[k] = (int) tabs.size() - 1;
			if(mode == 's')
			{
				if(!S.ptr[k])
					S.put(k, 'p', [&] { return t.make(); });
				if(!scope_segment2(r, o, tabs.back(), &log, S.tab[k], S.ptr[k]))
					return;
				continue;
			}
			S.put(k, mode, [&] { return t.make(); });
		}
		else if(kind == "C")
		{
			k		= (int) r.integer();
			int src = (int) r.integer();
			S.copy(k, src);
		}
		else
			k = (int) r.integer();
		if(!queries2(r, o, Target2{S.ptr[k], nullptr, &log, S.tab[k]}, tabs[S.tab[k]].sx, tabs[S.tab[k]].sy))
			return;
	}
	std::vector<std::unique_ptr<Interpolation_2D>> base(tabs.size());
	for(const Call& c : log)
	{
		if(!base[c.tab])
			base[c.tab].reset(new Interpolation_2D(tabs[c.tab].make()));
		Interpolation_2D g = *base[c.tab];
		o.f(c.kind == 'I' ? g.Interpolate(c.x, c.y) : g(c.x, c.y));
	}
}
static void handler(vh::Reader& r, vh::Out& o)
{
	std::string op = r.word();
	if(op == "t1" || op == "h1")
	{
		double xd = r.num(), fd = r.num();
		std::vector<double> xs = r.list(), ys = r.list();
		Interpolation base(xs, ys, xd, fd);
		queries1(r, o, base, scaled(xd, xs), op == "t1");
	}
	else if(op == "tr")
	{
		double xd = r.num(), fd = r.num();
		std::vector<std::vector<double>> rows = r.table();
		Interpolation base(rows, xd, fd);
		std::vector<double> xs;
		for(auto& row : rows)
			xs.push_back(row.empty() ? 0.0 : row[0]);
		queries1(r, o, base, scaled(xd, xs));
	}
	else if(op == "t3")
	{
		double xd = r.num(), yd = r.num(), fd = r.num();
		std::vector<std::vector<double>> rows = r.table();
		Interpolation_2D base(rows, xd, yd, fd);
		long nq = r.integer();
		for(long q = 0; q < nq; q++)
		{
			std::string qo = r.word();
			if(qo != "I")
			{
				o.w("HARNESSERR unknown_query");
				return;
			}
			double x = r.num(), y = r.num();
			Interpolation_2D g = base;
			o.f(g.Interpolate(x, y));
		}
	}
	else if(op == "t2" || op == "h2")
	{
		const bool fresh = (op == "t2");
		double xd = r.num(), yd = r.num(), fd = r.num();
		std::vector<double> xs = r.list(), ys = r.list();
		std::vector<std::vector<double>> f = r.table();
		Interpolation_2D base(xs, ys, f, xd, yd, fd);
		std::vector<double> xa = scaled(xd, xs), ya = scaled(yd, ys);
		Interpolation_2D live = base;
		queries2(r, o, Target2{&live, fresh ? &base : nullptr, nullptr, 0}, xa, ya);
	}
	else if(op == "d1")	  // the default-constructed object Interpolation()
	{
		Interpolation base;
		queries1(r, o, base, std::vector<double> {-1.0, 0.0, 1.0});
	}
	else if(op == "d2")	  // the default-constructed object Interpolation_2D()
	{
		Interpolation_2D base;
		std::vector<double> ax = {-1.0, 0.0, 1.0};
		Interpolation_2D live = base;
		queries2(r, o, Target2 {&live, &base, nullptr, 0}, ax, ax);
	}
	else if(op == "s1")
		session1(r, o);
	else if(op == "s2")
		session2(r, o);
	else
		o.w("HARNESSERR unknown_op");
}
int main(int argc, char** argv) { return vh::run(argc, argv, handler); }
