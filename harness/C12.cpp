// C12 harness: Gauss-Legendre rules and the three Integrate_Gauss_Legendre overloads (case grammar: checks/C12.py)
#include "common.hpp"
#include "libphysica/Integration.hpp"
using namespace libphysica;
// ---- nested integrations and sessions (grammar: checks/C12.py)
//   lev  := kind n a b        kind: I = (func,a,b,n), F = (func,rule) on a rule computed here, U = (values,rule) with the values
//                                    collected here, D = (func,a,b) with the default order (n is ignored)
//                             a kind followed by 'c' (Ic, Fc, Uc, Dc) takes one more number fb: the call of this level is made under
//                             try { .. } catch(const Abandon&) { value = fb; } inside the integrand of the level above
//   core := P fexpr | G k n a b fexpr | T cond fexpr
//                                    the innermost integrand in v0..v(d-1); G multiplies by the value overload called with k unit
//                                    values on the rule (n,a,b): a call of the library made by the integrand (rejected when k != n);
//                                    T throws Abandon where cond < 0 (the integrand is not defined there)
struct Abandon   // thrown by the innermost integrand to abandon everything that is running
{
};
struct Level
{
	char kind;
	unsigned int n;
	double a, b;
	bool catches = false;
	double fb	 = 0.0;
};
struct Core
{
	char kind = 'P';
	std::shared_ptr<vh::FExpr> e, cond;
	long kvals		= 0;
	unsigned int gn = 0;
	double ga = 0, gb = 0;
};
static long g_count = 0, g_abandon_at = 0;
static std::vector<Level> read_levels(vh::Reader& r, long d)
{
	std::vector<Level> L;
	for(long j = 0; j < d; j++)
	{
		Level l;
		std::string w = r.word();
		l.kind		  = w[0];
		l.n			  = (unsigned int) r.integer();
		l.a			  = r.num();
		l.b			  = r.num();
		if(w.size() > 1 && w[1] == 'c')
		{
			l.catches = true;
			l.fb	  = r.num();
		}
		L.push_back(l);
	}
	return L;
}
static Core read_core(vh::Reader& r)
{
	Core c;
	c.kind = r.word()[0];
	if(c.kind == 'G')
	{
		c.kvals = r.integer();
		c.gn	= (unsigned int) r.integer();
		c.ga	= r.num();
		c.gb	= r.num();
	}
	if(c.kind == 'T')
		c.cond = vh::parse_fexpr(r);
	c.e = vh::parse_fexpr(r);
	return c;
}
static double eval_core(const Core& c, const std::vector<double>& xs)
{
	g_count++;
	if(g_abandon_at > 0 && g_count >= g_abandon_at)
		throw Abandon();
	double v[16] = {0};
	for(size_t k = 0; k < xs.size() && k < 16; k++)
		v[k] = xs[k];
	if(c.kind == 'T' && vh::eval_fexpr(*c.cond, v) < 0.0)
		throw Abandon();
	double e = vh::eval_fexpr(*c.e, v);
	if(c.kind == 'G')
		e = e * Integrate_Gauss_Legendre(std::vector<double>((size_t) c.kvals, 1.0), Compute_Gauss_Legendre_Roots_and_Weights(c.gn, c.ga, c.gb));
	return e;
}
static double nest_call(const std::vector<Level>& L, size_t j, const Core& c, std::vector<double> xs);
static double nest_level(const std::vector<Level>& L, size_t j, const Core& c, std::vector<double> xs)
{
	if(j == L.size())
		return eval_core(c, xs);
	if(!L[j].catches)
		return nest_call(L, j, c, xs);
	double v;
	try
	{
		v = nest_call(L, j, c, xs);
	}
	catch(const Abandon&)
	{
		v = L[j].fb;
	}
	return v;
}
static double nest_call(const std::vector<Level>& L, size_t j, const Core& c, std::vector<double> xs)
{
	std::function<double(double)> f = [&L, j, &c, xs](double x) {
		std::vector<double> ys = xs;
		ys.push_back(x);
		return nest_level(L, j + 1, c, ys);
	};
	const Level& l = L[j];
	if(l.kind == 'I')
		return Integrate_Gauss_Legendre(f, l.a, l.b, l.n);
	if(l.kind == 'D')
		return Integrate_Gauss_Legendre(f, l.a, l.b);
	auto rw = Compute_Gauss_Legendre_Roots_and_Weights(l.n, l.a, l.b);
	if(l.kind == 'F')
		return Integrate_Gauss_Legendre(f, rw);
	std::vector<double> vals;
	for(auto& row : rw)
		vals.push_back(f(row[0]));
	return Integrate_Gauss_Legendre(vals, rw);
}
static void put_rule(vh::Out& o, const std::vector<std::vector<double>>& rw)
{
	o.i((long) rw.size());
	for(auto& r : rw)
		o.f(r[0]);
	for(auto& r : rw)
		o.f(r[1]);
}
static void handler(vh::Reader& r, vh::Out& o)
{
	std::string op = r.word();
	if(op == "rule")
	{
		long n	 = r.integer();
		double a = r.num(), b = r.num();
		put_rule(o, Compute_Gauss_Legendre_Roots_and_Weights((unsigned int) n, a, b));
	}
	else if(op == "pair")
	{
		long n	 = r.integer();
		double a = r.num(), b = r.num();
		put_rule(o, Compute_Gauss_Legendre_Roots_and_Weights((unsigned int) n, a, b));
		put_rule(o, Compute_Gauss_Legendre_Roots_and_Weights((unsigned int) n, b, a));
	}
	else if(op == "rule_default")
	{
		long n = r.integer();
		put_rule(o, Compute_Gauss_Legendre_Roots_and_Weights((unsigned int) n));
	}
	else if(op == "int")
	{
		long n	 = r.integer();
		double a = r.num(), b = r.num();
		auto f	 = vh::fun1(vh::parse_fexpr(r));
		double v1 = Integrate_Gauss_Legendre(f, a, b, (unsigned int) n);
		auto rw	  = Compute_Gauss_Legendre_Roots_and_Weights((unsigned int) n, a, b);
		double v2 = Integrate_Gauss_Legendre(f, rw);
		std::vector<double> vals;
		for(auto& row : rw)
			vals.push_back(f(row[0]));
		double v3 = Integrate_Gauss_Legendre(vals, rw);
		o.f(v1);
		o.f(v2);
		o.f(v3);
	}
	else if(op == "int_default")
	{
		double a = r.num(), b = r.num();
		auto f	 = vh::fun1(vh::parse_fexpr(r));
		o.f(Integrate_Gauss_Legendre(f, a, b));
	}
	else if(op == "values")
	{
		long n	 = r.integer();
		double a = r.num(), b = r.num();
		std::vector<double> vals = r.list();
		auto rw = Compute_Gauss_Legendre_Roots_and_Weights((unsigned int) n, a, b);
		o.f(Integrate_Gauss_Legendre(vals, rw));
	}
	else if(op == "values_rows")
	{
		std::vector<double> vals = r.list();
		auto rows				 = r.table();
		o.f(Integrate_Gauss_Legendre(vals, rows));
	}
	else if(op == "fun_rows")
	{
		auto rows = r.table();
		auto f	  = vh::fun1(vh::parse_fexpr(r));
		o.f(Integrate_Gauss_Legendre(f, rows));
	}
	else if(op == "nest")
	{
		// the same nested integration with the outermost level asked through each of the three overloads
		long d	= r.integer();
		auto L	= read_levels(r, d);
		Core c	= read_core(r);
		g_count = g_abandon_at = 0;
		for(char k : {'I', 'F', 'U'})
		{
			L[0].kind = k;
			o.f(nest_level(L, 0, c, {}));
		}
	}
	else if(op == "nestx")
	{
		// a nested integration whose integrands may throw and handle: the outermost level through each of the three overloads,
		// then every level through (values, rule) with the values collected here (no library frame is ever re-entered)
		long d = r.integer();
		auto L = read_levels(r, d);
		Core c = read_core(r);
		for(int variant = 0; variant < 4; variant++)
		{
			std::vector<Level> M = L;
			if(variant < 3)
				M[0].kind = "IFU"[variant];
			else
				for(auto& l : M)
				{
					if(l.kind == 'D')
						l.n = 30;
					l.kind = 'U';
				}
			g_count = g_abandon_at = 0;
			try
			{
				double v = nest_level(M, 0, c, {});
				o.f(v);
			}
			catch(const Abandon&)
			{
				o.w("A");
				o.i(g_count);
			}
		}
	}
	else if(op == "sess")
	{
		// several requests in one process, in this order
		long k = r.integer();
		for(long q = 0; q < k; q++)
		{
			std::string c = r.word();
			if(c == "R")
			{
				long n	 = r.integer();
				double a = r.num(), b = r.num();
				put_rule(o, Compute_Gauss_Legendre_Roots_and_Weights((unsigned int) n, a, b));
			}
			else if(c == "V")
			{
				long n	 = r.integer();
				double a = r.num(), b = r.num();
				std::vector<double> vals = r.list();
				auto rw = Compute_Gauss_Legendre_Roots_and_Weights((unsigned int) n, a, b);
				o.f(Integrate_Gauss_Legendre(vals, rw));
			}
			else if(c == "N" || c == "X")
			{
				long at = c == "X" ? r.integer() : 0;
				long d	= r.integer();
				auto L	= read_levels(r, d);
				Core co = read_core(r);
				g_count		 = 0;
				g_abandon_at = at;
				try
				{
					double v = nest_level(L, 0, co, {});
					o.f(v);
				}
				catch(const Abandon&)
				{
					o.w("A");
					o.i(g_count);
				}
				g_abandon_at = 0;
			}
			else
			{
				o.w("HARNESSERR unknown_request");
				return;
			}
		}
	}
	else
		o.w("HARNESSERR unknown_op");
}
int main(int argc, char** argv) { return vh::run(argc, argv, handler); }
