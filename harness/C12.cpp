// C12 harness: Gauss-Legendre rules and the three Integrate_Gauss_Legendre overloads (case grammar: checks/C12.py)
#include "common.hpp"
#include "libphysica/Integration.hpp"
using namespace libphysica;
static void put_rule(vh::Out& o, const std::vector<std::vector<double>>& rw)
{
	o.i((long) rw.size());
	for(auto& r : rw)
		o.f(r[0]);
	for(auto& r : rw)
		o.f(r[1]);
}
static void handler(vh::Reader& r, vh::Out& o)
{
	std::string op = r.word();
	if(op == "rule")
	{
		long n	 = r.integer();
		double a = r.num(), b = r.num();
		put_rule(o, Compute_Gauss_Legendre_Roots_and_Weights((unsigned int) n, a, b));
	}
	else if(op == "pair")
	{
		long n	 = r.integer();
		double a = r.num(), b = r.num();
		put_rule(o, Compute_Gauss_Legendre_Roots_and_Weights((unsigned int) n, a, b));
		put_rule(o, Compute_Gauss_Legendre_Roots_and_Weights((unsigned int) n, b, a));
	}
	else if(op == "rule_default")
	{
		long n = r.integer();
		put_rule(o, Compute_Gauss_Legendre_Roots_and_Weights((unsigned int) n));
	}
	else if(op == "int")
	{
		long n	 = r.integer();
		double a = r.num(), b = r.num();
		auto f	 = vh::fun1(vh::parse_fexpr(r));
		double v1 = Integrate_Gauss_Legendre(f, a, b, (unsigned int) n);
		auto rw	  = Compute_Gauss_Legendre_Roots_and_Weights((unsigned int) n, a, b);
		double v2 = Integrate_Gauss_Legendre(f, rw);
		std::vector<double> vals;
		for(auto& row : rw)
			vals.push_back(f(row[0]));
		double v3 = Integrate_Gauss_Legendre(vals, rw);
		o.f(v1);
		o.f(v2);
		o.f(v3);
	}
	else if(op == "int_default")
	{
		double a = r.num(), b = r.num();
		auto f	 = vh::fun1(vh::parse_fexpr(r));
		o.f(Integrate_Gauss_Legendre(f, a, b));
	}
	else if(op == "values")
	{
		long n	 = r.integer();
		double a = r.num(), b = r.num();
		std::vector<double> vals = r.list();
		auto rw = Compute_Gauss_Legendre_Roots_and_Weights((unsigned int) n, a, b);
		o.f(Integrate_Gauss_Legendre(vals, rw));
	}
	else if(op == "values_rows")
	{
		std::vector<double> vals = r.list();
		auto rows				 = r.table();
		o.f(Integrate_Gauss_Legendre(vals, rows));
	}
	else if(op == "fun_rows")
	{
		auto rows = r.table();
		auto f	  = vh::fun1(vh::parse_fexpr(r));
		o.f(Integrate_Gauss_Legendre(f, rows));
	}
	else
		o.w("HARNESSERR unknown_op");
}
int main(int argc, char** argv) { return vh::run(argc, argv, handler); }
