// C09 harness: runs a history of calls on one libphysica::Interpolation / Interpolation_2D object and, for
// every query, also asks a freshly constructed object (same table, prefactor set to the product of the
// Set_Prefactor / Multiply calls so far) and, for Interpolate / Derivative, a fresh object with prefactor 1.
// Case grammar and output tokens: see checks/C09.py.
#include "common.hpp"
#include "libphysica/Numerics.hpp"
#include <memory>
using namespace libphysica;

static void one_d(vh::Reader& r, vh::Out& o)
{
	std::vector<double> xs = r.list(), ys = r.list();
	long nops = r.integer();
	std::unique_ptr<Interpolation> cur(new Interpolation(xs, ys));
	std::vector<std::pair<std::unique_ptr<Interpolation>, double>> stack;
	double pf = 1.0;   // the prefactor the calls so far should have left behind
	auto fresh = [&]() {
		Interpolation f(xs, ys);
		f.Set_Prefactor(pf);
		return f;
	};
	for(long k = 0; k < nops; k++)
	{
		std::string w = r.word();
		if(w == "L")
		{
			double x	   = r.num();
			unsigned int j = cur->Locate(x);
			Interpolation f = fresh();
			o.i(j);
			o.i(f.Locate(x));
		}
		else if(w == "I")
		{
			double x = r.num();
			double v = cur->Interpolate(x);
			Interpolation f = fresh();
			Interpolation b(xs, ys);
			o.f(v);
			o.f(f.Interpolate(x));
			o.f(b.Interpolate(x));
		}
		else if(w == "D")
		{
			double x = r.num();
			long d	 = r.integer();
			double v = cur->Derivative(x, (unsigned int) d);
			Interpolation f = fresh();
			Interpolation b(xs, ys);
			o.f(v);
			o.f(f.Derivative(x, (unsigned int) d));
			o.f(b.Derivative(x, (unsigned int) d));
		}
		else if(w == "G" || w == "m" || w == "M")
		{
			double a = r.num(), b = r.num();
			Interpolation f = fresh();
			if(w == "G")
			{
				o.f(cur->Integrate(a, b));
				o.f(f.Integrate(a, b));
			}
			else if(w == "m")
			{
				o.f(cur->Local_Minimum(a, b));
				o.f(f.Local_Minimum(a, b));
			}
			else
			{
				o.f(cur->Local_Maximum(a, b));
				o.f(f.Local_Maximum(a, b));
			}
		}
		else if(w == "gm" || w == "gM")
		{
			Interpolation f = fresh();
			o.f(w == "gm" ? cur->Global_Minimum() : cur->Global_Maximum());
			o.f(w == "gm" ? f.Global_Minimum() : f.Global_Maximum());
		}
		else if(w == "P")
		{
			double f = r.num();
			cur->Set_Prefactor(f);
			pf = f;
			o.f(pf);
		}
		else if(w == "U")
		{
			double f = r.num();
			cur->Multiply(f);
			pf *= f;
			o.f(pf);
		}
		else if(w == "C")   // continue on a copy-constructed object, keep the original
		{
			std::unique_ptr<Interpolation> cp(new Interpolation(*cur));
			stack.emplace_back(std::move(cur), pf);
			cur = std::move(cp);
		}
		else if(w == "A")   // continue on a default-constructed object that was assigned to
		{
			std::unique_ptr<Interpolation> cp(new Interpolation());
			*cp = *cur;
			stack.emplace_back(std::move(cur), pf);
			cur = std::move(cp);
		}
		else if(w == "R")   // return to the object the last copy was taken from
		{
			if(!stack.empty())
			{
				cur = std::move(stack.back().first);
				pf	= stack.back().second;
				stack.pop_back();
			}
		}
		else
		{
			o.w("HARNESSERR unknown_op");
			return;
		}
	}
}

static void two_d(vh::Reader& r, vh::Out& o)
{
	std::vector<double> xs = r.list(), ys = r.list();
	std::vector<std::vector<double>> f(xs.size(), std::vector<double>(ys.size()));
	for(auto& row : f)
		for(auto& v : row)
			v = r.num();
	long nops = r.integer();
	std::unique_ptr<Interpolation_2D> cur(new Interpolation_2D(xs, ys, f));
	std::vector<std::pair<std::unique_ptr<Interpolation_2D>, double>> stack;
	double pf = 1.0;
	auto fresh = [&]() {
		Interpolation_2D g(xs, ys, f);
		g.Set_Prefactor(pf);
		return g;
	};
	for(long k = 0; k < nops; k++)
	{
		std::string w = r.word();
		if(w == "I")
		{
			double x = r.num(), y = r.num();
			double v = cur->Interpolate(x, y);
			Interpolation_2D g = fresh();
			o.f(v);
			o.f(g.Interpolate(x, y));
		}
		else if(w == "gm" || w == "gM")
		{
			Interpolation_2D g = fresh();
			o.f(w == "gm" ? cur->Global_Minimum() : cur->Global_Maximum());
			o.f(w == "gm" ? g.Global_Minimum() : g.Global_Maximum());
		}
		else if(w == "P")
		{
			double c = r.num();
			cur->Set_Prefactor(c);
			pf = c;
			o.f(pf);
		}
		else if(w == "U")
		{
			double c = r.num();
			cur->Multiply(c);
			pf *= c;
			o.f(pf);
		}
		else if(w == "C")
		{
			std::unique_ptr<Interpolation_2D> cp(new Interpolation_2D(*cur));
			stack.emplace_back(std::move(cur), pf);
			cur = std::move(cp);
		}
		else if(w == "A")
		{
			std::unique_ptr<Interpolation_2D> cp(new Interpolation_2D());
			*cp = *cur;
			stack.emplace_back(std::move(cur), pf);
			cur = std::move(cp);
		}
		else if(w == "R")
		{
			if(!stack.empty())
			{
				cur = std::move(stack.back().first);
				pf	= stack.back().second;
				stack.pop_back();
			}
		}
		else
		{
			o.w("HARNESSERR unknown_op");
			return;
		}
	}
}

static void handler(vh::Reader& r, vh::Out& o)
{
	std::string op = r.word();
	if(op == "h1")
		one_d(r, o);
	else if(op == "h2")
		two_d(r, o);
	else
		o.w("HARNESSERR unknown_case");
}
int main(int argc, char** argv) { return vh::run(argc, argv, handler); }
